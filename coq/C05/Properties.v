(* C05/Properties.v — property theorems only (each closed by [exact lemma], followed by Print Assumptions).
   [walk_stack fx p a os mem module_at max_module_addr cfi_walk instr_valid fuel r v] is the model of
   minidump_unwind::walk_stack (C05/Model.v): fx = which repairs are in the code ([current_code] = /repo now),
   p = build profile, a = architecture, os, mem = the thread's stack memory, then the three oracles
   (module lookup, symbol-file CFI/WIN walk, instruction_seems_valid_by_symbols), the loop fuel, and the
   context registers r with validity v.  All of these are universally quantified below; the only
   assumptions are: the stack bytes are bytes ([mem_wf]), the context's registers fit their slots
   ([regs_wf]) and the CFI oracle only returns register values that fit (they went through
   C::Register::try_from in CfiStackWalker). *)
From Coq Require Import Lia ZArith List.
From RM Require Import C05.Model C05.ModelTail C05.Proofs C05.ProofsTail C05.Driver C05.ProofsModules C05.ProofsCfi C05.ProofsFunction C05.ProofsValid.
From RM Require C06.Model C08.Model C09.Grammar C11.Model C11.Proofs2.
Import ListNotations.
Open Scope Z_scope.

(* every instance of the parametric walker meets the side conditions of the generic theorems *)
Theorem c05_arch_ok_x86 : arch_ok x86. Proof. exact arch_ok_x86. Qed.
Print Assumptions c05_arch_ok_x86.
Theorem c05_arch_ok_amd64 : arch_ok amd64. Proof. exact arch_ok_amd64. Qed.
Print Assumptions c05_arch_ok_amd64.
Theorem c05_arch_ok_arm : arch_ok arm. Proof. exact arch_ok_arm. Qed.
Print Assumptions c05_arch_ok_arm.
Theorem c05_arch_ok_arm64 : arch_ok arm64. Proof. exact arch_ok_arm64. Qed.   (* arm64_old.rs = arm64.rs, checked by the translator *)
Print Assumptions c05_arch_ok_arm64.
Theorem c05_arch_ok_mips32 : arch_ok mips32. Proof. exact arch_ok_mips32. Qed.
Print Assumptions c05_arch_ok_mips32.
Theorem c05_arch_ok_mips64 : arch_ok mips64. Proof. exact arch_ok_mips64. Qed.
Print Assumptions c05_arch_ok_mips64.

(* the numbers of the property text, as they currently stand in the sources (Gen/UnwindConsts.v):
   nullish cut-off 4096 everywhere; call adjustment 1/1/2/4/8/8; sp may repeat (leaf) on ARM, ARM64, MIPS only *)
Theorem c05_constants :
  map a_cutoff [x86; amd64; arm; arm64; mips32; mips64] = [4096; 4096; 4096; 4096; 4096; 4096] /\
  map a_adj [x86; amd64; arm; arm64; mips32; mips64] = [1; 1; 2; 4; 8; 8] /\
  map a_leaf [x86; amd64; arm; arm64; mips32; mips64] = [false; false; true; true; true; true] /\
  map a_pw [x86; amd64; arm; arm64; mips32; mips64] = [4; 8; 4; 8; 4; 8].
Proof. repeat split; reflexivity. Qed.
Print Assumptions c05_constants.

(* frame 0 is the context: instruction = resume address = the context's ip, trust = context *)
Theorem c05_first_frame :
  forall p a os mem module_at max_module_addr cfi_walk instr_valid fx fuel r v fs,
    walk_stack fx p a os mem module_at max_module_addr cfi_walk instr_valid fuel r v = Ret fs ->
    exists rest, fs = {| f_instr := r_ip r; f_resume := r_ip r; f_trust := TContext; f_regs := r; f_valid := v |} :: rest.
Proof. exact first_frame. Qed.
Print Assumptions c05_first_frame.

(* every later frame: resume >= 4096 (a_cutoff), instruction = resume - adj, trust in {cfi, frame_pointer, scan};
   sp strictly increases (may repeat only between the first two frames, on leaf architectures);
   a scan frame's return address is the word just below its sp, inside the stack memory *)
Theorem c05_wellformed :
  forall p a os mem module_at max_module_addr cfi_walk instr_valid,
    arch_ok a -> mem_wf mem ->
    (forall callee gc fwd r v, cfi_walk callee gc fwd = Some (r, v) -> regs_wf a r) ->
    forall fuel r v fs, regs_wf a r ->
      walk_stack current_code p a os mem module_at max_module_addr cfi_walk instr_valid fuel r v = Ret fs ->
      exists rest, fs = from_context r v TContext :: rest /\
        Forall (later_frame_ok a) rest /\
        sp_chain a (from_context r v TContext) rest /\
        Forall (scan_word_ok a mem) rest.
Proof. intros p a os mem ma mm cw iv Ha Hm Hc fuel r v fs Hr H. exact (stack_wellformed p a os mem ma mm cw iv current_code eq_refl Ha Hm Hc fuel r v fs Hr H). Qed.
Print Assumptions c05_wellformed.

Theorem c05_frame_shape :
  forall p a os mem module_at max_module_addr cfi_walk instr_valid,
    arch_ok a -> mem_wf mem ->
    (forall callee gc fwd r v, cfi_walk callee gc fwd = Some (r, v) -> regs_wf a r) ->
    forall fuel r v f0 rest, regs_wf a r ->
      walk_stack current_code p a os mem module_at max_module_addr cfi_walk instr_valid fuel r v = Ret (f0 :: rest) ->
      Forall (fun f => a_cutoff a <= f_resume f /\ f_instr f = f_resume f - a_adj a /\ f_resume f = r_ip (f_regs f) /\
                       (f_trust f = TCfi \/ f_trust f = TFramePointer \/ f_trust f = TScan)) rest.
Proof.
  intros p a os mem ma mm cw iv Ha Hm Hc fuel r v f0 rest Hr H.
  destruct (stack_wellformed p a os mem ma mm cw iv current_code eq_refl Ha Hm Hc fuel r v _ Hr H) as [rest' [E [H1 _]]].
  inversion E; subst. exact H1.
Qed.
Print Assumptions c05_frame_shape.

Theorem c05_sp_monotone :
  forall p a os mem module_at max_module_addr cfi_walk instr_valid,
    arch_ok a -> mem_wf mem ->
    (forall callee gc fwd r v, cfi_walk callee gc fwd = Some (r, v) -> regs_wf a r) ->
    forall fuel r v f0 rest, regs_wf a r ->
      walk_stack current_code p a os mem module_at max_module_addr cfi_walk instr_valid fuel r v = Ret (f0 :: rest) ->
      sp_chain a f0 rest.
Proof.
  intros p a os mem ma mm cw iv Ha Hm Hc fuel r v f0 rest Hr H.
  destruct (stack_wellformed p a os mem ma mm cw iv current_code eq_refl Ha Hm Hc fuel r v _ Hr H) as [rest' [E [_ [H2 _]]]].
  inversion E; subst. exact H2.
Qed.
Print Assumptions c05_sp_monotone.

Theorem c05_scan_word :
  forall p a os mem module_at max_module_addr cfi_walk instr_valid,
    arch_ok a -> mem_wf mem ->
    (forall callee gc fwd r v, cfi_walk callee gc fwd = Some (r, v) -> regs_wf a r) ->
    forall fuel r v f0 rest, regs_wf a r ->
      walk_stack current_code p a os mem module_at max_module_addr cfi_walk instr_valid fuel r v = Ret (f0 :: rest) ->
      Forall (fun f => f_trust f = TScan -> read mem (a_pw a) (r_sp (f_regs f) - a_pw a) = Some (f_resume f)) rest.
Proof.
  intros p a os mem ma mm cw iv Ha Hm Hc fuel r v f0 rest Hr H.
  destruct (stack_wellformed p a os mem ma mm cw iv current_code eq_refl Ha Hm Hc fuel r v _ Hr H) as [rest' [E [_ [_ H3]]]].
  inversion E; subst. exact H3.
Qed.
Print Assumptions c05_scan_word.

(* no overflow trap, unwrap or index panic of the modelled walker is reachable, in either build profile *)
Theorem c05_no_panic :
  forall p a os mem module_at max_module_addr cfi_walk instr_valid,
    arch_ok a -> mem_wf mem ->
    (forall callee gc fwd r v, cfi_walk callee gc fwd = Some (r, v) -> regs_wf a r) ->
    forall fuel r v, regs_wf a r ->
      (exists fs, walk_stack current_code p a os mem module_at max_module_addr cfi_walk instr_valid fuel r v = Ret fs) \/
      walk_stack current_code p a os mem module_at max_module_addr cfi_walk instr_valid fuel r v = OutOfFuel.
Proof. intros p a os mem ma mm cw iv Ha Hm Hc fuel r v Hr. exact (stack_no_panic p a os mem ma mm cw iv current_code eq_refl Ha Hm Hc fuel r v Hr). Qed.
Print Assumptions c05_no_panic.

(* C03: no thread is walked for more frames than its stack memory has bytes, plus two; fuel |stack| + 3 suffices *)
Theorem c03_frame_bound :
  forall p a os mem module_at max_module_addr cfi_walk instr_valid,
    arch_ok a -> mem_wf mem ->
    (forall callee gc fwd r v, cfi_walk callee gc fwd = Some (r, v) -> regs_wf a r) ->
    forall r v, regs_wf a r ->
      exists fs, walk_stack current_code p a os mem module_at max_module_addr cfi_walk instr_valid (fuel_for mem) r v = Ret fs /\
                 (length fs <= length (m_bytes mem) + 2)%nat.
Proof. intros p a os mem ma mm cw iv Ha Hm Hc r v Hr. exact (frame_bound p a os mem ma mm cw iv current_code eq_refl Ha Hm Hc eq_refl r v Hr). Qed.
Print Assumptions c03_frame_bound.

(* ---- per-architecture instances *)
Theorem c05_wellformed_x86 : walker_facts x86. Proof. exact (walker_facts_of_ok x86 arch_ok_x86). Qed.
Print Assumptions c05_wellformed_x86.
Theorem c05_wellformed_amd64 : walker_facts amd64. Proof. exact (walker_facts_of_ok amd64 arch_ok_amd64). Qed.
Print Assumptions c05_wellformed_amd64.
Theorem c05_wellformed_arm : walker_facts arm. Proof. exact (walker_facts_of_ok arm arch_ok_arm). Qed.
Print Assumptions c05_wellformed_arm.
Theorem c05_wellformed_arm64 : walker_facts arm64. Proof. exact (walker_facts_of_ok arm64 arch_ok_arm64). Qed.
Print Assumptions c05_wellformed_arm64.
Theorem c05_wellformed_mips32 : walker_facts mips32. Proof. exact (walker_facts_of_ok mips32 arch_ok_mips32). Qed.
Print Assumptions c05_wellformed_mips32.
Theorem c05_wellformed_mips64 : walker_facts mips64. Proof. exact (walker_facts_of_ok mips64 arch_ok_mips64). Qed.
Print Assumptions c05_wellformed_mips64.

(* a frame's module, when present, covers its lookup address: the lookup the walker uses
   (MinidumpModuleList::from_modules + module_at_address = C08's range map, here [d_module_at]) only returns
   a module whose own [base, base + size) contains the address (from c08_lookup_sound) *)
Theorem c05_module_covers :
  forall (mods : list modspec) (f : frame) i,
    Forall (fun m => 0 <= fst (fst m) /\ 0 <= snd (fst m)) mods ->
    frame_module mods f = Some i ->
    exists b s y, nth_error mods (Z.to_nat i) = Some (b, s, y) /\ b <= f_instr f < b + s.
Proof. intros mods f i H E. exact (module_at_covers mods (f_instr f) i H E). Qed.
Print Assumptions c05_module_covers.

(* arm64 ptr_auth_strip (mask = next power of two of max(2^47 - 1, highest module end), minus one):
   it never changes an address below the highest module end (nor below 2^47 - 1), never produces a larger or
   negative value, and is idempotent.  [max_module_addr] is the end of the highest-ADDRESSED module (the
   driver takes it from C08's table, as by_addr().next_back() does). *)
Theorem c05_ptr_auth_strip_sound :
  forall max_module_addr x,
    (0 <= x < Z.max (2 ^ 47 - 1) max_module_addr -> ptr_auth_strip max_module_addr x = x) /\
    (0 <= x -> 0 <= ptr_auth_strip max_module_addr x <= x) /\
    (0 <= x -> ptr_auth_strip max_module_addr (ptr_auth_strip max_module_addr x) = ptr_auth_strip max_module_addr x).
Proof. intros mma x. exact (conj (strip_below_max mma x) (conj (strip_bounds mma x) (strip_idempotent mma x))). Qed.
Print Assumptions c05_ptr_auth_strip_sound.

(* The contract assumed of the CFI oracle, proved for the real thing as C06 models it: walk_with_stack_cfi over
   the real CfiStackWalker (any rule text, any deltas) keeps every register of the caller context within
   [0, B) for every bound B >= 2^(8 * register width), whenever the callee's registers and the stack words read
   are non-negative and the caller context starts within the bound. *)
Theorem c05_cfi_walker_in_range :
  forall (a6 : C06.Model.arch) B p E r addr s s',
    2 ^ (8 * C06.Model.a_width a6) <= B ->
    ((forall n v, C06.Model.e_callee E n = Some v -> 0 <= v) /\ (forall ad v, C06.Model.e_mem E ad = Some v -> 0 <= v)) ->
    (forall n, 0 <= C06.Model.r_ctx s n < B) ->
    C06.Model.walk_frame_cfi (C06.Model.real_ops a6) p E r addr s = Ret (Some s') ->
    forall n, 0 <= C06.Model.r_ctx s' n < B.
Proof. exact real_walk_in_range. Qed.
Print Assumptions c05_cfi_walker_in_range.

(* ... hence the oracle the correspondence driver runs for arbitrary rule text (C06's evaluator over the real
   CfiStackWalker, [cfi_text]) meets the contract of the theorems above for every callee whose registers are
   within their slots *)
Theorem c05_cfi_text_contract :
  forall a mem mods regnames lrname callee gc fwd r v,
    arch_ok a -> mem_wf mem -> frame_wf a callee ->
    (forall n, in_slot a (slot_value a regnames lrname (f_regs callee) n)) ->
    cfi_text a mem mods regnames lrname callee gc fwd = Some (r, v) ->
    regs_wf a r /\ Forall (in_slot a) (r_gp r).
Proof. exact cfi_text_contract. Qed.
Print Assumptions c05_cfi_text_contract.

(* ---- round 5: the guard expressions as the Rust text has them now (Gen/UnwindTail.v, re-emitted statement by statement
   and operator by operator on every run).  [<arch>_gcf_tail p callee_is_context callee_sp caller_ip caller_sp] is the end of
   <arch>::get_caller_frame from `let mut frame = frame?;` to `Some(frame)`; [lib_walk_stop] is the stop guard of walk_stack;
   [walk_stack_gen p a tail ..] is the walker made of Model.v's techniques and these generated pieces -- it is what the
   correspondence run executes against the real code. *)

(* by itself, for every profile, every callee trust and all values: a check sequence never traps on a 64-bit instruction
   pointer; when it lets the caller frame through, ip >= 4096, instruction = ip - call adjustment and the caller's stack
   pointer is above the callee's -- x86 / amd64: always *)
Theorem c05_tail_sound_x86 :
  forall p callee_is_context callee_sp caller_ip caller_sp, 0 <= caller_ip < 2 ^ 64 ->
    (exists o, x86_gcf_tail p callee_is_context callee_sp caller_ip caller_sp = Ret o) /\
    (forall i, x86_gcf_tail p callee_is_context callee_sp caller_ip caller_sp = Ret (Some i) ->
       4096 <= caller_ip /\ i = caller_ip - 1 /\ callee_sp < caller_sp).
Proof. exact (tail_strict _ _ _ tail_sound_x86). Qed.
Print Assumptions c05_tail_sound_x86.
Theorem c05_tail_sound_amd64 :
  forall p callee_is_context callee_sp caller_ip caller_sp, 0 <= caller_ip < 2 ^ 64 ->
    (exists o, amd64_gcf_tail p callee_is_context callee_sp caller_ip caller_sp = Ret o) /\
    (forall i, amd64_gcf_tail p callee_is_context callee_sp caller_ip caller_sp = Ret (Some i) ->
       4096 <= caller_ip /\ i = caller_ip - 1 /\ callee_sp < caller_sp).
Proof. exact (tail_strict _ _ _ tail_sound_amd64). Qed.
Print Assumptions c05_tail_sound_amd64.
(* ARM / ARM64 (both context layouts) / MIPS: the stack pointer may stay equal only when the callee is the context frame *)
Theorem c05_tail_sound_arm :
  forall p callee_is_context callee_sp caller_ip caller_sp, 0 <= caller_ip < 2 ^ 64 ->
    (exists o, arm_gcf_tail p callee_is_context callee_sp caller_ip caller_sp = Ret o) /\
    (forall i, arm_gcf_tail p callee_is_context callee_sp caller_ip caller_sp = Ret (Some i) ->
       4096 <= caller_ip /\ i = caller_ip - 2 /\
       (callee_sp < caller_sp \/ (callee_is_context = true /\ callee_sp = caller_sp))).
Proof. exact (tail_leaf _ _ _ tail_sound_arm). Qed.
Print Assumptions c05_tail_sound_arm.
Theorem c05_tail_sound_arm64 :
  forall p callee_is_context callee_sp caller_ip caller_sp, 0 <= caller_ip < 2 ^ 64 ->
    (exists o, arm64_gcf_tail p callee_is_context callee_sp caller_ip caller_sp = Ret o) /\
    (forall i, arm64_gcf_tail p callee_is_context callee_sp caller_ip caller_sp = Ret (Some i) ->
       4096 <= caller_ip /\ i = caller_ip - 4 /\
       (callee_sp < caller_sp \/ (callee_is_context = true /\ callee_sp = caller_sp))).
Proof. exact (tail_leaf _ _ _ tail_sound_arm64). Qed.
Print Assumptions c05_tail_sound_arm64.
Theorem c05_tail_sound_mips :
  forall p callee_is_context callee_sp caller_ip caller_sp, 0 <= caller_ip < 2 ^ 64 ->
    (exists o, mips_gcf_tail p callee_is_context callee_sp caller_ip caller_sp = Ret o) /\
    (forall i, mips_gcf_tail p callee_is_context callee_sp caller_ip caller_sp = Ret (Some i) ->
       4096 <= caller_ip /\ i = caller_ip - 8 /\
       (callee_sp < caller_sp \/ (callee_is_context = true /\ callee_sp = caller_sp))).
Proof. exact (tail_leaf _ _ _ tail_sound_mips). Qed.
Print Assumptions c05_tail_sound_mips.

(* the generated pieces are exactly the parametric ones of Model.v (no range hypotheses), so the walker the driver runs
   is walk_stack current_code of Model.v -- the object of every theorem above and of C04's recovery theorems *)
Theorem c05_tail_pinned :
  (forall p c s ip sp, x86_gcf_tail p c s ip sp = gcf_tail x86 p c s ip sp) /\
  (forall p c s ip sp, amd64_gcf_tail p c s ip sp = gcf_tail amd64 p c s ip sp) /\
  (forall p c s ip sp, arm_gcf_tail p c s ip sp = gcf_tail arm p c s ip sp) /\
  (forall p c s ip sp, arm64_gcf_tail p c s ip sp = gcf_tail arm64 p c s ip sp) /\
  (forall p c s ip sp, mips_gcf_tail p c s ip sp = gcf_tail mips32 p c s ip sp) /\
  (forall p c s ip sp, mips_gcf_tail p c s ip sp = gcf_tail mips64 p c s ip sp) /\
  (forall callee_is_context sp_readable, lib_walk_stop callee_is_context sp_readable = negb callee_is_context && negb sp_readable) /\
  generated_code = current_code.
Proof.
  exact (conj tail_pinned_x86 (conj tail_pinned_amd64 (conj tail_pinned_arm (conj tail_pinned_arm64
        (conj tail_pinned_mips32 (conj tail_pinned_mips64 (conj stop_pinned generated_code_current))))))).
Qed.
Print Assumptions c05_tail_pinned.

(* the context frame's instruction = resume address = the context's ip; a frame's module is looked up with, and
   fill_symbol symbolizes, the frame's `instruction` (not its return address) -- as the Rust text has it now *)
Theorem c05_lib_pinned :
  (forall r v t, f_instr (from_context r v t) = lib_from_context_instruction (r_ip r) (r_sp r) /\
                 f_resume (from_context r v t) = lib_from_context_resume (r_ip r) (r_sp r)) /\
  (forall mods f, frame_module mods f = d_module_at mods (lib_module_lookup_address (f_instr f) (f_resume f))) /\
  (forall f, lib_symbol_lookup_address (f_instr f) (f_resume f) = f_instr f).
Proof. exact lib_pinned. Qed.
Print Assumptions c05_lib_pinned.

Theorem c05_generated_walk_is_model :
  forall archid p os mem module_at max_module_addr cfi_walk instr_valid fuel r v,
    walk_stack_gen p (arch_of archid) (tail_of archid) os mem module_at max_module_addr cfi_walk instr_valid fuel r v =
    walk_stack current_code p (arch_of archid) os mem module_at max_module_addr cfi_walk instr_valid fuel r v.
Proof. exact generated_walk_is_model. Qed.
Print Assumptions c05_generated_walk_is_model.

(* well-formedness + no panic + the frame bound, stated for the walker made of the generated pieces *)
Theorem c05_generated_x86 : walker_facts_gen x86 x86_gcf_tail.
Proof. exact (walker_facts_gen_of x86 x86_gcf_tail arch_ok_x86 tail_pinned_x86). Qed.
Print Assumptions c05_generated_x86.
Theorem c05_generated_amd64 : walker_facts_gen amd64 amd64_gcf_tail.
Proof. exact (walker_facts_gen_of amd64 amd64_gcf_tail arch_ok_amd64 tail_pinned_amd64). Qed.
Print Assumptions c05_generated_amd64.
Theorem c05_generated_arm : walker_facts_gen arm arm_gcf_tail.
Proof. exact (walker_facts_gen_of arm arm_gcf_tail arch_ok_arm tail_pinned_arm). Qed.
Print Assumptions c05_generated_arm.
Theorem c05_generated_arm64 : walker_facts_gen arm64 arm64_gcf_tail.   (* arm64_old.rs = arm64.rs, checked by the translator *)
Proof. exact (walker_facts_gen_of arm64 arm64_gcf_tail arch_ok_arm64 tail_pinned_arm64). Qed.
Print Assumptions c05_generated_arm64.
Theorem c05_generated_mips32 : walker_facts_gen mips32 mips_gcf_tail.
Proof. exact (walker_facts_gen_of mips32 mips_gcf_tail arch_ok_mips32 tail_pinned_mips32). Qed.
Print Assumptions c05_generated_mips32.
Theorem c05_generated_mips64 : walker_facts_gen mips64 mips_gcf_tail.
Proof. exact (walker_facts_gen_of mips64 mips_gcf_tail arch_ok_mips64 tail_pinned_mips64). Qed.
Print Assumptions c05_generated_mips64.

(* ---- round 5: "a frame's module and function, when present, cover its address", end to end through C08 and C11.
   For EVERY frame f of a walk (any architecture description with arch_ok, any oracles): the module
   fill_source_line_info attaches is [frame_module mods f] (C08's range map over the module list); if it is module i =
   (b, s, _) then b <= instruction < b + s, and what SymbolFile::fill_symbol does for that module's symbol file
   [files i] at that instruction -- C11's model [symbolize], for any well-formed file, either build profile -- returns,
   and a function it sets (name, base) is a FUNC record of that very file with base = b + addr and
   base <= instruction < base + size, or a PUBLIC record of it with base = b + addr <= instruction. *)
Theorem c05_function_covers :
  forall p q a os mem module_at max_module_addr cfi_walk instr_valid (mods : list modspec) (files : Z -> C11.Model.raw_file),
    arch_ok a -> mem_wf mem ->
    (forall callee gc fwd r v, cfi_walk callee gc fwd = Some (r, v) -> regs_wf a r) ->
    Forall (fun m => 0 <= fst (fst m) /\ 0 <= snd (fst m)) mods ->
    (forall i, C11.Proofs2.wf_file (files i)) ->
    forall fuel r v fs, regs_wf a r ->
      walk_stack current_code p a os mem module_at max_module_addr cfi_walk instr_valid fuel r v = Ret fs ->
      Forall (fun f => forall i, frame_module mods f = Some i ->
                exists b s y, nth_error mods (Z.to_nat i) = Some (b, s, y) /\ b <= f_instr f < b + s /\
                  exists o, C11.Model.symbolize q (files i) b (f_instr f) = Ret o /\
                    forall name base ps, C11.Model.o_func o = Some (name, base, ps) ->
                      base <= f_instr f /\
                      ((exists fr, In fr (C11.Model.rf_funcs (files i)) /\ name = C11.Model.fr_name fr /\
                                   base = b + C11.Model.fr_addr fr /\ f_instr f < base + C11.Model.fr_size fr)
                       \/ (exists pb, In pb (C11.Model.rf_publics (files i)) /\ name = C11.Model.p_name pb /\
                                      base = b + C11.Model.p_addr pb))) fs.
Proof.
  intros p q a os mem ma mm cw iv mods files Ha Hm Hc Hmods Hfiles fuel r v fs Hr H.
  exact (walk_functions_cover p q a os mem ma mm cw iv mods files Ha Hm Hc Hmods Hfiles fuel r v fs Hr H).
Qed.
Print Assumptions c05_function_covers.

(* ---- the refutations that led to the repairs in /repo (kept checkable: [code_before_fixes]) *)
Definition w_cfi_never_reads (callee : frame) (_ : option frame) (_ : list Z) : option (regs * list Z) :=
  let sp := r_sp (f_regs callee) in
  if (0 <=? sp) && (sp <? 4294967295)
  then Some ({| r_ip := 1073742080; r_sp := sp + 1; r_fp := 0; r_lr := 0; r_gp := [] |}, [x86_sp_name; x86_ip_name])
  else None.
Definition w_mem8 : memory := {| m_base := 4294967040; m_bytes := [0; 0; 0; 0; 0; 0; 0; 0] |}.
Definition w_regs8 : regs := {| r_ip := 1073742080; r_sp := 4294967040; r_fp := 0; r_lr := 0; r_gp := [] |}.

(* F-C03a: before 06bc067 the frame bound was false: `.cfa: $esp 1 + .ra: const` over an 8-byte stack *)
Theorem c03_frame_bound_refuted_before_fix :
  exists p os mem module_at max_module_addr cfi_walk instr_valid r v,
    mem_wf mem /\ regs_wf x86 r /\
    (forall callee gc fwd r' v', cfi_walk callee gc fwd = Some (r', v') -> regs_wf x86 r') /\
    walk_stack code_before_fixes p x86 os mem module_at max_module_addr cfi_walk instr_valid (fuel_for mem) r v = OutOfFuel.
Proof.
  exists Debug, OS_OTHER, w_mem8, (fun _ => Some 0), 0, w_cfi_never_reads, (fun _ => false), w_regs8, VAll.
  split; [split; [cbn; lia | repeat constructor; lia]|].
  split; [unfold regs_wf, in_slot; cbn; lia|].
  split.
  - intros callee gc fwd r' v' H. unfold w_cfi_never_reads in H.
    destruct ((0 <=? r_sp (f_regs callee)) && (r_sp (f_regs callee) <? 4294967295)) eqn:E; [|discriminate].
    apply andb_prop in E. destruct E as [E1 E2]. apply Z.leb_le in E1. apply Z.ltb_lt in E2.
    inversion H; subst. unfold regs_wf, in_slot; cbn. lia.
  - vm_compute. reflexivity.
Qed.
Print Assumptions c03_frame_bound_refuted_before_fix.

Definition w_mem_top : memory := {| m_base := 18446744073709551551; m_bytes := repeat 0 64 |}.
Definition w_regs_top : regs := {| r_ip := 4194304; r_sp := 18446744073709551551; r_fp := 18446744073709551583; r_lr := 0; r_gp := [] |}.

(* F-C03f: before de31bed c05_no_panic was false for amd64 on Windows (debug builds) *)
Theorem c05_no_panic_amd64_refuted_before_fix :
  exists os mem module_at max_module_addr cfi_walk instr_valid r v t,
    mem_wf mem /\ regs_wf amd64 r /\
    (forall callee gc fwd r' v', cfi_walk callee gc fwd = Some (r', v') -> regs_wf amd64 r') /\
    walk_stack code_before_fixes Debug amd64 os mem module_at max_module_addr cfi_walk instr_valid (fuel_for mem) r v = Panic t.
Proof.
  exists OS_WINDOWS, w_mem_top, (fun _ => None), 0, (fun _ _ _ => None), (fun _ => false), w_regs_top, VAll, 512.
  split; [split; [cbn; lia | repeat constructor; lia]|].
  split; [unfold regs_wf, in_slot; cbn; lia|].
  split; [intros; discriminate|].
  vm_compute. reflexivity.
Qed.
Print Assumptions c05_no_panic_amd64_refuted_before_fix.

(* ---- non-vacuity: the hypotheses are satisfiable and the walker does walk *)
Definition nv_bytes : list Z :=
  (* amd64 frame-pointer chain: [saved rbp -> 0x80000020][ret 0x7400c0000100] pad pad [saved rbp -> 0x80000038][ret 0x7400c0000200] pad [0] *)
  [32;0;0;128;0;0;0;0;  0;1;0;192;0;116;0;0;  0;0;0;0;0;0;0;0;  0;0;0;0;0;0;0;0;
   56;0;0;128;0;0;0;0;  0;2;0;192;0;116;0;0;  0;0;0;0;0;0;0;0;  0;0;0;0;0;0;0;0].
Definition nv_mem : memory := {| m_base := 2147483648; m_bytes := nv_bytes |}.
Definition nv_regs : regs := {| r_ip := 127546570047568; r_sp := 2147483648; r_fp := 2147483648; r_lr := 0; r_gp := [] |}.

Example c05_nonvacuous_walk :
  mem_wf nv_mem /\ regs_wf amd64 nv_regs /\
  exists f0 f1 f2,
    walk_stack current_code Debug amd64 OS_OTHER nv_mem (fun _ => None) 0 (fun _ _ _ => None) (fun _ => false) (fuel_for nv_mem) nv_regs VAll
      = Ret [f0; f1; f2] /\
    f_trust f1 = TFramePointer /\ f_resume f1 = 127546570047744 /\ f_instr f2 = 127546570048000 - 1 /\ r_sp (f_regs f2) = 2147483696.
Proof.
  split; [split; [cbn; lia | repeat constructor; lia]|].
  split; [unfold regs_wf, in_slot; cbn; lia|].
  eexists; eexists; eexists. split; [vm_compute; reflexivity|]. cbn. repeat split; reflexivity.
Qed.

(* the CFI-oracle contract is satisfiable by an oracle that does produce frames (F-C03a's witness, now bounded) *)
Example c05_nonvacuous_cfi :
  (forall callee gc fwd r' v', w_cfi_never_reads callee gc fwd = Some (r', v') -> regs_wf x86 r') /\
  exists fs, walk_stack current_code Debug x86 OS_OTHER w_mem8 (fun _ => Some 0) 0 w_cfi_never_reads (fun _ => false) (fuel_for w_mem8) w_regs8 VAll = Ret fs /\
             length fs = 9%nat.
Proof.
  split.
  - intros callee gc fwd r' v' H. unfold w_cfi_never_reads in H.
    destruct ((0 <=? r_sp (f_regs callee)) && (r_sp (f_regs callee) <? 4294967295)) eqn:E; [|discriminate].
    apply andb_prop in E. destruct E as [E1 E2]. apply Z.leb_le in E1. apply Z.ltb_lt in E2.
    inversion H; subst. unfold regs_wf, in_slot; cbn. lia.
  - eexists. split; [vm_compute; reflexivity|]. reflexivity.
Qed.

(* the generated check sequences do let frames through and do stop: a grown sp passes, an equal sp passes only for the
   context frame's caller on a leaf architecture, a nullish ip stops *)
Example c05_nonvacuous_tail :
  amd64_gcf_tail Debug false 1000 5000 1008 = Ret (Some 4999) /\
  amd64_gcf_tail Debug true 1000 5000 1000 = Ret None /\
  arm64_gcf_tail Debug true 1000 8192 1000 = Ret (Some 8188) /\
  arm64_gcf_tail Release false 1000 8192 1000 = Ret None /\
  mips_gcf_tail Debug false 0 4095 8 = Ret None /\
  lib_walk_stop false false = true /\ lib_walk_stop true false = false /\ lib_walk_stop false true = false.
Proof. repeat split; reflexivity. Qed.

(* ... and the walker made of them walks the frame-pointer chain of c05_nonvacuous_walk *)
Example c05_nonvacuous_generated_walk :
  exists f0 f1 f2,
    walk_stack_gen Debug amd64 amd64_gcf_tail OS_OTHER nv_mem (fun _ => None) 0 (fun _ _ _ => None) (fun _ => false) (fuel_for nv_mem) nv_regs VAll
      = Ret [f0; f1; f2] /\
    f_trust f1 = TFramePointer /\ f_resume f1 = 127546570047744 /\ f_instr f2 = 127546570048000 - 1 /\ r_sp (f_regs f2) = 2147483696.
Proof. eexists; eexists; eexists. split; [vm_compute; reflexivity|]. cbn. repeat split; reflexivity. Qed.

(* c05_function_covers is not vacuous: a walked frame inside a module whose symbol file has FUNC 100 100 gets that function *)
Definition nv_file : C11.Model.raw_file :=
  C11.Model.mk_raw [] [] [] [C11.Model.mk_fraw 256 256 0 102 [] []] [] [].
Definition nv_fmods : list modspec := [(127546570047488, 65536, None)].
Definition nv_fframe : frame :=
  {| f_instr := 127546570047788; f_resume := 127546570047789; f_trust := TFramePointer; f_regs := regs0; f_valid := VAll |}.
Example c05_nonvacuous_function :
  C11.Proofs2.wf_file nv_file /\
  frame_module nv_fmods nv_fframe = Some 0 /\
  exists o, C11.Model.symbolize Debug nv_file 127546570047488 (f_instr nv_fframe) = Ret o /\
            C11.Model.o_func o = Some (102, 127546570047488 + 256, 0).
Proof.
  split.
  { unfold C11.Proofs2.wf_file, nv_file; cbn [C11.Model.rf_funcs C11.Model.rf_publics C11.Model.rf_win_fd C11.Model.rf_win_fpo].
    repeat split; try constructor; try constructor;
      unfold C11.Proofs2.wf_fraw, C11.Proofs2.u64, C11.Proofs2.u32; cbn; repeat split; try constructor; try lia; try reflexivity. }
  split; [vm_compute; reflexivity|].
  eexists. split; vm_compute; reflexivity.
Qed.

(* ==== round 5, second pass: the scan acceptance test, ptr_auth_strip, trusts and stack-memory edge cases ================ *)

(* Every frame a walk marks `scan` passed the acceptance test of the scan loop: the architecture's own front test
   ([a_pre_ok], = <arch>::instruction_seems_valid up to the call of instruction_seems_valid_by_symbols) and the symbol-based
   test ([instr_valid]).  For every architecture description, every oracle, every repair setting, both profiles, any fuel:
   no hypothesis at all. *)
Theorem c05_scan_accepted :
  forall fx p a os mem module_at max_module_addr cfi_walk instr_valid fuel r v f0 rest,
    walk_stack fx p a os mem module_at max_module_addr cfi_walk instr_valid fuel r v = Ret (f0 :: rest) ->
    Forall (fun f => f_trust f = TScan -> a_pre_ok a (f_resume f) = true /\ instr_valid (f_resume f) = true) rest.
Proof. exact stack_scan_accepts. Qed.
Print Assumptions c05_scan_accepted.

(* The tests themselves, as the Rust text has them now (Gen/UnwindTail.v): the front test of every architecture id of the
   driver is the generated `<arch>_instr_pre_ok`; amd64 / arm64 frame-pointer frames use the same generated is_non_canonical;
   the driver's symbol-based test IS the generated body of lib.rs instruction_seems_valid_by_symbols (over C08's module lookup
   and the case's symbol files) and reads: ra - 1 (saturating) is not 0, lies in a module, and that module has no symbol file
   or a function with a non-empty name covering ra - 1. *)
Theorem c05_instr_valid_pinned :
  (forall archid x, a_pre_ok (arch_of archid) x = pre_ok_of archid x) /\
  (forall x, a_canon_fp amd64 x = negb (amd64_is_non_canonical x)) /\
  (forall x, a_canon_fp arm64 x = negb (arm64_is_non_canonical x)) /\
  (forall mods x, d_instr_valid mods x = lib_isv_by_symbols (mod_of mods) d_fill x) /\
  (forall mods x, d_instr_valid mods x =
     (let i := sat_sub x 1 in
      if i =? 0 then false
      else match mod_of mods i with
           | None => false
           | Some (b, _, None) => true
           | Some (b, _, Some s) =>
               let addr := i - b in
               match s_table s with
               | Some t => match C08.Model.rm_get (C09.Grammar.t_funcs t) addr with
                           | Some fn => negb (rle_empty (C09.Grammar.sf_name fn))
                           | None => false
                           end
               | None => (0 <? s_func_size s) && (s_func_lo s <=? addr) && (addr <? s_func_lo s + s_func_size s)
               end
           end)).
Proof.
  exact (conj pre_ok_pinned (conj (proj1 canon_fp_pinned) (conj (proj2 canon_fp_pinned)
        (conj (fun mods x => eq_refl) d_instr_valid_spec)))).
Qed.
Print Assumptions c05_instr_valid_pinned.

(* the generated instruction_seems_valid_by_symbols, for ANY module lookup and ANY symbol provider behaviour: an accepted
   address is at least 2, the address before it is inside some module, and fill_symbol for that module either failed (no
   symbols) or set a function with a non-empty name; 0 and 1 are always rejected *)
Theorem c05_isv_by_symbols_sound :
  forall (M : Type) (module_at : Z -> option M) (fill : M -> Z -> option (option bool)) x,
    (lib_isv_by_symbols module_at fill x = true ->
       2 <= x /\ exists m, module_at (x - 1) = Some m /\ (fill m (x - 1) = None \/ fill m (x - 1) = Some (Some false))) /\
    (x <= 1 -> lib_isv_by_symbols module_at fill x = false).
Proof. intros M ma fill x. exact (conj (isv_by_symbols_true M ma fill x) (isv_by_symbols_rejects_low M ma fill x)). Qed.
Print Assumptions c05_isv_by_symbols_sound.

(* end to end for the walker the correspondence run executes (generated tail, stop guard, resolve flavour and
   instruction_seems_valid_by_symbols; modules through C08): every scan frame's return address ra passed the generated front
   test, ra >= 2, and ra - 1 is covered by a listed module [b, b + s) which has no symbol file or a FUNC record covering ra - 1 *)
Theorem c05_scan_in_module :
  forall archid mem mods regnames lrname p os fuel r v f0 rest,
    Forall (fun m => 0 <= fst (fst m) /\ 0 <= snd (fst m)) mods ->
    run_profile_gen (arch_of archid) mem mods regnames lrname (tail_of archid) p os fuel r v = Ret (f0 :: rest) ->
    Forall (fun f => f_trust f = TScan ->
              pre_ok_of archid (f_resume f) = true /\ 2 <= f_resume f /\
              exists b s y, mod_of mods (f_resume f - 1) = Some (b, s, y) /\ b <= f_resume f - 1 < b + s /\
                            (y = None \/ d_fill (b, s, y) (f_resume f - 1) = Some (Some false))) rest.
Proof.
  intros id mem mods regnames lrname p os fuel r v f0 rest Hm H.
  destruct (driver_gen_scan_in_module id mem mods regnames lrname p os fuel r v f0 rest Hm H) as [Q1 Q2].
  rewrite Forall_forall in *. intros f Hin T.
  destruct (Q1 f Hin T) as [_ [G E]]. exact (conj (Q2 f Hin T) (conj G E)).
Qed.
Print Assumptions c05_scan_in_module.

(* ... and with the symbol lookup inside: instruction_seems_valid_by_symbols (generated) over C08's module lookup and C11's
   model of SymbolFile::fill_symbol ([c11_fill]: files i = None is a module without symbol file; C11 keeps names abstract,
   [empty_name] tells which is the empty string).  For every walk (any architecture description with arch_ok, any CFI oracle
   meeting the contract, both profiles, any fuel): a frame marked `scan` has a return address ra such that ra - 1 lies in
   module i = [b, b + s), and either that module has no symbol file or fill_symbol (C11.Model.symbolize) set a function with
   a NON-EMPTY name which is a FUNC record of that file with b + addr <= ra - 1 < b + addr + size, or a PUBLIC record at or
   below ra - 1. *)
Theorem c05_scan_function_covers :
  forall p q empty_name a os mem max_module_addr cfi_walk (mods : list modspec) (files : Z -> option C11.Model.raw_file),
    arch_ok a -> mem_wf mem ->
    (forall callee gc fwd r v, cfi_walk callee gc fwd = Some (r, v) -> regs_wf a r) ->
    Forall (fun m => 0 <= fst (fst m) /\ 0 <= snd (fst m)) mods ->
    (forall i rf, files i = Some rf -> C11.Proofs2.wf_file rf) ->
    forall fuel r v f0 rest, regs_wf a r ->
      walk_stack current_code p a os mem (d_module_at mods) max_module_addr cfi_walk
                 (lib_isv_by_symbols (d_module_at mods) (c11_fill q empty_name mods files)) fuel r v = Ret (f0 :: rest) ->
      Forall (fun f => f_trust f = TScan ->
        exists i b s y, d_module_at mods (f_resume f - 1) = Some i /\ nth_error mods (Z.to_nat i) = Some (b, s, y) /\
          b <= f_resume f - 1 < b + s /\
          (files i = None \/
           exists rf o name base ps, files i = Some rf /\ C11.Model.symbolize q rf b (f_resume f - 1) = Ret o /\
             C11.Model.o_func o = Some (name, base, ps) /\ empty_name name = false /\ base <= f_resume f - 1 /\
             ((exists fr, In fr (C11.Model.rf_funcs rf) /\ name = C11.Model.fr_name fr /\ base = b + C11.Model.fr_addr fr /\
                          f_resume f - 1 < base + C11.Model.fr_size fr)
              \/ (exists pb, In pb (C11.Model.rf_publics rf) /\ name = C11.Model.p_name pb /\ base = b + C11.Model.p_addr pb)))) rest.
Proof.
  intros p q en a os mem mm cw mods files Ha Hm Hc Hw Hfiles fuel r v f0 rest Hr H.
  exact (walk_scan_functions p q en a os mem mm cw mods files Ha Hm Hc Hw Hfiles fuel r v f0 rest Hr H).
Qed.
Print Assumptions c05_scan_function_covers.

(* arm64.rs ptr_auth_strip statement by statement as the source has it (`(1 << 47) - 1`, by_addr().next_back(),
   saturating_add, u64::max, checked_next_power_of_two, `high_bit - 1`, `!0`, `ptr & mask`; Gen/UnwindTail.v): for every
   64-bit pointer and every module list it never traps in either profile, it equals the arithmetic form of Model.v
   (ptr mod 2^k, the object of c05_ptr_auth_strip_sound), and it never grows a pointer *)
Theorem c05_ptr_auth_strip_source :
  forall p module_end x, 0 <= x < 2 ^ 64 ->
    arm64_ptr_auth_strip_src p module_end x = Ret (ptr_auth_strip (arm64_max_module_addr module_end) x) /\
    0 <= ptr_auth_strip (arm64_max_module_addr module_end) x <= x.
Proof.
  intros p me x Hx. split; [exact (strip_src_is_model p me x Hx)|].
  apply (strip_bounds (arm64_max_module_addr me) x). lia.
Qed.
Print Assumptions c05_ptr_auth_strip_source.

(* the FrameTrust every technique stamps on its frames, read from the only StackFrame constructions of minidump-unwind, is
   the one the model's cascade uses; FrameTrust::CfiScan / PreWalked / None are constructed nowhere (the translator aborts
   on any other construction site), so c05_frame_shape's trust set is exhaustive for this code *)
Theorem c05_trusts_pinned :
  [x86_trust_cfi; x86_trust_fp; x86_trust_scan] = map trust_code [TCfi; TFramePointer; TScan] /\
  [amd64_trust_cfi; amd64_trust_fp; amd64_trust_scan] = map trust_code [TCfi; TFramePointer; TScan] /\
  [arm_trust_cfi; arm_trust_fp; arm_trust_scan] = map trust_code [TCfi; TFramePointer; TScan] /\
  [arm64_trust_cfi; arm64_trust_fp; arm64_trust_scan] = map trust_code [TCfi; TFramePointer; TScan] /\
  [mips_trust_cfi; mips_trust_scan32; mips_trust_scan64] = map trust_code [TCfi; TScan; TScan] /\
  lib_trust_context_frame = trust_code TContext /\
  arm64_strip_which_module_last = true.
Proof. exact trusts_pinned. Qed.
Print Assumptions c05_trusts_pinned.

(* stack memory edge cases of the quantifier: an empty stack memory, or one whose end does not fit a u64
   (memory_range() is None), yields exactly the context frame -- any architecture, oracle, profile, fuel.
   (A memory that ends at 2^64 - 2, the highest walkable one, is covered by the general theorems; see
   c05_nonvacuous_stack_at_top.) *)
Theorem c05_stack_memory_edges :
  forall fx p a os mem module_at max_module_addr cfi_walk instr_valid fuel r v,
    (m_bytes mem = [] \/ 2 ^ 64 <= m_base mem + Z.of_nat (length (m_bytes mem))) ->
    walk_stack fx p a os mem module_at max_module_addr cfi_walk instr_valid fuel r v = Ret [from_context r v TContext].
Proof.
  intros fx p a os mem ma mm cw iv fuel r v [H|H].
  - exact (empty_stack_only_context fx p a os mem ma mm cw iv fuel r v H).
  - exact (wrapping_stack_only_context fx p a os mem ma mm cw iv fuel r v H).
Qed.
Print Assumptions c05_stack_memory_edges.

(* ... and the test walk_stack applies to a stack memory is the one minidump.rs has: MinidumpMemoryBase::memory_range,
   re-emitted from its text (Gen/UnwindTail.v: `size == 0`, `base_address.checked_add(size)?`, `- 1` as chk_sub), returns
   without a trap in both profiles, and it is Some exactly when the model's [mem_ok] holds (then the range is
   [base, base + size - 1]) -- so c05_stack_memory_edges and the `mem_ok` branch of every walker theorem speak about
   the source's notion of a usable stack memory *)
Theorem c05_memory_range_source :
  forall p m, mem_wf m ->
    minidump_memory_range p (m_base m) (Z.of_nat (length (m_bytes m))) =
    Ret (if mem_ok m then Some (m_base m, m_base m + Z.of_nat (length (m_bytes m)) - 1) else None).
Proof. exact mem_ok_is_source. Qed.
Print Assumptions c05_memory_range_source.

(* ---- non-vacuity of the second pass *)
(* a 16-byte amd64 stack whose last byte is at 2^64 - 2: the scan finds the return address in the last word, the caller's
   stack pointer is 2^64 - 1 (no overflow trap in either profile), and the walk stops there; moved up by one byte the
   memory is not walkable at all *)
Definition nv_top_mem : memory :=
  {| m_base := 18446744073709551599; m_bytes := [0;0;0;0;0;0;0;0; 0;1;0;192;0;116;0;0] |}.
Definition nv_top_regs : regs := {| r_ip := 127546570047568; r_sp := 18446744073709551599; r_fp := 0; r_lr := 0; r_gp := [] |}.
Example c05_nonvacuous_stack_at_top :
  mem_wf nv_top_mem /\ regs_wf amd64 nv_top_regs /\
  m_base nv_top_mem + Z.of_nat (length (m_bytes nv_top_mem)) = 2 ^ 64 - 1 /\
  (forall p, exists f0 f1,
     walk_stack current_code p amd64 OS_OTHER nv_top_mem (fun _ => None) 0 (fun _ _ _ => None) (fun _ => true) (fuel_for nv_top_mem) nv_top_regs VAll
       = Ret [f0; f1] /\
     f_trust f1 = TScan /\ f_resume f1 = 127546570047744 /\ r_sp (f_regs f1) = 2 ^ 64 - 1) /\
  walk_stack current_code Debug amd64 OS_OTHER {| m_base := 18446744073709551600; m_bytes := m_bytes nv_top_mem |}
      (fun _ => None) 0 (fun _ _ _ => None) (fun _ => true) 100 nv_top_regs VAll = Ret [from_context nv_top_regs VAll TContext].
Proof.
  split; [split; [cbn; lia | repeat constructor; lia]|].
  split; [unfold regs_wf, in_slot; cbn; lia|].
  split; [reflexivity|].
  split.
  - intros p. eexists; eexists. split; [destruct p; vm_compute; reflexivity|]. cbn. repeat split; reflexivity.
  - apply c05_stack_memory_edges. right. cbn. lia.
Qed.

(* the generated acceptance test accepts and rejects: with one module [0x10000, 0x20000) and no symbols, 0x10001..0x20000
   are accepted (ra - 1 inside the module), 0x10000 and 0x20001 are not *)
Example c05_nonvacuous_instr_valid :
  d_instr_valid [(65536, 65536, None)] 65537 = true /\ d_instr_valid [(65536, 65536, None)] 131072 = true /\
  d_instr_valid [(65536, 65536, None)] 65536 = false /\ d_instr_valid [(65536, 65536, None)] 131073 = false /\
  amd64_instr_pre_ok 127546570047744 = true /\ amd64_instr_pre_ok 140737488355328 = false /\ amd64_instr_pre_ok 0 = false /\
  arm64_instr_pre_ok 4095 = false /\ arm64_instr_pre_ok 4096 = true /\ mips_instr_pre_ok 4095 = false /\ x86_instr_pre_ok 1 = true.
Proof. repeat split; vm_compute; reflexivity. Qed.

(* ptr_auth_strip as generated: authentication bits above bit 47 go away, and a module above 2^47 widens the mask *)
Example c05_nonvacuous_strip :
  arm64_ptr_auth_strip_src Debug None (2 ^ 60 + 2 ^ 48 + 4198400) = Ret 4198400 /\
  arm64_ptr_auth_strip_src Release (Some (2 ^ 48, 1048576)) (2 ^ 60 + 2 ^ 48 + 4198400) = Ret (2 ^ 48 + 4198400) /\
  arm64_ptr_auth_strip_src Debug (Some (2 ^ 64 - 4096, 8192)) (2 ^ 64 - 1) = Ret (2 ^ 64 - 1).
Proof. repeat split; vm_compute; reflexivity. Qed.

(* c05_scan_function_covers is not vacuous: with the module and symbol file of c05_nonvacuous_function, the generated test over
   C11's fill_symbol accepts a return address whose predecessor is inside FUNC 100 100, rejects one just past that function,
   rejects everything when that function's name is the empty string, and accepts both when the module has no symbol file *)
Example c05_nonvacuous_scan_function :
  (forall i rf, (fun _ : Z => Some nv_file) i = Some rf -> C11.Proofs2.wf_file rf) /\
  lib_isv_by_symbols (d_module_at nv_fmods) (c11_fill Debug (fun _ => false) nv_fmods (fun _ => Some nv_file)) 127546570047789 = true /\
  lib_isv_by_symbols (d_module_at nv_fmods) (c11_fill Debug (fun _ => false) nv_fmods (fun _ => Some nv_file)) (127546570047488 + 513) = false /\
  lib_isv_by_symbols (d_module_at nv_fmods) (c11_fill Debug (fun n => n =? 102) nv_fmods (fun _ => Some nv_file)) 127546570047789 = false /\
  lib_isv_by_symbols (d_module_at nv_fmods) (c11_fill Debug (fun _ => false) nv_fmods (fun _ => None)) (127546570047488 + 513) = true.
Proof.
  split; [intros i rf H; inversion H; subst; exact (proj1 c05_nonvacuous_function)|].
  repeat split; vm_compute; reflexivity.
Qed.

(* 32-bit architectures: a stack memory that ends at 2^32 with a return address in its last word.  The caller's stack pointer
   would be 2^32: `addr_ip.checked_add(POINTER_WIDTH)` fails, the scan gives up, no trap in either profile, context frame only *)
Definition nv_top32_mem : memory := {| m_base := 4294967280; m_bytes := [0;0;0;0; 0;0;0;0; 0;0;0;0; 0;1;0;64] |}.
Definition nv_top32_regs : regs := {| r_ip := 1073742000; r_sp := 4294967280; r_fp := 0; r_lr := 0; r_gp := [] |}.
Example c05_nonvacuous_stack_at_top32 :
  mem_wf nv_top32_mem /\ regs_wf x86 nv_top32_regs /\ regs_wf mips32 nv_top32_regs /\
  m_base nv_top32_mem + Z.of_nat (length (m_bytes nv_top32_mem)) = 2 ^ 32 /\
  read nv_top32_mem 4 (2 ^ 32 - 4) = Some 1073742080 /\
  forall p,
    walk_stack current_code p x86 OS_OTHER nv_top32_mem (fun _ => None) 0 (fun _ _ _ => None) (fun _ => true) (fuel_for nv_top32_mem)
               nv_top32_regs (VSome [x86_ip_name; x86_sp_name]) = Ret [from_context nv_top32_regs (VSome [x86_ip_name; x86_sp_name]) TContext] /\
    walk_stack current_code p mips32 OS_OTHER nv_top32_mem (fun _ => None) 0 (fun _ _ _ => None) (fun _ => true) (fuel_for nv_top32_mem)
               nv_top32_regs (VSome [mips_ip_name; mips_sp_name]) = Ret [from_context nv_top32_regs (VSome [mips_ip_name; mips_sp_name]) TContext].
Proof.
  split; [split; [cbn; lia | repeat constructor; lia]|].
  split; [unfold regs_wf, in_slot; cbn; lia|].
  split; [unfold regs_wf, in_slot; cbn; lia|].
  split; [reflexivity|]. split; [vm_compute; reflexivity|].
  intros p; destruct p; split; vm_compute; reflexivity.
Qed.
