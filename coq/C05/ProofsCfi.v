(* C05/ProofsCfi.v — (1) ptr_auth_strip: the mask never changes an address below the highest module end;
   (2) the contract the walker theorems assume of the CFI oracle ("every register value fits its slot")
   proved for C06's model of walk_with_stack_cfi over the real CfiStackWalker, which is what the
   correspondence driver instantiates the oracle with. *)
From Coq Require Import Lia ZArith List Bool.
From RM Require Import C05.Model C05.Proofs.
From RM Require C06.Model.
Import ListNotations.
Open Scope Z_scope.

(* ------------------------------------------------------------------ ptr_auth_strip *)
Lemma next_pow2_ge : forall x, 1 <= x -> x <= next_pow2 x.
Proof.
  intros x Hx. unfold next_pow2. destruct (Z.eq_dec x 1) as [->|Hn]; [cbn; lia|].
  pose proof (Z.log2_up_spec x ltac:(lia)). lia.
Qed.

Lemma strip_below_max : forall mma x, 0 <= x < Z.max (2 ^ arm64_apple_bits - 1) mma -> ptr_auth_strip mma x = x.
Proof.
  intros mma x Hx. unfold ptr_auth_strip. set (mx := Z.max _ _) in *.
  assert (Hmx : 1 <= mx) by (unfold mx; pose proof (Z.le_max_l (2 ^ arm64_apple_bits - 1) mma); cbn in *; lia).
  pose proof (next_pow2_ge mx Hmx) as Hge.
  destruct (next_pow2 mx <? two64); [|reflexivity]. apply Z.mod_small. lia.
Qed.

Lemma strip_bounds : forall mma x, 0 <= x -> 0 <= ptr_auth_strip mma x <= x.
Proof.
  intros mma x Hx. unfold ptr_auth_strip. set (mx := Z.max _ _).
  assert (0 < next_pow2 mx) by (unfold next_pow2; apply Z.pow_pos_nonneg; [lia|apply Z.log2_up_nonneg]).
  destruct (next_pow2 mx <? two64); [|lia].
  split; [apply Z.mod_pos_bound; lia | apply Z.mod_le; lia].
Qed.

Lemma strip_idempotent : forall mma x, 0 <= x -> ptr_auth_strip mma (ptr_auth_strip mma x) = ptr_auth_strip mma x.
Proof.
  intros mma x Hx. unfold ptr_auth_strip. set (mx := Z.max _ _).
  assert (0 < next_pow2 mx) by (unfold next_pow2; apply Z.pow_pos_nonneg; [lia|apply Z.log2_up_nonneg]).
  destruct (next_pow2 mx <? two64); [|reflexivity]. apply Z.mod_mod. lia.
Qed.

(* ------------------------------------------------------------------ C06's walker keeps register values in range *)
Module C6 := C06.Model.

Definition env_ok (E : C6.env) : Prop :=
  (forall n v, C6.e_callee E n = Some v -> 0 <= v) /\ (forall ad v, C6.e_mem E ad = Some v -> 0 <= v).

Lemma binop_nonneg : forall st f st', Forall (fun v => 0 <= v) st ->
  (forall l r v, 0 <= l -> 0 <= r -> f l r = Ret v -> 0 <= v) ->
  C6.binop st f = Ret st' -> Forall (fun v => 0 <= v) st'.
Proof.
  intros st f st' Hst Hf H. unfold C6.binop in H.
  destruct st as [|r [|l s]]; try discriminate.
  inversion Hst as [|? ? Hr Hs]; subst. inversion Hs as [|? ? Hl Hs']; subst.
  destruct (f l r) as [v| | |] eqn:E; cbn [obind] in H; try discriminate. inversion H; subst.
  constructor; [exact (Hf l r v Hl Hr E) | assumption].
Qed.

Lemma push_opt_nonneg : forall o st st', Forall (fun v => 0 <= v) st -> (forall v, o = Some v -> 0 <= v) ->
  C6.push_opt o st = Ret st' -> Forall (fun v => 0 <= v) st'.
Proof.
  intros o st st' Hst Ho H. unfold C6.push_opt in H. destruct o; [|discriminate]. inversion H; subst.
  constructor; [apply Ho; reflexivity | assumption].
Qed.

Lemma Ret_inj : forall {A} (x y : A), Ret x = Ret y -> x = y.
Proof. intros A x y H. inversion H. reflexivity. Qed.

Lemma at_nonneg : forall p l r v, 0 <= l ->
  (if (r =? 0) || negb (C6.is_pow2 r) then Fail
   else do m <- C6.chk_usub p C6.PANIC_SUB r 1; Ret (Z.land l (Z.lxor U64MAX m))) = Ret v -> 0 <= v.
Proof.
  intros p l r v Hl H.
  destruct ((r =? 0) || negb (C6.is_pow2 r)); [discriminate H|].
  destruct (C6.chk_usub p C6.PANIC_SUB r 1) as [m| | |]; try discriminate H.
  unfold obind in H. apply Ret_inj in H. rewrite <- H. apply Z.land_nonneg. left. exact Hl.
Qed.

Lemma wrap64_nonneg : forall x, 0 <= wrap64 x.
Proof. intros. unfold wrap64, two64. apply Z.mod_pos_bound. lia. Qed.

Lemma eval_step_nonneg : forall p E cfa t st st', env_ok E -> (forall c, cfa = Some c -> 0 <= c) ->
  Forall (fun v => 0 <= v) st -> C6.eval_step p E cfa t st = Ret st' -> Forall (fun v => 0 <= v) st'.
Proof.
  intros p E cfa t st st' [He Hm] Hc Hst H. unfold C6.eval_step in H.
  destruct (C6.beq t C6.T_plus).
  { refine (binop_nonneg st _ st' Hst _ H). intros l r v _ _ E1. cbv beta in E1. apply Ret_inj in E1. rewrite <- E1. apply wrap64_nonneg. }
  destruct (C6.beq t C6.T_minus).
  { refine (binop_nonneg st _ st' Hst _ H). intros l r v _ _ E1. cbv beta in E1. apply Ret_inj in E1. rewrite <- E1. apply wrap64_nonneg. }
  destruct (C6.beq t C6.T_star).
  { refine (binop_nonneg st _ st' Hst _ H). intros l r v _ _ E1. cbv beta in E1. apply Ret_inj in E1. rewrite <- E1. apply wrap64_nonneg. }
  destruct (C6.beq t C6.T_slash).
  { refine (binop_nonneg st _ st' Hst _ H). intros l r v Hl Hr E1. cbv beta in E1. revert E1.
    destruct (r =? 0) eqn:E0; intros E1; [discriminate E1|]. apply Ret_inj in E1. rewrite <- E1. apply Z.eqb_neq in E0. apply Z.div_pos; lia. }
  destruct (C6.beq t C6.T_pct).
  { refine (binop_nonneg st _ st' Hst _ H). intros l r v Hl Hr E1. cbv beta in E1. revert E1.
    destruct (r =? 0) eqn:E0; intros E1; [discriminate E1|]. apply Ret_inj in E1. rewrite <- E1. apply Z.eqb_neq in E0. apply Z.mod_pos_bound. lia. }
  destruct (C6.beq t C6.T_at).
  { refine (binop_nonneg st _ st' Hst _ H). intros l r v Hl Hr E1. cbv beta in E1. exact (at_nonneg p l r v Hl E1). }
  destruct (C6.beq t C6.T_caret).
  { destruct st as [|ptr s]; [discriminate H|]. inversion Hst as [|? ? _ Hs]; subst.
    refine (push_opt_nonneg _ s st' Hs _ H). intros v Ev. exact (Hm _ _ Ev). }
  destruct (C6.beq t C6.T_cfa). { exact (push_opt_nonneg cfa st st' Hst Hc H). }
  destruct (C6.beq t C6.T_undef); [discriminate H|].
  destruct (C6.after_dollar t) as [reg|].
  { refine (push_opt_nonneg _ st st' Hst _ H). intros v Ev. exact (He _ _ Ev). }
  destruct (C6.parse_int 64 t) as [v0|].
  { apply Ret_inj in H. rewrite <- H. constructor; [apply wrap64_nonneg|exact Hst]. }
  refine (push_opt_nonneg _ st st' Hst _ H). intros v Ev. exact (He _ _ Ev).
Qed.

Lemma eval_loop_nonneg : forall p E cfa toks st st', env_ok E -> (forall c, cfa = Some c -> 0 <= c) ->
  Forall (fun v => 0 <= v) st -> C6.eval_loop p E cfa toks st = Ret st' -> Forall (fun v => 0 <= v) st'.
Proof.
  intros p E cfa toks. induction toks as [|t r IH]; intros st st' HE Hc Hst H; cbn [C6.eval_loop] in H.
  - inversion H; subst. exact Hst.
  - destruct (C6.eval_step p E cfa t st) as [st1| | |] eqn:E1; cbn [obind] in H; try discriminate.
    exact (IH st1 st' HE Hc (eval_step_nonneg p E cfa t st st1 HE Hc Hst E1) H).
Qed.

Lemma eval_nonneg : forall p E e cfa v, env_ok E -> (forall c, cfa = Some c -> 0 <= c) ->
  C6.eval_cfi_expr p E e cfa = Ret v -> 0 <= v.
Proof.
  intros p E e cfa v HE Hc H. unfold C6.eval_cfi_expr in H.
  destruct (C6.eval_loop p E cfa e []) as [st| | |] eqn:E1; cbn [obind] in H; try discriminate.
  pose proof (eval_loop_nonneg _ _ _ _ _ _ HE Hc (Forall_nil _) E1) as Hst.
  destruct st as [|x [|y s]]; try discriminate. inversion H; subst. inversion Hst; assumption.
Qed.

(* an invariant of the caller state preserved by every write with a non-negative value is preserved by the walk *)
Section WalkInv.
Context {S : Type} (ops : C6.wops S) (Inv : S -> Prop).
Hypothesis Hset : forall s n v s', 0 <= v -> Inv s -> C6.o_set ops s n v = Some s' -> Inv s'.
Hypothesis Hclear : forall s n, Inv s -> Inv (C6.o_clear ops s n).
Hypothesis Hcfa : forall s v s', 0 <= v -> Inv s -> C6.o_set_cfa ops s v = Some s' -> Inv s'.
Hypothesis Hra : forall s v s', 0 <= v -> Inv s -> C6.o_set_ra ops s v = Some s' -> Inv s'.

Lemma apply_rules_inv : forall p E cfa l s s', env_ok E -> 0 <= cfa -> Inv s ->
  C6.apply_rules ops p E cfa l s = Ret s' -> Inv s'.
Proof.
  intros p E cfa l. induction l as [|re r IH]; intros s s' HE Hc Hi H; cbn [C6.apply_rules] in H.
  - inversion H; subst. exact Hi.
  - destruct (C6.apply_rule ops p E cfa s re) as [s1| | |] eqn:E1; cbn [obind] in H; try discriminate.
    refine (IH s1 s' HE Hc _ H). clear H. unfold C6.apply_rule in E1.
    destruct (fst re) as [| |name]; try discriminate E1.
    destruct (C6.eval_cfi_expr p E (snd re) (Some cfa)) as [v| | |] eqn:E2; try discriminate E1.
    + assert (Hv : 0 <= v).
      { refine (eval_nonneg p E (snd re) (Some cfa) v HE _ E2). intros c Ec. apply (f_equal (fun o => match o with Some x => x | None => 0 end)) in Ec. cbn in Ec. lia. }
      destruct (C6.o_set ops s name v) as [s2|] eqn:E3.
      * apply Ret_inj in E1. subst s1. exact (Hset s name v s2 Hv Hi E3).
      * apply Ret_inj in E1. subst s1. apply Hclear. exact Hi.
    + apply Ret_inj in E1. subst s1. apply Hclear. exact Hi.
Qed.

Lemma walk_cfi_inv : forall ord p E texts s s', env_ok E -> Inv s ->
  C6.walk_cfi_ord ops ord p E texts s = Ret (Some s') -> Inv s'.
Proof.
  intros ord p E texts s s' HE Hi H. unfold C6.walk_cfi_ord, C6.try_ in H.
  destruct (C6.parse_all texts []) as [m| | |]; try discriminate H.
  destruct (C6.map_remove C6.RCfa m) as [[cfa_e|] m1]; [|discriminate H].
  destruct (C6.map_remove C6.RRa m1) as [[ra_e|] m2]; [|discriminate H].
  destruct (C6.eval_cfi_expr p E cfa_e None) as [cfa| | |] eqn:E1; try discriminate H.
  assert (Hc : 0 <= cfa).
  { refine (eval_nonneg p E cfa_e None cfa HE _ E1). intros c Ec. discriminate Ec. }
  destruct (C6.eval_cfi_expr p E ra_e (Some cfa)) as [ra| | |] eqn:E2; try discriminate H.
  assert (Hr : 0 <= ra).
  { refine (eval_nonneg p E ra_e (Some cfa) ra HE _ E2). intros c Ec. apply (f_equal (fun o => match o with Some x => x | None => 0 end)) in Ec. cbn in Ec. lia. }
  destruct (C6.o_set_cfa ops s cfa) as [s1|] eqn:E3; [|discriminate H].
  destruct (C6.o_set_ra ops s1 ra) as [s2|] eqn:E4; [|discriminate H].
  destruct (C6.apply_rules ops p E cfa (ord m2) s2) as [s3| | |] eqn:E5; try discriminate H.
  apply Ret_inj in H. apply (f_equal (fun o => match o with Some x => x | None => s3 end)) in H. cbn in H. subst s3.
  exact (apply_rules_inv p E cfa (ord m2) s2 s' HE Hc (Hra s1 ra s2 Hr (Hcfa s cfa s1 Hc Hi E3) E4) E5).
Qed.

Lemma walk_frame_inv : forall p E r addr s s', env_ok E -> Inv s ->
  C6.walk_frame_cfi ops p E r addr s = Ret (Some s') -> Inv s'.
Proof.
  intros p E r addr s s' HE Hi H. unfold C6.walk_frame_cfi in H.
  destruct (C6.cfi_covers r addr); [|discriminate H]. unfold C6.walk_with_stack_cfi in H.
  exact (walk_cfi_inv _ p E _ s s' HE Hi H).
Qed.
End WalkInv.

(* the real CfiStackWalker: every register value of the caller context stays within [0, B) for any bound B
   that is at least the register width (B = 2^slot: 64-bit slots of a MIPS context unwound as 32-bit) *)
Definition ctx_below (B : Z) (s : C6.rstate) : Prop := forall n, 0 <= C6.r_ctx s n < B.

Lemma real_walk_in_range : forall a6 B p E r addr s s', 2 ^ (8 * C6.a_width a6) <= B ->
  env_ok E -> ctx_below B s ->
  C6.walk_frame_cfi (C6.real_ops a6) p E r addr s = Ret (Some s') -> ctx_below B s'.
Proof.
  intros a6 B p E r addr s s' HB HE Hi H.
  assert (Hrs : forall s n v s', 0 <= v -> ctx_below B s -> C6.real_set a6 s n v = Some s' -> ctx_below B s').
  { intros s0 n v s0' Hv Hs0 E0. unfold C6.real_set in E0. destruct (C6.memoize a6 n) as [c|]; [|discriminate].
    destruct (C6.fits (C6.a_width a6) v) eqn:Ef; [|discriminate]. inversion E0; subst.
    intros x. cbn [C6.r_ctx]. unfold C6.updz. destruct (C6.beq x c); [|apply Hs0].
    unfold C6.fits in Ef. apply Z.ltb_lt in Ef. lia. }
  refine (walk_frame_inv (C6.real_ops a6) (ctx_below B) _ _ _ _ p E r addr s s' HE Hi H).
  - intros s0 n v s0' Hv Hs0 E0. exact (Hrs s0 n v s0' Hv Hs0 E0).
  - intros s0 n Hs0. cbn [C6.o_clear C6.real_ops]. destruct (C6.memoize a6 n); [|exact Hs0].
    intros x. cbn [C6.r_ctx]. apply Hs0.
  - intros s0 v s0' Hv Hs0 E0. exact (Hrs s0 (C6.a_sp a6) v s0' Hv Hs0 E0).
  - intros s0 v s0' Hv Hs0 E0. exact (Hrs s0 (C6.a_ip a6) v s0' Hv Hs0 E0).
Qed.


(* ---- the oracle the driver uses for arbitrary rule text meets the contract of the walker theorems,
   for every callee whose registers (all of them) are within their slots *)
From RM Require Import C08.Model C05.Driver.

Lemma Some_pair_inj : forall {A B} (a c : A) (b d : B), Some (a, b) = Some (c, d) -> a = c /\ b = d.
Proof. intros A B a c b d H. inversion H. split; reflexivity. Qed.

Lemma cfi_text_contract : forall a mem mods regnames lrname callee gc fwd r v,
  arch_ok a -> mem_wf mem -> frame_wf a callee ->
  (forall n, in_slot a (slot_value a regnames lrname (f_regs callee) n)) ->
  cfi_text a mem mods regnames lrname callee gc fwd = Some (r, v) ->
  regs_wf a r /\ Forall (in_slot a) (r_gp r).
Proof.
  intros a mem mods regnames lrname callee gc fwd r v Ha Hm Hc Hall H. unfold cfi_text in H.
  destruct (mod_of mods (f_instr callee)) as [[[b sz] [s|]]|]; try discriminate H.
  destruct (s_text s) as [[init deltas]|]; [|discriminate H].
  destruct (f_instr callee <? b); [discriminate H|].
  match type of H with match ?W with _ => _ end = _ => destruct W as [[st|]| | |] eqn:EW; try discriminate H end.
  apply Some_pair_inj in H. destruct H as [Hr _]. subst r.
  assert (Hpw : (a_bits a = 32 /\ a_pw a = 4) \/ (a_bits a = 64 /\ a_pw a = 8)) by (destruct Ha as [H0 _]; exact H0).
  assert (HB : 2 ^ (8 * a_pw a) <= 2 ^ a_slot_bits a).
  { destruct Ha as [_ [H1 _]]. apply Z.pow_le_mono_r; [lia|]. destruct Hpw as [[Hb ->]|[Hb ->]]; lia. }
  match type of EW with C6.walk_frame_cfi _ _ ?E0 _ _ ?s0 = _ => set (E := E0) in *; set (st0 := s0) in * end.
  assert (HE : env_ok E).
  { split.
    - intros n x Ex. unfold E in Ex. cbn [C6.e_callee] in Ex.
      destruct (C6.memoize (arch6 a regnames) n); [|discriminate Ex].
      destruct (reg_valid a (name_of_bytes n) (f_valid callee)); [|discriminate Ex].
      apply (f_equal (fun o => match o with Some y => y | None => 0 end)) in Ex. cbn beta iota in Ex. rewrite <- Ex.
      unfold view. destruct (a_trunc a); [unfold wrap32, two32; apply Z.mod_pos_bound; lia | apply Hall].
    - intros ad x Ex. unfold E in Ex. cbn [C6.e_mem] in Ex.
      refine (proj1 (read_range mem (a_pw a) ad x Hm _ Ex)). destruct Hpw as [[_ ->]|[_ ->]]; lia. }
  assert (H0 : ctx_below (2 ^ a_slot_bits a) st0).
  { intros n. unfold st0. cbn [C6.r_ctx]. apply Hall. }
  pose proof (real_walk_in_range (arch6 a regnames) (2 ^ a_slot_bits a) Debug E _ _ st0 st HB HE H0 EW) as Hin.
  unfold ctx_below in Hin. unfold regs_wf, in_slot. cbn [r_ip r_sp r_fp r_lr r_gp].
  split.
  - split; [apply Hin|]. split; [apply Hin|]. split; [apply Hin|].
    destruct lrname; [apply Hin|]. destruct Hc as [_ [_ [_ Hlr]]]. exact Hlr.
  - apply Forall_forall. intros x Hx. apply in_map_iff in Hx. destruct Hx as [n [Hn _]]. rewrite <- Hn. apply Hin.
Qed.
