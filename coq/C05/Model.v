(* C05/Model.v — executable model of the stack walker (definitions only; extracted).
   Mirrors, line by line where it matters:
     minidump-unwind/src/lib.rs    walk_stack (the `while has_new_frame` loop), StackFrame::from_context,
                                   CfiStackWalker::from_ctx_and_args (forwarded registers), get_caller_frame
     minidump-unwind/src/{x86,amd64,arm,arm64,arm64_old,mips}.rs
                                   get_caller_by_cfi / get_caller_by_frame_pointer / get_caller_by_scan,
                                   the cascade cfi > frame pointer > scan, the final checks of get_caller_frame
     minidump/src/minidump.rs      MinidumpMemoryBase::get_memory_at_address (checked_sub + scroll pread bounds),
                                   memory_range
     minidump/src/context.rs       register_is_valid (alias groups of ARM / ARM64)
   One parametric walker over an [arch] record; the instances at the end take every number
   from Gen/UnwindConsts.v (regenerated from the Rust sources on every run).

   Integer arithmetic: Rust's `+ - *` are chk_add/chk_sub/chk_mul (Debug = Panic, Release = wrap) at the
   operand width of the Rust expression; checked_* / saturating_* are themselves.
   External behaviour is a Section variable with its contract next to it.
   Used by C05 (well-formed stacks), C04 (recovery of laid-out stacks) and the frame bound of C03. *)
From RM Require Export Base.Word.
From RM Require Export Gen.UnwindConsts.
Open Scope Z_scope.

(* ------------------------------------------------------------------ frames *)
Inductive trust := TNone | TScan | TCfiScan | TFramePointer | TCfi | TPreWalked | TContext.

Definition is_context (t : trust) : bool := match t with TContext => true | _ => false end.

(* The part of a CPU context the walker itself reads or writes: instruction pointer, stack
   pointer, frame pointer, link register; [r_gp] is the rest of the register file (only ever
   copied or produced by the CFI oracle). *)
Record regs := { r_ip : Z; r_sp : Z; r_fp : Z; r_lr : Z; r_gp : list Z }.
Definition regs0 : regs := {| r_ip := 0; r_sp := 0; r_fp := 0; r_lr := 0; r_gp := [] |}.

(* MinidumpContextValidity: All | Some(HashSet<&'static str>); names are integers (see Gen/UnwindConsts.v) *)
Inductive validity := VAll | VSome (names : list Z).

Record frame := { f_instr : Z; f_resume : Z; f_trust : trust; f_regs : regs; f_valid : validity }.

(* StackFrame::from_context: instruction = resume_address = context.get_instruction_pointer() *)
Definition from_context (r : regs) (v : validity) (t : trust) : frame :=
  {| f_instr := r_ip r; f_resume := r_ip r; f_trust := t; f_regs := r; f_valid := v |}.
Definition set_instr (f : frame) (i : Z) : frame :=
  {| f_instr := i; f_resume := f_resume f; f_trust := f_trust f; f_regs := f_regs f; f_valid := f_valid f |}.

(* ------------------------------------------------------------------ stack memory *)
Record memory := { m_base : Z; m_bytes : list Z }.
Definition mem_len (m : memory) : Z := Z.of_nat (length (m_bytes m)).

Fixpoint le_value (bs : list Z) : Z :=
  match bs with [] => 0 | b :: t => b + 256 * le_value t end.

(* get_memory_at_address::<T>(addr): start = addr.checked_sub(base)?; bytes.pread_with::<T>(start, LE).ok()
   scroll: offset >= len -> BadOffset; size_of::<T>() > len - offset -> TooBig. *)
Definition read (m : memory) (n : Z) (addr : Z) : option Z :=
  match checked_sub addr (m_base m) with
  | None => None
  | Some start =>
      if start + n <=? mem_len m
      then Some (le_value (firstn (Z.to_nat n) (skipn (Z.to_nat start) (m_bytes m))))
      else None
  end.

(* walk_stack: stack_memory.memory_range() must be Some: size != 0 and base.checked_add(size) is Some.
   (size is the descriptor's data_size = bytes.len() for every memory read from a dump) *)
Definition mem_ok (m : memory) : bool :=
  negb (mem_len m =? 0) && (m_base m + mem_len m <? two64).

(* ------------------------------------------------------------------ architecture description *)
Inductive fp_kind := FpX86 | FpAmd64 | FpArm | FpArm64 | FpNone.
Inductive bp_kind := BpX86 | BpAmd64 | BpNone.

Record arch := {
  a_bits : Z;            (* width of `Pointer`, the type the technique arithmetic is done in *)
  a_slot_bits : Z;       (* width of a context register slot (MIPS: 64 also for the 32-bit ABI) *)
  a_pw : Z;              (* POINTER_WIDTH in bytes *)
  a_trunc : bool;        (* Mips32Context: get_register_always(..) as u32 *)
  a_ip_name : Z; a_sp_name : Z; a_fp_name : Z; a_lr_name : Z;   (* names the fp/scan techniques use *)
  a_cfi_sp_name : Z; a_cfi_ip_name : Z;   (* stack_pointer_register_name / instruction_pointer_register_name *)
  a_aliases : list (Z * Z);
  a_callee_saved : list Z;
  a_fwd_alias : bool;    (* callee_forwarded_regs asks register_is_valid (alias-aware) instead of looking the name up literally *)
  a_fp : fp_kind;
  a_fp_guard_words : Z;  (* last_bp >= MAX - POINTER_WIDTH * n *)
  a_bp : bp_kind;        (* frame-pointer recovery inside the scan *)
  a_max_gap : Z;
  a_scan_context : Z;    (* scan iterations when the callee is the context frame *)
  a_scan_default : Z;    (* ... otherwise *)
  a_scan_skip : Z;       (* bytes skipped before scanning a non-context callee (mips32: MIN_ARGS words) *)
  a_pre_ok : Z -> bool;  (* the architecture's own part of instruction_seems_valid *)
  a_canon_fp : Z -> bool;(* frame-pointer technique: acceptable return address *)
  a_strip : bool;        (* arm64 ptr_auth_strip *)
  a_cutoff : Z;          (* nullish instruction pointer *)
  a_adj : Z;             (* instruction = ip - adj *)
  a_leaf : bool;         (* sp may repeat between the context frame and its caller *)
  a_sp_stop_le : bool    (* the progress check is `caller sp <= callee sp` (true) or `<` (false) *)
}.

Definition OS_OTHER : Z := 0.
Definition OS_WINDOWS : Z := 1.
Definition OS_IOS : Z := 2.

(* Which of the repairs made to /repo are in the code being modelled.  [current_code] is the tree
   as it is now; the other settings are kept so that the refutations that led to the repairs stay
   checkable (c03_frame_bound_refuted_unguarded, c05_no_panic_amd64_refuted_unchecked). *)
Record fixes := { fx_sp_guard : bool;          (* walk_stack: produced frame's sp must lie in the stack memory to go on *)
                  fx_checked_resolve : bool }. (* amd64 resolve(): checked_add instead of + *)

Definition memb (x : Z) (l : list Z) : bool := existsb (Z.eqb x) l.

Section Walker.
Variable fx : fixes.
Variable p : profile.
Variable a : arch.
Variable os : Z.
Variable mem : memory.

(* ---- external behaviour ------------------------------------------------------------------
   module_at: MinidumpModuleList::module_at_address, Some (index of the module).
     Contract (C08, c08_lookup_sound): the returned module's own range contains the address.
   max_module_addr: modules.by_addr().next_back().map(base.saturating_add(size)).unwrap_or(0), a u64.
   cfi_walk callee grand_callee forwarded: SymbolProvider::walk_frame run on the CfiStackWalker built by
     from_ctx_and_args (caller_ctx = clone of the callee's, caller_validity = forwarded); Some (caller
     registers, caller validity set) when it returns Some(()).  Contract: every register it writes went
     through C::Register::try_from, so all values fit the slot width ([regs_wf]); C06/C07 model its inside.
   instr_valid: instruction_seems_valid_by_symbols (lib.rs), a pure function of the address for fixed
     modules and symbols. *)
Variable module_at : Z -> option Z.
Variable max_module_addr : Z.
Variable cfi_walk : frame -> option frame -> list Z -> option (regs * list Z).
Variable instr_valid : Z -> bool.

Definition W : Z := a_bits a.
Definition PW : Z := a_pw a.
Definition MAXW : Z := 2 ^ W - 1.

Definition view (x : Z) : Z := if a_trunc a then wrap32 x else x.

Definition alias_group (n : Z) : list Z :=
  n :: map snd (filter (fun pr => fst pr =? n) (a_aliases a))
    ++ map fst (filter (fun pr => snd pr =? n) (a_aliases a)).
(* CpuContext::register_is_valid for the names the walker asks about *)
Definition reg_valid (n : Z) (v : validity) : bool :=
  match v with
  | VAll => true
  | VSome l => existsb (fun m => memb m l) (alias_group n)
  end.

(* callee_forwarded_regs: the CALLEE_SAVED_REGS entries that are valid in the callee.  Two bodies exist in the sources
   (Gen/UnwindConsts.v <arch>_fwd_alias says which one an unwinder has): the literal lookup `which.contains(reg)` and, since
   the repair of F-C04a in arm / arm64, `ctx.register_is_valid(reg, valid)`, which knows the alias groups (fp ~ r11 / x29).
   With validity All both forward every entry (register_is_valid = memoize_register(reg).is_some(); the translator checks
   that every entry is a register name of the context). *)
Definition forwarded (v : validity) : list Z :=
  match v with
  | VAll => a_callee_saved a
  | VSome l => filter (fun n => if a_fwd_alias a then reg_valid n v else memb n l) (a_callee_saved a)
  end.

(* ---- arm64 ptr_auth_strip: mask = checked_next_power_of_two(max(2^47-1, max_module_addr)) - 1, or !0;
   ptr & (2^k - 1) is ptr mod 2^k *)
Definition next_pow2 (x : Z) : Z := 2 ^ Z.log2_up x.
Definition ptr_auth_strip (ptr : Z) : Z :=
  let max_addr := Z.max (2 ^ arm64_apple_bits - 1) max_module_addr in
  let hb := next_pow2 max_addr in
  if hb <? two64 then ptr mod hb else ptr.
Definition strip (x : Z) : Z := if a_strip a then ptr_auth_strip x else x.

(* ---- get_caller_by_cfi *)
Definition cfi_post (r : regs) (v : list Z) : regs :=
  {| r_ip := strip (r_ip r);
     r_sp := r_sp r;
     r_fp := if reg_valid (a_fp_name a) (VSome v) then strip (r_fp r) else r_fp r;
     r_lr := if reg_valid (a_lr_name a) (VSome v) then strip (r_lr r) else r_lr r;
     r_gp := r_gp r |}.

Definition by_cfi (callee : frame) (gc : option frame) : option (regs * list Z) :=
  if negb (reg_valid (a_sp_name a) (f_valid callee)) then None
  else match module_at (f_instr callee) with
       | None => None
       | Some _ =>
           match cfi_walk callee gc (forwarded (f_valid callee)) with
           | None => None
           | Some (r, v) => Some (cfi_post r v, v)
           end
       end.

(* ---- get_caller_by_frame_pointer *)
Definition fp_limit : Z := MAXW - PW * a_fp_guard_words a.

Definition fp_x86 (callee : frame) : outcome (option (regs * list Z)) :=
  if negb (reg_valid (a_fp_name a) (f_valid callee)) then Ret None else
  let last_bp := r_fp (f_regs callee) in
  if last_bp >=? fp_limit then Ret None else
  do a1 <- chk_add p 64 501 last_bp PW;                (* last_bp as u64 + POINTER_WIDTH as u64 *)
  match read mem PW a1 with None => Ret None | Some caller_ip =>
  match read mem PW last_bp with None => Ret None | Some caller_bp =>
  do caller_sp <- chk_add p W 502 last_bp (PW * 2);
  Ret (Some ({| r_ip := caller_ip; r_sp := caller_sp; r_fp := caller_bp; r_lr := 0; r_gp := [] |},
             [a_ip_name a; a_sp_name a; a_fp_name a]))
  end end.

Definition stack_seems_valid (caller_sp callee_sp : Z) : bool :=
  if caller_sp <=? callee_sp then false
  else match read mem PW caller_sp with Some _ => true | None => false end.

(* the `+` of amd64's resolve closure; after the repair of F-C03f it is checked_add, None = bail out *)
Definition radd (tag : Z) (x y : Z) : outcome (option Z) :=
  if fx_checked_resolve fx then Ret (checked_add W x y)
  else do r <- chk_add p W tag x y; Ret (Some r).

(* resolve(offset_max_scan, offset_step): for offset in 0..=offset_max_scan *)
Fixpoint resolve (n : nat) (idx step last_bp last_sp : Z) : outcome (option (Z * Z * Z)) :=
  match n with
  | O => Ret None
  | S n' =>
      do offset <- chk_mul p W 510 idx step;
      do t1 <- radd 511 last_bp offset;
      match t1 with None => Ret None | Some t1 =>
      do aip <- radd 512 t1 PW;
      match aip with None => Ret None | Some aip =>
      match read mem PW aip with None => Ret None | Some caller_ip =>
      match read mem PW t1 with None => Ret None | Some caller_bp =>
      do caller_sp <- radd 513 t1 (PW * 2);
      match caller_sp with None => Ret None | Some caller_sp =>
      if (caller_sp <=? last_bp) || (caller_bp <? caller_sp) then resolve n' (idx + 1) step last_bp last_sp
      else match read mem PW caller_bp with None => Ret None | Some _ =>
           if negb (a_canon_fp a caller_ip) then resolve n' (idx + 1) step last_bp last_sp
           else if negb (stack_seems_valid caller_sp last_sp) then resolve n' (idx + 1) step last_bp last_sp
           else Ret (Some (caller_ip, caller_bp, caller_sp))
           end
      end end end end end
  end.

Definition fp_amd64 (callee : frame) : outcome (option (regs * list Z)) :=
  if negb (reg_valid (a_fp_name a) (f_valid callee)) then Ret None else
  if negb (reg_valid (a_sp_name a) (f_valid callee)) then Ret None else
  let last_bp := r_fp (f_regs callee) in
  let last_sp := r_sp (f_regs callee) in
  if last_bp >=? fp_limit then Ret None else
  do r <- (if os =? OS_WINDOWS
           then resolve (Z.to_nat (amd64_win_scan_max + 1)) 0 (amd64_win_scan_step_words * PW) last_bp last_sp
           else resolve (Z.to_nat (amd64_other_scan_max + 1)) 0 amd64_other_scan_step last_bp last_sp);
  match r with
  | None => Ret None
  | Some (caller_ip, caller_bp, caller_sp) =>
      Ret (Some ({| r_ip := caller_ip; r_sp := caller_sp; r_fp := caller_bp; r_lr := 0; r_gp := [] |},
                 [a_ip_name a; a_sp_name a; a_fp_name a]))
  end.

(* arm (iOS only) and arm64 *)
Definition fp_arm (callee : frame) : outcome (option (regs * list Z)) :=
  if (match a_fp a with FpArm => negb (os =? OS_IOS) | _ => false end) then Ret None else
  if negb (reg_valid (a_fp_name a) (f_valid callee)) then Ret None else
  if negb (reg_valid (a_sp_name a) (f_valid callee)) then Ret None else
  let last_fp := r_fp (f_regs callee) in
  let last_sp := r_sp (f_regs callee) in
  if last_fp >=? fp_limit then Ret None else
  do t <- (if last_fp =? 0 then Ret (Some (0, 0, last_sp))
           else match read mem PW last_fp with None => Ret None | Some cfp =>
                do a1 <- chk_add p 64 521 last_fp PW;
                match read mem PW a1 with None => Ret None | Some cpc =>
                do csp <- chk_add p W 522 last_fp (PW * 2);
                Ret (Some (cfp, cpc, csp))
                end end);
  match t with
  | None => Ret None
  | Some (cfp, cpc, csp) =>
      let cfp := strip cfp in
      let cpc := strip cpc in
      if negb (a_canon_fp a cpc) then Ret None
      else Ret (Some ({| r_ip := cpc; r_sp := csp; r_fp := cfp; r_lr := 0; r_gp := [] |},
                      [a_ip_name a; a_fp_name a; a_sp_name a]))
  end.

Definition by_fp (callee : frame) : outcome (option (regs * list Z)) :=
  match a_fp a with
  | FpX86 => fp_x86 callee
  | FpAmd64 => fp_amd64 callee
  | FpArm => fp_arm callee
  | FpArm64 => fp_arm callee
  | FpNone => Ret None
  end.

(* ---- get_caller_by_scan *)
Definition instr_ok (x : Z) : bool := a_pre_ok a x && instr_valid x.

Definition readable (addr : Z) : bool := match read mem PW addr with Some _ => true | None => false end.

(* Ret None = the whole scan returns None (a `?`); Ret (Some obp) = go on with caller_bp = obp *)
Definition recover_bp (i addr_ip caller_sp : Z) (last_bp : option Z) : outcome (option (option Z)) :=
  match a_bp a with
  | BpNone => Ret (Some None)
  | BpX86 =>
      if 0 <? i then
        do addr_bp <- chk_sub p W 531 addr_ip PW;
        match read mem PW addr_bp with None => Ret None | Some bp =>
        if bp >? addr_ip then
          do gap <- chk_sub p W 532 bp addr_bp;
          if gap <=? a_max_gap a
          then Ret (Some (if readable bp then Some bp else None))
          else match last_bp with
               | Some lb => Ret (Some (if (lb >=? caller_sp) && readable lb then Some lb else None))
               | None => Ret (Some None)
               end
        else match last_bp with
             | Some lb => Ret (Some (if (lb >=? caller_sp) && readable lb then Some lb else None))
             | None => Ret (Some None)
             end
        end
      else Ret (Some None)
  | BpAmd64 =>
      match last_bp with
      | None => Ret (Some None)
      | Some lb =>
          if 0 <? i then
            do addr_bp <- chk_sub p W 533 addr_ip PW;
            match read mem PW addr_bp with None => Ret None | Some bp =>
            if (lb =? addr_bp) && (bp >? addr_ip) then
              do gap <- chk_sub p W 534 bp addr_bp;
              if gap <=? a_max_gap a
              then Ret (Some (if readable bp then Some bp else None))
              else Ret (Some (if lb >=? caller_sp then Some lb else None))
            else Ret (Some (if lb >=? caller_sp then Some lb else None))
            end
          else Ret (Some None)
      end
  end.

Fixpoint scan_loop (n : nat) (i last_sp : Z) (last_bp : option Z) : outcome (option (regs * list Z)) :=
  match n with
  | O => Ret None
  | S n' =>
      do off <- chk_mul p W 540 i PW;
      match checked_add W last_sp off with None => Ret None | Some addr_ip =>
      match read mem PW addr_ip with None => Ret None | Some caller_ip =>
      if instr_ok caller_ip then
        match checked_add W addr_ip PW with None => Ret None | Some caller_sp =>
        do obp <- recover_bp i addr_ip caller_sp last_bp;
        match obp with
        | None => Ret None
        | Some obp =>
            Ret (Some ({| r_ip := caller_ip; r_sp := caller_sp;
                          r_fp := match obp with Some b => b | None => 0 end; r_lr := 0; r_gp := [] |},
                       [a_ip_name a; a_sp_name a] ++ match obp with Some _ => [a_fp_name a] | None => [] end))
        end end
      else scan_loop n' (i + 1) last_sp last_bp
      end end
  end.

Definition by_scan (callee : frame) : outcome (option (regs * list Z)) :=
  if negb (reg_valid (a_sp_name a) (f_valid callee)) then Ret None else
  let last_bp := if reg_valid (a_fp_name a) (f_valid callee) then Some (r_fp (f_regs callee)) else None in
  let sp0 := view (r_sp (f_regs callee)) in
  if is_context (f_trust callee) then scan_loop (Z.to_nat (a_scan_context a)) 0 sp0 last_bp
  else match (if a_scan_skip a =? 0 then Some sp0 else checked_add W sp0 (a_scan_skip a)) with
       | None => Ret None
       | Some sp1 => scan_loop (Z.to_nat (a_scan_default a)) 0 sp1 last_bp
       end.

(* ---- get_caller_frame: cascade, then the end-of-stack checks and the call adjustment *)
Definition cascade (callee : frame) (gc : option frame) : outcome (option frame) :=
  match by_cfi callee gc with
  | Some (r, v) => Ret (Some (from_context r (VSome v) TCfi))
  | None =>
      do o <- by_fp callee;
      match o with
      | Some (r, v) => Ret (Some (from_context r (VSome v) TFramePointer))
      | None =>
          do o <- by_scan callee;
          match o with
          | Some (r, v) => Ret (Some (from_context r (VSome v) TScan))
          | None => Ret None
          end
      end
  end.

Definition sp_progress (callee f : frame) : bool :=
  let sp := r_sp (f_regs f) in
  let last_sp := r_sp (f_regs callee) in
  if (if a_sp_stop_le a then sp <=? last_sp else sp <? last_sp)
  then a_leaf a && is_context (f_trust callee) && (sp =? last_sp)
  else true.

Definition get_caller_frame (callee : frame) (gc : option frame) : outcome (option frame) :=
  do o <- cascade callee gc;
  match o with
  | None => Ret None
  | Some f =>
      if r_ip (f_regs f) <? a_cutoff a then Ret None
      else if negb (sp_progress callee f) then Ret None
      else do i <- chk_sub p 64 550 (r_ip (f_regs f)) (a_adj a);
           Ret (Some (set_instr f i))
  end.

(* ---- walk_stack *)
(* repair of F-C03a: a frame the walker produced itself is unwound further only while its stack
   pointer points into the stack memory: get_memory_at_address::<u8>(sp).is_some() *)
Definition sp_in_stack (f : frame) : bool :=
  match read mem 1 (r_sp (f_regs f)) with Some _ => true | None => false end.

Definition stop_here (callee : frame) : bool :=
  fx_sp_guard fx && negb (is_context (f_trust callee)) && negb (sp_in_stack callee).

Fixpoint walk (fuel : nat) (callee : frame) (gc : option frame) : outcome (list frame) :=
  match fuel with
  | O => OutOfFuel
  | S k =>
      if stop_here callee then Ret []
      else do o <- get_caller_frame callee gc;
           match o with
           | None => Ret []
           | Some f => do rest <- walk k f (Some callee); Ret (f :: rest)
           end
  end.

Definition walk_stack (fuel : nat) (r : regs) (v : validity) : outcome (list frame) :=
  let f0 := from_context r v TContext in
  if mem_ok mem then do rest <- walk fuel f0 None; Ret (f0 :: rest) else Ret [f0].

End Walker.

(* the fuel the frame bound of C03 speaks about *)
Definition fuel_for (m : memory) : nat := (length (m_bytes m) + 3)%nat.

(* ------------------------------------------------------------------ the code as it is now *)
Definition current_code : fixes := {| fx_sp_guard := true; fx_checked_resolve := true |}.
(* /repo before the repairs 06bc067 (F-C03a) and de31bed (F-C03f) *)
Definition code_before_fixes : fixes := {| fx_sp_guard := false; fx_checked_resolve := false |}.

(* ------------------------------------------------------------------ instances *)
Definition amd64_non_canonical (x : Z) : bool := (x >? amd64_noncanon_lo) && (x <? amd64_noncanon_hi).
Definition arm64_non_canonical (x : Z) : bool := negb ((arm64_canon_lo <=? x) && (x <=? arm64_canon_hi)).

Definition N_lr : Z := 27762.   (* "lr": unused by x86/amd64/arm/mips techniques, only a placeholder name *)

Definition x86 : arch := {|
  a_bits := x86_bits; a_slot_bits := x86_bits; a_pw := x86_pw; a_trunc := false;
  a_ip_name := x86_ip_name; a_sp_name := x86_sp_name; a_fp_name := x86_fp_name; a_lr_name := N_lr;
  a_cfi_sp_name := x86_sp_name; a_cfi_ip_name := x86_ip_name;
  a_aliases := []; a_callee_saved := x86_callee_saved; a_fwd_alias := x86_fwd_alias;
  a_fp := FpX86; a_fp_guard_words := x86_fp_guard_words; a_bp := BpX86; a_max_gap := x86_max_gap;
  a_scan_context := x86_scan_context; a_scan_default := x86_scan_default; a_scan_skip := 0;
  a_pre_ok := fun x => negb (x =? 0); a_canon_fp := fun _ => true; a_strip := false;
  a_cutoff := x86_ip_cutoff; a_adj := x86_adj; a_leaf := false; a_sp_stop_le := x86_sp_stop_le |}.

Definition amd64 : arch := {|
  a_bits := amd64_bits; a_slot_bits := amd64_bits; a_pw := amd64_pw; a_trunc := false;
  a_ip_name := amd64_ip_name; a_sp_name := amd64_sp_name; a_fp_name := amd64_fp_name; a_lr_name := N_lr;
  a_cfi_sp_name := amd64_sp_name; a_cfi_ip_name := amd64_ip_name;
  a_aliases := []; a_callee_saved := amd64_callee_saved; a_fwd_alias := amd64_fwd_alias;
  a_fp := FpAmd64; a_fp_guard_words := amd64_fp_guard_words; a_bp := BpAmd64; a_max_gap := amd64_max_gap;
  a_scan_context := amd64_scan_context; a_scan_default := amd64_scan_default; a_scan_skip := 0;
  a_pre_ok := fun x => negb (amd64_non_canonical x || (x =? 0));
  a_canon_fp := fun x => negb (amd64_non_canonical x); a_strip := false;
  a_cutoff := amd64_ip_cutoff; a_adj := amd64_adj; a_leaf := false; a_sp_stop_le := amd64_sp_stop_le |}.

Definition arm : arch := {|
  a_bits := arm_bits; a_slot_bits := arm_bits; a_pw := arm_pw; a_trunc := false;
  a_ip_name := arm_ip_name; a_sp_name := arm_sp_name; a_fp_name := arm_fp_name; a_lr_name := N_lr;
  a_cfi_sp_name := arm_cfi_sp_name; a_cfi_ip_name := arm_cfi_ip_name;
  a_aliases := arm_aliases; a_callee_saved := arm_callee_saved; a_fwd_alias := arm_fwd_alias;
  a_fp := FpArm; a_fp_guard_words := arm_fp_guard_words; a_bp := BpNone; a_max_gap := 0;
  a_scan_context := arm_scan_context; a_scan_default := arm_scan_default; a_scan_skip := 0;
  a_pre_ok := fun _ => true; a_canon_fp := fun _ => true; a_strip := false;
  a_cutoff := arm_ip_cutoff; a_adj := arm_adj; a_leaf := true; a_sp_stop_le := arm_sp_stop_le |}.

(* arm64_old.rs is arm64.rs with the other context type (the translator checks this textually) *)
Definition arm64 : arch := {|
  a_bits := arm64_bits; a_slot_bits := arm64_bits; a_pw := arm64_pw; a_trunc := false;
  a_ip_name := arm64_ip_name; a_sp_name := arm64_sp_name; a_fp_name := arm64_fp_name; a_lr_name := arm64_lr_name;
  a_cfi_sp_name := arm64_cfi_sp_name; a_cfi_ip_name := arm64_cfi_ip_name;
  a_aliases := arm64_aliases; a_callee_saved := arm64_callee_saved; a_fwd_alias := arm64_fwd_alias;
  a_fp := FpArm64; a_fp_guard_words := arm64_fp_guard_words; a_bp := BpNone; a_max_gap := 0;
  a_scan_context := arm64_scan_context; a_scan_default := arm64_scan_default; a_scan_skip := 0;
  a_pre_ok := fun x => negb (arm64_non_canonical x || (x =? 0));
  a_canon_fp := fun x => negb (arm64_non_canonical x); a_strip := true;
  a_cutoff := arm64_ip_cutoff; a_adj := arm64_adj; a_leaf := true; a_sp_stop_le := arm64_sp_stop_le |}.

Definition mips32 : arch := {|
  a_bits := 32; a_slot_bits := mips_slot_bits; a_pw := mips32_pw; a_trunc := true;
  a_ip_name := mips_ip_name; a_sp_name := mips_sp_name; a_fp_name := 26224; a_lr_name := N_lr;
  a_cfi_sp_name := mips_sp_name; a_cfi_ip_name := mips_ip_name;
  a_aliases := []; a_callee_saved := mips_callee_saved; a_fwd_alias := mips_fwd_alias;
  a_fp := FpNone; a_fp_guard_words := 2; a_bp := BpNone; a_max_gap := 0;
  a_scan_context := mips32_max_stack / mips32_pw;
  a_scan_default := mips32_max_stack / mips32_pw - mips32_min_args;
  a_scan_skip := mips32_min_args * mips32_pw;
  a_pre_ok := fun x => negb (x <? mips_instr_min); a_canon_fp := fun _ => true; a_strip := false;
  a_cutoff := mips_ip_cutoff; a_adj := mips_adj; a_leaf := true; a_sp_stop_le := mips_sp_stop_le |}.

Definition mips64 : arch := {|
  a_bits := 64; a_slot_bits := mips_slot_bits; a_pw := mips64_pw; a_trunc := false;
  a_ip_name := mips_ip_name; a_sp_name := mips_sp_name; a_fp_name := 26224; a_lr_name := N_lr;
  a_cfi_sp_name := mips_sp_name; a_cfi_ip_name := mips_ip_name;
  a_aliases := []; a_callee_saved := mips_callee_saved; a_fwd_alias := mips_fwd_alias;
  a_fp := FpNone; a_fp_guard_words := 2; a_bp := BpNone; a_max_gap := 0;
  a_scan_context := mips64_max_stack / mips64_pw;
  a_scan_default := mips64_max_stack / mips64_pw;
  a_scan_skip := 0;
  a_pre_ok := fun x => negb (x <? mips_instr_min); a_canon_fp := fun _ => true; a_strip := false;
  a_cutoff := mips_ip_cutoff; a_adj := mips_adj; a_leaf := true; a_sp_stop_le := mips_sp_stop_le |}.
