From Coq Require Extraction.
From Coq Require Import ExtrOcamlBasic.
From RM Require Import C05.Model C05.Driver.
Extraction "c05_model.ml" run_case frame_module frame_function trust_code f_instr f_resume f_trust f_regs f_valid r_ip r_sp r_fp r_lr r_gp
  s_func_lo parse_symfile.
