(* C05/ProofsValid.v — second pass of round 5.
   * the scan acceptance test: every <arch>::instruction_seems_valid front test and lib.rs
     instruction_seems_valid_by_symbols are re-emitted from the Rust text (Gen/UnwindTail.v); here they are proved equal to
     the parametric pieces of Model.v / Driver.v, and every frame a walk marks `scan` is proved to have passed them;
   * arm64's ptr_auth_strip, statement by statement as generated (chk_sub on `(1 << 47) - 1` and `high_bit - 1`, `ptr & mask`
     as Z.land), is proved never to trap and to equal Model.v's arithmetic form (ptr mod 2^k);
   * the FrameTrust each technique stamps on its frames, as read from the source, is the one the model's cascade uses;
   * stack memory edge cases: empty memory, memory whose end wraps past 2^64, memory ending at the very top. *)
From Coq Require Import Lia ZArith List Bool.
From RM Require Import C08.Model C05.Model C05.ModelTail C05.Proofs C05.ProofsTail C05.Driver C05.ProofsModules C05.ProofsCfi.
From RM Require C09.Grammar.
Import ListNotations.
Open Scope Z_scope.

(* ------------------------------------------------------------------ the front tests of instruction_seems_valid *)
Lemma pre_ok_pinned_x86 : forall x, a_pre_ok x86 x = x86_instr_pre_ok x.
Proof. intros x. unfold x86, x86_instr_pre_ok; cbn [a_pre_ok]. destruct (x =? 0); reflexivity. Qed.
Lemma pre_ok_pinned_amd64 : forall x, a_pre_ok amd64 x = amd64_instr_pre_ok x.
Proof.
  intros x. unfold amd64, amd64_instr_pre_ok, amd64_is_non_canonical, amd64_non_canonical, amd64_noncanon_lo, amd64_noncanon_hi; cbn [a_pre_ok].
  destruct (_ || _); reflexivity.
Qed.
Lemma pre_ok_pinned_arm : forall x, a_pre_ok arm x = arm_instr_pre_ok x.
Proof. intros x. reflexivity. Qed.
Lemma pre_ok_pinned_arm64 : forall x, a_pre_ok arm64 x = arm64_instr_pre_ok x.
Proof.
  intros x. unfold arm64, arm64_instr_pre_ok, arm64_is_non_canonical, arm64_non_canonical, arm64_canon_lo, arm64_canon_hi; cbn [a_pre_ok].
  destruct (_ || _); reflexivity.
Qed.
Lemma pre_ok_pinned_mips32 : forall x, a_pre_ok mips32 x = mips_instr_pre_ok x.
Proof. intros x. unfold mips32, mips_instr_pre_ok, mips_instr_min; cbn [a_pre_ok]. destruct (x <? 4096); reflexivity. Qed.
Lemma pre_ok_pinned_mips64 : forall x, a_pre_ok mips64 x = mips_instr_pre_ok x.
Proof. intros x. unfold mips64, mips_instr_pre_ok, mips_instr_min; cbn [a_pre_ok]. destruct (x <? 4096); reflexivity. Qed.

Lemma pre_ok_pinned : forall archid x, a_pre_ok (arch_of archid) x = pre_ok_of archid x.
Proof.
  intros id x. unfold arch_of, pre_ok_of.
  destruct (id =? 0); [apply pre_ok_pinned_x86|].
  destruct (id =? 1); [apply pre_ok_pinned_amd64|].
  destruct (id =? 2); [apply pre_ok_pinned_arm|].
  destruct (Z.eqb_spec id 3) as [->|N3]; [cbn; apply pre_ok_pinned_arm64|].
  destruct (id =? 4); cbn [orb]; [apply pre_ok_pinned_mips32|].
  destruct (id =? 5); [apply pre_ok_pinned_mips64 | apply pre_ok_pinned_arm64].
Qed.

(* the frame-pointer techniques of amd64 / arm64 use the same is_non_canonical *)
Lemma canon_fp_pinned : (forall x, a_canon_fp amd64 x = negb (amd64_is_non_canonical x)) /\
                        (forall x, a_canon_fp arm64 x = negb (arm64_is_non_canonical x)).
Proof. split; intros x; reflexivity. Qed.

(* ------------------------------------------------------------------ instruction_seems_valid_by_symbols *)
(* what the generated body says, spelled out for the driver's modules and symbol files *)
Lemma d_instr_valid_spec : forall mods x,
  d_instr_valid mods x =
  (let i := sat_sub x 1 in
   if i =? 0 then false
   else match mod_of mods i with
        | None => false
        | Some (b, _, None) => true
        | Some (b, _, Some s) =>
            let addr := i - b in
            match s_table s with
            | Some t => match rm_get (C09.Grammar.t_funcs t) addr with
                        | Some fn => negb (rle_empty (C09.Grammar.sf_name fn))
                        | None => false
                        end
            | None => (0 <? s_func_size s) && (s_func_lo s <=? addr) && (addr <? s_func_lo s + s_func_size s)
            end
        end).
Proof.
  intros mods x. unfold d_instr_valid, lib_isv_by_symbols, lib_isv_adjust, d_fill. cbv zeta.
  destruct (sat_sub x 1 =? 0); [reflexivity|].
  destruct (mod_of mods (sat_sub x 1)) as [[[b sz] [s|]]|]; try reflexivity.
  destruct (s_table s) as [t|].
  - destruct (rm_get (C09.Grammar.t_funcs t) (sat_sub x 1 - b)); reflexivity.
  - destruct ((0 <? s_func_size s) && (s_func_lo s <=? sat_sub x 1 - b) && (sat_sub x 1 - b <? s_func_lo s + s_func_size s)); reflexivity.
Qed.

(* an accepted address: at least 2, the address before it lies in a module, and that module has no symbol file
   (fill_symbol fails) or a function with a non-empty name covers that address *)
Lemma isv_by_symbols_true : forall (M : Type) (module_at : Z -> option M) (fill : M -> Z -> option (option bool)) x,
  lib_isv_by_symbols module_at fill x = true ->
  2 <= x /\ exists m, module_at (x - 1) = Some m /\ (fill m (x - 1) = None \/ fill m (x - 1) = Some (Some false)).
Proof.
  intros M ma fill x H. unfold lib_isv_by_symbols, lib_isv_adjust, sat_sub in H. cbv zeta in H.
  destruct (Z.max (x - 1) 0 =? 0) eqn:E; [discriminate|].
  apply Z.eqb_neq in E. assert (E' : Z.max (x - 1) 0 = x - 1) by lia. rewrite E' in H.
  split; [lia|].
  destruct (ma (x - 1)) as [m|]; [|discriminate].
  exists m. split; [reflexivity|].
  destruct (fill m (x - 1)) as [[[|]|]|]; cbn in H; try discriminate; auto.
Qed.

Lemma isv_by_symbols_rejects_low : forall (M : Type) (module_at : Z -> option M) fill x,
  x <= 1 -> lib_isv_by_symbols module_at fill x = false.
Proof.
  intros M ma fill x H. unfold lib_isv_by_symbols, lib_isv_adjust, sat_sub. cbv zeta.
  replace (Z.max (x - 1) 0) with 0 by lia. reflexivity.
Qed.

(* ------------------------------------------------------------------ every scan frame passed the acceptance test *)
Section ScanAccept.
Variable fx : fixes.
Variable p : profile.
Variable a : arch.
Variable os : Z.
Variable mem : memory.
Variable module_at : Z -> option Z.
Variable mma : Z.
Variable cfi_walk : frame -> option frame -> list Z -> option (regs * list Z).
Variable iv : Z -> bool.

Definition scan_accepted (f : frame) : Prop :=
  f_trust f = TScan -> a_pre_ok a (f_resume f) = true /\ iv (f_resume f) = true.

Lemma scan_loop_accepts : forall n i last_sp last_bp r v,
  scan_loop p a mem iv n i last_sp last_bp = Ret (Some (r, v)) -> instr_ok a iv (r_ip r) = true.
Proof.
  induction n as [|n IH]; intros i last_sp last_bp r v H; cbn [scan_loop] in H; [discriminate|].
  destruct (chk_mul p (W a) 540 i (PW a)) as [off| |t|]; cbn [obind] in H; try discriminate.
  destruct (checked_add (W a) last_sp off) as [addr_ip|]; [|discriminate].
  destruct (read mem (PW a) addr_ip) as [cip|]; [|discriminate].
  destruct (instr_ok a iv cip) eqn:Eok.
  - destruct (checked_add (W a) addr_ip (PW a)) as [csp|]; [|discriminate].
    destruct (recover_bp p a mem i addr_ip csp last_bp) as [[obp|]| |t|]; cbn [obind] in H; try discriminate.
    inversion H; subst. exact Eok.
  - exact (IH _ _ _ _ _ H).
Qed.

Lemma by_scan_accepts : forall callee r v,
  by_scan p a mem iv callee = Ret (Some (r, v)) -> instr_ok a iv (r_ip r) = true.
Proof.
  intros callee r v H. unfold by_scan in H. cbv zeta in H.
  destruct (negb (reg_valid a (a_sp_name a) (f_valid callee))); [discriminate|].
  destruct (is_context (f_trust callee)); [exact (scan_loop_accepts _ _ _ _ _ _ H)|].
  destruct (if a_scan_skip a =? 0 then Some (view a (r_sp (f_regs callee)))
            else checked_add (W a) (view a (r_sp (f_regs callee))) (a_scan_skip a)); [|discriminate].
  exact (scan_loop_accepts _ _ _ _ _ _ H).
Qed.

Lemma cascade_scan : forall callee gc f,
  cascade fx p a os mem module_at mma cfi_walk iv callee gc = Ret (Some f) ->
  f_trust f = TScan -> instr_ok a iv (f_resume f) = true.
Proof.
  intros callee gc f H T. unfold cascade in H.
  destruct (by_cfi a module_at mma cfi_walk callee gc) as [[r v]|].
  - inversion H; subst; cbn in T; discriminate.
  - destruct (by_fp fx p a os mem mma callee) as [[[r v]|]| |t|]; cbn [obind] in H; try discriminate.
    + inversion H; subst; cbn in T; discriminate.
    + destruct (by_scan p a mem iv callee) as [[[r v]|]| |t|] eqn:E; cbn [obind] in H; try discriminate.
      inversion H; subst. cbn [from_context f_resume]. exact (by_scan_accepts _ _ _ E).
Qed.

Lemma gcf_scan : forall callee gc f,
  get_caller_frame fx p a os mem module_at mma cfi_walk iv callee gc = Ret (Some f) ->
  f_trust f = TScan -> instr_ok a iv (f_resume f) = true.
Proof.
  intros callee gc f H T. unfold get_caller_frame in H.
  destruct (cascade fx p a os mem module_at mma cfi_walk iv callee gc) as [[f'|]| |t|] eqn:E; cbn [obind] in H; try discriminate.
  destruct (r_ip (f_regs f') <? a_cutoff a); [discriminate|].
  destruct (negb (sp_progress a callee f')); [discriminate|].
  destruct (chk_sub p 64 550 (r_ip (f_regs f')) (a_adj a)) as [i| |t|]; cbn [obind] in H; try discriminate.
  inversion H; subst. cbn [set_instr f_resume f_trust] in *. exact (cascade_scan _ _ _ E T).
Qed.

Lemma walk_accepts : forall fuel callee gc l,
  walk fx p a os mem module_at mma cfi_walk iv fuel callee gc = Ret l -> Forall scan_accepted l.
Proof.
  induction fuel as [|fuel IH]; intros callee gc l H; cbn [walk] in H; [discriminate|].
  destruct (stop_here fx mem callee); [inversion H; constructor|].
  destruct (get_caller_frame fx p a os mem module_at mma cfi_walk iv callee gc) as [[f|]| |t|] eqn:E; cbn [obind] in H; try discriminate.
  - destruct (walk fx p a os mem module_at mma cfi_walk iv fuel f (Some callee)) as [rest| |t|] eqn:E2; cbn [obind] in H; try discriminate.
    inversion H; subst. constructor; [|exact (IH _ _ _ E2)].
    intro T. pose proof (gcf_scan _ _ _ E T) as Q. unfold instr_ok in Q. apply andb_prop in Q. exact Q.
  - inversion H; constructor.
Qed.

Lemma stack_scan_accepts : forall fuel r v f0 rest,
  walk_stack fx p a os mem module_at mma cfi_walk iv fuel r v = Ret (f0 :: rest) -> Forall scan_accepted rest.
Proof.
  intros fuel r v f0 rest H. unfold walk_stack in H.
  destruct (mem_ok mem).
  - destruct (walk fx p a os mem module_at mma cfi_walk iv fuel (from_context r v TContext) None) as [l| |t|] eqn:E; cbn [obind] in H; try discriminate.
    inversion H; subst. exact (walk_accepts _ _ _ _ E).
  - inversion H; constructor.
Qed.

(* ---- stack memory edge cases: nothing but the context frame comes out of a memory walk_stack refuses *)
Lemma empty_stack_only_context : forall fuel r v,
  m_bytes mem = [] ->
  walk_stack fx p a os mem module_at mma cfi_walk iv fuel r v = Ret [from_context r v TContext].
Proof. intros fuel r v H. unfold walk_stack, mem_ok, mem_len. rewrite H. reflexivity. Qed.

Lemma wrapping_stack_only_context : forall fuel r v,
  two64 <= m_base mem + mem_len mem ->
  walk_stack fx p a os mem module_at mma cfi_walk iv fuel r v = Ret [from_context r v TContext].
Proof.
  intros fuel r v H. unfold walk_stack, mem_ok.
  destruct (m_base mem + mem_len mem <? two64) eqn:E; [apply Z.ltb_lt in E; lia|].
  rewrite andb_false_r. reflexivity.
Qed.
End ScanAccept.

(* the driver's instantiation: a scan frame's return address minus one lies inside a listed module that covers it, and that
   module has no symbols or a FUNC record covering that address *)
Definition scan_in_module (a : arch) (mods : list modspec) (f : frame) : Prop :=
  f_trust f = TScan ->
  a_pre_ok a (f_resume f) = true /\ 2 <= f_resume f /\
  exists b s y, mod_of mods (f_resume f - 1) = Some (b, s, y) /\ b <= f_resume f - 1 < b + s /\
                (y = None \/ d_fill (b, s, y) (f_resume f - 1) = Some (Some false)).

Lemma mod_of_covers : forall mods x b s y,
  Forall (fun m => 0 <= fst (fst m) /\ 0 <= snd (fst m)) mods ->
  mod_of mods x = Some (b, s, y) -> b <= x < b + s.
Proof.
  intros mods x b s y Hm H. unfold mod_of in H.
  destruct (d_module_at mods x) as [i|] eqn:E; [|discriminate].
  destruct (module_at_covers mods x i Hm E) as [b' [s' [y' [N C]]]].
  rewrite N in H. inversion H; subst. exact C.
Qed.

Lemma scan_accepted_in_module : forall a mods f,
  Forall (fun m => 0 <= fst (fst m) /\ 0 <= snd (fst m)) mods ->
  scan_accepted a (d_instr_valid mods) f -> scan_in_module a mods f.
Proof.
  intros a mods f Hm H T. destruct (H T) as [H1 H2]. split; [exact H1|].
  unfold d_instr_valid in H2. apply isv_by_symbols_true in H2. destruct H2 as [G [[[b s] y] [M F]]].
  split; [exact G|]. exists b, s, y. split; [exact M|]. split; [exact (mod_of_covers _ _ _ _ _ Hm M)|].
  destruct F as [F|F]; [|right; exact F].
  left. destruct y as [sr|]; [cbn in F; discriminate|reflexivity].
Qed.

Lemma driver_scan_in_module : forall a mem mods regnames lrname fx p os fuel r v f0 rest,
  Forall (fun m => 0 <= fst (fst m) /\ 0 <= snd (fst m)) mods ->
  run_profile a mem mods regnames lrname fx p os fuel r v = Ret (f0 :: rest) ->
  Forall (scan_in_module a mods) rest.
Proof.
  intros a mem mods regnames lrname fx p os fuel r v f0 rest Hm H. unfold run_profile in H.
  apply stack_scan_accepts in H.
  eapply Forall_impl; [|exact H]. intros f Hf. exact (scan_accepted_in_module a mods f Hm Hf).
Qed.

Lemma driver_gen_scan_in_module : forall archid mem mods regnames lrname p os fuel r v f0 rest,
  Forall (fun m => 0 <= fst (fst m) /\ 0 <= snd (fst m)) mods ->
  run_profile_gen (arch_of archid) mem mods regnames lrname (tail_of archid) p os fuel r v = Ret (f0 :: rest) ->
  Forall (scan_in_module (arch_of archid) mods) rest /\
  Forall (fun f => f_trust f = TScan -> pre_ok_of archid (f_resume f) = true) rest.
Proof.
  intros id mem mods regnames lrname p os fuel r v f0 rest Hm H. unfold run_profile_gen in H.
  rewrite generated_walk_is_model in H.
  pose proof (driver_scan_in_module (arch_of id) mem mods regnames lrname current_code p os fuel r v f0 rest Hm H) as Q.
  split; [exact Q|].
  eapply Forall_impl; [|exact Q]. intros f Hf T. rewrite <- pre_ok_pinned. exact (proj1 (Hf T)).
Qed.

(* ------------------------------------------------------------------ arm64 ptr_auth_strip as the source has it *)
Lemma strip_src_is_model : forall p module_end x, 0 <= x < two64 ->
  arm64_ptr_auth_strip_src p module_end x = Ret (ptr_auth_strip (arm64_max_module_addr module_end) x).
Proof.
  intros p me x Hx.
  unfold arm64_ptr_auth_strip_src, arm64_ptr_auth_strip_gen, ptr_auth_strip, next_pow2, checked_next_power_of_two.
  assert (E : chk_sub p 64 610 (Z.shiftl 1 47) 1 = Ret 140737488355327) by (destruct p; reflexivity).
  rewrite E. cbn [obind]. cbv zeta.
  replace (2 ^ arm64_apple_bits - 1) with 140737488355327 by reflexivity.
  set (M := Z.max 140737488355327 (arm64_max_module_addr me)).
  pose proof (Z.log2_up_nonneg M) as Hk.
  set (k := Z.log2_up M) in *.
  assert (Hpos : 0 < 2 ^ k) by (apply Z.pow_pos_nonneg; lia).
  destruct (2 ^ k <? two64) eqn:Hlt.
  - apply Z.ltb_lt in Hlt.
    rewrite chk_sub_ok by (change (2 ^ 64) with two64; lia).
    cbn [obind]. f_equal.
    rewrite Z.sub_1_r, <- Z.ones_equiv. apply Z.land_ones. exact Hk.
  - cbn [obind]. f_equal.
    change 18446744073709551615 with (Z.ones 64).
    rewrite Z.land_ones by lia. apply Z.mod_small. change (2 ^ 64) with two64. lia.
Qed.

Lemma strip_src_no_panic : forall p module_end x, 0 <= x < two64 ->
  exists y, arm64_ptr_auth_strip_src p module_end x = Ret y /\ 0 <= y <= x.
Proof.
  intros p me x Hx. rewrite strip_src_is_model by exact Hx. eexists. split; [reflexivity|].
  apply (strip_bounds (arm64_max_module_addr me) x). lia.
Qed.

(* the driver's max_module_addr is the generated expression over by_addr().next_back() *)
Lemma d_max_module_addr_gen : forall mods, d_max_module_addr mods = arm64_max_module_addr (d_last_module mods).
Proof. reflexivity. Qed.

(* ------------------------------------------------------------------ trusts, as the source stamps them *)
Lemma trusts_pinned :
  [x86_trust_cfi; x86_trust_fp; x86_trust_scan] = map trust_code [TCfi; TFramePointer; TScan] /\
  [amd64_trust_cfi; amd64_trust_fp; amd64_trust_scan] = map trust_code [TCfi; TFramePointer; TScan] /\
  [arm_trust_cfi; arm_trust_fp; arm_trust_scan] = map trust_code [TCfi; TFramePointer; TScan] /\
  [arm64_trust_cfi; arm64_trust_fp; arm64_trust_scan] = map trust_code [TCfi; TFramePointer; TScan] /\
  [mips_trust_cfi; mips_trust_scan32; mips_trust_scan64] = map trust_code [TCfi; TScan; TScan] /\
  lib_trust_context_frame = trust_code TContext /\
  arm64_strip_which_module_last = true.
Proof. repeat split; reflexivity. Qed.

(* ------------------------------------------------------------------ the acceptance test over C11's model of fill_symbol *)
From RM Require C11.Model C11.Proofs2 C11.Proofs5.
From RM Require Import C08.Proofs C05.ProofsFunction.

(* symbol_provider.fill_symbol(module i, frame at x) through C11's model of SymbolFile::fill_symbol: [files i] = None is a
   module the provider has no symbol file for (Err); otherwise Ok, with set_function(name, ..) called iff the model's o_func
   is set; C11 keeps names abstract, [empty_name] says which of them is the empty string (a FUNC line may have no name) *)
Definition c11_fill (q : profile) (empty_name : Z -> bool) (mods : list modspec) (files : Z -> option C11.Model.raw_file)
    (i : Z) (x : Z) : option (option bool) :=
  match nth_error mods (Z.to_nat i), files i with
  | Some (b, _, _), Some rf =>
      match C11.Model.symbolize q rf b x with
      | Ret o => Some (match C11.Model.o_func o with Some (name, _, _) => Some (empty_name name) | None => None end)
      | _ => None
      end
  | _, _ => None
  end.

Definition scan_function_ok (q : profile) (empty_name : Z -> bool) (mods : list modspec) (files : Z -> option C11.Model.raw_file) (f : frame) : Prop :=
  f_trust f = TScan ->
  exists i b s y, d_module_at mods (f_resume f - 1) = Some i /\ nth_error mods (Z.to_nat i) = Some (b, s, y) /\
    b <= f_resume f - 1 < b + s /\
    (files i = None \/
     exists rf o name base ps, files i = Some rf /\ C11.Model.symbolize q rf b (f_resume f - 1) = Ret o /\
       C11.Model.o_func o = Some (name, base, ps) /\ empty_name name = false /\ base <= f_resume f - 1 /\
       ((exists fr, In fr (C11.Model.rf_funcs rf) /\ name = C11.Model.fr_name fr /\ base = b + C11.Model.fr_addr fr /\
                    f_resume f - 1 < base + C11.Model.fr_size fr)
        \/ (exists pb, In pb (C11.Model.rf_publics rf) /\ name = C11.Model.p_name pb /\ base = b + C11.Model.p_addr pb))).

Lemma accepted_function : forall q empty_name mods files x,
  mods_wf mods -> (forall i rf, files i = Some rf -> C11.Proofs2.wf_file rf) -> x - 1 < 2 ^ 64 ->
  lib_isv_by_symbols (d_module_at mods) (c11_fill q empty_name mods files) x = true ->
  exists i b s y, d_module_at mods (x - 1) = Some i /\ nth_error mods (Z.to_nat i) = Some (b, s, y) /\
    b <= x - 1 < b + s /\
    (files i = None \/
     exists rf o name base ps, files i = Some rf /\ C11.Model.symbolize q rf b (x - 1) = Ret o /\
       C11.Model.o_func o = Some (name, base, ps) /\ empty_name name = false /\ base <= x - 1 /\
       ((exists fr, In fr (C11.Model.rf_funcs rf) /\ name = C11.Model.fr_name fr /\ base = b + C11.Model.fr_addr fr /\
                    x - 1 < base + C11.Model.fr_size fr)
        \/ (exists pb, In pb (C11.Model.rf_publics rf) /\ name = C11.Model.p_name pb /\ base = b + C11.Model.p_addr pb))).
Proof.
  intros q en mods files x Hw Hfiles Hx H.
  apply isv_by_symbols_true in H. destruct H as [_ [i [Hm F]]].
  destruct (module_at_covers mods (x - 1) i Hw Hm) as [b [s [y [Hn Hc]]]].
  exists i, b, s, y. split; [exact Hm|]. split; [exact Hn|]. split; [exact Hc|].
  unfold c11_fill in F. rewrite Hn in F.
  destruct (files i) as [rf|] eqn:Ef; [|left; reflexivity].
  right.
  assert (Hb : 0 <= b).
  { unfold mods_wf in Hw. rewrite Forall_forall in Hw. apply nth_error_In in Hn. apply Hw in Hn. cbn [fst snd] in Hn. lia. }
  destruct (C11.Proofs5.func_sound q rf b (x - 1) (Hfiles i rf Ef) Hb Hx) as [o [Es [_ G]]].
  rewrite Es in F.
  destruct (C11.Model.o_func o) as [[[name base] ps]|] eqn:Eo.
  - assert (En : en name = false) by (destruct F as [F|F]; [discriminate | inversion F; reflexivity]).
    exists rf, o, name, base, ps. split; [reflexivity|]. split; [exact Es|]. split; [exact Eo|]. split; [exact En|].
    destruct (G name base ps eq_refl) as [_ [Hle [[fr [Hin [Hcov [Hnm [Hbase _]]]]]|[pb [Hin [_ [Hnm [Hbase _]]]]]]]].
    + split; [exact Hle|]. left. exists fr. split; [exact Hin|]. split; [exact Hnm|]. split; [lia|].
      unfold C11.Model.func_covers in Hcov.
      destruct (mk_range (C11.Model.fr_addr fr) (C11.Model.fr_size fr)) as [rg|] eqn:Er; [|discriminate].
      pose proof (range_contains _ _ _ _ Er Hcov). lia.
    + split; [exact Hle|]. right. exists pb. split; [exact Hin|]. split; [exact Hnm|]. lia.
  - destruct F as [F|F]; discriminate.
Qed.

Lemma walk_resume_range :
  forall p a os mem module_at max_module_addr cfi_walk instr_valid,
    arch_ok a -> mem_wf mem ->
    (forall callee gc fwd r v, cfi_walk callee gc fwd = Some (r, v) -> regs_wf a r) ->
    forall fuel r v f0 rest, regs_wf a r ->
      walk_stack current_code p a os mem module_at max_module_addr cfi_walk instr_valid fuel r v = Ret (f0 :: rest) ->
      Forall (fun f => f_resume f < 2 ^ 64) rest.
Proof.
  intros p a os mem ma mm cw iv Ha Hm Hc fuel r v f0 rest Hr H. unfold walk_stack in H.
  destruct (mem_ok mem).
  - destruct (walk current_code p a os mem ma mm cw iv fuel (from_context r v TContext) None) as [l| |t|] eqn:E;
      cbn [obind] in H; try discriminate. inversion H; subst; clear H.
    assert (Hcw : frame_wf a (from_context r v TContext)) by exact Hr.
    destruct (walk_shape current_code p a os mem ma mm cw iv eq_refl Ha Hm Hc _ _ _ _ Hcw E) as [H1 _].
    eapply Forall_impl; [|exact H1]. intros f [Hwf [[_ [_ [Hres _]]] _]].
    destruct Hwf as [Hip _]. rewrite Hres. exact (proj2 (slot_lt_64 a _ Ha Hip)).
  - inversion H; subst. constructor.
Qed.

Lemma walk_scan_functions :
  forall p q empty_name a os mem max_module_addr cfi_walk (mods : list modspec) (files : Z -> option C11.Model.raw_file),
    arch_ok a -> mem_wf mem ->
    (forall callee gc fwd r v, cfi_walk callee gc fwd = Some (r, v) -> regs_wf a r) ->
    mods_wf mods -> (forall i rf, files i = Some rf -> C11.Proofs2.wf_file rf) ->
    forall fuel r v f0 rest, regs_wf a r ->
      walk_stack current_code p a os mem (d_module_at mods) max_module_addr cfi_walk
                 (lib_isv_by_symbols (d_module_at mods) (c11_fill q empty_name mods files)) fuel r v = Ret (f0 :: rest) ->
      Forall (scan_function_ok q empty_name mods files) rest.
Proof.
  intros p q en a os mem mm cw mods files Ha Hm Hc Hw Hfiles fuel r v f0 rest Hr H.
  pose proof (walk_resume_range p a os mem _ mm cw _ Ha Hm Hc fuel r v f0 rest Hr H) as R.
  pose proof (stack_scan_accepts _ _ _ _ _ _ _ _ _ _ _ _ _ _ H) as S.
  rewrite Forall_forall in *. intros f Hin T.
  destruct (S f Hin T) as [_ Hiv].
  apply (accepted_function q en mods files (f_resume f) Hw Hfiles); [pose proof (R f Hin); lia | exact Hiv].
Qed.

(* ------------------------------------------------------------------ memory_range, as minidump.rs has it *)
(* walk_stack only walks a stack memory whose memory_range() is Some: the model's [mem_ok] is exactly that, and the
   `- 1` of the inclusive end never traps *)
Lemma mem_ok_is_source : forall p m, mem_wf m ->
  minidump_memory_range p (m_base m) (mem_len m) =
  Ret (if mem_ok m then Some (m_base m, m_base m + mem_len m - 1) else None).
Proof.
  intros p m [Hb _]. unfold minidump_memory_range, mem_ok.
  assert (Hl : 0 <= mem_len m) by (unfold mem_len; lia).
  destruct (mem_len m =? 0) eqn:E0; cbn [negb andb]; [reflexivity|].
  apply Z.eqb_neq in E0.
  unfold checked_add. change (2 ^ 64) with two64.
  destruct (m_base m + mem_len m <? two64) eqn:E1; [|reflexivity].
  apply Z.ltb_lt in E1.
  rewrite chk_sub_ok by (change (2 ^ 64) with two64; lia).
  reflexivity.
Qed.
