(* C05/ProofsFunction.v — "a frame's module and function, when present, cover its address", end to end:
   every frame of a walk has an instruction below 2^64 (walker invariant), the module the walker attaches comes from
   C08's range map (module_at_covers), and the function fill_source_line_info attaches is what C11's model of
   SymbolFile::fill_symbol ([C11.Model.symbolize], the `base`/`name` of its [o_func]) returns for that module's symbol
   file at that instruction: a FUNC record of the file whose [addr, addr + size) contains the module-relative
   address, or a PUBLIC record at or below it (C11's func_sound). *)
From Coq Require Import Lia ZArith List Bool.
From RM Require Import C08.Model C08.Proofs C05.Model C05.ModelTail C05.Proofs C05.ProofsTail C05.Driver C05.ProofsModules.
From RM Require C11.Model C11.Proofs2 C11.Proofs5.
Import ListNotations.
Open Scope Z_scope.

Lemma range_contains : forall b s r x, mk_range b s = Some r -> contains r x = true -> b <= x < b + s.
Proof.
  intros b s r x Hm Hc. unfold mk_range in Hm. destruct (s =? 0); [discriminate|].
  destruct (checked_add 64 b s) as [e|] eqn:Ec; [|discriminate]. inversion Hm; subst r; clear Hm.
  unfold checked_add in Ec. destruct (b + s <? 2 ^ 64); inversion Ec; subst e.
  unfold contains in Hc. cbn [fst snd] in Hc. apply andb_prop in Hc. destruct Hc as [H1 H2].
  apply Z.leb_le in H1. apply Z.leb_le in H2. lia.
Qed.

(* ---- every frame of a walk has 0 <= instruction < 2^64 *)
Definition instr_in_range (f : frame) : Prop := 0 <= f_instr f < 2 ^ 64.

Lemma slot_lt_64 : forall a x, arch_ok a -> in_slot a x -> 0 <= x < 2 ^ 64.
Proof.
  intros a x Ha [H0 H1]. destruct Ha as [_ [[_ Hs] _]]. split; [assumption|].
  apply Z.lt_le_trans with (2 ^ a_slot_bits a); [assumption|]. apply Z.pow_le_mono_r; lia.
Qed.

Lemma walk_instr_range :
  forall p a os mem module_at max_module_addr cfi_walk instr_valid,
    arch_ok a -> mem_wf mem ->
    (forall callee gc fwd r v, cfi_walk callee gc fwd = Some (r, v) -> regs_wf a r) ->
    forall fuel r v fs, regs_wf a r ->
      walk_stack current_code p a os mem module_at max_module_addr cfi_walk instr_valid fuel r v = Ret fs ->
      Forall instr_in_range fs.
Proof.
  intros p a os mem ma mm cw iv Ha Hm Hc fuel r v fs Hr H. unfold walk_stack in H.
  assert (H0 : instr_in_range (from_context r v TContext)).
  { unfold instr_in_range, from_context; cbn [f_instr]. destruct Hr as [Hip _]. exact (slot_lt_64 a _ Ha Hip). }
  destruct (mem_ok mem).
  - destruct (walk current_code p a os mem ma mm cw iv fuel (from_context r v TContext) None) as [rest| |t|] eqn:E;
      cbn [obind] in H; try discriminate. inversion H; subst; clear H.
    assert (Hcw : frame_wf a (from_context r v TContext)) by exact Hr.
    destruct (walk_shape current_code p a os mem ma mm cw iv eq_refl Ha Hm Hc _ _ _ _ Hcw E) as [H1 _].
    constructor; [exact H0|].
    eapply Forall_impl; [|exact H1]. intros f [Hwf [[Hcut [Hi [Hres _]]] _]].
    destruct Hwf as [Hip _]. pose proof (slot_lt_64 a _ Ha Hip) as Hb.
    destruct Ha as [_ [_ [_ [_ [_ [_ [_ [_ [_ [Hadj _]]]]]]]]]].
    unfold instr_in_range. rewrite Hi, Hres. rewrite Hres in Hcut. lia.
  - inversion H; subst. constructor; [exact H0|constructor].
Qed.

(* ---- module + function of one frame *)
Definition function_ok (b : Z) (rf : C11.Model.raw_file) (f : frame) (o : C11.Model.sym_out) : Prop :=
  forall name base ps, C11.Model.o_func o = Some (name, base, ps) ->
    base <= f_instr f /\
    ((exists fr, In fr (C11.Model.rf_funcs rf) /\ name = C11.Model.fr_name fr /\ base = b + C11.Model.fr_addr fr /\
                 f_instr f < base + C11.Model.fr_size fr)
     \/ (exists pb, In pb (C11.Model.rf_publics rf) /\ name = C11.Model.p_name pb /\ base = b + C11.Model.p_addr pb)).

Lemma function_covers : forall p (mods : list modspec) f i rf,
  mods_wf mods -> f_instr f < 2 ^ 64 -> C11.Proofs2.wf_file rf ->
  frame_module mods f = Some i ->
  exists b s y, nth_error mods (Z.to_nat i) = Some (b, s, y) /\ b <= f_instr f < b + s /\
    exists o, C11.Model.symbolize p rf b (f_instr f) = Ret o /\ function_ok b rf f o.
Proof.
  intros p mods f i rf Hw Hi Hrf Hm.
  destruct (module_at_covers mods (f_instr f) i Hw Hm) as [b [s [y [Hn Hc]]]].
  exists b, s, y. split; [exact Hn|]. split; [exact Hc|].
  assert (Hb : 0 <= b).
  { unfold mods_wf in Hw. rewrite Forall_forall in Hw. apply nth_error_In in Hn. apply Hw in Hn. cbn [fst snd] in Hn. lia. }
  destruct (C11.Proofs5.func_sound p rf b (f_instr f) Hrf Hb Hi) as [o [Es [_ F]]].
  exists o. split; [exact Es|]. intros name base ps Ho.
  destruct (F name base ps Ho) as [_ [Hle [[fr [Hin [Hcov [Hnm [Hbase _]]]]]|[pb [Hin [_ [Hnm [Hbase _]]]]]]]].
  - split; [exact Hle|]. left. exists fr. split; [exact Hin|]. split; [exact Hnm|]. split; [lia|].
    unfold C11.Model.func_covers in Hcov.
    destruct (mk_range (C11.Model.fr_addr fr) (C11.Model.fr_size fr)) as [r|] eqn:Er; [|discriminate].
    pose proof (range_contains _ _ _ _ Er Hcov). lia.
  - split; [exact Hle|]. right. exists pb. split; [exact Hin|]. split; [exact Hnm|]. lia.
Qed.

Lemma walk_functions_cover :
  forall p q a os mem module_at max_module_addr cfi_walk instr_valid (mods : list modspec) (files : Z -> C11.Model.raw_file),
    arch_ok a -> mem_wf mem ->
    (forall callee gc fwd r v, cfi_walk callee gc fwd = Some (r, v) -> regs_wf a r) ->
    mods_wf mods -> (forall i, C11.Proofs2.wf_file (files i)) ->
    forall fuel r v fs, regs_wf a r ->
      walk_stack current_code p a os mem module_at max_module_addr cfi_walk instr_valid fuel r v = Ret fs ->
      Forall (fun f => forall i, frame_module mods f = Some i ->
                exists b s y, nth_error mods (Z.to_nat i) = Some (b, s, y) /\ b <= f_instr f < b + s /\
                  exists o, C11.Model.symbolize q (files i) b (f_instr f) = Ret o /\ function_ok b (files i) f o) fs.
Proof.
  intros p q a os mem ma mm cw iv mods files Ha Hm Hc Hmods Hfiles fuel r v fs Hr H.
  pose proof (walk_instr_range p a os mem ma mm cw iv Ha Hm Hc fuel r v fs Hr H) as HR.
  eapply Forall_impl; [|exact HR]. intros f [_ Hf] i Hi.
  exact (function_covers q mods f i (files i) Hmods Hf (Hfiles i) Hi).
Qed.
