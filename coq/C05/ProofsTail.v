(* C05/ProofsTail.v — the generated guard expressions (Gen/UnwindTail.v) against the parametric walker of Model.v:
   each generated check sequence equals [gcf_tail] of its architecture description for ALL inputs, the generated
   stop guard equals the one of Model.v, hence the walker the driver runs ([walk_stack_gen]) is [walk_stack
   current_code] and inherits every walker theorem; plus what the generated sequences guarantee by themselves. *)
From Coq Require Import Lia ZArith List Bool.
From RM Require Import C05.Model C05.ModelTail C05.Proofs.
From RM Require C05.Driver.
Import ListNotations.
Open Scope Z_scope.

(* ---- generated = parametric, for all profiles / trusts / values (no range hypothesis) *)
Ltac pin_tac :=
  intros p c s ip sp;
  cbv [x86_gcf_tail amd64_gcf_tail arm_gcf_tail arm64_gcf_tail mips_gcf_tail gcf_tail
       x86 amd64 arm arm64 mips32 mips64 a_cutoff a_sp_stop_le a_leaf a_adj
       x86_ip_cutoff amd64_ip_cutoff arm_ip_cutoff arm64_ip_cutoff mips_ip_cutoff
       x86_sp_stop_le amd64_sp_stop_le arm_sp_stop_le arm64_sp_stop_le mips_sp_stop_le
       x86_adj amd64_adj arm_adj arm64_adj mips_adj];
  destruct (ip <? 4096); [reflexivity|];
  destruct (sp <=? s); destruct c; destruct (sp =? s); reflexivity.

Lemma tail_pinned_x86 : forall p c s ip sp, x86_gcf_tail p c s ip sp = gcf_tail x86 p c s ip sp.
Proof. pin_tac. Qed.
Lemma tail_pinned_amd64 : forall p c s ip sp, amd64_gcf_tail p c s ip sp = gcf_tail amd64 p c s ip sp.
Proof. pin_tac. Qed.
Lemma tail_pinned_arm : forall p c s ip sp, arm_gcf_tail p c s ip sp = gcf_tail arm p c s ip sp.
Proof. pin_tac. Qed.
Lemma tail_pinned_arm64 : forall p c s ip sp, arm64_gcf_tail p c s ip sp = gcf_tail arm64 p c s ip sp.
Proof. pin_tac. Qed.
Lemma tail_pinned_mips32 : forall p c s ip sp, mips_gcf_tail p c s ip sp = gcf_tail mips32 p c s ip sp.
Proof. pin_tac. Qed.
Lemma tail_pinned_mips64 : forall p c s ip sp, mips_gcf_tail p c s ip sp = gcf_tail mips64 p c s ip sp.
Proof. pin_tac. Qed.

Lemma stop_pinned : forall c r, lib_walk_stop c r = negb c && negb r.
Proof. intros [|] [|]; reflexivity. Qed.

Lemma generated_code_current : generated_code = current_code.
Proof. reflexivity. Qed.

(* ---- the walker with a pluggable tail / stop guard is the walker of Model.v when both are the parametric ones *)
Section Eq.
Variable fx : fixes.
Variable p : profile.
Variable a : arch.
Variable os : Z.
Variable mem : memory.
Variable module_at : Z -> option Z.
Variable max_module_addr : Z.
Variable cfi_walk : frame -> option frame -> list Z -> option (regs * list Z).
Variable instr_valid : Z -> bool.
Variable tail : tail_fn.
Variable stop : bool -> bool -> bool.
Hypothesis Htail : forall p c s ip sp, tail p c s ip sp = gcf_tail a p c s ip sp.
Hypothesis Hstop : forall c r, stop c r = negb c && negb r.
Hypothesis Hfx : fx_sp_guard fx = true.

Lemma gcf_t_eq : forall callee gc,
  get_caller_frame_t fx p a os mem module_at max_module_addr cfi_walk instr_valid tail callee gc =
  get_caller_frame fx p a os mem module_at max_module_addr cfi_walk instr_valid callee gc.
Proof.
  intros callee gc. unfold get_caller_frame_t, get_caller_frame.
  destruct (cascade fx p a os mem module_at max_module_addr cfi_walk instr_valid callee gc) as [[f|]| |t|];
    cbn [obind]; try reflexivity.
  rewrite Htail. unfold gcf_tail, sp_progress.
  destruct (r_ip (f_regs f) <? a_cutoff a); [reflexivity|]. cbv zeta.
  destruct (negb _); [reflexivity|].
  destruct (chk_sub p 64 550 (r_ip (f_regs f)) (a_adj a)); reflexivity.
Qed.

Lemma walk_t_eq : forall fuel callee gc,
  walk_t fx p a os mem module_at max_module_addr cfi_walk instr_valid tail stop fuel callee gc =
  walk fx p a os mem module_at max_module_addr cfi_walk instr_valid fuel callee gc.
Proof.
  induction fuel as [|k IH]; intros callee gc; cbn [walk_t walk]; [reflexivity|].
  unfold stop_here_t, stop_here. rewrite Hstop, Hfx. cbn [andb].
  destruct (negb (is_context (f_trust callee)) && negb (sp_in_stack mem callee)); [reflexivity|].
  rewrite gcf_t_eq.
  destruct (get_caller_frame fx p a os mem module_at max_module_addr cfi_walk instr_valid callee gc) as [[f|]| |t|];
    cbn [obind]; try reflexivity.
  rewrite IH. reflexivity.
Qed.

Lemma walk_stack_t_eq : forall fuel r v,
  walk_stack_t fx p a os mem module_at max_module_addr cfi_walk instr_valid tail stop fuel r v =
  walk_stack fx p a os mem module_at max_module_addr cfi_walk instr_valid fuel r v.
Proof.
  intros fuel r v. unfold walk_stack_t, walk_stack. cbv zeta.
  destruct (mem_ok mem); [|reflexivity]. rewrite walk_t_eq. reflexivity.
Qed.
End Eq.

Lemma walk_stack_gen_eq : forall a tail,
  (forall p c s ip sp, tail p c s ip sp = gcf_tail a p c s ip sp) ->
  forall p os mem module_at max_module_addr cfi_walk instr_valid fuel r v,
    walk_stack_gen p a tail os mem module_at max_module_addr cfi_walk instr_valid fuel r v =
    walk_stack current_code p a os mem module_at max_module_addr cfi_walk instr_valid fuel r v.
Proof.
  intros a tail Ht p os mem ma mm cw iv fuel r v. unfold walk_stack_gen. rewrite generated_code_current.
  apply walk_stack_t_eq; [exact Ht | exact stop_pinned | reflexivity].
Qed.

(* ---- every walker fact, for the walker made of the generated pieces *)
Definition walker_facts_gen (a : arch) (tail : tail_fn) : Prop :=
  forall p os mem module_at max_module_addr cfi_walk instr_valid,
    mem_wf mem ->
    (forall callee gc fwd r v, cfi_walk callee gc fwd = Some (r, v) -> regs_wf a r) ->
    forall r v, regs_wf a r ->
      (forall fuel fs, walk_stack_gen p a tail os mem module_at max_module_addr cfi_walk instr_valid fuel r v = Ret fs ->
                       wellformed_walk a mem r v fs) /\
      (forall fuel, (exists fs, walk_stack_gen p a tail os mem module_at max_module_addr cfi_walk instr_valid fuel r v = Ret fs) \/
                    walk_stack_gen p a tail os mem module_at max_module_addr cfi_walk instr_valid fuel r v = OutOfFuel) /\
      (exists fs, walk_stack_gen p a tail os mem module_at max_module_addr cfi_walk instr_valid (fuel_for mem) r v = Ret fs /\
                  (length fs <= length (m_bytes mem) + 2)%nat).

Lemma walker_facts_gen_of : forall a tail,
  arch_ok a -> (forall p c s ip sp, tail p c s ip sp = gcf_tail a p c s ip sp) -> walker_facts_gen a tail.
Proof.
  intros a tail Ha Ht p os mem ma mm cw iv Hm Hc r v Hr.
  destruct (walker_facts_of_ok a Ha p os mem ma mm cw iv Hm Hc r v Hr) as [H1 [H2 H3]].
  split; [|split].
  - intros fuel fs H. rewrite (walk_stack_gen_eq a tail Ht) in H. exact (H1 fuel fs H).
  - intros fuel. rewrite (walk_stack_gen_eq a tail Ht). exact (H2 fuel).
  - rewrite (walk_stack_gen_eq a tail Ht). exact H3.
Qed.

(* ---- what a check sequence guarantees by itself: it never traps on a 64-bit instruction pointer, and when it lets
   the frame through, ip >= cut-off, instruction = ip - adjustment, and the stack pointer grew (or, on a leaf
   architecture, stayed equal with the callee being the context frame) *)
Definition tail_sound (tail : tail_fn) (cutoff adj : Z) (leaf : bool) : Prop :=
  forall p c s ip sp, 0 <= ip < 2 ^ 64 ->
    (exists o, tail p c s ip sp = Ret o) /\
    (forall i, tail p c s ip sp = Ret (Some i) ->
       cutoff <= ip /\ i = ip - adj /\ (s < sp \/ (leaf = true /\ c = true /\ s = sp))).

Lemma gcf_tail_sound : forall a, arch_ok a -> tail_sound (gcf_tail a) (a_cutoff a) (a_adj a) (a_leaf a).
Proof.
  intros a Ha p c s ip sp Hip.
  destruct Ha as [_ [_ [_ [_ [_ [_ [_ [_ [_ [Hadj Hle]]]]]]]]]].
  unfold gcf_tail. rewrite Hle.
  destruct (ip <? a_cutoff a) eqn:E1.
  - split; [eexists; reflexivity | intros i H; discriminate H].
  - apply Z.ltb_ge in E1.
    destruct (sp <=? s) eqn:E2.
    + destruct (a_leaf a && c && (sp =? s)) eqn:E3; cbn [negb].
      * rewrite chk_sub_ok by lia. cbn [obind]. split; [eexists; reflexivity|].
        intros i H. inversion H; subst. split; [lia|]. split; [reflexivity|]. right.
        apply andb_true_iff in E3. destruct E3 as [E3 E4]. apply andb_true_iff in E3. destruct E3 as [E3 E5].
        apply Z.eqb_eq in E4. repeat split; auto.
      * split; [eexists; reflexivity | intros i H; discriminate H].
    + apply Z.leb_gt in E2. cbn [negb]. rewrite chk_sub_ok by lia. cbn [obind]. split; [eexists; reflexivity|].
      intros i H. inversion H; subst. split; [lia|]. split; [reflexivity|]. left. lia.
Qed.

Lemma tail_sound_ext : forall t1 t2 cutoff adj leaf,
  (forall p c s ip sp, t1 p c s ip sp = t2 p c s ip sp) -> tail_sound t2 cutoff adj leaf -> tail_sound t1 cutoff adj leaf.
Proof. intros t1 t2 cu ad lf He H p c s ip sp Hip. rewrite He. exact (H p c s ip sp Hip). Qed.

Lemma tail_sound_x86 : tail_sound x86_gcf_tail 4096 1 false.
Proof. exact (tail_sound_ext _ _ _ _ _ tail_pinned_x86 (gcf_tail_sound x86 arch_ok_x86)). Qed.
Lemma tail_sound_amd64 : tail_sound amd64_gcf_tail 4096 1 false.
Proof. exact (tail_sound_ext _ _ _ _ _ tail_pinned_amd64 (gcf_tail_sound amd64 arch_ok_amd64)). Qed.
Lemma tail_sound_arm : tail_sound arm_gcf_tail 4096 2 true.
Proof. exact (tail_sound_ext _ _ _ _ _ tail_pinned_arm (gcf_tail_sound arm arch_ok_arm)). Qed.
Lemma tail_sound_arm64 : tail_sound arm64_gcf_tail 4096 4 true.
Proof. exact (tail_sound_ext _ _ _ _ _ tail_pinned_arm64 (gcf_tail_sound arm64 arch_ok_arm64)). Qed.
Lemma tail_sound_mips : tail_sound mips_gcf_tail 4096 8 true.
Proof. exact (tail_sound_ext _ _ _ _ _ tail_pinned_mips64 (gcf_tail_sound mips64 arch_ok_mips64)). Qed.

Lemma tail_strict : forall tail cutoff adj, tail_sound tail cutoff adj false ->
  forall p c s ip sp, 0 <= ip < 2 ^ 64 ->
    (exists o, tail p c s ip sp = Ret o) /\
    (forall i, tail p c s ip sp = Ret (Some i) -> cutoff <= ip /\ i = ip - adj /\ s < sp).
Proof.
  intros tail cu ad H p c s ip sp Hip. destruct (H p c s ip sp Hip) as [H1 H2]. split; [exact H1|].
  intros i E. destruct (H2 i E) as [A [B [C|[C _]]]]; [auto | discriminate C].
Qed.
Lemma tail_leaf : forall tail cutoff adj, tail_sound tail cutoff adj true ->
  forall p c s ip sp, 0 <= ip < 2 ^ 64 ->
    (exists o, tail p c s ip sp = Ret o) /\
    (forall i, tail p c s ip sp = Ret (Some i) -> cutoff <= ip /\ i = ip - adj /\ (s < sp \/ (c = true /\ s = sp))).
Proof.
  intros tail cu ad H p c s ip sp Hip. destruct (H p c s ip sp Hip) as [H1 H2]. split; [exact H1|].
  intros i E. destruct (H2 i E) as [A [B [C|[_ C]]]]; auto.
Qed.

Lemma generated_walk_is_model :
  forall archid p os mem module_at max_module_addr cfi_walk instr_valid fuel r v,
    walk_stack_gen p (Driver.arch_of archid) (tail_of archid) os mem module_at max_module_addr cfi_walk instr_valid fuel r v =
    walk_stack current_code p (Driver.arch_of archid) os mem module_at max_module_addr cfi_walk instr_valid fuel r v.
Proof.
  intros archid. unfold Driver.arch_of, tail_of.
  destruct (Z.eqb_spec archid 0); [apply walk_stack_gen_eq; exact tail_pinned_x86|].
  destruct (Z.eqb_spec archid 1); [apply walk_stack_gen_eq; exact tail_pinned_amd64|].
  destruct (Z.eqb_spec archid 2); [apply walk_stack_gen_eq; exact tail_pinned_arm|].
  destruct (Z.eqb_spec archid 3) as [E3|N3].
  - subst archid. cbn. apply walk_stack_gen_eq; exact tail_pinned_arm64.
  - destruct (Z.eqb_spec archid 4); [cbn [orb]; apply walk_stack_gen_eq; exact tail_pinned_mips32|].
    destruct (Z.eqb_spec archid 5); [cbn [orb]; apply walk_stack_gen_eq; exact tail_pinned_mips64|].
    cbn [orb]. apply walk_stack_gen_eq; exact tail_pinned_arm64.
Qed.

(* ---- lib.rs pieces the statements lean on: the context frame's instruction / resume address, the address the module is
   looked up with and the address fill_symbol symbolizes (all three re-emitted from the Rust text) *)
Lemma lib_pinned :
  (forall r v t, f_instr (from_context r v t) = lib_from_context_instruction (r_ip r) (r_sp r) /\
                 f_resume (from_context r v t) = lib_from_context_resume (r_ip r) (r_sp r)) /\
  (forall mods f, Driver.frame_module mods f = Driver.d_module_at mods (lib_module_lookup_address (f_instr f) (f_resume f))) /\
  (forall f, lib_symbol_lookup_address (f_instr f) (f_resume f) = f_instr f).
Proof. split; [intros; split; reflexivity|]. split; intros; reflexivity. Qed.
