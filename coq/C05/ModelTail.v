(* C05/ModelTail.v — the walker of C05/Model.v with the end-of-get_caller_frame checks and the stop guard of
   walk_stack taken from Gen/UnwindTail.v (definitions only; extracted: this is the walker the correspondence run
   executes).  Gen/UnwindTail.v is re-emitted from the Rust text on every run, statement by statement and operator
   by operator, so an edit to `if frame.context.get_instruction_pointer() < 4096`, to the sp comparison, to the
   is_leaf conjunction, to `frame.instruction = ip - N`, to the order of these statements or to the stop guard of
   walk_stack changes the definitions the theorems of C05/Properties.v (the c05_tail_ and c05_generated_ theorems) are about. *)
From RM Require Export C05.Model.
From RM Require Export Gen.UnwindTail.
Open Scope Z_scope.

(* the end of get_caller_frame of Model.v as a function of what it reads (same tests, same order, same tag) *)
Definition gcf_tail (a : arch) (p : profile) (callee_is_context : bool) (callee_sp caller_ip caller_sp : Z) : outcome (option Z) :=
  if caller_ip <? a_cutoff a then Ret None
  else if negb (if (if a_sp_stop_le a then caller_sp <=? callee_sp else caller_sp <? callee_sp)
                then a_leaf a && callee_is_context && (caller_sp =? callee_sp)
                else true) then Ret None
  else do i <- chk_sub p 64 550 caller_ip (a_adj a); Ret (Some i).

Definition tail_fn := profile -> bool -> Z -> Z -> Z -> outcome (option Z).

(* the generated check sequence of each architecture *)
Definition tail_of (archid : Z) : tail_fn :=
  if archid =? 0 then x86_gcf_tail else if archid =? 1 then amd64_gcf_tail else if archid =? 2 then arm_gcf_tail
  else if (archid =? 4) || (archid =? 5) then mips_gcf_tail else arm64_gcf_tail.

(* which repairs the code has, as read from the source: the stop guard is lib_walk_stop itself (below),
   the arithmetic of amd64's resolve() is amd64_resolve_checked *)
Definition generated_code : fixes := {| fx_sp_guard := lib_walk_stop false false; fx_checked_resolve := amd64_resolve_checked |}.

Section WalkerT.
Variable fx : fixes.
Variable p : profile.
Variable a : arch.
Variable os : Z.
Variable mem : memory.
Variable module_at : Z -> option Z.
Variable max_module_addr : Z.
Variable cfi_walk : frame -> option frame -> list Z -> option (regs * list Z).
Variable instr_valid : Z -> bool.
Variable tail : tail_fn.
Variable stop : bool -> bool -> bool.

Definition get_caller_frame_t (callee : frame) (gc : option frame) : outcome (option frame) :=
  do o <- cascade fx p a os mem module_at max_module_addr cfi_walk instr_valid callee gc;
  match o with
  | None => Ret None
  | Some f =>
      do oi <- tail p (is_context (f_trust callee)) (r_sp (f_regs callee)) (r_ip (f_regs f)) (r_sp (f_regs f));
      match oi with
      | None => Ret None
      | Some i => Ret (Some (set_instr f i))
      end
  end.

Definition stop_here_t (callee : frame) : bool := stop (is_context (f_trust callee)) (sp_in_stack mem callee).

Fixpoint walk_t (fuel : nat) (callee : frame) (gc : option frame) : outcome (list frame) :=
  match fuel with
  | O => OutOfFuel
  | S k =>
      if stop_here_t callee then Ret []
      else do o <- get_caller_frame_t callee gc;
           match o with
           | None => Ret []
           | Some f => do rest <- walk_t k f (Some callee); Ret (f :: rest)
           end
  end.

Definition walk_stack_t (fuel : nat) (r : regs) (v : validity) : outcome (list frame) :=
  let f0 := from_context r v TContext in
  if mem_ok mem then do rest <- walk_t fuel f0 None; Ret (f0 :: rest) else Ret [f0].
End WalkerT.

(* walk_stack as the source has it now: cascade of Model.v, generated tail, generated stop guard, generated resolve flavour *)
Definition walk_stack_gen (p : profile) (a : arch) (tail : tail_fn) (os : Z) (mem : memory)
    (module_at : Z -> option Z) (max_module_addr : Z)
    (cfi_walk : frame -> option frame -> list Z -> option (regs * list Z)) (instr_valid : Z -> bool)
    (fuel : nat) (r : regs) (v : validity) : outcome (list frame) :=
  walk_stack_t generated_code p a os mem module_at max_module_addr cfi_walk instr_valid tail lib_walk_stop fuel r v.

(* ---- second pass of round 5: the scan acceptance test and arm64's ptr_auth_strip as the Rust text has them now
   (Gen/UnwindTail.v; C05/ProofsValid.v proves them equal to the parametric pieces of Model.v) *)

(* u64::checked_next_power_of_two: the smallest power of two >= x (1 for x = 0), None when that is 2^64 *)
Definition checked_next_power_of_two (x : Z) : option Z :=
  let r := 2 ^ Z.log2_up x in if r <? two64 then Some r else None.

(* arm64.rs ptr_auth_strip, statement by statement as generated, over the real checked_next_power_of_two *)
Definition arm64_ptr_auth_strip_src : profile -> option (Z * Z) -> Z -> outcome Z :=
  arm64_ptr_auth_strip_gen checked_next_power_of_two.

(* the generated `<arch>::instruction_seems_valid` front test of each architecture id of the driver *)
Definition pre_ok_of (archid : Z) : Z -> bool :=
  if archid =? 0 then x86_instr_pre_ok else if archid =? 1 then amd64_instr_pre_ok else if archid =? 2 then arm_instr_pre_ok
  else if (archid =? 4) || (archid =? 5) then mips_instr_pre_ok else arm64_instr_pre_ok.
