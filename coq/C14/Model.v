(* C14/Model.v — executable model of "the process state is an index of the dump".
   Mirrors
     minidump-processor/src/processor.rs   MinidumpInfo::new (574-580 breakpad ids),
        into_process_state (1027-1084 thread -> CallStack, dump-thread skip, requesting thread,
        context preference; 1093-1105 pid / create time; 1150-1167 stack memory choice;
        1184-1202 unloaded-module attribution), get_exception_details (640-641)
     minidump/src/minidump.rs   MinidumpException::get_crash_address (4903-4923),
        CrashReason::from_exception / from_windows_code / from_windows_error /
        from_windows_error_with_facility / from_windows_exception / from_mac_exception /
        from_linux_exception (4235-4565), MinidumpThreadNames::{read,get_name} (BTreeMap: last
        readable entry of an id wins), MinidumpThread::stack_memory (2850-2863),
        MinidumpMemoryBase::get_memory_at_address (2033-2040), MinidumpBreakpadInfo::read
     minidump/src/system_info.rs   Os::from_platform_id, Cpu::from_processor_architecture,
        Cpu::pointer_width
     minidump/src/context.rs       MinidumpContext::read (which architectures have a reader)
   The leaf enumerations of minidump-common/src/errors (about 6000 named codes) are NOT
   modelled: membership is the function parameter [lk : enum id -> value -> bool].
   Definitions only; proofs are in C14/Proofs.v. *)
From RM Require Export Base.Word C08.Model Gen.C14Names C14.Types.
Open Scope Z_scope.

(* ------------------------------------------------------------------ the dump *)

(* [t_ctx] = result of thread.context(): Some when the bytes parse as the CPU's context.
   [t_stack] = index into the memory list when the thread's own stack descriptor is readable
   (data_size <> 0, rva <> 0); [t_sbase] = stack.start_of_memory_range *)
Record thread := { t_id : Z; t_ctx : option ctx; t_stack : option Z; t_sbase : Z }.


Record breakpad := { b_validity : Z; b_dump_tid : Z; b_req_tid : Z }.
Record misc := { mi_flags1 : Z; mi_pid : Z; mi_ctime : Z }.

Record dump := {
  d_platform : Z; d_arch : Z; d_time : Z;
  d_threads : list thread;
  d_names : list (Z * option Z);          (* thread id, Some name when the string is readable *)
  d_exc : option exception;
  d_bp : option breakpad;
  d_misc : option misc;
  d_status : option (list Z);             (* Linux /proc/self/status stream: its bytes *)
  d_modules : list (Z * Z);               (* base, size_of_image *)
  d_unloaded : list (Z * Z * Z);          (* base, size_of_image, name *)
  d_mems : list (Z * Z) }.                (* memory list regions (non-empty), base, size *)

(* ------------------------------------------------------------------ breakpad ids *)
Definition dump_tid (d : dump) : option Z :=
  match d_bp d with
  | Some b => if Z.testbit (b_validity b) 0 then Some (b_dump_tid b) else None
  | None => None
  end.
Definition req_tid (d : dump) : option Z :=
  match d_bp d with
  | Some b => if Z.testbit (b_validity b) 1 then Some (b_req_tid b) else None
  | None => None
  end.
(* crashing_thread_id.or(self.requesting_thread_id) *)
Definition target_tid (d : dump) : option Z :=
  match d_exc d with Some e => Some (e_tid e) | None => req_tid d end.
Definition exc_ctx (d : dump) : option ctx :=
  match d_exc d with Some e => e_ctx e | None => None end.

Definition oz_eqb (a : option Z) (b : Z) : bool :=
  match a with Some x => x =? b | None => false end.

(* thread names: BTreeMap::insert in stream order, unreadable strings dropped *)
Fixpoint get_name (names : list (Z * option Z)) (id : Z) : option Z :=
  match names with
  | [] => None
  | (i, n) :: rest =>
      match get_name rest id with
      | Some x => Some x
      | None => if i =? id then n else None
      end
  end.

(* ------------------------------------------------------------------ threads -> call stacks *)
Inductive csinfo := CsOk | CsDumpThreadSkipped | CsMissingContext.
Inductive ctxsrc := FromException | FromThread.
Record callstack := {
  cs_id : Z; cs_name : option Z; cs_info : csinfo;
  cs_ctx : option (ctxsrc * ctx) }.       (* frame 0 = StackFrame::from_context(ctx) *)

Definition tag_ctx (s : ctxsrc) (o : option ctx) : option (ctxsrc * ctx) :=
  match o with Some c => Some (s, c) | None => None end.
Definition or_ctx (a b : option (ctxsrc * ctx)) := match a with Some _ => a | None => b end.

(* one iteration of the .map() closure; [req] is the captured `requesting_thread` *)
Definition one_thread (d : dump) (i : nat) (t : thread) (req : option nat) : callstack * option nat :=
  let id := t_id t in
  if oz_eqb (dump_tid d) id then
    ({| cs_id := id; cs_name := get_name (d_names d) id; cs_info := CsDumpThreadSkipped; cs_ctx := None |}, req)
  else
    let is_req := oz_eqb (target_tid d) id in
    let c := if is_req then or_ctx (tag_ctx FromException (exc_ctx d)) (tag_ctx FromThread (t_ctx t))
             else tag_ctx FromThread (t_ctx t) in
    ({| cs_id := id; cs_name := get_name (d_names d) id;
        cs_info := match c with Some _ => CsOk | None => CsMissingContext end;
        cs_ctx := c |},
     if is_req then Some i else req).

Fixpoint walk_threads (d : dump) (i : nat) (ts : list thread) (req : option nat)
  : list callstack * option nat :=
  match ts with
  | [] => ([], req)
  | t :: rest =>
      let '(cs, req1) := one_thread d i t req in
      let '(css, req2) := walk_threads d (S i) rest req1 in
      (cs :: css, req2)
  end.

Definition threads_of (d : dump) : list callstack := fst (walk_threads d 0%nat (d_threads d) None).
Definition requesting_thread (d : dump) : option nat := snd (walk_threads d 0%nat (d_threads d) None).

(* ------------------------------------------------------------------ stack memory choice *)
Definition mem_table (mems : list (Z * Z)) : list (range * Z) :=
  into_rangemap_safe Z.eqb (enumerate_from 0 (map (fun m => mk_range (fst m) (snd m)) mems)).
Definition mem_at (mems : list (Z * Z)) (x : Z) : option Z := rm_get (mem_table mems) x.

(* MinidumpThread::stack_memory *)
Definition thread_stack (mems : list (Z * Z)) (t : thread) : option Z :=
  match t_stack t with Some k => Some k | None => mem_at mems (t_sbase t) end.
(* memory.get_memory_at_address::<u64>(sp).is_some(): 8 bytes at sp inside the region *)
Definition readable_u64 (mems : list (Z * Z)) (k : Z) (sp : Z) : bool :=
  match nth_error mems (Z.to_nat k) with
  | Some (b, s) => (b <=? sp) && (sp - b + 8 <=? s)
  | None => false
  end.
Definition choose_stack (mems : list (Z * Z)) (t : thread) (frame0 : option (ctxsrc * ctx)) : option Z :=
  let own := thread_stack mems t in
  match frame0 with
  | None => own
  | Some (_, c) =>
      if match own with Some k => readable_u64 mems k (c_sp c) | None => false end then own
      else match mem_at mems (c_sp c) with Some k => Some k | None => own end
  end.

(* ------------------------------------------------------------------ crash address *)
Definition EXCEPTION_ACCESS_VIOLATION : Z := 3221225477.   (* 0xc0000005 *)
Definition EXCEPTION_IN_PAGE_ERROR : Z := 3221225478.      (* 0xc0000006 *)
Definition STATUS_STACK_BUFFER_OVERRUN : Z := 3221226505.  (* 0xc0000409 *)

Definition os_eqb_windows (o : os) : bool := match o with OsWindows => true | _ => false end.

Definition crash_address_raw (o : os) (e : exception) : Z :=
  if os_eqb_windows o &&
     ((e_code e =? EXCEPTION_ACCESS_VIOLATION) || (e_code e =? EXCEPTION_IN_PAGE_ERROR)) &&
     (2 <=? e_nparams e)
  then e_info1 e else e_addr e.
Definition crash_address (o : os) (c : cpu) (e : exception) : Z :=
  let a := crash_address_raw o e in
  match pointer_width c with W32 => wrap32 a | _ => a end.

(* ------------------------------------------------------------------ crash reason skeleton *)
Section Reason.
Variable lk : Z -> Z -> bool.

(* from_windows_code + from_windows_error + from_windows_error_with_facility *)
Definition windows_code (code : Z) : reason :=
  if lk EN_WIN_EXC code then (WindowsGeneral, [code])
  else if lk EN_WIN_ERROR code then (WindowsWinError, [code])
  else if lk EN_WIN_NTSTATUS code then (WindowsNtStatus, [code])
  else if negb (Z.land code 4026531840 =? 0) &&               (* SEVERITY_MASK 0xf0000000 *)
          lk EN_WIN_FACILITY (Z.shiftr (Z.land code 268369920) 16) &&   (* FACILITY_MASK 0x0fff0000 *)
          lk EN_WIN_ERROR (Z.land code 65535)
       then (WindowsWinErrorWithFacility, [Z.shiftr (Z.land code 268369920) 16; Z.land code 65535])
       else (WindowsUnknown, [code]).

Definition windows_reason (e : exception) : reason :=
  let r := windows_code (e_code e) in
  match fst r with
  | WindowsGeneral =>
      if e_code e =? EXCEPTION_ACCESS_VIOLATION then
        if (1 <=? e_nparams e) && lk EN_WIN_ACCESS (e_info0 e) then (WindowsAccessViolation, [e_info0 e]) else r
      else if e_code e =? EXCEPTION_IN_PAGE_ERROR then
        if (3 <=? e_nparams e) && lk EN_WIN_INPAGE (e_info0 e)
        then (WindowsInPageError, [e_info0 e; low32 (e_info2 e)]) else r
      else r
  | WindowsNtStatus =>
      if (e_code e =? STATUS_STACK_BUFFER_OVERRUN) && (1 <=? e_nparams e)
      then (WindowsStackBufferOverrun, [low32 (e_info0 e)]) else r
  | _ => r
  end.

Definition refine (en : Z) (f : family) (v : Z) (dflt : reason) : reason :=
  if lk en v then (f, [v]) else dflt.

Definition mac_reason (c : cpu) (e : exception) : option reason :=
  let code := e_code e in let flags := e_flags e in
  if negb (lk EN_MAC code) then None else
  let g : reason := (MacGeneral, [code; flags]) in
  Some (
    if code =? 1 then                                   (* EXC_BAD_ACCESS *)
      if lk EN_MAC_KERN flags then (MacBadAccessKern, [flags])
      else match c with
           | Arm64 => refine EN_MAC_ACC_ARM MacBadAccessArm flags g
           | Ppc => refine EN_MAC_ACC_PPC MacBadAccessPpc flags g
           | X86 | X86_64 => refine EN_MAC_ACC_X86 MacBadAccessX86 flags g
           | _ => g
           end
    else if code =? 2 then                              (* EXC_BAD_INSTRUCTION *)
      match c with
      | Arm64 => refine EN_MAC_INS_ARM MacBadInstructionArm flags g
      | Ppc => refine EN_MAC_INS_PPC MacBadInstructionPpc flags g
      | X86 | X86_64 => refine EN_MAC_INS_X86 MacBadInstructionX86 flags g
      | _ => g
      end
    else if code =? 3 then                              (* EXC_ARITHMETIC *)
      match c with
      | Arm64 => refine EN_MAC_ARI_ARM MacArithmeticArm flags g
      | Ppc => refine EN_MAC_ARI_PPC MacArithmeticPpc flags g
      | X86 | X86_64 => refine EN_MAC_ARI_X86 MacArithmeticX86 flags g
      | _ => g
      end
    else if code =? 5 then refine EN_MAC_SOFTWARE MacSoftware flags g     (* EXC_SOFTWARE *)
    else if code =? 6 then                              (* EXC_BREAKPOINT *)
      match c with
      | Arm64 => refine EN_MAC_BRK_ARM MacBreakpointArm flags g
      | Ppc => refine EN_MAC_BRK_PPC MacBreakpointPpc flags g
      | X86 | X86_64 => refine EN_MAC_BRK_X86 MacBreakpointX86 flags g
      | _ => g
      end
    else if code =? 11 then                             (* EXC_RESOURCE *)
      let ty := Z.land (Z.shiftr flags 29) 7 in
      if lk EN_MAC_RESOURCE ty then (MacResource, [ty; e_info1 e; e_info2 e]) else g
    else if code =? 12 then                             (* EXC_GUARD *)
      let ty := Z.land (Z.shiftr flags 29) 7 in
      if lk EN_MAC_GUARD ty then (MacGuard, [ty; e_info1 e; e_info2 e]) else g
    else g).

Definition linux_reason (e : exception) : option reason :=
  let code := e_code e in let flags := e_flags e in
  if negb (lk EN_LINUX code) then None else
  let g : reason := (LinuxGeneral, [code; flags]) in
  Some (
    if code =? 4 then refine EN_SIGILL LinuxSigill flags g
    else if code =? 5 then refine EN_SIGTRAP LinuxSigtrap flags g
    else if code =? 8 then refine EN_SIGFPE LinuxSigfpe flags g
    else if code =? 11 then refine EN_SIGSEGV LinuxSigsegv flags g
    else if code =? 7 then refine EN_SIGBUS LinuxSigbus flags g
    else if code =? 31 then refine EN_SIGSYS LinuxSigsys flags g
    else g).

Definition crash_reason (o : os) (c : cpu) (e : exception) : reason :=
  let r := match o with
           | OsMac | OsIos => mac_reason c e
           | OsLinux | OsAndroid => linux_reason e
           | OsWindows => Some (windows_reason e)
           | _ => None
           end in
  match r with Some x => x | None => (Unknown, [e_code e; e_flags e]) end.
End Reason.


(* ------------------------------------------------------------------ crash reason strings *)
(* Display for CrashReason, for the families whose name tables are small (regenerated from the source by
   translate/c14_names.py).  None = not predicted (WinError / NTSTATUS tables, EXC_RESOURCE / EXC_GUARD). *)
Fixpoint name_of (tbl : list (Z * list Z)) (v : Z) : option (list Z) :=
  match tbl with
  | [] => None
  | (x, n) :: t => if x =? v then Some n else name_of t v
  end.
Definition hexd (d : Z) : Z := if d <? 10 then 48 + d else 87 + d.
Fixpoint hexn (n : nat) (x : Z) : list Z :=
  match n with O => [] | S m => hexn m (x / 16) ++ [hexd (x mod 16)] end.
Definition hex010 (x : Z) : list Z := 48 :: 120 :: hexn 8 x.          (* {:#010x} of a 32-bit value *)
Fixpoint str_eqb (a b : list Z) : bool :=
  match a, b with
  | [], [] => true
  | x :: a', y :: b' => (x =? y) && str_eqb a' b'
  | _, _ => false
  end.
Definition SEP : list Z := [32; 47; 32].                               (* " / " *)
Definition signed32 (x : Z) : Z := if x <? 2147483648 then x else x - 4294967296.

Definition prefixed (prefix : list Z) (tbl : list (Z * list Z)) (v : Z) : option (list Z) :=
  match name_of tbl v with Some n => Some (prefix ++ n) | None => None end.

(* {} of an unsigned integer below 10^20 (every u64) *)
Fixpoint dec_fuel (fuel : nat) (x : Z) (acc : list Z) : list Z :=
  match fuel with
  | O => acc
  | S f => let acc' := (48 + x mod 10) :: acc in if x <? 10 then acc' else dec_fuel f (x / 10) acc'
  end.
Definition dec (x : Z) : list Z := dec_fuel 20 x [].
Definition hex018 (x : Z) : list Z := 48 :: 120 :: hexn 16 x.          (* {:#018x} of a 64-bit value *)
Definition fld (x sh mask : Z) : Z := Z.land (Z.shiftr x sh) mask.
Definition raw_pair (code subcode : Z) : list Z := hex018 code ++ SEP ++ hex018 subcode.

(* write_exc_resource: "EXC_RESOURCE / <type> / " then the flavor's rendering or the two raw words *)
Definition exc_resource_string (ty code subcode : Z) : option (list Z) :=
  match name_of NAMES_ExceptionCodeMacResourceType ty with
  | None => None
  | Some tn =>
      let flavor := fld code 58 7 in
      let withfl (tbl : list (Z * list Z)) (f : list Z -> list Z) : list Z :=
        match name_of tbl flavor with Some fl => f fl | None => raw_pair code subcode end in
      Some ([69; 88; 67; 95; 82; 69; 83; 79; 85; 82; 67; 69; 32; 47; 32] (* "EXC_RESOURCE / " *) ++ tn ++ SEP ++
        (if ty =? 1 then withfl NAMES_ExceptionCodeMacResourceCpuFlavor (fun fl =>
             fl ++ [32; 105; 110; 116; 101; 114; 118; 97; 108; 58; 32] (* " interval: " *) ++ dec (fld code 7 33554431) ++ [115; 32; 67; 80; 85; 32; 108; 105; 109; 105; 116; 58; 32] (* "s CPU limit: " *) ++ dec (Z.land code 7) ++
             [37; 32; 67; 80; 85; 32; 99; 111; 110; 115; 117; 109; 101; 100; 58; 32] (* "% CPU consumed: " *) ++ dec (Z.land subcode 7) ++ [37] (* "%" *))
         else if ty =? 2 then withfl NAMES_ExceptionCodeMacResourceWakeupsFlavor (fun fl =>
             fl ++ [32; 105; 110; 116; 101; 114; 118; 97; 108; 58; 32] (* " interval: " *) ++ dec (fld code 20 1048575) ++ [115; 32; 119; 97; 107; 101; 117; 112; 115; 32; 112; 101; 114; 109; 105; 116; 116; 101; 100; 58; 32] (* "s wakeups permitted: " *) ++ dec (Z.land code 4095) ++
             [32; 119; 97; 107; 101; 117; 112; 115; 32; 111; 98; 115; 101; 114; 118; 101; 100; 58; 32] (* " wakeups observed: " *) ++ dec (Z.land subcode 4095))
         else if ty =? 3 then withfl NAMES_ExceptionCodeMacResourceMemoryFlavor (fun fl =>
             fl ++ [32; 104; 105; 103; 104; 32; 119; 97; 116; 101; 114; 109; 97; 114; 107; 32; 108; 105; 109; 105; 116; 58; 32] (* " high watermark limit: " *) ++ dec (Z.land code 8191) ++ [77; 105; 66] (* "MiB" *))
         else if ty =? 4 then withfl NAMES_ExceptionCodeMacResourceIOFlavor (fun fl =>
             fl ++ [32; 105; 110; 116; 101; 114; 118; 97; 108; 58; 32] (* " interval: " *) ++ dec (fld code 15 131071) ++ [115; 32; 73; 47; 79; 32; 108; 105; 109; 105; 116; 58; 32] (* "s I/O limit: " *) ++ dec (Z.land code 32767) ++
             [37; 32; 73; 47; 79; 32; 111; 98; 115; 101; 114; 118; 101; 100; 58; 32] (* "% I/O observed: " *) ++ dec (Z.land subcode 32767) ++ [37] (* "%" *))
         else withfl NAMES_ExceptionCodeMacResourceThreadsFlavor (fun fl =>
             fl ++ [32; 104; 105; 103; 104; 32; 119; 97; 116; 101; 114; 109; 97; 114; 107; 32; 108; 105; 109; 105; 116; 58; 32] (* " high watermark limit: " *) ++ dec (Z.land code 32767))))
  end.

(* write_exc_guard: "EXC_GUARD / <type>" then, per guard type, the flavor's rendering or " / " and the two raw words *)
Definition exc_guard_string (ty code subcode : Z) : option (list Z) :=
  match name_of NAMES_ExceptionCodeMacGuardType ty with
  | None => None
  | Some tn =>
      let flavor := fld code 32 536870911 in
      let withfl (tbl : list (Z * list Z)) (f : list Z -> list Z) : list Z :=
        match name_of tbl flavor with Some fl => SEP ++ f fl | None => SEP ++ raw_pair code subcode end in
      Some ([69; 88; 67; 95; 71; 85; 65; 82; 68; 32; 47; 32] (* "EXC_GUARD / " *) ++ tn ++
        (if ty =? 0 then []
         else if ty =? 1 then withfl NAMES_ExceptionCodeMacGuardMachPortFlavor (fun fl =>
             fl ++ [32; 112; 111; 114; 116; 32; 110; 97; 109; 101; 58; 32] (* " port name: " *) ++ dec (Z.land code 268435455) ++
             (if subcode =? 0 then [] else [32; 115; 117; 98; 99; 111; 100; 101; 58; 32] (* " subcode: " *) ++ dec subcode))
         else if ty =? 2 then withfl NAMES_ExceptionCodeMacGuardFDFlavor (fun fl =>
             fl ++ [32; 102; 105; 108; 101; 32; 100; 101; 115; 99; 114; 105; 112; 116; 111; 114; 58; 32] (* " file descriptor: " *) ++ dec (Z.land code 268435455) ++ [32; 103; 117; 97; 114; 100; 32; 105; 100; 101; 110; 116; 105; 102; 105; 101; 114; 58; 32] (* " guard identifier: " *) ++ dec subcode)
         else if ty =? 3 then [47; 32; 110; 97; 109; 101; 115; 112; 97; 99; 101; 58; 32] (* "/ namespace: " *) ++ dec (Z.land code 4294967295) ++ [32; 103; 117; 97; 114; 100; 32; 105; 100; 101; 110; 116; 105; 102; 105; 101; 114; 58; 32] (* " guard identifier: " *) ++ dec subcode
         else if ty =? 4 then withfl NAMES_ExceptionCodeMacGuardVNFlavor (fun fl =>
             fl ++ [32; 112; 105; 100; 58; 32] (* " pid: " *) ++ dec (Z.land code 268435455) ++ [32; 103; 117; 97; 114; 100; 32; 105; 100; 101; 110; 116; 105; 102; 105; 101; 114; 58; 32] (* " guard identifier: " *) ++ dec subcode)
         else if ty =? 5 then withfl NAMES_ExceptionCodeMacGuardVirtMemoryFlavor (fun fl =>
             fl ++ [32; 111; 102; 102; 115; 101; 116; 58; 32] (* " offset: " *) ++ dec subcode)
         else withfl NAMES_ExceptionCodeMacGuardRejecteSysCallFlavor (fun fl =>
             fl ++ [32; 115; 121; 115; 99; 97; 108; 108; 58; 32] (* " syscall: " *) ++ dec subcode)))
  end.

Definition S_SIMULATED := [83; 73; 77; 85; 76; 65; 84; 69; 68].
Definition reason_string (r : reason) : option (list Z) :=
  match r with
  | (MacGeneral, [code; flags]) =>
      match name_of NAMES_ExceptionCodeMac code with
      | Some n => if str_eqb n S_SIMULATED then Some [83; 105; 109; 117; 108; 97; 116; 101; 100; 32; 69; 120; 99; 101; 112; 116; 105; 111; 110] else Some (n ++ SEP ++ hex010 flags)
      | None => None end
  | (MacBadAccessKern, [v]) => prefixed [69; 88; 67; 95; 66; 65; 68; 95; 65; 67; 67; 69; 83; 83; 32; 47; 32] NAMES_ExceptionCodeMacBadAccessKernType v
  | (MacBadAccessArm, [v]) => prefixed [69; 88; 67; 95; 66; 65; 68; 95; 65; 67; 67; 69; 83; 83; 32; 47; 32] NAMES_ExceptionCodeMacBadAccessArmType v
  | (MacBadAccessPpc, [v]) => prefixed [69; 88; 67; 95; 66; 65; 68; 95; 65; 67; 67; 69; 83; 83; 32; 47; 32] NAMES_ExceptionCodeMacBadAccessPpcType v
  | (MacBadAccessX86, [v]) => prefixed [69; 88; 67; 95; 66; 65; 68; 95; 65; 67; 67; 69; 83; 83; 32; 47; 32] NAMES_ExceptionCodeMacBadAccessX86Type v
  | (MacBadInstructionArm, [v]) => prefixed [69; 88; 67; 95; 66; 65; 68; 95; 73; 78; 83; 84; 82; 85; 67; 84; 73; 79; 78; 32; 47; 32] NAMES_ExceptionCodeMacBadInstructionArmType v
  | (MacBadInstructionPpc, [v]) => prefixed [69; 88; 67; 95; 66; 65; 68; 95; 73; 78; 83; 84; 82; 85; 67; 84; 73; 79; 78; 32; 47; 32] NAMES_ExceptionCodeMacBadInstructionPpcType v
  | (MacBadInstructionX86, [v]) => prefixed [69; 88; 67; 95; 66; 65; 68; 95; 73; 78; 83; 84; 82; 85; 67; 84; 73; 79; 78; 32; 47; 32] NAMES_ExceptionCodeMacBadInstructionX86Type v
  | (MacArithmeticArm, [v]) => prefixed [69; 88; 67; 95; 65; 82; 73; 84; 72; 77; 69; 84; 73; 67; 32; 47; 32] NAMES_ExceptionCodeMacArithmeticArmType v
  | (MacArithmeticPpc, [v]) => prefixed [69; 88; 67; 95; 65; 82; 73; 84; 72; 77; 69; 84; 73; 67; 32; 47; 32] NAMES_ExceptionCodeMacArithmeticPpcType v
  | (MacArithmeticX86, [v]) => prefixed [69; 88; 67; 95; 65; 82; 73; 84; 72; 77; 69; 84; 73; 67; 32; 47; 32] NAMES_ExceptionCodeMacArithmeticX86Type v
  | (MacSoftware, [v]) => prefixed [69; 88; 67; 95; 83; 79; 70; 84; 87; 65; 82; 69; 32; 47; 32] NAMES_ExceptionCodeMacSoftwareType v
  | (MacBreakpointArm, [v]) => prefixed [69; 88; 67; 95; 66; 82; 69; 65; 75; 80; 79; 73; 78; 84; 32; 47; 32] NAMES_ExceptionCodeMacBreakpointArmType v
  | (MacBreakpointPpc, [v]) => prefixed [69; 88; 67; 95; 66; 82; 69; 65; 75; 80; 79; 73; 78; 84; 32; 47; 32] NAMES_ExceptionCodeMacBreakpointPpcType v
  | (MacBreakpointX86, [v]) => prefixed [69; 88; 67; 95; 66; 82; 69; 65; 75; 80; 79; 73; 78; 84; 32; 47; 32] NAMES_ExceptionCodeMacBreakpointX86Type v
  | (MacResource, [ty; code; subcode]) => exc_resource_string ty code subcode
  | (MacGuard, [ty; code; subcode]) => exc_guard_string ty code subcode
  | (LinuxGeneral, [code; flags]) =>
      match name_of NAMES_ExceptionCodeLinux code with
      | Some n =>
          match name_of NAMES_ExceptionCodeLinuxSicode (signed32 flags) with
          | Some si => if signed32 flags =? 0 then Some n else Some (n ++ SEP ++ si)     (* SI_USER = 0 *)
          | None => Some (n ++ SEP ++ hex010 flags)
          end
      | None => None end
  | (LinuxSigill, [v]) => prefixed [83; 73; 71; 73; 76; 76; 32; 47; 32] NAMES_ExceptionCodeLinuxSigillKind v
  | (LinuxSigtrap, [v]) => prefixed [83; 73; 71; 84; 82; 65; 80; 32; 47; 32] NAMES_ExceptionCodeLinuxSigtrapKind v
  | (LinuxSigbus, [v]) => prefixed [83; 73; 71; 66; 85; 83; 32; 47; 32] NAMES_ExceptionCodeLinuxSigbusKind v
  | (LinuxSigfpe, [v]) => prefixed [83; 73; 71; 70; 80; 69; 32; 47; 32] NAMES_ExceptionCodeLinuxSigfpeKind v
  | (LinuxSigsegv, [v]) => prefixed [83; 73; 71; 83; 69; 71; 86; 32; 47; 32] NAMES_ExceptionCodeLinuxSigsegvKind v
  | (LinuxSigsys, [v]) => prefixed [83; 73; 71; 83; 89; 83; 32; 47; 32] NAMES_ExceptionCodeLinuxSigsysKind v
  | (WindowsGeneral, [code]) =>
      match name_of NAMES_ExceptionCodeWindows code with
      | Some n => if str_eqb n [79; 85; 84; 95; 79; 70; 95; 77; 69; 77; 79; 82; 89] then Some [79; 117; 116; 32; 111; 102; 32; 77; 101; 109; 111; 114; 121]
                  else if str_eqb n [85; 78; 72; 65; 78; 68; 76; 69; 68; 95; 67; 80; 80; 95; 69; 88; 67; 69; 80; 84; 73; 79; 78] then Some [85; 110; 104; 97; 110; 100; 108; 101; 100; 32; 67; 43; 43; 32; 69; 120; 99; 101; 112; 116; 105; 111; 110]
                  else if str_eqb n S_SIMULATED then Some [83; 105; 109; 117; 108; 97; 116; 101; 100; 32; 69; 120; 99; 101; 112; 116; 105; 111; 110]
                  else Some n
      | None => None end
  | (WindowsAccessViolation, [v]) => prefixed [69; 88; 67; 69; 80; 84; 73; 79; 78; 95; 65; 67; 67; 69; 83; 83; 95; 86; 73; 79; 76; 65; 84; 73; 79; 78; 95] NAMES_ExceptionCodeWindowsAccessType v
  | (WindowsStackBufferOverrun, [v]) =>
      Some ([69; 88; 67; 69; 80; 84; 73; 79; 78; 95; 83; 84; 65; 67; 75; 95; 66; 85; 70; 70; 69; 82; 95; 79; 86; 69; 82; 82; 85; 78; 32; 47; 32] ++ match name_of NAMES_FastFailCode v with Some n => n | None => hex010 v end)
  | (WindowsUnknown, [code]) => Some ([117; 110; 107; 110; 111; 119; 110; 32] ++ hex010 code)
  | (Unknown, [code; flags]) => Some ([117; 110; 107; 110; 111; 119; 110; 32] ++ hex010 code ++ SEP ++ hex010 flags)
  | _ => None
  end.

(* The four Windows families whose Debug names come from the two large tables (winerror.h ~2860 names, ntstatus.h ~2930 names), over a
   name function [nm : enumeration id -> value -> option name] (the correspondence run hands over the names of the values a case
   consults, read from the checkout's windows.rs); every other family as above.
   Display: WindowsWinError(e) "{e:?}"; WindowsWinErrorWithFacility(f, e) "{f:?} / {e:?}"; WindowsNtStatus(s) write_nt_status;
   WindowsInPageError(a, s) "EXCEPTION_IN_PAGE_ERROR_{a:?} / " write_nt_status; write_nt_status = the name, else {:#010x} *)
Definition nt_status_string (nm : Z -> Z -> option (list Z)) (v : Z) : list Z :=
  match nm EN_WIN_NTSTATUS v with Some n => n | None => hex010 v end.
Definition S_IN_PAGE : list Z := [69; 88; 67; 69; 80; 84; 73; 79; 78; 95; 73; 78; 95; 80; 65; 71; 69; 95; 69; 82; 82; 79; 82; 95].   (* "EXCEPTION_IN_PAGE_ERROR_" *)
Definition reason_string_nm (nm : Z -> Z -> option (list Z)) (r : reason) : option (list Z) :=
  match r with
  | (WindowsWinError, [v]) => nm EN_WIN_ERROR v
  | (WindowsWinErrorWithFacility, [fac; err]) =>
      match name_of NAMES_WinErrorFacilityWindows fac, nm EN_WIN_ERROR err with
      | Some a, Some b => Some (a ++ SEP ++ b)
      | _, _ => None
      end
  | (WindowsNtStatus, [v]) => Some (nt_status_string nm v)
  | (WindowsInPageError, [a; nt]) =>
      match name_of NAMES_ExceptionCodeWindowsInPageErrorType a with
      | Some an => Some (S_IN_PAGE ++ an ++ SEP ++ nt_status_string nm nt)
      | None => None
      end
  | _ => reason_string r
  end.

(* ------------------------------------------------------------------ /proc/self/status -> Pid *)
(* minidump.rs linux_list_iter(data, b':') (lines split at every 0x0a, split_once at the first ':', both halves
   trimmed of ASCII whitespace and of one pair of surrounding double quotes) and process_state.rs
   LinuxProcStatus::from: the FIRST entry whose key is "Pid", its value parsed as u32 (str::parse: optional '+', at
   least one ASCII digit, nothing else, no overflow), 0 when there is no such entry or it does not parse. *)
Definition is_ws (b : Z) : bool := (b =? 32) || (b =? 9) || (b =? 10) || (b =? 12) || (b =? 13).   (* u8::is_ascii_whitespace *)
Fixpoint split_on (sep : Z) (s : list Z) : list (list Z) :=           (* slice::split: one piece more than separators *)
  match s with
  | [] => [[]]
  | b :: r => if b =? sep then [] :: split_on sep r
              else match split_on sep r with h :: t => (b :: h) :: t | [] => [[b]] end
  end.
Fixpoint split_once (sep : Z) (s : list Z) : option (list Z * list Z) :=
  match s with
  | [] => None
  | b :: r => if b =? sep then Some ([], r)
              else match split_once sep r with Some (k, v) => Some (b :: k, v) | None => None end
  end.
Fixpoint trim_front (s : list Z) : list Z :=
  match s with b :: r => if is_ws b then trim_front r else s | [] => [] end.
Definition trim (s : list Z) : list Z := rev (trim_front (rev (trim_front s))).
Definition strip_quotes (s : list Z) : list Z :=
  let t := trim s in
  match t with
  | 34 :: r => match rev r with 34 :: m => rev m | _ => t end
  | _ => t
  end.
Definition kv_of_line (line : list Z) : option (list Z * list Z) :=
  match split_once 58 line with Some (k, v) => Some (strip_quotes k, strip_quotes v) | None => None end.
Definition is_digit (b : Z) : bool := (48 <=? b) && (b <=? 57).
Fixpoint digits_value (acc : Z) (s : list Z) : option Z :=           (* checked accumulate, u32 *)
  match s with
  | [] => Some acc
  | b :: r => if is_digit b then
                let acc' := acc * 10 + (b - 48) in
                if acc' <=? 4294967295 then digits_value acc' r else None
              else None
  end.
Definition parse_u32 (s : list Z) : option Z :=
  let body := match s with 43 :: r => r | _ => s end in
  match body with [] => None | _ => digits_value 0 body end.
Definition KEY_PID : list Z := [80; 105; 100].
Fixpoint pid_of_lines (lines : list (list Z)) : Z :=
  match lines with
  | [] => 0
  | l :: rest =>
      match kv_of_line l with
      | Some (k, v) => if zlist_eqb k KEY_PID then match parse_u32 v with Some n => n | None => 0 end
                       else pid_of_lines rest
      | None => pid_of_lines rest
      end
  end.
Definition status_pid (text : list Z) : Z := pid_of_lines (split_on 10 text).

(* ------------------------------------------------------------------ pid / create time *)
Definition MISC1_PROCESS_ID : Z := 0.      (* bit numbers of MiscInfoFlags *)
Definition MISC1_PROCESS_TIMES : Z := 1.
Definition process_id (d : dump) : option Z :=
  match d_misc d with
  | Some m => if Z.testbit (mi_flags1 m) MISC1_PROCESS_ID then Some (mi_pid m) else None
  | None => option_map status_pid (d_status d)
  end.
Definition process_create_time (d : dump) : option Z :=
  match d_misc d with
  | Some m => if Z.testbit (mi_flags1 m) MISC1_PROCESS_TIMES then Some (mi_ctime m) else None
  | None => None
  end.

(* ------------------------------------------------------------------ modules per frame *)
(* MinidumpModuleList::read skips entries with size_of_image = 0 or base + size > u64::MAX;
   MinidumpUnloadedModuleList::read fails as a whole on such an entry and the processor then
   uses an empty list ([d_modules] / [d_unloaded] are the raw stream entries) *)
Definition good_image (m : Z * Z) : bool := negb (snd m =? 0) && (snd m <=? U64MAX - fst m).
Definition read_modules (l : list (Z * Z)) : list (Z * Z) := filter good_image l.
Definition read_unloaded (l : list (Z * Z * Z)) : list (Z * Z * Z) :=
  if forallb (fun m => good_image (fst m)) l then l else [].
Definition module_table (mods : list (Z * Z)) : list (range * Z) :=
  into_rangemap_safe Z.eqb (enumerate_from 0 (map (fun m => mk_range (fst m) (snd m)) mods)).
Definition module_at (mods : list (Z * Z)) (x : Z) : option Z := rm_get (module_table mods) x.

Definition unloaded_ranges (u : list (Z * Z * Z)) : list (option range) :=
  map (fun m => mk_range (fst (fst m)) (snd (fst m))) u.
Definition PANIC_UNLOADED_SUB : Z := 1401.

(* offsets of one frame: (module name, instruction - base) for every unloaded module covering
   the instruction, in modules_by_addr order; only computed when no loaded module covers it *)
Fixpoint offsets_of (p : profile) (u : list (Z * Z * Z)) (x : Z) (idxs : list Z) : outcome (list (Z * Z)) :=
  match idxs with
  | [] => Ret []
  | i :: rest =>
      match nth_error u (Z.to_nat i) with
      | None => Panic PANIC_UNLOADED_SUB            (* unreachable: indices come from the table *)
      | Some (b, _, nm) =>
          do off <- chk_sub p 64 PANIC_UNLOADED_SUB x b;
          do tl <- offsets_of p u x rest ;
          Ret ((nm, off) :: tl)
      end
  end.
Definition frame_unloaded (p : profile) (d : dump) (x : Z) : outcome (list (Z * Z)) :=
  let u := read_unloaded (d_unloaded d) in
  match module_at (read_modules (d_modules d)) x with
  | Some _ => Ret []
  | None => offsets_of p u x (unloaded_at (unloaded_build (unloaded_ranges u)) x)
  end.

(* ------------------------------------------------------------------ documented refinements *)
(* EXCEPTION_RECORD (winnt.h / MSDN): ExceptionInformation[0] of an access violation / in-page error is
   0 (read), 1 (write) or 8 (data execution prevention) *)
Definition documented_access (v : Z) : bool := (v =? 0) || (v =? 1) || (v =? 8).

(* ------------------------------------------------------------------ combinators of the regenerated processor code *)
(* Option::or, ==, Option::and_then, Option::is_some as used by into_process_state (Gen/C14Process.v) *)
Definition or_optz (a b : option Z) : option Z := match a with Some _ => a | None => b end.
Definition optz_eqb (a b : option Z) : bool :=
  match a, b with Some x, Some y => x =? y | None, None => true | _, _ => false end.
Definition opt_is_some {A} (o : option A) : bool := match o with Some _ => true | None => false end.
Definition opt_and_then {A B} (o : option A) (f : A -> option B) : option B :=
  match o with Some x => f x | None => None end.
(* self.exception.as_ref().map(|e| e.get_crashing_thread_id()) *)
Definition crash_tid (d : dump) : option Z := match d_exc d with Some e => Some (e_tid e) | None => None end.
(* RawMiscInfo::process_id / MinidumpMiscInfo::process_create_time (flag-guarded accessors) *)
Definition misc_process_id (m : misc) : option Z :=
  if Z.testbit (mi_flags1 m) MISC1_PROCESS_ID then Some (mi_pid m) else None.
Definition misc_create_time (m : misc) : option Z :=
  if Z.testbit (mi_flags1 m) MISC1_PROCESS_TIMES then Some (mi_ctime m) else None.
(* memory.get_memory_at_address::<u64>(sp) on region k of the memory list: Some iff 8 bytes are readable there *)
Definition get_u64 (mems : list (Z * Z)) (k sp : Z) : option unit :=
  if readable_u64 mems k sp then Some tt else None.
Definition or_else_optz (a : option Z) (f : unit -> option Z) : option Z := match a with Some _ => a | None => f tt end.

(* ------------------------------------------------------------------ streams that are too short *)
(* MinidumpBreakpadInfo::read / MinidumpMiscInfo::read succeed iff the stream holds the whole MINIDUMP_BREAKPAD_INFO (12 bytes) /
   at least MINIDUMP_MISC_INFO (24 bytes; longer revisions only add fields); the processor treats a failed read as `no stream` *)
Definition BREAKPAD_INFO_SIZE : Z := 12.
Definition MISC_INFO_SIZE : Z := 24.
Definition bp_of_stream (len : Z) (b : breakpad) : option breakpad := if BREAKPAD_INFO_SIZE <=? len then Some b else None.
Definition misc_of_stream (len : Z) (m : misc) : option misc := if MISC_INFO_SIZE <=? len then Some m else None.
