(* C14/Bytes.v — from the BYTES of a dump to the dump record of C14/Model.v, through the reader model of C02
   (RM.C02.Model.decode_dump = Minidump::read + get_stream for every stream the processor asks for).
   Mirrors minidump-processor/src/processor.rs MinidumpInfo::new: which streams are required (thread list, system
   info: their absence / unreadability ends processing), which are optional and how a read error is treated
   (thread names, modules, unloaded modules: empty default; exception, misc info, Breakpad info, Linux status: None).
   Definitions only; proofs are in C14/BytesProofs.v.

   Memory: [d_mems] = the regions get_memory() serves (Memory64List when it reads, else MemoryList), as (base, size).  A thread's
   OWN stack descriptor is not carried ([t_stack] = None: the abstract record names an own stack by its index in the memory list,
   a byte-level own stack is a region of its own), so the stack-memory choice from the bytes is stated for threads whose stack
   descriptor is null (full-dump / Memory64 layout: stack_memory falls back to memory_at_address(start_of_memory_range)). *)
From RM Require Import C02.Model.
From RM Require Import C14.Model.
Open Scope Z_scope.

(* a UTF-16 string as one integer (injective on code units 0..65535): thread and module names of the dump record *)
Definition pack_units (u : list Z) : Z := fold_right (fun x acc => (x + 1) + 65537 * acc) 0 u.

Definition sres_opt {A} (r : sres A) : option A := match r with SOk a => Some a | _ => None end.
Definition sres_list {A} (r : sres (list A)) : list A := match r with SOk l => l | _ => [] end.
Definition opt_list {A} (o : option (list A)) : list A := match o with Some l => l | None => [] end.

(* MINIDUMP_BREAKPAD_INFO: validity, dump_thread_id, requesting_thread_id *)
Definition breakpad_of (l : list Z) : option breakpad :=
  match l with
  | [v; dt; rt] => Some {| b_validity := v; b_dump_tid := dt; b_req_tid := rt |}
  | _ => None
  end.
(* MINIDUMP_MISC_INFO (every revision starts with): size_of_info, flags1, process_id, process_create_time *)
Definition misc_of (m : Z * list Z) : misc :=
  {| mi_flags1 := nth 1 (snd m) 0; mi_pid := nth 2 (snd m) 0; mi_ctime := nth 3 (snd m) 0 |}.
Definition module_of (m : mmodule) : Z * Z := (md_base m, md_size m).
Definition unloaded_of (u : munloaded) : Z * Z * Z := (um_base u, um_size u, pack_units (um_name u)).
Definition tname_of (n : Z * list Z) : Z * option Z := (fst n, Some (pack_units (snd n))).
Definition region_of (r : mregion) : Z * Z := (mr_base r, zlen (mr_bytes r)).
(* Minidump::get_memory: the Memory64List when it reads, else the MemoryList, else nothing (unwrap_or_default) *)
Definition unified_view (v : dview) : list mregion :=
  match v_memory64 v with
  | SOk l => l
  | _ => match v_memory v with SOk l => l | _ => [] end
  end.
Definition unified_model (m : model) : list mregion :=
  match m_memory64 m with
  | Some l => l
  | None => match m_memory m with Some l => l | None => [] end
  end.

Section Reader.
(* the CPU context reader: byte order, raw processor_architecture, the bytes of the context -> (ip, sp).
   The theorems hold for EVERY such function; the correspondence run instantiates it with [ctx_of_bytes] below. *)
Variable rc : endian -> Z -> list Z -> option ctx.

Definition read_ctx (e : endian) (arch : Z) (o : option (list Z)) : option ctx :=
  match o with Some b => rc e arch b | None => None end.
Definition thread_of (e : endian) (arch : Z) (t : mthread) : thread :=
  {| t_id := th_id t; t_ctx := read_ctx e arch (th_ctx t); t_stack := None; t_sbase := th_stack_base t |}.
Definition exception_of (e : endian) (arch : Z) (x : mexception) : exception :=
  {| e_tid := ex_thread_id x; e_code := ex_code x; e_flags := ex_flags x; e_nparams := ex_nparams x;
     e_info0 := nth 0 (ex_info x) 0; e_info1 := nth 1 (ex_info x) 0; e_info2 := nth 2 (ex_info x) 0;
     e_addr := ex_address x; e_ctx := read_ctx e arch (ex_ctx x) |}.

(* the streams as MinidumpInfo::new receives them -> the dump record; None = ProcessError (MissingSystemInfo / MissingThreadList) *)
Definition dump_of_streams (e : endian) (time : Z)
    (sys : option msysinfo) (threads : option (list mthread)) (tnames : list (Z * list Z))
    (exc : option mexception) (bp : option (list Z)) (mi : option (Z * list Z)) (status : option (list Z))
    (mods : list mmodule) (unl : list munloaded) (mems : list mregion) : option dump :=
  match threads, sys with
  | Some ts, Some s =>
      let arch := si_arch s in
      Some {| d_platform := si_platform s; d_arch := arch; d_time := time;
              d_threads := map (thread_of e arch) ts;
              d_names := map tname_of tnames;
              d_exc := option_map (exception_of e arch) exc;
              d_bp := match bp with Some l => breakpad_of l | None => None end;
              d_misc := option_map misc_of mi;
              d_status := status;
              d_modules := map module_of mods;
              d_unloaded := map unloaded_of unl;
              d_mems := map region_of mems |}
  | _, _ => None
  end.

(* what the reader serves for a parsed file *)
Definition dump_of_view (v : dview) : option dump :=
  dump_of_streams (v_endian v) (v_time v) (sres_opt (v_sysinfo v)) (sres_opt (v_threads v)) (sres_list (v_tnames v))
    (sres_opt (v_exception v)) (sres_opt (v_breakpad v)) (sres_opt (v_misc v)) (sres_opt (v_lx_status v))
    (sres_list (v_modules v)) (sres_list (v_unloaded v)) (unified_view v).
(* the same, directly from a dump model of C02 (what a writer meant to encode) *)
Definition dump_of_model (e : endian) (m : model) : option dump :=
  dump_of_streams e (m_time m) (m_sysinfo m) (m_threads m) (opt_list (m_tnames m))
    (m_exception m) (m_breakpad m) (m_misc m) (m_lx_status m)
    (opt_list (m_modules m)) (opt_list (m_unloaded m)) (unified_model m).

(* Minidump::read, MinidumpInfo::new *)
Definition dump_of_bytes (bs : list Z) : option dump :=
  match decode_dump bs with Some v => dump_of_view v | None => None end.
End Reader.

(* ------------------------------------------------------------------ the record without its CPU contexts *)
(* (contexts are byte-order specific blobs; everything else of the index is not) *)
Definition forget_thread_ctx (t : thread) : thread := {| t_id := t_id t; t_ctx := None; t_stack := t_stack t; t_sbase := t_sbase t |}.
Definition forget_exc_ctx (x : exception) : exception :=
  {| e_tid := e_tid x; e_code := e_code x; e_flags := e_flags x; e_nparams := e_nparams x; e_info0 := e_info0 x; e_info1 := e_info1 x;
     e_info2 := e_info2 x; e_addr := e_addr x; e_ctx := None |}.
Definition forget_ctx (d : dump) : dump :=
  {| d_platform := d_platform d; d_arch := d_arch d; d_time := d_time d; d_threads := map forget_thread_ctx (d_threads d);
     d_names := d_names d; d_exc := option_map forget_exc_ctx (d_exc d); d_bp := d_bp d; d_misc := d_misc d; d_status := d_status d;
     d_modules := d_modules d; d_unloaded := d_unloaded d; d_mems := d_mems d |}.

(* ------------------------------------------------------------------ what a missing / unreadable stream means to MinidumpInfo::new *)
(* (stream type, 0 = required: processing fails | 1 = optional: treated as absent ([sres_opt]) | 2 = optional with an empty default
   ([sres_list])) for the streams [dump_of_view] reads; tied to the get_stream calls of MinidumpInfo::new by
   c14_stream_policy_is_source (Gen/C14Process.v GEN_STREAM_POLICY) *)
Definition stream_policy : list (Z * Z) :=
  [(ST_ThreadListStream, 0); (ST_SystemInfoStream, 0);
   (ST_ThreadNamesStream, 2); (ST_ModuleListStream, 2); (ST_UnloadedModuleListStream, 2);
   (ST_ExceptionStream, 1); (ST_BreakpadInfoStream, 1); (ST_MiscInfoStream, 1); (ST_LinuxProcStatus, 1)].
Definition policy_in (tbl : list (Z * Z)) (p : Z * Z) : bool := existsb (fun q => (fst p =? fst q) && (snd p =? snd q)) tbl.

(* ------------------------------------------------------------------ the context reader of the correspondence run *)
(* MinidumpContext::read (C02: layout by architecture, context_flags checked) followed by get_instruction_pointer /
   get_stack_pointer.  The two registers are found BY FIELD NAME in the structure as format.rs declares it (Gen/Layouts.v: layout
   L_CONTEXT_* and field names N_CONTEXT_*, regenerated on every run): CONTEXT_X86 eip / esp, CONTEXT_AMD64 rip / rsp, CONTEXT_ARM
   iregs[15] / iregs[13], CONTEXT_ARM64 and CONTEXT_ARM64_OLD pc / sp, CONTEXT_MIPS epc / iregs[29], CONTEXT_PPC and CONTEXT_PPC64
   srr0 / gpr[1], CONTEXT_SPARC pc / g_r[14]: every architecture MinidumpContext::read has an arm for. *)
From Coq Require Import String.
(* how many integers a layout flattens to (vflat: one per scalar, arrays element by element) *)
Fixpoint lcount (L : layout) : nat :=
  match L with
  | LU _ | LI _ => 1%nat
  | LNil => 0%nat
  | LSeq a b => (lcount a + lcount b)%nat
  | LArr n t => (n * lcount t)%nat
  end.
(* position, among the flattened integers of a structure, of (the first integer of) the field called [nm] *)
Fixpoint field_pos (L : layout) (names : list string) (nm : string) : option nat :=
  match L, names with
  | LSeq a b, n :: ns => if String.eqb n nm then Some 0%nat
                         else match field_pos b ns nm with Some k => Some (lcount a + k)%nat | None => None end
  | _, _ => None
  end.
Definition reg_pos (L : layout) (names : list string) (ip : string * nat) (sp : string * nat) : option (nat * nat) :=
  match field_pos L names (fst ip), field_pos L names (fst sp) with
  | Some a, Some b => Some ((a + snd ip)%nat, (b + snd sp)%nat)
  | _, _ => None
  end.
Definition ctx_regs_named (arch : Z) : option (nat * nat) :=
  if (arch =? 0) || (arch =? 10) then reg_pos L_CONTEXT_X86 N_CONTEXT_X86 ("eip"%string, 0%nat) ("esp"%string, 0%nat)
  else if arch =? 9 then reg_pos L_CONTEXT_AMD64 N_CONTEXT_AMD64 ("rip"%string, 0%nat) ("rsp"%string, 0%nat)
  else if arch =? 5 then reg_pos L_CONTEXT_ARM N_CONTEXT_ARM ("iregs"%string, 15%nat) ("iregs"%string, 13%nat)
  else if arch =? 12 then reg_pos L_CONTEXT_ARM64 N_CONTEXT_ARM64 ("pc"%string, 0%nat) ("sp"%string, 0%nat)
  else if arch =? 32771 then reg_pos L_CONTEXT_ARM64_OLD N_CONTEXT_ARM64_OLD ("pc"%string, 0%nat) ("sp"%string, 0%nat)
  else if arch =? 1 then reg_pos L_CONTEXT_MIPS N_CONTEXT_MIPS ("epc"%string, 0%nat) ("iregs"%string, 29%nat)
  else if arch =? 3 then reg_pos L_CONTEXT_PPC N_CONTEXT_PPC ("srr0"%string, 0%nat) ("gpr"%string, 1%nat)
  else if arch =? 32770 then reg_pos L_CONTEXT_PPC64 N_CONTEXT_PPC64 ("srr0"%string, 0%nat) ("gpr"%string, 1%nat)
  else if arch =? 32769 then reg_pos L_CONTEXT_SPARC N_CONTEXT_SPARC ("pc"%string, 0%nat) ("g_r"%string, 14%nat)
  else None.
(* the same positions as numbers (what is extracted: Coq strings would shadow OCaml's in the driver); equal to [ctx_regs_named] for
   every architecture (c14_context_registers_by_name) *)
Definition ctx_regs (arch : Z) : option (nat * nat) :=
  if (arch =? 0) || (arch =? 10) then Some (106%nat, 109%nat)
  else if arch =? 9 then Some (37%nat, 25%nat)
  else if arch =? 5 then Some (16%nat, 14%nat)
  else if arch =? 12 then Some (34%nat, 33%nat)
  else if arch =? 32771 then Some (33%nat, 32%nat)
  else if arch =? 1 then Some (44%nat, 31%nat)
  else if arch =? 3 then Some (1%nat, 4%nat)
  else if arch =? 32770 then Some (1%nat, 4%nat)
  else if arch =? 32769 then Some (35%nat, 16%nat)
  else None.
Definition ctx_of_bytes (e : endian) (arch : Z) (b : list Z) : option ctx :=
  match ctx_regs arch with
  | None => None
  | Some (ipi, spi) =>
      match read_context e arch b with
      | Some v => Some {| c_ip := nth ipi (vflat v) 0; c_sp := nth spi (vflat v) 0 |}
      | None => None
      end
  end.

(* ------------------------------------------------------------------ the ids the streams name *)
(* exception record's thread id, else the Breakpad info's requesting thread id (validity bit 1); dump-writer thread id (bit 0) *)
Definition bp_req_tid (bp : option (list Z)) : option Z :=
  match bp with Some [v; _; rt] => if Z.testbit v 1 then Some rt else None | _ => None end.
Definition bp_dump_tid (bp : option (list Z)) : option Z :=
  match bp with Some [v; dt; _] => if Z.testbit v 0 then Some dt else None | _ => None end.
Definition streams_target (exc : option mexception) (bp : option (list Z)) : option Z :=
  match exc with Some x => Some (ex_thread_id x) | None => bp_req_tid bp end.
(* a thread-list entry the streams name as the requesting thread: the target id, and not the dump-writer thread *)
Definition named_requesting (exc : option mexception) (bp : option (list Z)) (t : mthread) : Prop :=
  streams_target exc bp = Some (th_id t) /\ bp_dump_tid bp <> Some (th_id t).
