(* C14/Properties.v — property theorems only. *)
From Coq Require Import Lia.
From Coq Require String.
Import String.StringSyntax.
From RM Require Import C08.Proofs C14.Model C14.Proofs C14.Proofs2 Gen.C14Reason Gen.C14Process C14.Source.
Open Scope Z_scope.

(* Exactly one call stack per entry of the thread list, in the same order, with the same
   thread ids and the names the thread names stream gives those ids (also for the skipped
   dump-writer thread, since /repo 4b7b5e8 — finding F-C14a). No bound on the number of threads. *)
Theorem c14_threads_one_to_one : forall d : dump,
  length (threads_of d) = length (d_threads d) /\
  map cs_id (threads_of d) = map t_id (d_threads d) /\
  forall i t cs, nth_error (d_threads d) i = Some t -> nth_error (threads_of d) i = Some cs ->
    cs_id cs = t_id t /\ cs_name cs = get_name (d_names d) (t_id t) /\
    (dump_tid d = Some (t_id t) -> cs_info cs = CsDumpThreadSkipped /\ cs_ctx cs = None) /\
    (dump_tid d <> Some (t_id t) -> cs_info cs <> CsDumpThreadSkipped).
Proof. exact threads_one_to_one. Qed.
Print Assumptions c14_threads_one_to_one.

(* the name of an id is the last readable entry of the thread names stream for that id *)
Theorem c14_thread_name_last : forall names id n,
  get_name names id = Some n <->
  exists l1 l2, names = l1 ++ (id, Some n) :: l2 /\ forall n', ~ In (id, Some n') l2.
Proof. exact get_name_last. Qed.
Print Assumptions c14_thread_name_last.

(* The requesting thread is the LAST thread-list entry whose id is the target id and is not
   the dump-writer thread's id; there is none exactly when no entry qualifies (in particular
   when the target is the dump-writer thread itself). *)
Theorem c14_requesting_thread : forall d : dump,
  match requesting_thread d with
  | Some i => (exists t, nth_error (d_threads d) i = Some t /\
                         target_tid d = Some (t_id t) /\ dump_tid d <> Some (t_id t)) /\
              forall j t, (i < j)%nat -> nth_error (d_threads d) j = Some t ->
                          ~ (target_tid d = Some (t_id t) /\ dump_tid d <> Some (t_id t))
  | None => forall j t, nth_error (d_threads d) j = Some t ->
                        ~ (target_tid d = Some (t_id t) /\ dump_tid d <> Some (t_id t))
  end.
Proof. exact requesting_spec. Qed.
Print Assumptions c14_requesting_thread.

(* the target id is the exception record's thread id, else the Breakpad info's requesting
   thread id when its validity bit is set; the dump-writer id needs its own validity bit *)
Theorem c14_target_thread_id : forall d : dump,
  ((exists e, d_exc d = Some e /\ target_tid d = Some (e_tid e)) \/
   (d_exc d = None /\ target_tid d = req_tid d)) /\
  (forall id, req_tid d = Some id <->
     exists b, d_bp d = Some b /\ Z.testbit (b_validity b) 1 = true /\ b_req_tid b = id) /\
  (forall id, dump_tid d = Some id <->
     exists b, d_bp d = Some b /\ Z.testbit (b_validity b) 0 = true /\ b_dump_tid b = id).
Proof. intro d. split; [apply target_spec|]. split; intro id; [apply req_tid_spec|apply dump_tid_spec]. Qed.
Print Assumptions c14_target_thread_id.

(* A thread named as the requesting one starts its walk from the exception's context when that
   can be read, else from its own; every other thread from its own; info is Ok / MissingContext
   according to whether a context was found. *)
Theorem c14_context_choice : forall (d : dump) i t cs,
  nth_error (d_threads d) i = Some t -> nth_error (threads_of d) i = Some cs ->
  dump_tid d <> Some (t_id t) ->
  ((target_tid d = Some (t_id t) /\ dump_tid d <> Some (t_id t)) ->
     cs_ctx cs = match exc_ctx d with
                 | Some c => Some (FromException, c)
                 | None => tag_ctx FromThread (t_ctx t)
                 end) /\
  (~ (target_tid d = Some (t_id t) /\ dump_tid d <> Some (t_id t)) ->
     cs_ctx cs = tag_ctx FromThread (t_ctx t)) /\
  (cs_info cs = CsOk <-> cs_ctx cs <> None) /\
  (cs_info cs = CsMissingContext <-> cs_ctx cs = None).
Proof. exact context_choice. Qed.
Print Assumptions c14_context_choice.

(* the stack memory of a walk: the thread's own when 8 bytes at frame 0's stack pointer lie in
   it, else the memory-list region found at that stack pointer, else the thread's own *)
Theorem c14_stack_memory_choice : forall mems t s c,
  let own := thread_stack mems t in
  ((exists k, own = Some k /\ readable_u64 mems k (c_sp c) = true) ->
     choose_stack mems t (Some (s, c)) = own) /\
  (~ (exists k, own = Some k /\ readable_u64 mems k (c_sp c) = true) ->
     choose_stack mems t (Some (s, c)) =
       match mem_at mems (c_sp c) with Some k => Some k | None => own end) /\
  choose_stack mems t None = own.
Proof. exact stack_choice. Qed.
Print Assumptions c14_stack_memory_choice.

(* Crash address: information[1] for a Windows access violation / in-page error with at least
   two parameters, the exception address otherwise; reduced modulo 2^32 (zero-extended) on
   32-bit CPUs, unchanged on 64-bit and unknown CPUs. *)
Theorem c14_crash_address : forall o c e,
  0 <= e_info1 e < two64 -> 0 <= e_addr e < two64 ->
  (o = OsWindows /\ (e_code e = 3221225477 \/ e_code e = 3221225478) /\ 2 <= e_nparams e ->
     crash_address_raw o e = e_info1 e) /\
  (~ (o = OsWindows /\ (e_code e = 3221225477 \/ e_code e = 3221225478) /\ 2 <= e_nparams e) ->
     crash_address_raw o e = e_addr e) /\
  (pointer_width c = W32 ->
     crash_address o c e = crash_address_raw o e mod two32 /\ 0 <= crash_address o c e < two32) /\
  (pointer_width c <> W32 -> crash_address o c e = crash_address_raw o e) /\
  0 <= crash_address o c e < two64.
Proof.
  intros o c e H1 H2. pose proof (crash_address_raw_spec o e) as [Ha Hb].
  assert (Hr : 0 <= crash_address_raw o e < two64).
  { unfold crash_address_raw. destruct (_ && _ && _); assumption. }
  pose proof (crash_address_spec o c e Hr) as (Hc & Hd & He).
  repeat split; try assumption; try (apply Hc; assumption); try (apply Hd; assumption); try apply He.
Qed.
Print Assumptions c14_crash_address.

(* gates of the refined crash reasons (any membership function for the leaf enumerations) *)
Theorem c14_reason_gates : forall (lk : Z -> Z -> bool) c e,
  (forall o, o <> OsWindows -> o <> OsMac -> o <> OsIos -> o <> OsLinux -> o <> OsAndroid ->
     crash_reason lk o c e = (Unknown, [e_code e; e_flags e])) /\
  (fst (crash_reason lk OsWindows c e) = WindowsAccessViolation <->
     lk EN_WIN_EXC (e_code e) = true /\ e_code e = EXCEPTION_ACCESS_VIOLATION /\ 1 <= e_nparams e /\
     lk EN_WIN_ACCESS (e_info0 e) = true) /\
  (fst (crash_reason lk OsWindows c e) = WindowsInPageError <->
     lk EN_WIN_EXC (e_code e) = true /\ e_code e = EXCEPTION_IN_PAGE_ERROR /\ 3 <= e_nparams e /\
     lk EN_WIN_INPAGE (e_info0 e) = true) /\
  (fst (crash_reason lk OsWindows c e) = WindowsStackBufferOverrun <->
     lk EN_WIN_EXC (e_code e) = false /\ lk EN_WIN_ERROR (e_code e) = false /\
     lk EN_WIN_NTSTATUS (e_code e) = true /\ e_code e = STATUS_STACK_BUFFER_OVERRUN /\ 1 <= e_nparams e).
Proof.
  intros lk c e. split; [intros o; apply reason_unknown_os|].
  split; [apply reason_access_violation|]. split; [apply reason_in_page|apply reason_stack_buffer_overrun].
Qed.
Print Assumptions c14_reason_gates.

(* process id: the misc info's when that stream exists (None when its flag is clear, whatever
   the Linux status says), else the Linux status' Pid; create time only from the misc info *)
Theorem c14_pid_time : forall d : dump,
  (forall m, d_misc d = Some m ->
     process_id d = (if Z.testbit (mi_flags1 m) 0 then Some (mi_pid m) else None) /\
     process_create_time d = (if Z.testbit (mi_flags1 m) 1 then Some (mi_ctime m) else None)) /\
  (d_misc d = None -> process_id d = option_map status_pid (d_status d) /\ process_create_time d = None).
Proof. exact pid_time. Qed.
Print Assumptions c14_pid_time.

(* Unloaded modules per frame, both build profiles: the subtraction never traps; a frame inside
   a loaded module lists nothing; otherwise the listed (module name, offset) pairs are exactly
   instruction - base for every unloaded module whose range contains the instruction.
   Uses c08_unloaded_exact (RM.C08.Proofs.unloaded_iff). *)
Theorem c14_unloaded_offsets : forall (p : profile) (d : dump) x,
  0 <= x < two64 -> (forall b s nm, In (b, s, nm) (d_unloaded d) -> 0 <= b) ->
  exists l, frame_unloaded p d x = Ret l /\
    (module_at (read_modules (d_modules d)) x <> None -> l = []) /\
    (module_at (read_modules (d_modules d)) x = None ->
       forall nm off, In (nm, off) l <->
         exists i b s r, nth_error (read_unloaded (d_unloaded d)) i = Some (b, s, nm) /\
                         mk_range b s = Some r /\ contains r x = true /\ off = x - b) /\
    (forall nm off, In (nm, off) l -> 0 <= off < two64).
Proof. exact frame_unloaded_spec. Qed.
Print Assumptions c14_unloaded_offsets.

(* the state's module list: the stream's entries with a usable image size *)
Theorem c14_modules_of_stream : forall l m,
  In m (read_modules l) <-> In m l /\ snd m <> 0 /\ fst m + snd m <= U64MAX.
Proof. exact read_modules_spec. Qed.
Print Assumptions c14_modules_of_stream.

(* Linux / Android: whenever the membership function agrees with the translated name tables, every crash
   reason has a predicted Display string (signal name, " / " si_code name or 0x%08x, or the refined
   "SIGSEGV / SEGV_MAPERR" form); an unknown signal renders as "unknown 0x.. / 0x..". *)
Theorem c14_linux_reason_string : forall (lk : Z -> Z -> bool),
  (forall v, lk EN_LINUX v = true -> name_of NAMES_ExceptionCodeLinux v <> None) ->
  (forall v, lk EN_SIGILL v = true -> name_of NAMES_ExceptionCodeLinuxSigillKind v <> None) ->
  (forall v, lk EN_SIGTRAP v = true -> name_of NAMES_ExceptionCodeLinuxSigtrapKind v <> None) ->
  (forall v, lk EN_SIGFPE v = true -> name_of NAMES_ExceptionCodeLinuxSigfpeKind v <> None) ->
  (forall v, lk EN_SIGSEGV v = true -> name_of NAMES_ExceptionCodeLinuxSigsegvKind v <> None) ->
  (forall v, lk EN_SIGBUS v = true -> name_of NAMES_ExceptionCodeLinuxSigbusKind v <> None) ->
  (forall v, lk EN_SIGSYS v = true -> name_of NAMES_ExceptionCodeLinuxSigsysKind v <> None) ->
  forall c e o, o = OsLinux \/ o = OsAndroid -> reason_string (crash_reason lk o c e) <> None.
Proof. exact linux_reason_string. Qed.
Print Assumptions c14_linux_reason_string.

Example c14_nonvacuous_reason_string :
  reason_string (LinuxSigsegv, [1]) = Some [83; 73; 71; 83; 69; 71; 86; 32; 47; 32; 83; 69; 71; 86; 95; 77; 65; 80; 69; 82; 82] /\
  reason_string (LinuxGeneral, [11; 128]) = Some [83; 73; 71; 83; 69; 71; 86; 32; 47; 32; 83; 73; 95; 75; 69; 82; 78; 69; 76] /\
  reason_string (Unknown, [11; 1]) = Some [117; 110; 107; 110; 111; 119; 110; 32; 48; 120; 48; 48; 48; 48; 48; 48; 48; 98; 32; 47; 32; 48; 120; 48; 48; 48; 48; 48; 48; 48; 49].
Proof. vm_compute. repeat split. Qed.

(* ---- non-vacuity ---- *)
Definition ex_dump : dump :=
  {| d_platform := 2; d_arch := 0; d_time := 7;
     d_threads := [ {| t_id := 5; t_ctx := Some {| c_ip := 100; c_sp := 4096 |}; t_stack := Some 0; t_sbase := 4096 |};
                    {| t_id := 9; t_ctx := Some {| c_ip := 200; c_sp := 8192 |}; t_stack := None; t_sbase := 0 |};
                    {| t_id := 7; t_ctx := None; t_stack := None; t_sbase := 0 |};
                    {| t_id := 7; t_ctx := Some {| c_ip := 20580; c_sp := 8200 |}; t_stack := Some 0; t_sbase := 4096 |} ];
     d_names := [(7, Some 1); (7, None); (5, Some 2); (9, Some 9); (7, Some 3)];
     d_exc := Some {| e_tid := 7; e_code := 3221225477; e_flags := 0; e_nparams := 2; e_info0 := 1;
                      e_info1 := 18446744071562067968; e_info2 := 0; e_addr := 4198400;
                      e_ctx := Some {| c_ip := 20500; c_sp := 8192 |} |};
     d_bp := Some {| b_validity := 3; b_dump_tid := 9; b_req_tid := 5 |};
     d_misc := Some {| mi_flags1 := 1; mi_pid := 42; mi_ctime := 99 |};
     d_status := Some [80; 105; 100; 58; 9; 55; 55; 10];
     d_modules := [(65536, 4096); (1, 0)];
     d_unloaded := [(20480, 256, 1); (20000, 1000, 2); (20480, 64, 1)];
     d_mems := [(4096, 64); (8192, 64)] |}.

Example c14_nonvacuous_threads :
  map cs_id (threads_of ex_dump) = [5; 9; 7; 7] /\
  map cs_name (threads_of ex_dump) = [Some 2; Some 9; Some 3; Some 3] /\
  map cs_info (threads_of ex_dump) = [CsOk; CsDumpThreadSkipped; CsOk; CsOk] /\
  requesting_thread ex_dump = Some 3%nat /\
  map cs_ctx (threads_of ex_dump) =
    [Some (FromThread, {| c_ip := 100; c_sp := 4096 |}); None;
     Some (FromException, {| c_ip := 20500; c_sp := 8192 |});
     Some (FromException, {| c_ip := 20500; c_sp := 8192 |})].
Proof. vm_compute. repeat split. Qed.

Example c14_nonvacuous_address :
  crash_address OsWindows X86 {| e_tid := 7; e_code := 3221225477; e_flags := 0; e_nparams := 2; e_info0 := 1;
                                 e_info1 := 18446744071562067968; e_info2 := 0; e_addr := 4198400; e_ctx := None |}
  = 2147483648 /\
  process_id ex_dump = Some 42 /\ process_create_time ex_dump = None.
Proof. vm_compute. repeat split. Qed.

Example c14_nonvacuous_unloaded :
  frame_unloaded Debug ex_dump 20500 = Ret [(2, 500); (1, 20); (1, 20)] /\
  choose_stack (d_mems ex_dump)
     {| t_id := 7; t_ctx := None; t_stack := Some 0; t_sbase := 4096 |}
     (Some (FromException, {| c_ip := 20500; c_sp := 8192 |})) = Some 1.
Proof. vm_compute. repeat split. Qed.

(* ---- round 5 ---- *)

(* The crash-reason and crash-address model IS the source: for every membership function, OS, CPU and exception record the
   hand-written dispatch equals the decision trees translate/c14_reason.py regenerates from CrashReason::from_exception /
   from_windows_code / from_windows_error / from_windows_error_with_facility / from_windows_exception / from_mac_exception /
   from_linux_exception and MinidumpException::get_crash_address on every run (which enumeration is consulted first,
   parameter-count gates, masks, refinement arms, the constants they are keyed on). *)
Theorem c14_reason_is_source : forall (lk : Z -> Z -> bool) o c e,
  crash_reason lk o c e = gen_from_exception lk o c e /\
  crash_address o c e = gen_crash_address o c e.
Proof. intros. split; [apply crash_reason_is_source|apply crash_address_is_source]. Qed.
Print Assumptions c14_reason_is_source.

(* The documented refinements, on the membership tables regenerated from minidump-common/src/errors (gen_lk): Windows code
   0xC0000409 (__fastfail) is the fast-fail reason carrying information[0] whenever the record has a parameter and the NTSTATUS
   otherwise - no enumeration consulted earlier shadows it; access violation / in-page error are refined exactly for the
   documented access types 0 / 1 / 8 with >= 1 / >= 3 parameters. *)
Theorem c14_windows_refinements_documented : forall c e,
  (e_code e = 3221226505 ->
     crash_reason gen_lk OsWindows c e =
     if 1 <=? e_nparams e then (WindowsStackBufferOverrun, [low32 (e_info0 e)]) else (WindowsNtStatus, [3221226505])) /\
  (e_code e = 3221225477 ->
     crash_reason gen_lk OsWindows c e =
     if (1 <=? e_nparams e) && documented_access (e_info0 e) then (WindowsAccessViolation, [e_info0 e])
     else (WindowsGeneral, [3221225477])) /\
  (e_code e = 3221225478 ->
     crash_reason gen_lk OsWindows c e =
     if (3 <=? e_nparams e) && documented_access (e_info0 e) then (WindowsInPageError, [e_info0 e; low32 (e_info2 e)])
     else (WindowsGeneral, [3221225478])).
Proof.
  intros c e. split; [apply fast_fail_documented|]. split; [apply access_violation_documented|apply in_page_documented].
Qed.
Print Assumptions c14_windows_refinements_documented.

(* Linux / Android on the regenerated tables: a signal of the table is refined by its si_code table exactly for SIGILL,
   SIGTRAP, SIGFPE, SIGSEGV, SIGBUS, SIGSYS (all six, and the seven refined Mach exceptions, are members of their tables);
   anything else is LinuxGeneral, a code outside the table Unknown. *)
Theorem c14_signals_documented : forall c e o, o = OsLinux \/ o = OsAndroid ->
  crash_reason gen_lk o c e =
  (if gen_lk EN_LINUX (e_code e) then
     match linux_refinement (e_code e) with
     | Some (en, f) => if gen_lk en (e_flags e) then (f, [e_flags e]) else (LinuxGeneral, [e_code e; e_flags e])
     | None => (LinuxGeneral, [e_code e; e_flags e])
     end
   else (Unknown, [e_code e; e_flags e])) /\
  forallb (gen_lk EN_LINUX) [4; 5; 7; 8; 11; 31] = true /\ forallb (gen_lk EN_MAC) [1; 2; 3; 5; 6; 11; 12] = true.
Proof. intros c e o Ho. split; [apply signals_documented; exact Ho|exact refined_signals_known]. Qed.
Print Assumptions c14_signals_documented.

(* Duplicate thread ids: EVERY thread-list entry that carries the requesting id (and is not the dump-writer thread) starts
   from the exception's context when that is readable - in particular the LAST of them, the one requesting_thread points at. *)
Theorem c14_duplicate_ids_context : forall (d : dump) ec i ti ci,
  exc_ctx d = Some ec ->
  nth_error (d_threads d) i = Some ti -> nth_error (threads_of d) i = Some ci ->
  target_tid d = Some (t_id ti) -> dump_tid d <> Some (t_id ti) ->
  cs_ctx ci = Some (FromException, ec) /\ cs_info ci = CsOk /\
  exists r tr cr, requesting_thread d = Some r /\ (i <= r)%nat /\
    nth_error (d_threads d) r = Some tr /\ t_id tr = t_id ti /\
    nth_error (threads_of d) r = Some cr /\ cs_ctx cr = Some (FromException, ec).
Proof. exact duplicates_context. Qed.
Print Assumptions c14_duplicate_ids_context.

(* /proc/self/status (any length, any number of lines): the process id is the decimal value of the FIRST line whose key is
   "Pid" (0 when it exceeds u32 or there is no such line); lines = the pieces between line feeds. *)
Theorem c14_status_pid : forall pre v post,
  (forall l b, In l (pre ++ (KEY_PID ++ 58 :: 9 :: v) :: post) -> In b l -> b <> 10) ->
  (forall l k w, In l pre -> kv_of_line l = Some (k, w) -> zlist_eqb k KEY_PID = false) ->
  v <> [] -> forallb is_digit v = true ->
  status_pid (join_lines (pre ++ (KEY_PID ++ 58 :: 9 :: v) :: post)) =
    (if dec_value v <=? 4294967295 then dec_value v else 0) /\
  (forall lines, lines <> [] -> (forall l b, In l lines -> In b l -> b <> 10) ->
     (forall l k w, In l lines -> kv_of_line l = Some (k, w) -> zlist_eqb k KEY_PID = false) ->
     status_pid (join_lines lines) = 0).
Proof.
  intros pre v post H1 H2 H3 H4. split; [apply status_pid_wellformed; assumption|exact status_pid_absent].
Qed.
Print Assumptions c14_status_pid.

(* The platform tables and flag bits ARE the source: Os::from_platform_id, Cpu::from_processor_architecture, Cpu::pointer_width
   (decision trees regenerated from system_info.rs over the PlatformId / ProcessorArchitecture discriminants of format.rs), the
   raw architectures MinidumpContext::read has an arm for (context.rs), the BreakpadInfoValid bit that guards each thread id in
   MinidumpBreakpadInfo::read and the MiscInfoFlags bit that guards RawMiscInfo::process_id / process_create_time. *)
Theorem c14_platform_is_source :
  (forall id, os_of_platform id = gen_os_of_platform id) /\
  (forall a, cpu_of_arch a = gen_cpu_of_arch a) /\
  (forall c, pointer_width c = gen_pointer_width c) /\
  (forall a, arch_has_context a = gen_arch_has_context a) /\
  forall d : dump,
    dump_tid d = match d_bp d with
                 | Some b => if Z.testbit (b_validity b) GEN_BP_BIT_dump_thread_id then Some (b_dump_tid b) else None
                 | None => None end /\
    req_tid d = match d_bp d with
                | Some b => if Z.testbit (b_validity b) GEN_BP_BIT_requesting_thread_id then Some (b_req_tid b) else None
                | None => None end /\
    process_id d = match d_misc d with
                   | Some m => if Z.testbit (mi_flags1 m) GEN_MISC_BIT_process_id then Some (mi_pid m) else None
                   | None => option_map status_pid (d_status d) end /\
    process_create_time d = match d_misc d with
                            | Some m => if Z.testbit (mi_flags1 m) GEN_MISC_BIT_process_create_time then Some (mi_ctime m) else None
                            | None => None end /\
    (* a Breakpad info / misc info stream is read iff it holds the whole (smallest) structure of format.rs *)
    BREAKPAD_INFO_SIZE = GEN_BREAKPAD_INFO_SIZE /\ MISC_INFO_SIZE = GEN_MISC_INFO_SIZE.
Proof.
  split; [exact os_of_platform_is_source|]. split; [exact cpu_of_arch_is_source|]. split; [exact pointer_width_is_source|].
  split; [exact arch_has_context_is_source|]. intro d. destruct (flag_bits_are_source d) as (A & B & C & D).
  repeat split; assumption || reflexivity.
Qed.
Print Assumptions c14_platform_is_source.

(* into_process_state IS the source: one iteration of the thread -> CallStack closure (dump-writer thread skipped first and
   keeping its name, `crashing_thread_id.or(requesting_thread_id) == Some(id)`, requesting_thread = Some(i) exactly there,
   `exception_context.or(thread_context)` there and the thread context elsewhere, Ok / MissingContext), the process id / create
   time expressions, MinidumpThread::stack_memory and the choice of the stack memory handed to walk_stack equal the trees translate/c14_reason.py obtains
   by symbolic execution of minidump-processor/src/processor.rs on every run (Gen/C14Process.v). *)
Theorem c14_process_state_is_source : forall d : dump,
  (forall i t req, one_thread d i t req = gen_one_thread d i t req) /\
  (* the whole `.iter().enumerate().map(closure).collect()` with the captured requesting_thread *)
  (forall ts i req, walk_threads d i ts req =
     (fix go (i : nat) (ts : list thread) (req : option nat) : list callstack * option nat :=
        match ts with
        | [] => ([], req)
        | t :: rest => let '(cs, req1) := gen_one_thread d i t req in
                       let '(css, req2) := go (S i) rest req1 in (cs :: css, req2)
        end) i ts req) /\
  process_id d = gen_process_id d /\ process_create_time d = gen_process_create_time d /\
  (forall mems t f, choose_stack mems t f = gen_choose_stack mems t f) /\
  (forall mems t, thread_stack mems t = gen_thread_stack mems t) /\
  (* /proc/self/status: separator, key, first match, the value for `no Pid line` and for `does not parse` *)
  (forall lines, pid_of_lines lines =
                 pid_of_lines_with GEN_STATUS_SEP GEN_STATUS_KEY GEN_STATUS_ABSENT GEN_STATUS_UNPARSEABLE lines).
Proof.
  intro d. split; [intros; apply one_thread_is_source|]. split; [apply walk_threads_is_source|]. split; [apply pid_time_is_source|].
  split; [apply pid_time_is_source|]. split; [intros; apply choose_stack_is_source|]. split; [intros; apply thread_stack_is_source|exact status_consts_are_source].
Qed.
Print Assumptions c14_process_state_is_source.

(* Display for CrashReason: for the 21 variants rendered as "<literal><Debug name of the payload>" the predicted string starts
   with the literal the translator reads from the `Variant(ex) => write!(f, "..{ex:?}")` arm of the source (the Debug names are the
   tables of Gen/C14Names.v). *)
Theorem c14_display_prefix_is_source : forall f p v s,
  In (f, p) GEN_DISPLAY -> f <> WindowsGeneral -> reason_string (f, [v]) = Some s -> exists n, s = p ++ n.
Proof. exact display_prefix_is_source. Qed.
Print Assumptions c14_display_prefix_is_source.

(* Mac / iOS: whenever the membership function agrees with the translated name tables, every crash reason has a predicted
   Display string - also EXC_RESOURCE / EXC_GUARD with their bit-field renderings (exc_resource_string, exc_guard_string). *)
Theorem c14_mac_reason_string : forall (lk : Z -> Z -> bool),
  (forall v, lk EN_MAC v = true -> name_of NAMES_ExceptionCodeMac v <> None) ->
  (forall v, lk EN_MAC_KERN v = true -> name_of NAMES_ExceptionCodeMacBadAccessKernType v <> None) ->
  (forall v, lk EN_MAC_ACC_ARM v = true -> name_of NAMES_ExceptionCodeMacBadAccessArmType v <> None) ->
  (forall v, lk EN_MAC_ACC_PPC v = true -> name_of NAMES_ExceptionCodeMacBadAccessPpcType v <> None) ->
  (forall v, lk EN_MAC_ACC_X86 v = true -> name_of NAMES_ExceptionCodeMacBadAccessX86Type v <> None) ->
  (forall v, lk EN_MAC_INS_ARM v = true -> name_of NAMES_ExceptionCodeMacBadInstructionArmType v <> None) ->
  (forall v, lk EN_MAC_INS_PPC v = true -> name_of NAMES_ExceptionCodeMacBadInstructionPpcType v <> None) ->
  (forall v, lk EN_MAC_INS_X86 v = true -> name_of NAMES_ExceptionCodeMacBadInstructionX86Type v <> None) ->
  (forall v, lk EN_MAC_ARI_ARM v = true -> name_of NAMES_ExceptionCodeMacArithmeticArmType v <> None) ->
  (forall v, lk EN_MAC_ARI_PPC v = true -> name_of NAMES_ExceptionCodeMacArithmeticPpcType v <> None) ->
  (forall v, lk EN_MAC_ARI_X86 v = true -> name_of NAMES_ExceptionCodeMacArithmeticX86Type v <> None) ->
  (forall v, lk EN_MAC_SOFTWARE v = true -> name_of NAMES_ExceptionCodeMacSoftwareType v <> None) ->
  (forall v, lk EN_MAC_BRK_ARM v = true -> name_of NAMES_ExceptionCodeMacBreakpointArmType v <> None) ->
  (forall v, lk EN_MAC_BRK_PPC v = true -> name_of NAMES_ExceptionCodeMacBreakpointPpcType v <> None) ->
  (forall v, lk EN_MAC_BRK_X86 v = true -> name_of NAMES_ExceptionCodeMacBreakpointX86Type v <> None) ->
  (forall v, lk EN_MAC_RESOURCE v = true -> name_of NAMES_ExceptionCodeMacResourceType v <> None) ->
  (forall v, lk EN_MAC_GUARD v = true -> name_of NAMES_ExceptionCodeMacGuardType v <> None) ->
  forall c e o, o = OsMac \/ o = OsIos -> reason_string (crash_reason lk o c e) <> None.
Proof. exact mac_reason_string. Qed.
Print Assumptions c14_mac_reason_string.

Example c14_nonvacuous_mac_strings :
  (* EXC_RESOURCE / RESOURCE_TYPE_CPU / FLAVOR_CPU_MONITOR interval: 3s CPU limit: 5% CPU consumed: 7% *)
  reason_string (MacResource, [1; Z.shiftl 1 58 + Z.shiftl 3 7 + 5; 7]) =
    Some (zs "EXC_RESOURCE / RESOURCE_TYPE_CPU / FLAVOR_CPU_MONITOR interval: 3s CPU limit: 5% CPU consumed: 7%") /\
  reason_string (MacGuard, [3; 4294967296 + 9; 18446744073709551615]) =
    Some (zs "EXC_GUARD / GUARD_TYPE_USER/ namespace: 9 guard identifier: 18446744073709551615") /\
  reason_string (MacGuard, [2; 7; 1]) =
    Some (zs "EXC_GUARD / GUARD_TYPE_FD / 0x0000000000000007 / 0x0000000000000001").
Proof. vm_compute. repeat split. Qed.

(* str::parse::<u32> exactly, and the general form of c14_status_pid: the FIRST line whose key - after removing blanks and
   one pair of quotes - is "Pid" decides, whatever it looks like; its value parses iff it is an optional `+` and at least one
   ASCII digit with value <= u32::MAX. *)
Theorem c14_status_pid_first_line : forall pre line post v,
  (forall l b, In l (pre ++ line :: post) -> In b l -> b <> 10) ->
  (forall l k w, In l pre -> kv_of_line l = Some (k, w) -> zlist_eqb k KEY_PID = false) ->
  kv_of_line line = Some (KEY_PID, v) ->
  status_pid (join_lines (pre ++ line :: post)) = match parse_u32 v with Some n => n | None => 0 end /\
  forall n, parse_u32 v = Some n <->
    unsigned_body v <> [] /\ forallb is_digit (unsigned_body v) = true /\ dec_value (unsigned_body v) = n /\ n <= 4294967295.
Proof.
  intros pre line post v H1 H2 H3. split; [apply status_pid_first_line; assumption|intro n; apply parse_u32_spec].
Qed.
Print Assumptions c14_status_pid_first_line.

(* Which values the tables consulted one after the other share, on the regenerated tables: a value in two of them is decided
   by the order of the dispatch, so a NEW enumeration value that shadows a later table (the class of seeded C14-8) changes one
   of these lists.  23 exception codes are also NTSTATUS values, 26 winerror.h values are also NTSTATUS values, no value of the
   three tables is a facility / winerror.h composite, no kernel return code is an architecture-specific EXC_BAD_ACCESS code. *)
Theorem c14_dispatch_overlaps_documented :
  overlap MEM_ExceptionCodeWindows MEM_WinErrorWindows = [] /\
  overlap MEM_ExceptionCodeWindows MEM_NtStatusWindows =
    [2147483649; 2147483650; 2147483651; 2147483652; 3221225477; 3221225478; 3221225480; 3221225501; 3221225509; 3221225510;
     3221225612; 3221225613; 3221225614; 3221225615; 3221225616; 3221225617; 3221225618; 3221225619; 3221225620; 3221225621;
     3221225622; 3221225725; 3221225876] /\
  overlap MEM_WinErrorWindows MEM_NtStatusWindows =
    [0; 1; 2; 3; 63; 128; 191; 192; 255; 259; 266; 267; 275; 276; 277; 278; 288; 298; 299; 300; 301; 302; 303; 304; 514; 534] /\
  filter facility_decomposable (MEM_ExceptionCodeWindows ++ MEM_WinErrorWindows ++ MEM_NtStatusWindows) = [] /\
  overlap MEM_ExceptionCodeMacBadAccessKernType
          (MEM_ExceptionCodeMacBadAccessArmType ++ MEM_ExceptionCodeMacBadAccessPpcType ++ MEM_ExceptionCodeMacBadAccessX86Type) = [].
Proof. exact dispatch_overlaps. Qed.
Print Assumptions c14_dispatch_overlaps_documented.

Example c14_nonvacuous_round5 :
  crash_reason gen_lk OsWindows X86_64
    {| e_tid := 1; e_code := 3221226505; e_flags := 0; e_nparams := 1; e_info0 := 4294967296 + 7; e_info1 := 0; e_info2 := 0;
       e_addr := 0; e_ctx := None |} = (WindowsStackBufferOverrun, [7]) /\
  crash_reason gen_lk OsLinux X86_64
    {| e_tid := 1; e_code := 11; e_flags := 1; e_nparams := 0; e_info0 := 0; e_info1 := 0; e_info2 := 0;
       e_addr := 0; e_ctx := None |} = (LinuxSigsegv, [1]) /\
  (* "Name:\tx\nPid:\t4242\nPPid:\t1\nPid:\t7\n" *)
  status_pid [78; 97; 109; 101; 58; 9; 120; 10; 80; 105; 100; 58; 9; 52; 50; 52; 50; 10; 80; 80; 105; 100; 58; 9; 49; 10;
              80; 105; 100; 58; 9; 55; 10] = 4242 /\
  status_pid [34; 80; 105; 100; 34; 32; 58; 32; 43; 48; 48; 55; 32; 13] = 7 /\     (* "Pid" : +007 \r *)
  status_pid [80; 105; 100; 58; 52; 50; 57; 52; 57; 54; 55; 50; 57; 54] = 0 /\     (* Pid:4294967296 *)
  process_id ex_dump = Some 42 /\
  process_id {| d_platform := 33281; d_arch := 9; d_time := 0; d_threads := []; d_names := []; d_exc := None; d_bp := None;
                d_misc := None; d_status := Some [80; 105; 100; 58; 9; 55; 55; 10]; d_modules := []; d_unloaded := [];
                d_mems := [] |} = Some 77.
Proof. vm_compute. repeat split. Qed.

(* ==================================================================== round 5, second pass: the text of every Windows reason *)
(* Windows: whenever the name function [nm] (names of the two large tables winerror.h / ntstatus.h) and the translated small name
   tables agree with membership, EVERY crash reason has a predicted Display string - also WinError ("{e:?}"), WinErrorWithFacility
   ("{f:?} / {e:?}"), NtStatus and InPageError ("EXCEPTION_IN_PAGE_ERROR_{a:?} / " + the NTSTATUS name, else {:#010x}).  With
   c14_linux_reason_string and c14_mac_reason_string: all 33 variants. *)
Theorem c14_windows_reason_string : forall (lk : Z -> Z -> bool) (nm : Z -> Z -> option (list Z)),
  (forall v, lk EN_WIN_EXC v = true -> name_of NAMES_ExceptionCodeWindows v <> None) ->
  (forall v, lk EN_WIN_ERROR v = true -> nm EN_WIN_ERROR v <> None) ->
  (forall v, lk EN_WIN_FACILITY v = true -> name_of NAMES_WinErrorFacilityWindows v <> None) ->
  (forall v, lk EN_WIN_ACCESS v = true -> name_of NAMES_ExceptionCodeWindowsAccessType v <> None) ->
  (forall v, lk EN_WIN_INPAGE v = true -> name_of NAMES_ExceptionCodeWindowsInPageErrorType v <> None) ->
  forall c e, reason_string_nm nm (crash_reason lk OsWindows c e) <> None.
Proof. exact windows_reason_string. Qed.
Print Assumptions c14_windows_reason_string.

(* the name function is consulted for those four families only: every other reason renders as reason_string does *)
Theorem c14_reason_string_nm_conservative : forall nm r, reason_string r <> None -> reason_string_nm nm r = reason_string r.
Proof. exact reason_string_nm_small. Qed.
Print Assumptions c14_reason_string_nm_conservative.

Example c14_nonvacuous_windows_strings :
  let nm := fun en v => if (en =? EN_WIN_ERROR) && (v =? 5) then Some (zs "ERROR_ACCESS_DENIED")
                        else if (en =? EN_WIN_NTSTATUS) && (v =? 3221225485) then Some (zs "STATUS_INVALID_PARAMETER") else None in
  reason_string_nm nm (WindowsWinError, [5]) = Some (zs "ERROR_ACCESS_DENIED") /\
  reason_string_nm nm (WindowsWinErrorWithFacility, [109; 5]) = Some (zs "FACILITY_VISUALCPP / ERROR_ACCESS_DENIED") /\
  reason_string_nm nm (WindowsNtStatus, [3221225485]) = Some (zs "STATUS_INVALID_PARAMETER") /\
  reason_string_nm nm (WindowsInPageError, [1; 3221225485]) = Some (zs "EXCEPTION_IN_PAGE_ERROR_WRITE / STATUS_INVALID_PARAMETER") /\
  reason_string_nm nm (WindowsInPageError, [8; 3221225486]) = Some (zs "EXCEPTION_IN_PAGE_ERROR_EXEC / 0xc000000e") /\
  reason_string_nm nm (LinuxSigsegv, [1]) = Some (zs "SIGSEGV / SEGV_MAPERR").
Proof. vm_compute. repeat split. Qed.

(* ==================================================================== round 5, second pass: from the BYTES of a dump *)
From RM Require Import C02.Model C02.Proofs4.
From RM Require Import C14.Model C14.Bytes C14.BytesProofs.

(* The dump record the processor works on, computed from the bytes of a serialized dump model (C02: any subset of streams,
   any item counts, either byte order, arbitrary leading directory entries), is the record read off the model directly;
   processing succeeds exactly when the model has a system info and a thread list.  For EVERY CPU-context reader [rc].
   Composition of c02_dump_roundtrip (Minidump::read + get_stream) with MinidumpInfo::new. *)
Theorem c14_bytes_are_the_model : forall rc e m, wf_model e m = true ->
  dump_of_bytes rc (encode_dump e m) = dump_of_model rc e m /\
  (dump_of_model rc e m <> None <-> m_sysinfo m <> None /\ m_threads m <> None).
Proof. intros rc e m H. split; [apply bytes_roundtrip; exact H|apply streams_required]. Qed.
Print Assumptions c14_bytes_are_the_model.

(* "Modules, unloaded modules, process id and times are those of the corresponding streams", end to end from the bytes:
   the state's module list is the module list stream's (base, size) entries in order (all of them: a well-formed model has no
   entry the reader drops), likewise the unloaded modules with their names; the dump time is the header's; process id and
   create time are the misc info's fields under their flag bits, else the first Pid line of the Linux status stream. *)
Theorem c14_bytes_streams : forall rc e m d, wf_model e m = true -> dump_of_bytes rc (encode_dump e m) = Some d ->
  d_time d = m_time m /\
  read_modules (d_modules d) = map module_of (opt_list (m_modules m)) /\
  read_unloaded (d_unloaded d) = map unloaded_of (opt_list (m_unloaded m)) /\
  process_id d = match m_misc m with
                 | Some mi => if Z.testbit (nth 1 (snd mi) 0) 0 then Some (nth 2 (snd mi) 0) else None
                 | None => option_map status_pid (m_lx_status m)
                 end /\
  process_create_time d = match m_misc m with
                          | Some mi => if Z.testbit (nth 1 (snd mi) 0) 1 then Some (nth 3 (snd mi) 0) else None
                          | None => None
                          end.
Proof. intros rc e m d Hwf Hd. rewrite (bytes_roundtrip rc e m Hwf) in Hd. exact (model_streams rc e m d Hwf Hd). Qed.
Print Assumptions c14_bytes_streams.

(* one call stack per entry of the thread list stream, in order, with the same ids; the name is the last entry of the thread
   names stream for that id; a stack is marked skipped exactly when its id is the Breakpad info's dump-writer thread id *)
Theorem c14_bytes_threads : forall rc e m d, wf_model e m = true -> dump_of_bytes rc (encode_dump e m) = Some d ->
  map cs_id (threads_of d) = map th_id (opt_list (m_threads m)) /\
  forall i cs, nth_error (threads_of d) i = Some cs ->
    exists t, nth_error (opt_list (m_threads m)) i = Some t /\ cs_id cs = th_id t /\
      cs_name cs = get_name (map tname_of (opt_list (m_tnames m))) (th_id t) /\
      (bp_dump_tid (m_breakpad m) = Some (th_id t) <-> cs_info cs = CsDumpThreadSkipped).
Proof. intros rc e m d Hwf Hd. rewrite (bytes_roundtrip rc e m Hwf) in Hd. exact (model_threads rc e m d Hd). Qed.
Print Assumptions c14_bytes_threads.

(* The requesting thread, end to end from the bytes: the LAST entry of the thread list stream whose id is the exception
   stream's thread id - else, without an exception stream, the Breakpad info's requesting thread id under its validity bit -
   and is not the Breakpad info's dump-writer thread id (under its own validity bit); none exactly when no entry qualifies
   (exception thread id = dump-writer thread id, id absent from the thread list, neither stream).  Its walk - like that of every
   entry with that id - starts from the exception stream's context when [rc] can read it, else from the thread's own. *)
Theorem c14_bytes_requesting_thread : forall rc e m d, wf_model e m = true -> dump_of_bytes rc (encode_dump e m) = Some d ->
  match requesting_thread d with
  | Some i => (exists t, nth_error (opt_list (m_threads m)) i = Some t /\ named_requesting (m_exception m) (m_breakpad m) t) /\
              forall j t, (i < j)%nat -> nth_error (opt_list (m_threads m)) j = Some t ->
                          ~ named_requesting (m_exception m) (m_breakpad m) t
  | None => forall j t, nth_error (opt_list (m_threads m)) j = Some t -> ~ named_requesting (m_exception m) (m_breakpad m) t
  end /\
  forall s i t cs, m_sysinfo m = Some s ->
    nth_error (opt_list (m_threads m)) i = Some t -> nth_error (threads_of d) i = Some cs ->
    bp_dump_tid (m_breakpad m) <> Some (th_id t) ->
    (named_requesting (m_exception m) (m_breakpad m) t ->
       cs_ctx cs = match opt_and_then (m_exception m) (fun x => read_ctx rc e (si_arch s) (ex_ctx x)) with
                   | Some c => Some (FromException, c)
                   | None => tag_ctx FromThread (read_ctx rc e (si_arch s) (th_ctx t))
                   end) /\
    (~ named_requesting (m_exception m) (m_breakpad m) t ->
       cs_ctx cs = tag_ctx FromThread (read_ctx rc e (si_arch s) (th_ctx t))).
Proof.
  intros rc e m d Hwf Hd. rewrite (bytes_roundtrip rc e m Hwf) in Hd. split; [exact (model_requesting rc e m d Hd)|].
  intros s i t cs Hs Ht Hcs Hdt. exact (model_context rc e m d s i t cs Hd Hs Ht Hcs Hdt).
Qed.
Print Assumptions c14_bytes_requesting_thread.

(* Which streams are required and what an unreadable optional stream means is the source's: every (stream type, treatment) pair
   the byte-level model relies on is among the get_stream calls of MinidumpInfo::new as regenerated on every run (`.or(Err(..))?` =
   required, `.ok()` / `if let Ok` = treated as absent, `unwrap_or_else(default)` / `Err(_) => new()` = empty list); and a parsed
   file is processed exactly when the reader serves a system info and a thread list. *)
Theorem c14_stream_policy_is_source :
  forallb (policy_in GEN_STREAM_POLICY) stream_policy = true /\
  forall rc v, dump_of_view rc v <> None <-> (exists s, v_sysinfo v = SOk s) /\ (exists ts, v_threads v = SOk ts).
Proof. split; [exact stream_policy_is_source|exact view_required]. Qed.
Print Assumptions c14_stream_policy_is_source.

(* The same choice for ANY file the reader accepts (not only serialized models: hostile directories, unreadable optional
   streams): in terms of what get_stream serves - an exception / Breakpad info stream that is missing OR unreadable counts as absent. *)
Theorem c14_file_requesting_thread : forall rc bs v d, decode_dump bs = Some v -> dump_of_bytes rc bs = Some d ->
  exists s ts, v_sysinfo v = SOk s /\ v_threads v = SOk ts /\
  let exc := sres_opt (v_exception v) in let bp := sres_opt (v_breakpad v) in
  map cs_id (threads_of d) = map th_id ts /\
  match requesting_thread d with
  | Some i => (exists t, nth_error ts i = Some t /\ named_requesting exc bp t) /\
              forall j t, (i < j)%nat -> nth_error ts j = Some t -> ~ named_requesting exc bp t
  | None => forall j t, nth_error ts j = Some t -> ~ named_requesting exc bp t
  end.
Proof. exact file_requesting. Qed.
Print Assumptions c14_file_requesting_thread.

(* ... and the rest of the index for ANY accepted file, in terms of the streams the reader serves (an unreadable module / unloaded
   module / thread names stream = an empty one; an unreadable misc info / Breakpad info / status stream = none): dump time, module
   lists (before the reader-independent filtering read_modules / read_unloaded), process id and create time, names, skipped stacks *)
Theorem c14_file_streams : forall rc bs v d, decode_dump bs = Some v -> dump_of_bytes rc bs = Some d ->
  d_time d = v_time v /\
  d_modules d = map module_of (sres_list (v_modules v)) /\
  d_unloaded d = map unloaded_of (sres_list (v_unloaded v)) /\
  process_id d = match sres_opt (v_misc v) with
                 | Some mi => if Z.testbit (nth 1 (snd mi) 0) 0 then Some (nth 2 (snd mi) 0) else None
                 | None => option_map status_pid (sres_opt (v_lx_status v))
                 end /\
  process_create_time d = match sres_opt (v_misc v) with
                          | Some mi => if Z.testbit (nth 1 (snd mi) 0) 1 then Some (nth 3 (snd mi) 0) else None
                          | None => None
                          end /\
  forall i cs, nth_error (threads_of d) i = Some cs ->
    cs_name cs = get_name (map tname_of (sres_list (v_tnames v))) (cs_id cs) /\
    (bp_dump_tid (sres_opt (v_breakpad v)) = Some (cs_id cs) <-> cs_info cs = CsDumpThreadSkipped).
Proof. exact file_streams. Qed.
Print Assumptions c14_file_streams.

(* unloaded modules with per-frame offsets, end to end from the bytes, both build profiles: the subtraction never traps; a frame
   inside a module of the module list stream lists nothing; otherwise the listed (name, offset) pairs are exactly
   instruction - base for every entry of the unloaded module list stream whose range contains the instruction *)
Theorem c14_bytes_unloaded_offsets : forall rc p e m d x, wf_model e m = true -> dump_of_bytes rc (encode_dump e m) = Some d ->
  0 <= x < two64 ->
  exists l, frame_unloaded p d x = Ret l /\
    (module_at (map module_of (opt_list (m_modules m))) x <> None -> l = []) /\
    (module_at (map module_of (opt_list (m_modules m))) x = None ->
       forall nm off, In (nm, off) l <->
         exists i u r, nth_error (opt_list (m_unloaded m)) i = Some u /\ nm = pack_units (um_name u) /\
                       mk_range (um_base u) (um_size u) = Some r /\ contains r x = true /\ off = x - um_base u) /\
    (forall nm off, In (nm, off) l -> 0 <= off < two64).
Proof. intros rc p e m d x Hwf Hd Hx. rewrite (bytes_roundtrip rc e m Hwf) in Hd. exact (model_offsets rc p e m d x Hwf Hd Hx). Qed.
Print Assumptions c14_bytes_unloaded_offsets.

(* "Crash reason and crash address are the documented functions of the exception record, operating system and CPU", end to end from
   the bytes: OS and CPU are the system info stream's platform id / processor architecture, the record is the exception stream's
   (information[0..2], code, flags, parameter count, address); the crash address is information[1] for a Windows access violation /
   in-page error with at least two parameters, the exception address otherwise, reduced mod 2^32 on 32-bit CPUs - with no range
   hypothesis left: a serialized record has 64-bit fields.  (The crash reason of that record: c14_reason_is_source,
   c14_windows_refinements_documented, c14_signals_documented.) *)
Theorem c14_bytes_crash_address : forall rc e m d s x, wf_model e m = true -> dump_of_bytes rc (encode_dump e m) = Some d ->
  m_sysinfo m = Some s -> m_exception m = Some x ->
  let o := os_of_platform (si_platform s) in let c := cpu_of_arch (si_arch s) in
  let ex := exception_of rc e (si_arch s) x in
  d_platform d = si_platform s /\ d_arch d = si_arch s /\ d_exc d = Some ex /\
  crash_address o c ex =
    (let a := if os_eqb_windows o && ((ex_code x =? 3221225477) || (ex_code x =? 3221225478)) && (2 <=? ex_nparams x)
              then nth 1 (ex_info x) 0 else ex_address x in
     match pointer_width c with W32 => a mod two32 | _ => a end) /\
  0 <= crash_address o c ex < two64.
Proof. intros rc e m d s x Hwf Hd. rewrite (bytes_roundtrip rc e m Hwf) in Hd. exact (model_crash rc e m d s x Hwf Hd). Qed.
Print Assumptions c14_bytes_crash_address.

(* What the index depends on: two serialized dump models with the same header time and the same streams (system info, thread
   list, thread names, exception, Breakpad info, misc info, Linux status, module list, unloaded module list, the two memory lists)
   are processed to the same record - whatever their leading (decoy / duplicate) directory entries, list padding, header version /
   checksum / flags, memory info, assertion, thread info, handle and other Linux streams. *)
Theorem c14_bytes_depend_on_streams : forall rc e m1 m2, wf_model e m1 = true -> wf_model e m2 = true ->
  m_time m1 = m_time m2 -> m_sysinfo m1 = m_sysinfo m2 -> m_threads m1 = m_threads m2 -> m_tnames m1 = m_tnames m2 ->
  m_exception m1 = m_exception m2 -> m_breakpad m1 = m_breakpad m2 -> m_misc m1 = m_misc m2 -> m_lx_status m1 = m_lx_status m2 ->
  m_modules m1 = m_modules m2 -> m_unloaded m1 = m_unloaded m2 -> m_memory m1 = m_memory m2 -> m_memory64 m1 = m_memory64 m2 ->
  dump_of_bytes rc (encode_dump e m1) = dump_of_bytes rc (encode_dump e m2).
Proof. exact bytes_depend_on_streams. Qed.
Print Assumptions c14_bytes_depend_on_streams.

(* The context reader of the correspondence run finds ip / sp by FIELD NAME in the context structures as format.rs declares them
   (layouts and field names regenerated on every run): today these are the 107th / 110th integer of CONTEXT_X86 (eip / esp), the
   38th / 26th of CONTEXT_AMD64 (rip / rsp), iregs[15] / iregs[13] of CONTEXT_ARM, pc / sp of both ARM64 contexts, epc / iregs[29]
   of CONTEXT_MIPS, srr0 / gpr[1] of CONTEXT_PPC and CONTEXT_PPC64, pc / g_r[14] of CONTEXT_SPARC; a reordered or resized field breaks
   this theorem (the extracted positions are numbers).  The reader covers exactly the architectures MinidumpContext::read has an
   arm for (arch_has_context, itself regenerated from context.rs: c14_platform_is_source). *)
Theorem c14_context_registers_by_name :
  (forall arch, ctx_regs arch = ctx_regs_named arch) /\
  (forall arch, ctx_regs arch <> None <-> arch_has_context arch = true).
Proof. split; [exact ctx_regs_by_name|exact ctx_regs_covers]. Qed.
Print Assumptions c14_context_registers_by_name.

(* Byte order: the same dump model written little- or big-endian is processed to the same record up to the CPU contexts (byte-order
   specific blobs, interpreted by [rc]) - and the contexts do not enter the requesting thread, the ids and names of the call stacks,
   process id / create time, crash reason and crash address (nor, trivially, times and module lists). *)
Theorem c14_bytes_byte_order_independent : forall rc m, wf_model LE m = true -> wf_model BE m = true ->
  option_map forget_ctx (dump_of_bytes rc (encode_dump LE m)) = option_map forget_ctx (dump_of_bytes rc (encode_dump BE m)) /\
  forall d,
    requesting_thread (forget_ctx d) = requesting_thread d /\
    map cs_id (threads_of (forget_ctx d)) = map cs_id (threads_of d) /\
    map cs_name (threads_of (forget_ctx d)) = map cs_name (threads_of d) /\
    process_id (forget_ctx d) = process_id d /\ process_create_time (forget_ctx d) = process_create_time d /\
    (forall lk o c x, crash_reason lk o c (forget_exc_ctx x) = crash_reason lk o c x /\
                      crash_address o c (forget_exc_ctx x) = crash_address o c x).
Proof. intros rc m H1 H2. split; [exact (bytes_byte_order rc m H1 H2)|exact forget_index]. Qed.
Print Assumptions c14_bytes_byte_order_independent.

(* "Stack memory chosen to contain the context's stack pointer", end to end from the bytes, for a thread whose stack descriptor is
   null (full-dump / Memory64 layout): the regions are those get_memory() serves - the Memory64List when the model has one, else the
   MemoryList -, the thread's own memory is the region at start_of_memory_range; the walk keeps it when 8 bytes are readable there at
   the starting context's stack pointer, else takes the region containing the stack pointer, else keeps the own one. *)
Theorem c14_bytes_stack_memory : forall rc e m d s t, wf_model e m = true -> dump_of_bytes rc (encode_dump e m) = Some d ->
  m_sysinfo m = Some s -> th_stack t = None ->
  let regs := map region_of (unified_model m) in
  let own := mem_at regs (th_stack_base t) in
  d_mems d = regs /\
  forall src c,
    ((exists k, own = Some k /\ readable_u64 regs k (c_sp c) = true) ->
       choose_stack (d_mems d) (thread_of rc e (si_arch s) t) (Some (src, c)) = own) /\
    (~ (exists k, own = Some k /\ readable_u64 regs k (c_sp c) = true) ->
       choose_stack (d_mems d) (thread_of rc e (si_arch s) t) (Some (src, c)) =
         match mem_at regs (c_sp c) with Some k => Some k | None => own end) /\
    choose_stack (d_mems d) (thread_of rc e (si_arch s) t) None = own.
Proof. intros rc e m d s t Hwf Hd. rewrite (bytes_roundtrip rc e m Hwf) in Hd. exact (model_stack_memory rc e m d s t Hd). Qed.
Print Assumptions c14_bytes_stack_memory.

(* names are kept apart: the integer a UTF-16 name is carried as determines the name *)
Theorem c14_names_injective : forall u1 u2,
  Forall (fun x => 0 <= x < 65536) u1 -> Forall (fun x => 0 <= x < 65536) u2 -> pack_units u1 = pack_units u2 -> u1 = u2.
Proof. exact pack_units_inj. Qed.
Print Assumptions c14_names_injective.

(* ---- non-vacuity: an ARM / Linux dump model (3 threads, ids 5 9 7; exception on thread 7; Breakpad info: dump-writer 9,
   requesting 5, both valid; misc info with the process-id flag only; 2 modules; 2 overlapping unloaded modules; names for 7
   twice) is well formed in both byte orders, and the bytes the serializer writes for it are processed to: *)
Definition bx_ctx (pc sp : Z) : list Z :=
  flat_map (enc_uint LE 4) ([1073741826] ++ repeat 0 13 ++ [sp; 0; pc; 0]) ++ repeat 0 296.
Definition bx_thread (id pc sp : Z) : mthread :=
  {| th_id := id; th_suspend := 0; th_pclass := 0; th_prio := 0; th_teb := 0; th_stack_base := sp;
     th_stack := None; th_ctx := Some (bx_ctx pc sp) |}.
Definition bx_module (b s : Z) : mmodule :=
  {| md_base := b; md_size := s; md_checksum := 0; md_time := 0; md_name := [109]; md_ver := repeat 0 13; md_cv := CvNone;
     md_misc := (0, 0); md_res := [0; 0; 0; 0] |}.
Definition bx_with (exc_tid : option Z) (bp : option (list Z)) : model :=
  {| m_version := 42899; m_checksum := 0; m_time := 1262805309; m_flags := 0; m_extra_dir := []; m_pad_lists := false;
     m_sysinfo := Some {| si_arch := 5; si_level := 0; si_revision := 0; si_nproc := 1; si_ptype := 0; si_major := 0; si_minor := 0;
                          si_build := 0; si_platform := 33281; si_suite := 0; si_reserved2 := 0; si_cpu := repeat 0 24; si_csd := Some [] |};
     m_threads := Some [bx_thread 5 4096 65536; bx_thread 9 8192 65600; bx_thread 7 20500 65700];
     m_modules := Some [bx_module 4096 4096; bx_module 1879048192 65536];
     m_memory := Some [ {| mr_base := 65536; mr_bytes := repeat 7 256 |}; {| mr_base := 65792; mr_bytes := repeat 9 64 |} ]; m_memory64 := None;
     m_exception := match exc_tid with None => None | Some tid => Some {| ex_thread_id := tid; ex_align := 0; ex_code := 11; ex_flags := 1; ex_record := 0; ex_address := 3735928559;
                            ex_nparams := 0; ex_align2 := 0; ex_info := repeat 0 15; ex_ctx := Some (bx_ctx 20480 65800) |} end;
     m_tnames := Some [(7, [110; 49]); (5, [110; 50]); (7, [110; 51])];
     m_unloaded := Some [ {| um_base := 20000; um_size := 1000; um_checksum := 0; um_time := 0; um_name := [117; 49] |};
                          {| um_base := 20400; um_size := 4096; um_checksum := 0; um_time := 0; um_name := [117; 50] |} ];
     m_meminfo := None;
     m_misc := Some (1, [24; 1; 4242; 77; 0; 0]);
     m_breakpad := bp;
     m_assertion := None; m_thread_info := None; m_lx_cpuinfo := None;
     m_lx_status := Some [80; 105; 100; 58; 9; 55; 10];
     m_lx_lsb := None; m_lx_environ := None; m_lx_maps := None; m_lx_limits := None; m_handles := None |}.
Definition bx_model : model := bx_with (Some 7) (Some [3; 9; 5]).
(* the exception thread IS the dump-writer thread: no requesting thread; no exception stream: the Breakpad info's requesting id
   (thread 5, index 0) - unless its validity bit is clear; big-endian bytes give the same index *)
Example c14_nonvacuous_bytes_requesting :
  option_map requesting_thread (dump_of_bytes ctx_of_bytes (encode_dump LE (bx_with (Some 9) (Some [3; 9; 5])))) = Some None /\
  option_map requesting_thread (dump_of_bytes ctx_of_bytes (encode_dump LE (bx_with None (Some [3; 9; 5])))) = Some (Some 0%nat) /\
  option_map requesting_thread (dump_of_bytes ctx_of_bytes (encode_dump LE (bx_with None (Some [1; 9; 5])))) = Some None /\
  option_map requesting_thread (dump_of_bytes ctx_of_bytes (encode_dump LE (bx_with (Some 9) (Some [2; 9; 5])))) = Some (Some 1%nat) /\
  option_map requesting_thread (dump_of_bytes ctx_of_bytes (encode_dump BE (bx_with (Some 7) None))) = Some (Some 2%nat) /\
  option_map requesting_thread (dump_of_bytes ctx_of_bytes (encode_dump LE (bx_with (Some 4) None))) = Some None.
Proof. vm_compute. repeat split. Qed.
Example c14_nonvacuous_bytes :
  wf_model LE bx_model = true /\ wf_model BE bx_model = true /\
  match dump_of_bytes ctx_of_bytes (encode_dump LE bx_model) with
  | Some d =>
      map cs_id (threads_of d) = [5; 9; 7] /\
      map cs_name (threads_of d) = [Some (pack_units [110; 50]); None; Some (pack_units [110; 51])] /\
      map cs_info (threads_of d) = [CsOk; CsDumpThreadSkipped; CsOk] /\
      requesting_thread d = Some 2%nat /\
      map cs_ctx (threads_of d) = [Some (FromThread, {| c_ip := 4096; c_sp := 65536 |}); None;
                                   Some (FromException, {| c_ip := 20480; c_sp := 65800 |})] /\
      process_id d = Some 4242 /\ process_create_time d = None /\ d_time d = 1262805309 /\
      read_modules (d_modules d) = [(4096, 4096); (1879048192, 65536)] /\
      frame_unloaded Debug d 20480 = Ret [(pack_units [117; 49], 480); (pack_units [117; 50], 80)] /\
      frame_unloaded Release d 4100 = Ret [] /\
      (* null stack descriptors: thread 5 keeps the region at its start_of_memory_range (sp 65536 readable there); the walk of
         thread 7 starts at the exception's sp 65800, which lies in the SECOND region *)
      d_mems d = [(65536, 256); (65792, 64)] /\
      map (fun tc => choose_stack (d_mems d) (fst tc) (cs_ctx (snd tc))) (combine (d_threads d) (threads_of d)) = [Some 0; Some 0; Some 1]
  | None => False
  end.
Proof. vm_compute. repeat split. Qed.
