(* C14/Proofs.v — lemmas about the process-state model. *)
From Coq Require Import Lia.
From RM Require Import C08.Proofs C14.Model.
Open Scope Z_scope.

(* ------------------------------------------------------------------ small facts *)
Lemma oz_eqb_true a b : oz_eqb a b = true <-> a = Some b.
Proof.
  destruct a as [x|]; cbn [oz_eqb].
  - rewrite Z.eqb_eq. split; intro H; [subst; reflexivity|inversion H; reflexivity].
  - split; intro H; discriminate H.
Qed.
Lemma oz_eqb_false a b : oz_eqb a b = false <-> a <> Some b.
Proof.
  rewrite <- oz_eqb_true. destruct (oz_eqb a b); split; intro H; congruence.
Qed.

(* ------------------------------------------------------------------ threads *)
Definition eligible (d : dump) (t : thread) : bool :=
  negb (oz_eqb (dump_tid d) (t_id t)) && oz_eqb (target_tid d) (t_id t).
Definition eligible_prop (d : dump) (t : thread) : Prop :=
  target_tid d = Some (t_id t) /\ dump_tid d <> Some (t_id t).
Lemma eligible_iff d t : eligible d t = true <-> eligible_prop d t.
Proof.
  unfold eligible, eligible_prop. rewrite andb_true_iff, negb_true_iff, oz_eqb_false, oz_eqb_true. tauto.
Qed.
Lemma eligible_false_iff d t : eligible d t = false <-> ~ eligible_prop d t.
Proof. rewrite <- eligible_iff. destruct (eligible d t); split; intro H; congruence. Qed.

(* the call stack of one thread does not depend on its index or on the captured variable *)
Definition stack_of (d : dump) (t : thread) : callstack := fst (one_thread d 0%nat t None).
Lemma one_thread_fst d i t req : fst (one_thread d i t req) = stack_of d t.
Proof. unfold stack_of, one_thread. destruct (oz_eqb (dump_tid d) (t_id t)); reflexivity. Qed.
Lemma one_thread_snd d i t req :
  snd (one_thread d i t req) = if eligible d t then Some i else req.
Proof.
  unfold one_thread, eligible. destruct (oz_eqb (dump_tid d) (t_id t)); cbn [negb andb snd]; [reflexivity|].
  destruct (oz_eqb (target_tid d) (t_id t)); reflexivity.
Qed.

Lemma walk_fst d ts : forall i req, fst (walk_threads d i ts req) = map (stack_of d) ts.
Proof.
  induction ts as [|t rest IH]; intros i req; cbn [walk_threads map]; [reflexivity|].
  pose proof (one_thread_fst d i t req) as H1.
  destruct (one_thread d i t req) as [cs req1]. cbn [fst] in H1.
  specialize (IH (S i) req1). destruct (walk_threads d (S i) rest req1) as [css req2].
  cbn [fst] in *. rewrite H1, IH. reflexivity.
Qed.

Fixpoint last_eligible (d : dump) (i : nat) (ts : list thread) : option nat :=
  match ts with
  | [] => None
  | t :: rest =>
      match last_eligible d (S i) rest with
      | Some j => Some j
      | None => if eligible d t then Some i else None
      end
  end.

Lemma walk_snd d ts : forall i req,
  snd (walk_threads d i ts req) = match last_eligible d i ts with Some j => Some j | None => req end.
Proof.
  induction ts as [|t rest IH]; intros i req; cbn [walk_threads last_eligible]; [reflexivity|].
  pose proof (one_thread_snd d i t req) as H1.
  destruct (one_thread d i t req) as [cs req1]. cbn [snd] in H1.
  specialize (IH (S i) req1). destruct (walk_threads d (S i) rest req1) as [css req2].
  cbn [snd] in *. rewrite IH. destruct (last_eligible d (S i) rest); [reflexivity|].
  rewrite H1. destruct (eligible d t); reflexivity.
Qed.

Lemma last_eligible_spec d ts : forall i,
  match last_eligible d i ts with
  | Some j => exists k t, j = (i + k)%nat /\ nth_error ts k = Some t /\ eligible d t = true /\
                          forall k' t', (k < k')%nat -> nth_error ts k' = Some t' -> eligible d t' = false
  | None => forall k t, nth_error ts k = Some t -> eligible d t = false
  end.
Proof.
  induction ts as [|t rest IH]; intros i; cbn [last_eligible].
  - intros k t H. destruct k; discriminate H.
  - specialize (IH (S i)). destruct (last_eligible d (S i) rest) as [j|].
    + destruct IH as (k & t0 & Hj & Hn & He & Hlater).
      exists (S k), t0. repeat split; [lia|exact Hn|exact He|].
      intros k' t' Hlt Hn'. destruct k' as [|k']; [lia|]. cbn [nth_error] in Hn'.
      apply (Hlater k' t'); [lia|exact Hn'].
    + destruct (eligible d t) eqn:He.
      * exists 0%nat, t. repeat split; [lia|exact He|].
        intros k' t' Hlt Hn'. destruct k' as [|k']; [lia|]. cbn [nth_error] in Hn'. exact (IH k' t' Hn').
      * intros k t0 Hn. destruct k as [|k]; cbn [nth_error] in Hn; [inversion Hn; subst; exact He|exact (IH k t0 Hn)].
Qed.

Lemma threads_of_map d : threads_of d = map (stack_of d) (d_threads d).
Proof. unfold threads_of. apply walk_fst. Qed.

Lemma threads_one_to_one d :
  length (threads_of d) = length (d_threads d) /\
  map cs_id (threads_of d) = map t_id (d_threads d) /\
  forall i t cs, nth_error (d_threads d) i = Some t -> nth_error (threads_of d) i = Some cs ->
    cs_id cs = t_id t /\ cs_name cs = get_name (d_names d) (t_id t) /\
    (dump_tid d = Some (t_id t) -> cs_info cs = CsDumpThreadSkipped /\ cs_ctx cs = None) /\
    (dump_tid d <> Some (t_id t) -> cs_info cs <> CsDumpThreadSkipped).
Proof.
  rewrite threads_of_map. split; [apply map_length|]. split.
  - rewrite map_map. apply map_ext. intro t. unfold stack_of, one_thread.
    destruct (oz_eqb (dump_tid d) (t_id t)); reflexivity.
  - intros i t cs Ht Hcs. rewrite (map_nth_error (stack_of d) i (d_threads d) Ht) in Hcs.
    inversion Hcs; subst cs; clear Hcs. unfold stack_of, one_thread.
    destruct (oz_eqb (dump_tid d) (t_id t)) eqn:E; cbn [fst cs_id cs_info cs_name cs_ctx].
    + apply oz_eqb_true in E. split; [reflexivity|]. split; [reflexivity|]. split; [intros _; auto|]. intro H; contradiction.
    + apply oz_eqb_false in E. split; [reflexivity|]. split; [reflexivity|]. split; [intro H; contradiction|]. intros _.
      destruct (if oz_eqb (target_tid d) (t_id t)
                then or_ctx (tag_ctx FromException (exc_ctx d)) (tag_ctx FromThread (t_ctx t))
                else tag_ctx FromThread (t_ctx t)); discriminate.
Qed.

(* thread names: the last readable entry of the id wins *)
Lemma get_name_last names id n :
  get_name names id = Some n <->
  exists l1 l2, names = l1 ++ (id, Some n) :: l2 /\ forall n', ~ In (id, Some n') l2.
Proof.
  induction names as [|[i o] rest IH]; cbn [get_name].
  - split; [discriminate|]. intros (l1 & l2 & H & _). destruct l1; discriminate H.
  - split.
    + intro H. destruct (get_name rest id) as [x|] eqn:G.
      * inversion H; subst x. destruct (proj1 IH eq_refl) as (l1 & l2 & E & Hn).
        exists ((i, o) :: l1), l2. split; [rewrite E; reflexivity|exact Hn].
      * destruct (i =? id) eqn:E; [|discriminate]. apply Z.eqb_eq in E. subst i o.
        exists [], rest. split; [reflexivity|]. intros n' Hin.
        assert (Hex : exists m, get_name rest id = Some m).
        { clear -Hin. induction rest as [|[j q] r IHr]; [destruct Hin|]. cbn [get_name].
          destruct Hin as [Hh|Ht].
          - inversion Hh; subst. destruct (get_name r id); [eauto|]. rewrite Z.eqb_refl. eauto.
          - destruct (IHr Ht) as [m Hm]. rewrite Hm. eauto. }
        destruct Hex as [m Hm]. congruence.
    + intros (l1 & l2 & E & Hn). destruct l1 as [|p l1]; cbn [app] in E.
      * inversion E; subst i o rest.
        assert (G : get_name l2 id = None).
        { clear -Hn. induction l2 as [|[j q] r IHr]; [reflexivity|]. cbn [get_name].
          rewrite IHr by (intros n' H; apply (Hn n'); right; exact H).
          destruct (j =? id) eqn:Ej; [|reflexivity]. apply Z.eqb_eq in Ej. subst j.
          destruct q as [n'|]; [|reflexivity]. exfalso. apply (Hn n'). left. reflexivity. }
        rewrite G, Z.eqb_refl. reflexivity.
      * inversion E; subst p rest.
        rewrite (proj2 IH (ex_intro _ l1 (ex_intro _ l2 (conj eq_refl Hn)))). reflexivity.
Qed.

(* ------------------------------------------------------------------ requesting thread *)
Lemma requesting_spec d :
  match requesting_thread d with
  | Some i => (exists t, nth_error (d_threads d) i = Some t /\ eligible_prop d t) /\
              forall j t, (i < j)%nat -> nth_error (d_threads d) j = Some t -> ~ eligible_prop d t
  | None => forall j t, nth_error (d_threads d) j = Some t -> ~ eligible_prop d t
  end.
Proof.
  unfold requesting_thread. rewrite walk_snd.
  pose proof (last_eligible_spec d (d_threads d) 0%nat) as H.
  destruct (last_eligible d 0%nat (d_threads d)) as [j|].
  - destruct H as (k & t & Hj & Hn & He & Hl). cbn [Nat.add] in Hj. subst j. split.
    + exists t. split; [exact Hn|apply eligible_iff; exact He].
    + intros j t' Hlt Hn'. apply eligible_false_iff. exact (Hl j t' Hlt Hn').
  - intros j t Hn. apply eligible_false_iff. exact (H j t Hn).
Qed.

Lemma target_spec d :
  (exists e, d_exc d = Some e /\ target_tid d = Some (e_tid e)) \/
  (d_exc d = None /\ target_tid d = req_tid d).
Proof. unfold target_tid. destruct (d_exc d) as [e|]; [left; eauto|right; auto]. Qed.

Lemma req_tid_spec d id :
  req_tid d = Some id <-> exists b, d_bp d = Some b /\ Z.testbit (b_validity b) 1 = true /\ b_req_tid b = id.
Proof.
  unfold req_tid. destruct (d_bp d) as [b|].
  - destruct (Z.testbit (b_validity b) 1) eqn:E; split.
    + intro H; inversion H; eauto.
    + intros (b' & Hb & _ & Hid). inversion Hb; subst; reflexivity.
    + discriminate.
    + intros (b' & Hb & Hv & _). inversion Hb; subst. congruence.
  - split; [discriminate|]. intros (b & H & _); discriminate H.
Qed.
Lemma dump_tid_spec d id :
  dump_tid d = Some id <-> exists b, d_bp d = Some b /\ Z.testbit (b_validity b) 0 = true /\ b_dump_tid b = id.
Proof.
  unfold dump_tid. destruct (d_bp d) as [b|].
  - destruct (Z.testbit (b_validity b) 0) eqn:E; split.
    + intro H; inversion H; eauto.
    + intros (b' & Hb & _ & Hid). inversion Hb; subst; reflexivity.
    + discriminate.
    + intros (b' & Hb & Hv & _). inversion Hb; subst. congruence.
  - split; [discriminate|]. intros (b & H & _); discriminate H.
Qed.

(* ------------------------------------------------------------------ context choice *)
Lemma context_choice d i t cs :
  nth_error (d_threads d) i = Some t -> nth_error (threads_of d) i = Some cs ->
  dump_tid d <> Some (t_id t) ->
  (eligible_prop d t ->
     cs_ctx cs = match exc_ctx d with
                 | Some c => Some (FromException, c)
                 | None => tag_ctx FromThread (t_ctx t)
                 end) /\
  (~ eligible_prop d t -> cs_ctx cs = tag_ctx FromThread (t_ctx t)) /\
  (cs_info cs = CsOk <-> cs_ctx cs <> None) /\
  (cs_info cs = CsMissingContext <-> cs_ctx cs = None).
Proof.
  intros Ht Hcs Hnd. rewrite threads_of_map in Hcs.
  rewrite (map_nth_error (stack_of d) i (d_threads d) Ht) in Hcs. inversion Hcs; subst cs; clear Hcs.
  unfold stack_of, one_thread. apply oz_eqb_false in Hnd. rewrite Hnd. cbn [fst cs_ctx cs_info].
  apply oz_eqb_false in Hnd.
  split; [|split].
  - intros [Htg _]. apply oz_eqb_true in Htg. rewrite Htg.
    destruct (exc_ctx d); reflexivity.
  - intro Hne. destruct (oz_eqb (target_tid d) (t_id t)) eqn:E; [|reflexivity].
    exfalso. apply Hne. split; [apply oz_eqb_true; exact E|exact Hnd].
  - destruct (if oz_eqb (target_tid d) (t_id t)
              then or_ctx (tag_ctx FromException (exc_ctx d)) (tag_ctx FromThread (t_ctx t))
              else tag_ctx FromThread (t_ctx t)); split; split; intro H; try congruence; try discriminate.
Qed.

(* stack memory: the thread's own region when it holds 8 bytes at frame 0's stack pointer,
   else the region the memory list finds there, else the thread's own region *)
Lemma stack_choice mems t s c :
  let own := thread_stack mems t in
  ((exists k, own = Some k /\ readable_u64 mems k (c_sp c) = true) ->
     choose_stack mems t (Some (s, c)) = own) /\
  (~ (exists k, own = Some k /\ readable_u64 mems k (c_sp c) = true) ->
     choose_stack mems t (Some (s, c)) =
       match mem_at mems (c_sp c) with Some k => Some k | None => own end) /\
  choose_stack mems t None = own.
Proof.
  intro own. unfold choose_stack. fold own. split; [|split]; [| |reflexivity].
  - intros (k & Ho & Hr). rewrite Ho, Hr. reflexivity.
  - intro Hn. destruct own as [k|]; [|reflexivity].
    destruct (readable_u64 mems k (c_sp c)) eqn:E; [|reflexivity].
    exfalso. apply Hn. eauto.
Qed.

(* ------------------------------------------------------------------ crash address *)
Lemma crash_address_raw_spec o e :
  (o = OsWindows /\ (e_code e = EXCEPTION_ACCESS_VIOLATION \/ e_code e = EXCEPTION_IN_PAGE_ERROR) /\
   2 <= e_nparams e -> crash_address_raw o e = e_info1 e) /\
  (~ (o = OsWindows /\ (e_code e = EXCEPTION_ACCESS_VIOLATION \/ e_code e = EXCEPTION_IN_PAGE_ERROR) /\
      2 <= e_nparams e) -> crash_address_raw o e = e_addr e).
Proof.
  unfold crash_address_raw. split.
  - intros (Ho & Hc & Hn). subst o. cbn [os_eqb_windows andb].
    assert (H1 : ((e_code e =? EXCEPTION_ACCESS_VIOLATION) || (e_code e =? EXCEPTION_IN_PAGE_ERROR)) = true).
    { apply orb_true_iff. rewrite !Z.eqb_eq. exact Hc. }
    rewrite H1. cbn [andb]. apply Z.leb_le in Hn. rewrite Hn. reflexivity.
  - intro Hn.
    destruct (os_eqb_windows o && ((e_code e =? EXCEPTION_ACCESS_VIOLATION) || (e_code e =? EXCEPTION_IN_PAGE_ERROR))
              && (2 <=? e_nparams e)) eqn:E; [|reflexivity].
    exfalso. apply Hn. apply andb_true_iff in E. destruct E as [E E3]. apply andb_true_iff in E. destruct E as [E1 E2].
    apply orb_true_iff in E2. rewrite !Z.eqb_eq in E2. apply Z.leb_le in E3.
    split; [destruct o; try discriminate E1; reflexivity|]. split; assumption.
Qed.

Lemma crash_address_spec o c e :
  0 <= crash_address_raw o e < two64 ->
  (pointer_width c = W32 ->
     crash_address o c e = crash_address_raw o e mod two32 /\ 0 <= crash_address o c e < two32) /\
  (pointer_width c <> W32 -> crash_address o c e = crash_address_raw o e) /\
  0 <= crash_address o c e < two64.
Proof.
  intro Hr. unfold crash_address, wrap32.
  assert (Hm : 0 <= crash_address_raw o e mod two32 < two32) by (apply Z.mod_pos_bound; reflexivity).
  assert (H32 : two32 < two64) by reflexivity.
  destruct (pointer_width c); (split; [|split]); try (intro H; try discriminate H; try (exfalso; apply H; reflexivity));
    try split; try reflexivity; try lia.
Qed.

(* ------------------------------------------------------------------ crash reason gates *)
Section ReasonGates.
Variable lk : Z -> Z -> bool.

Ltac brk :=
  repeat (cbn [fst snd] in *;
          match goal with
          | |- context [if ?b then _ else _] => let E := fresh "E" in destruct b eqn:E
          end).
Ltac norm :=
  repeat match goal with
         | H : _ && _ = true |- _ => apply andb_true_iff in H; destruct H
         | H : _ && _ = false |- _ => apply andb_false_iff in H
         | H : negb _ = true |- _ => apply negb_true_iff in H
         | H : negb _ = false |- _ => apply negb_false_iff in H
         end;
  rewrite ?Z.eqb_eq, ?Z.eqb_neq, ?Z.leb_le, ?Z.leb_gt in *;
  unfold EXCEPTION_ACCESS_VIOLATION, EXCEPTION_IN_PAGE_ERROR, STATUS_STACK_BUFFER_OVERRUN in *.

Lemma reason_unknown_os o c e :
  o <> OsWindows -> o <> OsMac -> o <> OsIos -> o <> OsLinux -> o <> OsAndroid ->
  crash_reason lk o c e = (Unknown, [e_code e; e_flags e]).
Proof. intros; unfold crash_reason; destruct o; try congruence; reflexivity. Qed.

Lemma reason_access_violation c e :
  fst (crash_reason lk OsWindows c e) = WindowsAccessViolation <->
  lk EN_WIN_EXC (e_code e) = true /\ e_code e = EXCEPTION_ACCESS_VIOLATION /\ 1 <= e_nparams e /\
  lk EN_WIN_ACCESS (e_info0 e) = true.
Proof.
  unfold crash_reason, windows_reason, windows_code. brk; norm;
    (split; [intro H'; try discriminate H'|intros (G1 & G2 & G3 & G4)]);
    try reflexivity; intuition (try discriminate; try lia; try congruence).
Qed.

Lemma reason_in_page c e :
  fst (crash_reason lk OsWindows c e) = WindowsInPageError <->
  lk EN_WIN_EXC (e_code e) = true /\ e_code e = EXCEPTION_IN_PAGE_ERROR /\ 3 <= e_nparams e /\
  lk EN_WIN_INPAGE (e_info0 e) = true.
Proof.
  unfold crash_reason, windows_reason, windows_code. brk; norm;
    (split; [intro H'; try discriminate H'|intros (G1 & G2 & G3 & G4)]);
    try reflexivity; intuition (try discriminate; try lia; try congruence).
Qed.

Lemma reason_stack_buffer_overrun c e :
  fst (crash_reason lk OsWindows c e) = WindowsStackBufferOverrun <->
  lk EN_WIN_EXC (e_code e) = false /\ lk EN_WIN_ERROR (e_code e) = false /\ lk EN_WIN_NTSTATUS (e_code e) = true /\
  e_code e = STATUS_STACK_BUFFER_OVERRUN /\ 1 <= e_nparams e.
Proof.
  unfold crash_reason, windows_reason, windows_code. brk; norm;
    (split; [intro H'; try discriminate H'|intros (G1 & G2 & G3 & G4 & G5)]);
    try reflexivity; intuition (try discriminate; try lia; try congruence).
Qed.
End ReasonGates.

(* ------------------------------------------------------------------ pid / create time *)
Lemma pid_time d :
  (forall m, d_misc d = Some m ->
     process_id d = (if Z.testbit (mi_flags1 m) 0 then Some (mi_pid m) else None) /\
     process_create_time d = (if Z.testbit (mi_flags1 m) 1 then Some (mi_ctime m) else None)) /\
  (d_misc d = None -> process_id d = option_map status_pid (d_status d) /\ process_create_time d = None).
Proof.
  unfold process_id, process_create_time, MISC1_PROCESS_ID, MISC1_PROCESS_TIMES.
  split; [intros m H; rewrite H; auto|intro H; rewrite H; auto].
Qed.

(* ------------------------------------------------------------------ unloaded-module offsets *)
Lemma enum_in_nth {A} (l : list A) : forall i a k,
  In (a, k) (enumerate_from i l) <-> i <= k /\ nth_error l (Z.to_nat (k - i)) = Some a.
Proof.
  induction l as [|x t IH]; intros i a k; cbn [enumerate_from].
  - split; [intros []|]. intros [_ H]. destruct (Z.to_nat (k - i)); discriminate H.
  - split.
    + intros [H|H].
      * inversion H; subst. split; [lia|]. replace (k - k) with 0 by lia. reflexivity.
      * apply IH in H. destruct H as [Hle Hn]. split; [lia|].
        replace (Z.to_nat (k - i)) with (S (Z.to_nat (k - (i + 1)))) by lia. exact Hn.
    + intros [Hle Hn]. destruct (Z.eq_dec k i) as [->|Hne].
      * left. replace (i - i) with 0 in Hn by lia. cbn in Hn. inversion Hn. reflexivity.
      * right. apply IH. split; [lia|].
        replace (Z.to_nat (k - i)) with (S (Z.to_nat (k - (i + 1)))) in Hn by lia. exact Hn.
Qed.

Definition covers (u : list (Z * Z * Z)) (x : Z) (nm off : Z) : Prop :=
  exists i b s r, nth_error u i = Some (b, s, nm) /\ mk_range b s = Some r /\ contains r x = true /\ off = x - b.

Lemma mk_range_fst b s r : mk_range b s = Some r -> fst r = b.
Proof.
  unfold mk_range. destruct (s =? 0); [discriminate|]. destruct (checked_add 64 b s); [|discriminate].
  intro H; inversion H; reflexivity.
Qed.

Lemma offsets_of_ok p u x : 0 <= x < two64 -> (forall b s nm, In (b, s, nm) u -> 0 <= b) ->
  forall idxs,
  (forall i, In i idxs -> exists b s nm r, 0 <= i /\ nth_error u (Z.to_nat i) = Some (b, s, nm) /\
                                     mk_range b s = Some r /\ contains r x = true) ->
  exists l, offsets_of p u x idxs = Ret l /\
            (forall nm off, In (nm, off) l <->
               exists i b s, In i idxs /\ nth_error u (Z.to_nat i) = Some (b, s, nm) /\ off = x - b) /\
            (forall nm off, In (nm, off) l -> 0 <= off < two64).
Proof.
  intros Hx Hb. induction idxs as [|i rest IH]; intro Hall; cbn [offsets_of].
  - exists []. split; [reflexivity|]. split; [|intros ? ? []].
    intros nm off; split; [intros []|]. intros (i & b & s & [] & _).
  - destruct (Hall i (or_introl eq_refl)) as (b & s & nm & r & Hi & Hn & Hr & Hc).
    rewrite Hn. pose proof (mk_range_fst _ _ _ Hr) as Hf.
    unfold contains in Hc. apply andb_true_iff in Hc. destruct Hc as [Hc1 _]. apply Z.leb_le in Hc1. rewrite Hf in Hc1. clear Hf.
    assert (Hb0 : 0 <= b) by (apply (Hb b s nm); eapply nth_error_In; exact Hn).
    unfold chk_sub, chk. change (2 ^ 64) with two64.
    assert (Hin : (0 <=? x - b) && (x - b <? two64) = true).
    { apply andb_true_iff. split; [apply Z.leb_le|apply Z.ltb_lt]; lia. }
    rewrite Hin. cbn [obind].
    destruct (IH (fun j Hj => Hall j (or_intror Hj))) as (l & Hl & Hiff & Hrng). rewrite Hl. cbn [obind].
    exists ((nm, x - b) :: l). split; [reflexivity|]. split.
    + intros nm' off'. split.
      * intros [H|H].
        -- inversion H; subst. exists i, b, s. split; [left; reflexivity|]. split; [exact Hn|reflexivity].
        -- apply Hiff in H. destruct H as (j & b' & s' & Hj & Hn' & Ho). exists j, b', s'. split; [right; exact Hj|auto].
      * intros (j & b' & s' & [Hj|Hj] & Hn' & Ho).
        -- subst j. rewrite Hn in Hn'. inversion Hn'; subst. left. reflexivity.
        -- right. apply Hiff. exists j, b', s'. auto.
    + intros nm' off' [H|H]; [inversion H; subst; lia|exact (Hrng nm' off' H)].
Qed.

Lemma frame_unloaded_spec p d x :
  0 <= x < two64 -> (forall b s nm, In (b, s, nm) (d_unloaded d) -> 0 <= b) ->
  exists l, frame_unloaded p d x = Ret l /\
    (module_at (read_modules (d_modules d)) x <> None -> l = []) /\
    (module_at (read_modules (d_modules d)) x = None ->
       forall nm off, In (nm, off) l <-> covers (read_unloaded (d_unloaded d)) x nm off) /\
    (forall nm off, In (nm, off) l -> 0 <= off < two64).
Proof.
  intros Hx Hb. unfold frame_unloaded. set (u := read_unloaded (d_unloaded d)).
  assert (Hbu : forall b s nm, In (b, s, nm) u -> 0 <= b).
  { intros b s nm H. apply (Hb b s nm). unfold u, read_unloaded in H.
    destruct (forallb (fun m => good_image (fst m)) (d_unloaded d)); [exact H|destruct H]. }
  destruct (module_at (read_modules (d_modules d)) x) as [k|].
  - exists []. split; [reflexivity|]. split; [reflexivity|]. split; [intro H; congruence|intros ? ? []].
  - set (idxs := unloaded_at (unloaded_build (unloaded_ranges u)) x).
    assert (Hidx : forall i, In i idxs <->
              exists b s nm r, 0 <= i /\ nth_error u (Z.to_nat i) = Some (b, s, nm) /\
                               mk_range b s = Some r /\ contains r x = true).
    { intro i. unfold idxs. rewrite unloaded_iff. unfold unloaded_ranges. split.
      - intros (r & Hin & Hc). apply enum_in_nth in Hin. destruct Hin as [Hle Hn].
        rewrite Z.sub_0_r in Hn. rewrite nth_error_map in Hn.
        destruct (nth_error u (Z.to_nat i)) as [[[b s] nm]|] eqn:En; [|discriminate Hn].
        cbn [option_map fst snd] in Hn. inversion Hn as [Hr]. exists b, s, nm, r. auto.
      - intros (b & s & nm & r & Hi & Hn & Hr & Hc). exists r. split; [|exact Hc].
        apply enum_in_nth. split; [exact Hi|]. rewrite Z.sub_0_r, nth_error_map, Hn. cbn [option_map fst snd].
        rewrite Hr. reflexivity. }
    destruct (offsets_of_ok p u x Hx Hbu idxs (fun i Hi => proj1 (Hidx i) Hi)) as (l & Hl & Hiff & Hrng).
    exists l. split; [exact Hl|]. split; [intro H; exfalso; apply H; reflexivity|]. split; [|exact Hrng].
    intros _ nm off. rewrite Hiff. unfold covers. split.
    + intros (i & b & s & Hi & Hn & Ho). apply Hidx in Hi.
      destruct Hi as (b' & s' & nm' & r & Hi0 & Hn' & Hr & Hc). rewrite Hn in Hn'. inversion Hn'; subst b' s' nm'.
      exists (Z.to_nat i), b, s, r. auto.
    + intros (i & b & s & r & Hn & Hr & Hc & Ho). exists (Z.of_nat i), b, s.
      rewrite Nat2Z.id. split; [|auto]. apply Hidx. exists b, s, nm, r. rewrite Nat2Z.id. split; [lia|auto].
Qed.

(* modules of the state: the stream's entries with a usable image size, in order *)
Lemma read_modules_spec l m : In m (read_modules l) <-> In m l /\ snd m <> 0 /\ fst m + snd m <= U64MAX.
Proof.
  unfold read_modules. rewrite filter_In. unfold good_image. rewrite andb_true_iff, negb_true_iff, Z.eqb_neq, Z.leb_le.
  split; intros (H1 & H2 & H3); repeat split; try assumption; lia.
Qed.

(* ------------------------------------------------------------------ reason strings *)
Section ReasonStrings.
Variable lk : Z -> Z -> bool.
Hypothesis Hlinux : forall v, lk EN_LINUX v = true -> name_of NAMES_ExceptionCodeLinux v <> None.
Hypothesis Hill : forall v, lk EN_SIGILL v = true -> name_of NAMES_ExceptionCodeLinuxSigillKind v <> None.
Hypothesis Htrap : forall v, lk EN_SIGTRAP v = true -> name_of NAMES_ExceptionCodeLinuxSigtrapKind v <> None.
Hypothesis Hfpe : forall v, lk EN_SIGFPE v = true -> name_of NAMES_ExceptionCodeLinuxSigfpeKind v <> None.
Hypothesis Hsegv : forall v, lk EN_SIGSEGV v = true -> name_of NAMES_ExceptionCodeLinuxSigsegvKind v <> None.
Hypothesis Hbus : forall v, lk EN_SIGBUS v = true -> name_of NAMES_ExceptionCodeLinuxSigbusKind v <> None.
Hypothesis Hsys : forall v, lk EN_SIGSYS v = true -> name_of NAMES_ExceptionCodeLinuxSigsysKind v <> None.

Lemma prefixed_some p tbl v : name_of tbl v <> None -> prefixed p tbl v <> None.
Proof. unfold prefixed. destruct (name_of tbl v); [discriminate|congruence]. Qed.

Lemma general_some code flags : name_of NAMES_ExceptionCodeLinux code <> None ->
  reason_string (LinuxGeneral, [code; flags]) <> None.
Proof.
  intro H. cbn [reason_string]. destruct (name_of NAMES_ExceptionCodeLinux code) as [n|]; [|congruence].
  destruct (name_of NAMES_ExceptionCodeLinuxSicode (signed32 flags)); [destruct (signed32 flags =? 0)|]; discriminate.
Qed.

Lemma linux_reason_string c e o : o = OsLinux \/ o = OsAndroid ->
  reason_string (crash_reason lk o c e) <> None.
Proof.
  intro Ho. assert (E : crash_reason lk o c e =
                        match linux_reason lk e with Some x => x | None => (Unknown, [e_code e; e_flags e]) end)
    by (destruct Ho; subst o; reflexivity).
  rewrite E. unfold linux_reason. destruct (lk EN_LINUX (e_code e)) eqn:L; cbn [negb]; [|discriminate].
  pose proof (general_some (e_code e) (e_flags e) (Hlinux _ L)) as G. unfold refine.
  repeat match goal with
         | |- context [if ?b then _ else _] => let E := fresh "E" in destruct b eqn:E
         end; try exact G; cbn [reason_string]; apply prefixed_some; auto.
Qed.
End ReasonStrings.
