From Coq Require Extraction.
From Coq Require Import ExtrOcamlBasic.
From RM Require Import C14.Model C14.Driver.
Extraction "c14_model.ml" run_case run_case_nm mk_ctx bp_of_stream misc_of_stream run_bytes.
