(* C14/Proofs2.v — round 5: every duplicate of the requesting id starts from the exception context;
   /proc/self/status -> Pid. *)
From Coq Require Import Lia.
From Coq Require String Ascii.
From RM Require Import C08.Proofs C14.Model C14.Proofs.
Open Scope Z_scope.

(* string literals for the Examples of Properties.v (not part of the extracted model) *)
Fixpoint zs (s : String.string) : list Z :=
  match s with
  | String.EmptyString => []
  | String.String c r => Z.of_nat (Ascii.nat_of_ascii c) :: zs r
  end.
Arguments zs s%string_scope.

(* ------------------------------------------------------------------ duplicate thread ids *)
Lemma duplicates_context d ec i ti ci :
  exc_ctx d = Some ec ->
  nth_error (d_threads d) i = Some ti -> nth_error (threads_of d) i = Some ci ->
  target_tid d = Some (t_id ti) -> dump_tid d <> Some (t_id ti) ->
  cs_ctx ci = Some (FromException, ec) /\ cs_info ci = CsOk /\
  exists r tr cr, requesting_thread d = Some r /\ (i <= r)%nat /\
    nth_error (d_threads d) r = Some tr /\ t_id tr = t_id ti /\
    nth_error (threads_of d) r = Some cr /\ cs_ctx cr = Some (FromException, ec).
Proof.
  intros Hec Hti Hci Htg Hnd.
  assert (Hel : eligible_prop d ti) by (split; assumption).
  destruct (context_choice d i ti ci Hti Hci Hnd) as (Hc & _ & Hok & _).
  specialize (Hc Hel). rewrite Hec in Hc. split; [exact Hc|]. split; [apply Hok; rewrite Hc; discriminate|].
  pose proof (requesting_spec d) as Hr.
  destruct (requesting_thread d) as [r|].
  - destruct Hr as ((tr & Hntr & Hetr) & Hlast).
    assert (Hle : (i <= r)%nat).
    { destruct (Nat.le_gt_cases i r) as [H|H]; [exact H|]. exfalso. exact (Hlast i ti H Hti Hel). }
    destruct Hetr as [Htr Hndr].
    assert (Hid : t_id tr = t_id ti) by congruence.
    destruct (nth_error (threads_of d) r) as [cr|] eqn:Hcr.
    + exists r, tr, cr. repeat split; try assumption; try reflexivity.
      destruct (context_choice d r tr cr Hntr Hcr Hndr) as (Hc' & _).
      rewrite (Hc' (conj Htr Hndr)), Hec. reflexivity.
    + exfalso. apply nth_error_None in Hcr. rewrite threads_of_map, map_length in Hcr.
      assert (r < length (d_threads d))%nat by (apply nth_error_Some; congruence). lia.
  - exfalso. exact (Hr i ti Hti Hel).
Qed.

(* ------------------------------------------------------------------ /proc/self/status *)
(* the Pid is decided by the FIRST line that has a key "Pid" *)
Lemma pid_of_lines_first l1 : forall line l2 v,
  (forall l k w, In l l1 -> kv_of_line l = Some (k, w) -> zlist_eqb k KEY_PID = false) ->
  kv_of_line line = Some (KEY_PID, v) ->
  pid_of_lines (l1 ++ line :: l2) = match parse_u32 v with Some n => n | None => 0 end.
Proof.
  induction l1 as [|a l1 IH]; intros line l2 v Hpre Hline; cbn [app pid_of_lines].
  - rewrite Hline. reflexivity.
  - destruct (kv_of_line a) as [[k w]|] eqn:Ea.
    + rewrite (Hpre a k w (or_introl eq_refl) Ea). apply IH; [|exact Hline].
      intros l k' w' Hin. apply Hpre. right. exact Hin.
    + apply IH; [|exact Hline]. intros l k' w' Hin. apply Hpre. right. exact Hin.
Qed.

Lemma pid_of_lines_none lines :
  (forall l k w, In l lines -> kv_of_line l = Some (k, w) -> zlist_eqb k KEY_PID = false) ->
  pid_of_lines lines = 0.
Proof.
  induction lines as [|a ls IH]; intro H; cbn [pid_of_lines]; [reflexivity|].
  destruct (kv_of_line a) as [[k w]|] eqn:Ea.
  - rewrite (H a k w (or_introl eq_refl) Ea). apply IH. intros l k' w' Hin. apply H. right. exact Hin.
  - apply IH. intros l k' w' Hin. apply H. right. exact Hin.
Qed.

(* lines: splitting the text at every line feed inverts joining lines that contain none *)
Fixpoint join_lines (ls : list (list Z)) : list Z :=
  match ls with [] => [] | [l] => l | l :: rest => l ++ 10 :: join_lines rest end.

Lemma split_on_app_nosep sep l : forall rest,
  (forall b, In b l -> b <> sep) ->
  split_on sep (l ++ sep :: rest) = l :: split_on sep rest.
Proof.
  induction l as [|b l IH]; intros rest H; cbn [app split_on].
  - rewrite Z.eqb_refl. reflexivity.
  - destruct (b =? sep) eqn:E; [apply Z.eqb_eq in E; exfalso; exact (H b (or_introl eq_refl) E)|].
    rewrite IH; [reflexivity|]. intros b' Hin. apply H. right. exact Hin.
Qed.
Lemma split_on_nosep sep l : (forall b, In b l -> b <> sep) -> split_on sep l = [l].
Proof.
  induction l as [|b l IH]; intro H; cbn [split_on]; [reflexivity|].
  destruct (b =? sep) eqn:E; [apply Z.eqb_eq in E; exfalso; exact (H b (or_introl eq_refl) E)|].
  rewrite IH; [reflexivity|]. intros b' Hin. apply H. right. exact Hin.
Qed.
Lemma split_join ls : ls <> [] ->
  (forall l b, In l ls -> In b l -> b <> 10) -> split_on 10 (join_lines ls) = ls.
Proof.
  induction ls as [|l rest IH]; intros Hne H; [congruence|].
  destruct rest as [|l' rest'].
  - cbn [join_lines]. apply split_on_nosep. intros b Hb. exact (H l b (or_introl eq_refl) Hb).
  - change (join_lines (l :: l' :: rest')) with (l ++ 10 :: join_lines (l' :: rest')).
    rewrite split_on_app_nosep; [|intros b Hb; exact (H l b (or_introl eq_refl) Hb)].
    rewrite IH; [reflexivity|discriminate|]. intros l0 b Hin. apply H. right. exact Hin.
Qed.

(* decimal values *)
Definition dec_step (a b : Z) : Z := a * 10 + (b - 48).
Definition dec_value (s : list Z) : Z := fold_left dec_step s 0.
Lemma is_digit_range b : is_digit b = true -> 48 <= b <= 57.
Proof. unfold is_digit. intro H. apply andb_prop in H. destruct H as [H1 H2]. apply Z.leb_le in H1, H2. lia. Qed.
Lemma fold_dec_mono s : forall acc, 0 <= acc -> forallb is_digit s = true -> acc <= fold_left dec_step s acc.
Proof.
  induction s as [|b s IH]; intros acc Hacc Hd; cbn [fold_left]; [lia|].
  cbn [forallb] in Hd. apply andb_prop in Hd. destruct Hd as [Hb Hs]. apply is_digit_range in Hb.
  assert (acc <= dec_step acc b) by (unfold dec_step; lia).
  specialize (IH (dec_step acc b) ltac:(lia) Hs). lia.
Qed.
Lemma digits_value_spec s : forall acc, 0 <= acc <= 4294967295 -> forallb is_digit s = true ->
  digits_value acc s = if fold_left dec_step s acc <=? 4294967295 then Some (fold_left dec_step s acc) else None.
Proof.
  induction s as [|b s IH]; intros acc Hacc Hd; cbn [digits_value fold_left].
  - destruct (acc <=? 4294967295) eqn:E; [reflexivity|apply Z.leb_gt in E; lia].
  - cbn [forallb] in Hd. apply andb_prop in Hd. destruct Hd as [Hb Hs]. rewrite Hb.
    pose proof (is_digit_range b Hb) as Hr. fold (dec_step acc b).
    destruct (dec_step acc b <=? 4294967295) eqn:E.
    + apply Z.leb_le in E. apply IH; [unfold dec_step in *; lia|exact Hs].
    + apply Z.leb_gt in E. pose proof (fold_dec_mono s (dec_step acc b) ltac:(unfold dec_step; lia) Hs).
      destruct (fold_left dec_step s (dec_step acc b) <=? 4294967295) eqn:E2; [apply Z.leb_le in E2; lia|reflexivity].
Qed.
Lemma parse_u32_digits s : s <> [] -> forallb is_digit s = true ->
  parse_u32 s = if dec_value s <=? 4294967295 then Some (dec_value s) else None.
Proof.
  intros Hne Hd. unfold parse_u32, dec_value.
  destruct s as [|b r]; [congruence|].
  assert (Hb : b <> 43).
  { cbn [forallb] in Hd. apply andb_prop in Hd. destruct Hd as [Hb _]. apply is_digit_range in Hb. lia. }
  assert (E : match b :: r with 43 :: r0 => r0 | _ => b :: r end = b :: r).
  { destruct b as [|p|p]; try reflexivity. repeat (destruct p as [p|p|]; try reflexivity). congruence. }
  rewrite E. apply digits_value_spec; [lia|exact Hd].
Qed.

(* a well-formed line "Pid:<TAB>digits" *)
Lemma digit_not_ws b : is_digit b = true -> is_ws b = false.
Proof.
  intro H. apply is_digit_range in H. unfold is_ws.
  repeat (apply Bool.orb_false_intro); apply Z.eqb_neq; lia.
Qed.
Lemma trim_front_digit b r : is_ws b = false -> trim_front (b :: r) = b :: r.
Proof. intro H. cbn [trim_front]. rewrite H. reflexivity. Qed.
Lemma strip_quotes_tab_digits v : v <> [] -> forallb is_digit v = true -> strip_quotes (9 :: v) = v.
Proof.
  intros Hne Hd. unfold strip_quotes, trim. cbn [trim_front]. change (is_ws 9) with true. cbv iota.
  destruct v as [|b r]; [congruence|].
  assert (Hb : is_digit b = true) by (cbn [forallb] in Hd; apply andb_prop in Hd; tauto).
  rewrite (trim_front_digit b r (digit_not_ws b Hb)).
  (* the last byte is a digit too *)
  destruct (rev (b :: r)) as [|z zs] eqn:Er.
  { exfalso. apply (f_equal (@length Z)) in Er. rewrite rev_length in Er. discriminate Er. }
  assert (Hz : is_digit z = true).
  { assert (In z (b :: r)) by (apply in_rev; rewrite Er; left; reflexivity).
    rewrite forallb_forall in Hd. apply Hd. assumption. }
  rewrite (trim_front_digit z zs (digit_not_ws z Hz)). rewrite <- Er, rev_involutive.
  apply is_digit_range in Hb. destruct b as [|p|p]; try lia.
  repeat (destruct p as [p|p|]; try reflexivity; try lia).
Qed.
Lemma split_once_pid rest : (forall b, In b KEY_PID -> b <> 58) -> split_once 58 (KEY_PID ++ 58 :: rest) = Some (KEY_PID, rest).
Proof. intros _. reflexivity. Qed.
Lemma kv_pid_line v : v <> [] -> forallb is_digit v = true ->
  kv_of_line (KEY_PID ++ 58 :: 9 :: v) = Some (KEY_PID, v).
Proof.
  intros Hne Hd. unfold kv_of_line. change (split_once 58 (KEY_PID ++ 58 :: 9 :: v)) with (Some (KEY_PID, 9 :: v)).
  cbv beta iota. rewrite (strip_quotes_tab_digits v Hne Hd). reflexivity.
Qed.

Lemma status_pid_wellformed pre v post :
  (forall l b, In l (pre ++ (KEY_PID ++ 58 :: 9 :: v) :: post) -> In b l -> b <> 10) ->
  (forall l k w, In l pre -> kv_of_line l = Some (k, w) -> zlist_eqb k KEY_PID = false) ->
  v <> [] -> forallb is_digit v = true ->
  status_pid (join_lines (pre ++ (KEY_PID ++ 58 :: 9 :: v) :: post)) =
    if dec_value v <=? 4294967295 then dec_value v else 0.
Proof.
  intros Hnl Hpre Hne Hd. unfold status_pid.
  rewrite split_join; [|destruct pre; discriminate|exact Hnl].
  rewrite (pid_of_lines_first pre _ post v Hpre (kv_pid_line v Hne Hd)).
  rewrite parse_u32_digits by assumption.
  destruct (dec_value v <=? 4294967295); reflexivity.
Qed.

Lemma status_pid_absent lines : lines <> [] ->
  (forall l b, In l lines -> In b l -> b <> 10) ->
  (forall l k w, In l lines -> kv_of_line l = Some (k, w) -> zlist_eqb k KEY_PID = false) ->
  status_pid (join_lines lines) = 0.
Proof. intros Hne Hnl H. unfold status_pid. rewrite split_join by assumption. apply pid_of_lines_none. exact H. Qed.

(* ------------------------------------------------------------------ Mac / iOS reason strings *)
Section MacStrings.
Variable lk : Z -> Z -> bool.
Hypothesis Hmac : forall v, lk EN_MAC v = true -> name_of NAMES_ExceptionCodeMac v <> None.
Hypothesis Hkern : forall v, lk EN_MAC_KERN v = true -> name_of NAMES_ExceptionCodeMacBadAccessKernType v <> None.
Hypothesis Haa : forall v, lk EN_MAC_ACC_ARM v = true -> name_of NAMES_ExceptionCodeMacBadAccessArmType v <> None.
Hypothesis Hap : forall v, lk EN_MAC_ACC_PPC v = true -> name_of NAMES_ExceptionCodeMacBadAccessPpcType v <> None.
Hypothesis Hax : forall v, lk EN_MAC_ACC_X86 v = true -> name_of NAMES_ExceptionCodeMacBadAccessX86Type v <> None.
Hypothesis Hia : forall v, lk EN_MAC_INS_ARM v = true -> name_of NAMES_ExceptionCodeMacBadInstructionArmType v <> None.
Hypothesis Hip : forall v, lk EN_MAC_INS_PPC v = true -> name_of NAMES_ExceptionCodeMacBadInstructionPpcType v <> None.
Hypothesis Hix : forall v, lk EN_MAC_INS_X86 v = true -> name_of NAMES_ExceptionCodeMacBadInstructionX86Type v <> None.
Hypothesis Hra : forall v, lk EN_MAC_ARI_ARM v = true -> name_of NAMES_ExceptionCodeMacArithmeticArmType v <> None.
Hypothesis Hrp : forall v, lk EN_MAC_ARI_PPC v = true -> name_of NAMES_ExceptionCodeMacArithmeticPpcType v <> None.
Hypothesis Hrx : forall v, lk EN_MAC_ARI_X86 v = true -> name_of NAMES_ExceptionCodeMacArithmeticX86Type v <> None.
Hypothesis Hsw : forall v, lk EN_MAC_SOFTWARE v = true -> name_of NAMES_ExceptionCodeMacSoftwareType v <> None.
Hypothesis Hba : forall v, lk EN_MAC_BRK_ARM v = true -> name_of NAMES_ExceptionCodeMacBreakpointArmType v <> None.
Hypothesis Hbp : forall v, lk EN_MAC_BRK_PPC v = true -> name_of NAMES_ExceptionCodeMacBreakpointPpcType v <> None.
Hypothesis Hbx : forall v, lk EN_MAC_BRK_X86 v = true -> name_of NAMES_ExceptionCodeMacBreakpointX86Type v <> None.
Hypothesis Hres : forall v, lk EN_MAC_RESOURCE v = true -> name_of NAMES_ExceptionCodeMacResourceType v <> None.
Hypothesis Hgrd : forall v, lk EN_MAC_GUARD v = true -> name_of NAMES_ExceptionCodeMacGuardType v <> None.

Lemma mac_general_some code flags : name_of NAMES_ExceptionCodeMac code <> None ->
  reason_string (MacGeneral, [code; flags]) <> None.
Proof.
  intro H. cbn [reason_string]. destruct (name_of NAMES_ExceptionCodeMac code) as [n|]; [|congruence].
  destruct (str_eqb n S_SIMULATED); discriminate.
Qed.
Lemma resource_some ty a b : name_of NAMES_ExceptionCodeMacResourceType ty <> None ->
  reason_string (MacResource, [ty; a; b]) <> None.
Proof. intro H. cbn [reason_string]. unfold exc_resource_string. destruct (name_of NAMES_ExceptionCodeMacResourceType ty); [discriminate|congruence]. Qed.
Lemma guard_some ty a b : name_of NAMES_ExceptionCodeMacGuardType ty <> None ->
  reason_string (MacGuard, [ty; a; b]) <> None.
Proof. intro H. cbn [reason_string]. unfold exc_guard_string. destruct (name_of NAMES_ExceptionCodeMacGuardType ty); [discriminate|congruence]. Qed.

Lemma mac_reason_string c e o : o = OsMac \/ o = OsIos ->
  reason_string (crash_reason lk o c e) <> None.
Proof.
  intro Ho. assert (E : crash_reason lk o c e =
                        match mac_reason lk c e with Some x => x | None => (Unknown, [e_code e; e_flags e]) end)
    by (destruct Ho; subst o; reflexivity).
  rewrite E. unfold mac_reason. destruct (lk EN_MAC (e_code e)) eqn:L; cbn [negb]; [|discriminate].
  pose proof (mac_general_some (e_code e) (e_flags e) (Hmac _ L)) as G. unfold refine.
  destruct c;
  repeat match goal with
         | |- context [if ?b then _ else _] => let E := fresh "E" in destruct b eqn:E
         end; try exact G;
  try (apply resource_some; auto); try (apply guard_some; auto);
  cbn [reason_string]; apply prefixed_some; auto.
Qed.
End MacStrings.

(* ------------------------------------------------------------------ str::parse::<u32>, exactly *)
Lemma digits_value_inv s : forall acc n, 0 <= acc <= 4294967295 -> digits_value acc s = Some n ->
  forallb is_digit s = true /\ n = fold_left dec_step s acc /\ 0 <= n <= 4294967295.
Proof.
  induction s as [|b s IH]; intros acc n Hacc H; cbn [digits_value] in H.
  - inversion H; subst. cbn [forallb fold_left]. repeat split; lia.
  - destruct (is_digit b) eqn:Hb; [|discriminate]. pose proof (is_digit_range b Hb) as Hr.
    fold (dec_step acc b) in H. destruct (dec_step acc b <=? 4294967295) eqn:E; [|discriminate].
    apply Z.leb_le in E. destruct (IH (dec_step acc b) n ltac:(unfold dec_step in *; lia) H) as (A & B & C).
    cbn [forallb fold_left]. rewrite Hb, A. repeat split; try assumption; lia.
Qed.

Definition unsigned_body (s : list Z) : list Z := match s with 43 :: r => r | _ => s end.
Lemma parse_u32_spec s n :
  parse_u32 s = Some n <->
  unsigned_body s <> [] /\ forallb is_digit (unsigned_body s) = true /\
  dec_value (unsigned_body s) = n /\ n <= 4294967295.
Proof.
  unfold parse_u32. fold (unsigned_body s). split.
  - intro H. destruct (unsigned_body s) as [|b r] eqn:E; [discriminate|].
    destruct (digits_value_inv (b :: r) 0 n ltac:(lia) H) as (A & B & C).
    split; [discriminate|]. split; [exact A|]. split; [symmetry; exact B|lia].
  - intros (Hne & Hd & Hv & Hle). destruct (unsigned_body s) as [|b r] eqn:E; [congruence|].
    rewrite (digits_value_spec (b :: r) 0 ltac:(lia) Hd). fold (dec_value (b :: r)). rewrite Hv.
    destruct (n <=? 4294967295) eqn:L; [reflexivity|apply Z.leb_gt in L; lia].
Qed.

(* the general form of c14_status_pid: ANY first line with the key (blanks, quotes, sign included) decides *)
Lemma status_pid_first_line pre line post v :
  (forall l b, In l (pre ++ line :: post) -> In b l -> b <> 10) ->
  (forall l k w, In l pre -> kv_of_line l = Some (k, w) -> zlist_eqb k KEY_PID = false) ->
  kv_of_line line = Some (KEY_PID, v) ->
  status_pid (join_lines (pre ++ line :: post)) = match parse_u32 v with Some n => n | None => 0 end.
Proof.
  intros Hnl Hpre Hline. unfold status_pid. rewrite split_join; [|destruct pre; discriminate|exact Hnl].
  apply pid_of_lines_first; assumption.
Qed.

(* ------------------------------------------------------------------ Windows: every reason has a string *)
Section WindowsStrings.
Variable lk : Z -> Z -> bool.
Variable nm : Z -> Z -> option (list Z).
Hypothesis Hexc : forall v, lk EN_WIN_EXC v = true -> name_of NAMES_ExceptionCodeWindows v <> None.
Hypothesis Herr : forall v, lk EN_WIN_ERROR v = true -> nm EN_WIN_ERROR v <> None.
Hypothesis Hfac : forall v, lk EN_WIN_FACILITY v = true -> name_of NAMES_WinErrorFacilityWindows v <> None.
Hypothesis Hacc : forall v, lk EN_WIN_ACCESS v = true -> name_of NAMES_ExceptionCodeWindowsAccessType v <> None.
Hypothesis Hinp : forall v, lk EN_WIN_INPAGE v = true -> name_of NAMES_ExceptionCodeWindowsInPageErrorType v <> None.

Lemma windows_general_some code : lk EN_WIN_EXC code = true -> reason_string_nm nm (WindowsGeneral, [code]) <> None.
Proof.
  intro H. cbn [reason_string_nm reason_string]. destruct (name_of NAMES_ExceptionCodeWindows code) eqn:E; [|exfalso; exact (Hexc _ H E)].
  repeat match goal with |- context [if ?b then _ else _] => destruct b end; discriminate.
Qed.

Lemma windows_reason_string c e : reason_string_nm nm (crash_reason lk OsWindows c e) <> None.
Proof.
  change (crash_reason lk OsWindows c e) with (windows_reason lk e).
  unfold windows_reason, windows_code.
  destruct (lk EN_WIN_EXC (e_code e)) eqn:L1; cbn [fst].
  - destruct (e_code e =? EXCEPTION_ACCESS_VIOLATION).
    + destruct ((1 <=? e_nparams e) && lk EN_WIN_ACCESS (e_info0 e)) eqn:G; [|apply windows_general_some; exact L1].
      apply andb_true_iff in G. destruct G as [_ G]. cbn [reason_string_nm reason_string]. unfold prefixed.
      destruct (name_of NAMES_ExceptionCodeWindowsAccessType (e_info0 e)) eqn:E; [discriminate|exfalso; exact (Hacc _ G E)].
    + destruct (e_code e =? EXCEPTION_IN_PAGE_ERROR); [|apply windows_general_some; exact L1].
      destruct ((3 <=? e_nparams e) && lk EN_WIN_INPAGE (e_info0 e)) eqn:G; [|apply windows_general_some; exact L1].
      apply andb_true_iff in G. destruct G as [_ G]. cbn [reason_string_nm].
      destruct (name_of NAMES_ExceptionCodeWindowsInPageErrorType (e_info0 e)) eqn:E; [discriminate|exfalso; exact (Hinp _ G E)].
  - destruct (lk EN_WIN_ERROR (e_code e)) eqn:L2; cbn [fst].
    + cbn [reason_string_nm]. exact (Herr _ L2).
    + destruct (lk EN_WIN_NTSTATUS (e_code e)) eqn:L3; cbn [fst].
      * destruct ((e_code e =? STATUS_STACK_BUFFER_OVERRUN) && (1 <=? e_nparams e)); cbn [reason_string_nm reason_string]; discriminate.
      * destruct (negb (Z.land (e_code e) 4026531840 =? 0) && lk EN_WIN_FACILITY (Z.shiftr (Z.land (e_code e) 268369920) 16) &&
                  lk EN_WIN_ERROR (Z.land (e_code e) 65535)) eqn:G; cbn [fst].
        -- apply andb_true_iff in G. destruct G as [G G2]. apply andb_true_iff in G. destruct G as [_ G1].
           cbn [reason_string_nm].
           destruct (name_of NAMES_WinErrorFacilityWindows (Z.shiftr (Z.land (e_code e) 268369920) 16)) eqn:E1; [|exfalso; exact (Hfac _ G1 E1)].
           destruct (nm EN_WIN_ERROR (Z.land (e_code e) 65535)) eqn:E2; [discriminate|exfalso; exact (Herr _ G2 E2)].
        -- cbn [reason_string_nm reason_string]. discriminate.
Qed.

(* the families the name function is not consulted for render as before *)
Lemma reason_string_nm_small r : reason_string r <> None -> reason_string_nm nm r = reason_string r.
Proof.
  destruct r as [f p]. intro H.
  destruct f; try reflexivity; cbn [reason_string] in H;
    repeat (destruct p as [|? p]; try (exfalso; apply H; reflexivity)); try reflexivity.
Qed.
End WindowsStrings.
