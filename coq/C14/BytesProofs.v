(* C14/BytesProofs.v — the process state computed from the BYTES of a dump: C02's reader model composed with C14's model. *)
From Coq Require Import Lia.
From RM Require Import C02.Model C02.Proofs1 C02.Proofs3 C02.Proofs4.
From RM Require Import C14.Model C14.Proofs C14.Bytes Gen.C14Process.
Open Scope Z_scope.

Lemma sres_opt_of {A} (o : option A) : sres_opt (sres_of o) = o.
Proof. destruct o; reflexivity. Qed.
Lemma sres_list_of {A} (o : option (list A)) : sres_list (sres_of o) = opt_list o.
Proof. destruct o; reflexivity. Qed.

Section Reader.
Variable rc : endian -> Z -> list Z -> option ctx.

(* what the reader serves for the serialized model is the model *)
Lemma view_of_model e m : dump_of_view rc (view_of e m) = dump_of_model rc e m.
Proof.
  unfold dump_of_view, dump_of_model, view_of.
  unfold unified_view, unified_model.
  cbn [v_endian v_time v_sysinfo v_threads v_tnames v_exception v_breakpad v_misc v_lx_status v_modules v_unloaded v_memory v_memory64].
  rewrite !sres_opt_of, !sres_list_of. destruct (m_memory64 m); [reflexivity|]. destruct (m_memory m); reflexivity.
Qed.

Lemma bytes_roundtrip e m : wf_model e m = true ->
  dump_of_bytes rc (encode_dump e m) = dump_of_model rc e m.
Proof. intro H. unfold dump_of_bytes. rewrite (dump_roundtrip e m H). apply view_of_model. Qed.

Lemma bytes_of_view bs v : decode_dump bs = Some v -> dump_of_bytes rc bs = dump_of_view rc v.
Proof. intro H. unfold dump_of_bytes. rewrite H. reflexivity. Qed.

(* ---------------------------------------------------------------- required streams *)
Lemma streams_required e time sys threads tn exc bp mi st mods unl mems :
  dump_of_streams rc e time sys threads tn exc bp mi st mods unl mems <> None <-> sys <> None /\ threads <> None.
Proof.
  unfold dump_of_streams. destruct threads, sys; split; intro H; try (split; discriminate); try discriminate;
    try (exfalso; apply H; reflexivity); destruct H as [H1 H2]; try (exfalso; apply H1; reflexivity); try (exfalso; apply H2; reflexivity).
Qed.

Section Streams.
Variables (e : endian) (time : Z) (s : msysinfo) (ts : list mthread) (tn : list (Z * list Z))
          (exc : option mexception) (bp : option (list Z)) (mi : option (Z * list Z)) (st : option (list Z))
          (mods : list mmodule) (unl : list munloaded) (mems : list mregion).
Let d : dump :=
  {| d_platform := si_platform s; d_arch := si_arch s; d_time := time;
     d_threads := map (thread_of rc e (si_arch s)) ts; d_names := map tname_of tn;
     d_exc := option_map (exception_of rc e (si_arch s)) exc;
     d_bp := match bp with Some l => breakpad_of l | None => None end;
     d_misc := option_map misc_of mi; d_status := st;
     d_modules := map module_of mods; d_unloaded := map unloaded_of unl; d_mems := map region_of mems |}.

Lemma streams_some : dump_of_streams rc e time (Some s) (Some ts) tn exc bp mi st mods unl mems = Some d.
Proof. reflexivity. Qed.

Lemma d_dump_tid : dump_tid d = bp_dump_tid bp.
Proof.
  unfold dump_tid, bp_dump_tid, d. cbn [d_bp].
  destruct bp as [[|v [|dt [|rt [|? ?]]]]|]; reflexivity.
Qed.
Lemma d_req_tid : req_tid d = bp_req_tid bp.
Proof.
  unfold req_tid, bp_req_tid, d. cbn [d_bp].
  destruct bp as [[|v [|dt [|rt [|? ?]]]]|]; reflexivity.
Qed.
Lemma d_target_tid : target_tid d = streams_target exc bp.
Proof.
  unfold target_tid, streams_target. rewrite d_req_tid. unfold d. cbn [d_exc].
  destruct exc; reflexivity.
Qed.

Lemma nth_thread j t' : nth_error (d_threads d) j = Some t' <->
  exists t, nth_error ts j = Some t /\ t' = thread_of rc e (si_arch s) t.
Proof.
  unfold d. cbn [d_threads]. rewrite nth_error_map. destruct (nth_error ts j) as [t|]; cbn [option_map].
  - split; [intro H; inversion H; exists t; split; reflexivity|intros (t0 & H1 & H2); inversion H1; subst; reflexivity].
  - split; [discriminate|intros (t0 & H1 & _); discriminate].
Qed.

Lemma eligible_named t : eligible_prop d (thread_of rc e (si_arch s) t) <-> named_requesting exc bp t.
Proof.
  unfold eligible_prop, named_requesting. rewrite d_target_tid, d_dump_tid. cbn [t_id thread_of]. reflexivity.
Qed.

(* the requesting thread, in terms of the streams *)
Lemma streams_requesting :
  match requesting_thread d with
  | Some i => (exists t, nth_error ts i = Some t /\ named_requesting exc bp t) /\
              forall j t, (i < j)%nat -> nth_error ts j = Some t -> ~ named_requesting exc bp t
  | None => forall j t, nth_error ts j = Some t -> ~ named_requesting exc bp t
  end.
Proof.
  pose proof (requesting_spec d) as H. destruct (requesting_thread d) as [i|].
  - destruct H as [(t' & Hn & He) Hl]. apply nth_thread in Hn. destruct Hn as (t & Hn & ->). split.
    + exists t. split; [exact Hn|]. apply eligible_named. exact He.
    + intros j t0 Hij Hj Hnamed. apply (Hl j (thread_of rc e (si_arch s) t0) Hij).
      * apply nth_thread. exists t0. split; [exact Hj|reflexivity].
      * apply eligible_named. exact Hnamed.
  - intros j t0 Hj Hnamed. apply (H j (thread_of rc e (si_arch s) t0)).
    + apply nth_thread. exists t0. split; [exact Hj|reflexivity].
    + apply eligible_named. exact Hnamed.
Qed.

(* one call stack per thread-list entry, in order, same ids; names = the last entry of the thread names stream for the id *)
Lemma streams_threads :
  map cs_id (threads_of d) = map th_id ts /\
  forall i cs, nth_error (threads_of d) i = Some cs ->
    exists t, nth_error ts i = Some t /\ cs_id cs = th_id t /\ cs_name cs = get_name (map tname_of tn) (th_id t) /\
      (bp_dump_tid bp = Some (th_id t) <-> cs_info cs = CsDumpThreadSkipped).
Proof.
  pose proof (threads_one_to_one d) as (Hlen & Hids & Hnth). split.
  - rewrite Hids. unfold d. cbn [d_threads]. rewrite map_map. reflexivity.
  - intros i cs Hcs. destruct (nth_error (d_threads d) i) as [t'|] eqn:Ht.
    + destruct (proj1 (nth_thread i t') Ht) as (t & Hti & ->).
      destruct (Hnth i _ cs Ht Hcs) as (H1 & H2 & H3 & H4). exists t. split; [exact Hti|].
      cbn [t_id thread_of] in *. split; [exact H1|]. split; [exact H2|].
      rewrite d_dump_tid in H3, H4. split; [intro H; apply H3; exact H|].
      intro Hs. destruct (bp_dump_tid bp) as [x|] eqn:Hb.
      * destruct (Z.eq_dec x (th_id t)) as [->|Hne]; [reflexivity|].
        exfalso. apply H4; [intro Hc; inversion Hc; contradiction|exact Hs].
      * exfalso. apply H4; [discriminate|exact Hs].
    + exfalso. apply nth_error_None in Ht. assert (nth_error (threads_of d) i <> None) as Hn by (rewrite Hcs; discriminate).
      apply nth_error_Some in Hn. lia.
Qed.

(* which context every walk starts from, in terms of the streams *)
Lemma streams_context i t cs :
  nth_error ts i = Some t -> nth_error (threads_of d) i = Some cs -> bp_dump_tid bp <> Some (th_id t) ->
  (named_requesting exc bp t ->
     cs_ctx cs = match opt_and_then exc (fun x => read_ctx rc e (si_arch s) (ex_ctx x)) with
                 | Some c => Some (FromException, c)
                 | None => tag_ctx FromThread (read_ctx rc e (si_arch s) (th_ctx t))
                 end) /\
  (~ named_requesting exc bp t -> cs_ctx cs = tag_ctx FromThread (read_ctx rc e (si_arch s) (th_ctx t))).
Proof.
  intros Ht Hcs Hd.
  assert (Ht' : nth_error (d_threads d) i = Some (thread_of rc e (si_arch s) t)) by (apply nth_thread; exists t; split; [exact Ht|reflexivity]).
  assert (Hd' : dump_tid d <> Some (t_id (thread_of rc e (si_arch s) t))) by (rewrite d_dump_tid; exact Hd).
  pose proof (context_choice d i _ cs Ht' Hcs Hd') as (H1 & H2 & _).
  split.
  - intro Hn. rewrite (H1 (proj2 (eligible_named t) Hn)). unfold exc_ctx, d. cbn [d_exc t_ctx thread_of].
    destruct exc as [x|]; reflexivity.
  - intro Hn. apply H2. intro He. apply Hn. apply eligible_named. exact He.
Qed.

(* process id / create time, in terms of the streams *)
Lemma streams_pid_time :
  process_id d = match mi with
                 | Some m => if Z.testbit (nth 1 (snd m) 0) 0 then Some (nth 2 (snd m) 0) else None
                 | None => option_map status_pid st
                 end /\
  process_create_time d = match mi with
                          | Some m => if Z.testbit (nth 1 (snd m) 0) 1 then Some (nth 3 (snd m) 0) else None
                          | None => None
                          end /\
  d_time d = time.
Proof.
  pose proof (pid_time d) as [Hs Hn]. unfold d in *. cbn [d_misc d_status d_time] in *.
  destruct mi as [m|]; cbn [option_map] in *.
  - destruct (Hs _ eq_refl) as [H1 H2]. cbn [mi_flags1 mi_pid mi_ctime misc_of] in *. repeat split; assumption.
  - destruct (Hn eq_refl) as [H1 H2]. repeat split; assumption.
Qed.
End Streams.

(* ---------------------------------------------------------------- modules of a well-formed model *)
Lemma good_of_not_bad b sz : 0 <= b -> bad_image b sz = false -> good_image (b, sz) = true.
Proof.
  unfold bad_image, good_image. cbn [fst snd]. intros Hb H. apply orb_false_iff in H. destruct H as [H1 H2].
  rewrite H1. cbn [negb andb]. apply Z.leb_le. rewrite Z.gtb_ltb in H2. apply Z.ltb_ge in H2. exact H2.
Qed.

Lemma u64b_nonneg z : u64b z = true -> 0 <= z.
Proof. unfold u64b. intro H. apply andb_true_iff in H. destruct H as [H _]. apply Z.leb_le. exact H. Qed.

Lemma wf_module_good e m : wf_module e m = true -> good_image (module_of m) = true.
Proof.
  unfold wf_module. intro H. repeat (apply andb_true_iff in H; destruct H as [H ?]).
  apply good_of_not_bad; [first [apply u64b_nonneg; assumption | apply Z.leb_le; assumption]|apply negb_true_iff; assumption].
Qed.
Lemma wf_unloaded_good u : wf_unloaded u = true -> good_image (fst (unloaded_of u)) = true /\ 0 <= um_base u.
Proof.
  unfold wf_unloaded. intro H. repeat (apply andb_true_iff in H; destruct H as [H ?]).
  split; [apply good_of_not_bad; [first [apply u64b_nonneg; assumption | apply Z.leb_le; assumption]|apply negb_true_iff; assumption]|first [apply u64b_nonneg; assumption | apply Z.leb_le; assumption]].
Qed.

Lemma read_modules_wf e l : forallb (wf_module e) l = true -> read_modules (map module_of l) = map module_of l.
Proof.
  induction l as [|m l IH]; intro H; [reflexivity|]. cbn [forallb] in H. apply andb_true_iff in H. destruct H as [H1 H2].
  unfold read_modules in *. cbn [map filter]. rewrite (wf_module_good e m H1). rewrite (IH H2). reflexivity.
Qed.
Lemma read_unloaded_wf l : forallb wf_unloaded l = true -> read_unloaded (map unloaded_of l) = map unloaded_of l.
Proof.
  intro H. unfold read_unloaded.
  replace (forallb (fun m => good_image (fst m)) (map unloaded_of l)) with true; [reflexivity|].
  symmetry. induction l as [|u l IH]; [reflexivity|]. cbn [forallb] in H. apply andb_true_iff in H. destruct H as [H1 H2].
  cbn [map forallb]. rewrite (proj1 (wf_unloaded_good u H1)). rewrite (IH H2). reflexivity.
Qed.

Lemma wf_model_lists e m : wf_model e m = true ->
  forallb (wf_module e) (opt_list (m_modules m)) = true /\ forallb wf_unloaded (opt_list (m_unloaded m)) = true.
Proof.
  unfold wf_model. intro H. repeat (apply andb_true_iff in H; destruct H as [H ?]).
  split.
  - destruct (m_modules m); [assumption|reflexivity].
  - destruct (m_unloaded m); [assumption|reflexivity].
Qed.

(* ---------------------------------------------------------------- from a dump model / from its bytes *)
Lemma model_some e m d : dump_of_model rc e m = Some d ->
  exists s ts, m_sysinfo m = Some s /\ m_threads m = Some ts /\
    dump_of_streams rc e (m_time m) (Some s) (Some ts) (opt_list (m_tnames m)) (m_exception m) (m_breakpad m) (m_misc m)
      (m_lx_status m) (opt_list (m_modules m)) (opt_list (m_unloaded m)) (unified_model m) = Some d.
Proof.
  unfold dump_of_model. destruct (m_threads m) as [ts|], (m_sysinfo m) as [s|]; cbn [dump_of_streams]; try discriminate.
  intro H. exists s, ts. repeat split. exact H.
Qed.

Lemma model_streams e m d : wf_model e m = true -> dump_of_model rc e m = Some d ->
  d_time d = m_time m /\
  read_modules (d_modules d) = map module_of (opt_list (m_modules m)) /\
  read_unloaded (d_unloaded d) = map unloaded_of (opt_list (m_unloaded m)) /\
  process_id d = match m_misc m with
                 | Some mi => if Z.testbit (nth 1 (snd mi) 0) 0 then Some (nth 2 (snd mi) 0) else None
                 | None => option_map status_pid (m_lx_status m)
                 end /\
  process_create_time d = match m_misc m with
                          | Some mi => if Z.testbit (nth 1 (snd mi) 0) 1 then Some (nth 3 (snd mi) 0) else None
                          | None => None
                          end.
Proof.
  intros Hwf Hd. destruct (model_some e m d Hd) as (s & ts & _ & _ & H). cbn [dump_of_streams] in H. inversion H as [Hd']. clear H.
  destruct (wf_model_lists e m Hwf) as [Hm Hu].
  pose proof (streams_pid_time e (m_time m) s ts (opt_list (m_tnames m)) (m_exception m) (m_breakpad m) (m_misc m) (m_lx_status m)
                (opt_list (m_modules m)) (opt_list (m_unloaded m)) (unified_model m)) as (H1 & H2 & H3).
  split; [exact H3|]. cbn [d_modules d_unloaded]. split; [apply (read_modules_wf e); exact Hm|]. split; [apply read_unloaded_wf; exact Hu|].
  split; [exact H1|exact H2].
Qed.

Lemma model_threads e m d : dump_of_model rc e m = Some d ->
  map cs_id (threads_of d) = map th_id (opt_list (m_threads m)) /\
  forall i cs, nth_error (threads_of d) i = Some cs ->
    exists t, nth_error (opt_list (m_threads m)) i = Some t /\ cs_id cs = th_id t /\
      cs_name cs = get_name (map tname_of (opt_list (m_tnames m))) (th_id t) /\
      (bp_dump_tid (m_breakpad m) = Some (th_id t) <-> cs_info cs = CsDumpThreadSkipped).
Proof.
  intro Hd. destruct (model_some e m d Hd) as (s & ts & _ & Ht & H). cbn [dump_of_streams] in H. inversion H as [Hd']. clear H.
  rewrite Ht. cbn [opt_list].
  exact (streams_threads e (m_time m) s ts (opt_list (m_tnames m)) (m_exception m) (m_breakpad m) (m_misc m) (m_lx_status m)
           (opt_list (m_modules m)) (opt_list (m_unloaded m)) (unified_model m)).
Qed.

Lemma model_requesting e m d : dump_of_model rc e m = Some d ->
  match requesting_thread d with
  | Some i => (exists t, nth_error (opt_list (m_threads m)) i = Some t /\ named_requesting (m_exception m) (m_breakpad m) t) /\
              forall j t, (i < j)%nat -> nth_error (opt_list (m_threads m)) j = Some t ->
                          ~ named_requesting (m_exception m) (m_breakpad m) t
  | None => forall j t, nth_error (opt_list (m_threads m)) j = Some t -> ~ named_requesting (m_exception m) (m_breakpad m) t
  end.
Proof.
  intro Hd. destruct (model_some e m d Hd) as (s & ts & _ & Ht & H). cbn [dump_of_streams] in H. inversion H as [Hd']. clear H.
  rewrite Ht. cbn [opt_list].
  exact (streams_requesting e (m_time m) s ts (opt_list (m_tnames m)) (m_exception m) (m_breakpad m) (m_misc m) (m_lx_status m)
           (opt_list (m_modules m)) (opt_list (m_unloaded m)) (unified_model m)).
Qed.

Lemma model_context e m d s i t cs : dump_of_model rc e m = Some d -> m_sysinfo m = Some s ->
  nth_error (opt_list (m_threads m)) i = Some t -> nth_error (threads_of d) i = Some cs ->
  bp_dump_tid (m_breakpad m) <> Some (th_id t) ->
  (named_requesting (m_exception m) (m_breakpad m) t ->
     cs_ctx cs = match opt_and_then (m_exception m) (fun x => read_ctx rc e (si_arch s) (ex_ctx x)) with
                 | Some c => Some (FromException, c)
                 | None => tag_ctx FromThread (read_ctx rc e (si_arch s) (th_ctx t))
                 end) /\
  (~ named_requesting (m_exception m) (m_breakpad m) t -> cs_ctx cs = tag_ctx FromThread (read_ctx rc e (si_arch s) (th_ctx t))).
Proof.
  intros Hd Hs. destruct (model_some e m d Hd) as (s' & ts & Hs' & Ht & H). rewrite Hs in Hs'. inversion Hs'. subst s'.
  cbn [dump_of_streams] in H. inversion H as [Hd']. clear H. rewrite Ht. cbn [opt_list].
  exact (streams_context e (m_time m) s ts (opt_list (m_tnames m)) (m_exception m) (m_breakpad m) (m_misc m) (m_lx_status m)
           (opt_list (m_modules m)) (opt_list (m_unloaded m)) (unified_model m) i t cs).
Qed.

Lemma model_offsets p e m d x : wf_model e m = true -> dump_of_model rc e m = Some d -> 0 <= x < two64 ->
  exists l, frame_unloaded p d x = Ret l /\
    (module_at (map module_of (opt_list (m_modules m))) x <> None -> l = []) /\
    (module_at (map module_of (opt_list (m_modules m))) x = None ->
       forall nm off, In (nm, off) l <->
         exists i u r, nth_error (opt_list (m_unloaded m)) i = Some u /\ nm = pack_units (um_name u) /\
                       mk_range (um_base u) (um_size u) = Some r /\ contains r x = true /\ off = x - um_base u) /\
    (forall nm off, In (nm, off) l -> 0 <= off < two64).
Proof.
  intros Hwf Hd Hx. destruct (model_streams e m d Hwf Hd) as (_ & Hm & Hu & _).
  destruct (wf_model_lists e m Hwf) as [_ Hwu].
  assert (Hdu : d_unloaded d = map unloaded_of (opt_list (m_unloaded m))).
  { destruct (model_some e m d Hd) as (s & ts & _ & _ & H). cbn [dump_of_streams] in H. inversion H. reflexivity. }
  assert (Hb : forall b s nm, In (b, s, nm) (d_unloaded d) -> 0 <= b).
  { rewrite Hdu. intros b s nm Hin. apply in_map_iff in Hin. destruct Hin as (u & Heq & Hin).
    unfold unloaded_of in Heq. inversion Heq; subst.
    apply (proj2 (wf_unloaded_good u (proj1 (forallb_forall _ _) Hwu u Hin))). }
  destruct (frame_unloaded_spec p d x Hx Hb) as (l & H1 & H2 & H3 & H4). exists l. rewrite Hm, Hu in *.
  split; [exact H1|]. split; [exact H2|]. split; [|exact H4].
  intros Hnone nm off. rewrite (H3 Hnone nm off). unfold covers. split.
  - intros (i & b & sz & r & Hn & Hr & Hc & Ho). rewrite nth_error_map in Hn.
    destruct (nth_error (opt_list (m_unloaded m)) i) as [u|] eqn:Hu'; cbn [option_map] in Hn; [|discriminate].
    unfold unloaded_of in Hn. inversion Hn; subst. exists i, u, r. repeat split; assumption.
  - intros (i & u & r & Hn & -> & Hr & Hc & ->). exists i, (um_base u), (um_size u), r.
    rewrite nth_error_map, Hn. repeat split; assumption.
Qed.
End Reader.

(* ---------------------------------------------------------------- any file the reader accepts *)
Lemma file_requesting rc bs v d : decode_dump bs = Some v -> dump_of_bytes rc bs = Some d ->
  exists s ts, v_sysinfo v = SOk s /\ v_threads v = SOk ts /\
  let exc := sres_opt (v_exception v) in let bp := sres_opt (v_breakpad v) in
  map cs_id (threads_of d) = map th_id ts /\
  match requesting_thread d with
  | Some i => (exists t, nth_error ts i = Some t /\ named_requesting exc bp t) /\
              forall j t, (i < j)%nat -> nth_error ts j = Some t -> ~ named_requesting exc bp t
  | None => forall j t, nth_error ts j = Some t -> ~ named_requesting exc bp t
  end.
Proof.
  intros Hv Hd. rewrite (bytes_of_view rc bs v Hv) in Hd. unfold dump_of_view in Hd.
  destruct (v_sysinfo v) as [| |s] eqn:Hs; cbn [sres_opt] in Hd;
    try (unfold dump_of_streams in Hd; destruct (sres_opt (v_threads v)); discriminate).
  destruct (v_threads v) as [| |ts] eqn:Ht; cbn [sres_opt] in Hd; try discriminate.
  exists s, ts. split; [reflexivity|]. split; [reflexivity|]. cbn zeta.
  cbn [dump_of_streams] in Hd. inversion Hd as [Hd']. clear Hd. split.
  - exact (proj1 (streams_threads rc (v_endian v) (v_time v) s ts (sres_list (v_tnames v)) (sres_opt (v_exception v))
             (sres_opt (v_breakpad v)) (sres_opt (v_misc v)) (sres_opt (v_lx_status v)) (sres_list (v_modules v)) (sres_list (v_unloaded v)) (unified_view v))).
  - exact (streams_requesting rc (v_endian v) (v_time v) s ts (sres_list (v_tnames v)) (sres_opt (v_exception v))
             (sres_opt (v_breakpad v)) (sres_opt (v_misc v)) (sres_opt (v_lx_status v)) (sres_list (v_modules v)) (sres_list (v_unloaded v)) (unified_view v)).
Qed.

(* ---------------------------------------------------------------- names as integers *)
Lemma pack_units_inj : forall u1 u2,
  Forall (fun x => 0 <= x < 65536) u1 -> Forall (fun x => 0 <= x < 65536) u2 -> pack_units u1 = pack_units u2 -> u1 = u2.
Proof.
  assert (Hnn : forall u, Forall (fun x => 0 <= x < 65536) u -> 0 <= pack_units u).
  { induction u as [|x u IH]; intro H; [cbn; lia|]. inversion H; subst. cbn [pack_units fold_right]. specialize (IH H3).
    unfold pack_units in IH. lia. }
  induction u1 as [|x u1 IH]; intros u2 H1 H2 He.
  - destruct u2 as [|y u2]; [reflexivity|]. inversion H2; subst. pose proof (Hnn u2 H4) as Hp.
    cbn [pack_units fold_right] in He. unfold pack_units in Hp. lia.
  - inversion H1; subst. destruct u2 as [|y u2].
    + pose proof (Hnn u1 H4) as Hp. cbn [pack_units fold_right] in He. unfold pack_units in Hp. lia.
    + inversion H2; subst. pose proof (Hnn u1 H4) as Hp1. pose proof (Hnn u2 H6) as Hp2.
      cbn [pack_units fold_right] in He. fold (pack_units u1) in He. fold (pack_units u2) in He.
      assert (x = y /\ pack_units u1 = pack_units u2) as [-> Hq].
      { assert ((x + 1 + 65537 * pack_units u1) mod 65537 = (y + 1 + 65537 * pack_units u2) mod 65537) as Hm by (rewrite He; reflexivity).
        rewrite (Z.mul_comm 65537 (pack_units u1)), (Z.mul_comm 65537 (pack_units u2)) in Hm.
        rewrite !Z_mod_plus_full in Hm. rewrite !Z.mod_small in Hm by lia. split; lia. }
      f_equal. apply IH; assumption.
Qed.

(* ---------------------------------------------------------------- required / optional streams = the get_stream calls of the source *)
Lemma stream_policy_is_source : forallb (policy_in GEN_STREAM_POLICY) stream_policy = true.
Proof. vm_compute. reflexivity. Qed.

Lemma view_required rc v : dump_of_view rc v <> None <-> (exists s, v_sysinfo v = SOk s) /\ (exists ts, v_threads v = SOk ts).
Proof.
  unfold dump_of_view. rewrite streams_required. split.
  - intros [H1 H2]. split.
    + destruct (v_sysinfo v) as [| |s]; cbn [sres_opt] in H1; try (exfalso; apply H1; reflexivity). exists s. reflexivity.
    + destruct (v_threads v) as [| |ts]; cbn [sres_opt] in H2; try (exfalso; apply H2; reflexivity). exists ts. reflexivity.
  - intros [[s Hs] [ts Ht]]. rewrite Hs, Ht. cbn [sres_opt]. split; discriminate.
Qed.

(* ---------------------------------------------------------------- crash address / reason inputs from the bytes *)
Lemma wt_arr_nth : forall w n l, wt (LArr n (LU w)) (varr l) = true -> forall i d, (i < length l)%nat -> 0 <= nth i l d < wbits w.
Proof.
  intros w n. induction n as [|n IH]; intros l H i d Hi.
  - destruct l as [|x l]; [cbn in Hi; lia|]. cbn in H. discriminate.
  - destruct l as [|x l]; [cbn in Hi; lia|].
    change (varr (x :: l)) with (VSeq (VInt x) (varr l)) in H.
    change (wt (LArr (S n) (LU w)) (VSeq (VInt x) (varr l))) with (wt (LU w) (VInt x) && wt (LArr n (LU w)) (varr l)) in H.
    apply andb_true_iff in H. destruct H as [Hx Hl]. destruct i as [|i].
    + cbn [nth]. cbn [wt] in Hx. apply andb_true_iff in Hx. destruct Hx as [A B]. apply Z.leb_le in A. apply Z.ltb_lt in B. lia.
    + cbn [nth]. apply (IH l Hl i d). cbn [length] in Hi. lia.
Qed.
Lemma wt_arr_length : forall w n l, wt (LArr n (LU w)) (varr l) = true -> length l = n.
Proof.
  intros w n. induction n as [|n IH]; intros l H.
  - destruct l as [|x l]; [reflexivity|cbn in H; discriminate].
  - destruct l as [|x l]; [cbn in H; discriminate|].
    change (varr (x :: l)) with (VSeq (VInt x) (varr l)) in H.
    change (wt (LArr (S n) (LU w)) (VSeq (VInt x) (varr l))) with (wt (LU w) (VInt x) && wt (LArr n (LU w)) (varr l)) in H.
    apply andb_true_iff in H. destruct H as [_ Hl]. cbn [length]. f_equal. exact (IH l Hl).
Qed.

Section Crash.
Variable rc : endian -> Z -> list Z -> option ctx.
(* the exception record of a well-formed model: information[1] and the address are 64-bit values *)
Lemma wf_exception_ranges x : wf_exception x = true ->
  0 <= nth 1 (ex_info x) 0 < two64 /\ 0 <= ex_address x < two64 /\ length (ex_info x) = 15%nat.
Proof.
  unfold wf_exception. intro H. repeat (apply andb_true_iff in H; destruct H as [H ?]).
  match goal with Hw : wt (LArr 15 (LU 8)) (varr (ex_info x)) = true |- _ =>
    pose proof (wt_arr_length 8 15 _ Hw) as Hlen; pose proof (wt_arr_nth 8 15 _ Hw 1%nat 0 ltac:(rewrite Hlen; lia)) as Hn end.
  split; [exact Hn|]. split; [|exact Hlen].
  match goal with Ha : u64b (ex_address x) = true |- _ => unfold u64b in Ha; apply andb_true_iff in Ha; destruct Ha as [A B];
    apply Z.leb_le in A; apply Z.ltb_lt in B; split; [exact A|exact B] end.
Qed.

Lemma wf_model_exception e m x : wf_model e m = true -> m_exception m = Some x -> wf_exception x = true.
Proof.
  unfold wf_model. intros H Hx. repeat (apply andb_true_iff in H; destruct H as [H ?]).
  match goal with Hw : oall wf_exception (m_exception m) = true |- _ => rewrite Hx in Hw; exact Hw end.
Qed.

Lemma model_crash e m d s x : wf_model e m = true -> dump_of_model rc e m = Some d ->
  m_sysinfo m = Some s -> m_exception m = Some x ->
  let o := os_of_platform (si_platform s) in let c := cpu_of_arch (si_arch s) in
  let ex := exception_of rc e (si_arch s) x in
  d_platform d = si_platform s /\ d_arch d = si_arch s /\ d_exc d = Some ex /\
  crash_address o c ex =
    (let a := if os_eqb_windows o && ((ex_code x =? 3221225477) || (ex_code x =? 3221225478)) && (2 <=? ex_nparams x)
              then nth 1 (ex_info x) 0 else ex_address x in
     match pointer_width c with W32 => a mod two32 | _ => a end) /\
  0 <= crash_address o c ex < two64.
Proof.
  intros Hwf Hd Hs Hx o c ex.
  destruct (model_some rc e m d Hd) as (s' & ts & Hs' & _ & H). rewrite Hs in Hs'. inversion Hs'. subst s'.
  cbn [dump_of_streams] in H. inversion H as [Hd']. clear H. cbn [d_platform d_arch d_exc]. rewrite Hx. cbn [option_map].
  split; [reflexivity|]. split; [reflexivity|]. split; [reflexivity|].
  destruct (wf_exception_ranges x (wf_model_exception e m x Hwf Hx)) as (Hi & Ha & _).
  split.
  - unfold crash_address, crash_address_raw, wrap32. reflexivity.
  - apply crash_address_spec. unfold crash_address_raw. fold o. unfold ex. cbn [e_code e_nparams e_info1 e_addr exception_of].
    destruct (os_eqb_windows o && _ && _); assumption.
Qed.
End Crash.

(* ---------------------------------------------------------------- what the index depends on *)
Lemma bytes_depend_on_streams rc e m1 m2 : wf_model e m1 = true -> wf_model e m2 = true ->
  m_time m1 = m_time m2 -> m_sysinfo m1 = m_sysinfo m2 -> m_threads m1 = m_threads m2 -> m_tnames m1 = m_tnames m2 ->
  m_exception m1 = m_exception m2 -> m_breakpad m1 = m_breakpad m2 -> m_misc m1 = m_misc m2 -> m_lx_status m1 = m_lx_status m2 ->
  m_modules m1 = m_modules m2 -> m_unloaded m1 = m_unloaded m2 -> m_memory m1 = m_memory m2 -> m_memory64 m1 = m_memory64 m2 ->
  dump_of_bytes rc (encode_dump e m1) = dump_of_bytes rc (encode_dump e m2).
Proof.
  intros W1 W2 H1 H2 H3 H4 H5 H6 H7 H8 H9 H10 H11 H12. rewrite (bytes_roundtrip rc e m1 W1), (bytes_roundtrip rc e m2 W2).
  unfold dump_of_model, unified_model. rewrite H1, H2, H3, H4, H5, H6, H7, H8, H9, H10, H11, H12. reflexivity.
Qed.

(* ---------------------------------------------------------------- ip / sp by field name *)
Lemma ctx_regs_by_name arch : ctx_regs arch = ctx_regs_named arch.
Proof.
  unfold ctx_regs, ctx_regs_named.
  destruct ((arch =? 0) || (arch =? 10)); [vm_compute; reflexivity|].
  destruct (arch =? 9); [vm_compute; reflexivity|]. destruct (arch =? 5); [vm_compute; reflexivity|].
  destruct (arch =? 12); [vm_compute; reflexivity|]. destruct (arch =? 32771); [vm_compute; reflexivity|].
  destruct (arch =? 1); [vm_compute; reflexivity|]. destruct (arch =? 3); [vm_compute; reflexivity|].
  destruct (arch =? 32770); [vm_compute; reflexivity|]. destruct (arch =? 32769); [vm_compute; reflexivity|reflexivity].
Qed.

(* ---------------------------------------------------------------- any accepted file: the index in terms of the served streams *)
Lemma file_streams rc bs v d : decode_dump bs = Some v -> dump_of_bytes rc bs = Some d ->
  d_time d = v_time v /\
  d_modules d = map module_of (sres_list (v_modules v)) /\
  d_unloaded d = map unloaded_of (sres_list (v_unloaded v)) /\
  process_id d = match sres_opt (v_misc v) with
                 | Some mi => if Z.testbit (nth 1 (snd mi) 0) 0 then Some (nth 2 (snd mi) 0) else None
                 | None => option_map status_pid (sres_opt (v_lx_status v))
                 end /\
  process_create_time d = match sres_opt (v_misc v) with
                          | Some mi => if Z.testbit (nth 1 (snd mi) 0) 1 then Some (nth 3 (snd mi) 0) else None
                          | None => None
                          end /\
  forall i cs, nth_error (threads_of d) i = Some cs ->
    cs_name cs = get_name (map tname_of (sres_list (v_tnames v))) (cs_id cs) /\
    (bp_dump_tid (sres_opt (v_breakpad v)) = Some (cs_id cs) <-> cs_info cs = CsDumpThreadSkipped).
Proof.
  intros Hv Hd. rewrite (bytes_of_view rc bs v Hv) in Hd. unfold dump_of_view in Hd.
  destruct (sres_opt (v_sysinfo v)) as [s|] eqn:Hs; [|unfold dump_of_streams in Hd; destruct (sres_opt (v_threads v)); discriminate].
  destruct (sres_opt (v_threads v)) as [ts|] eqn:Ht; [|discriminate].
  cbn [dump_of_streams] in Hd. inversion Hd as [Hd']. clear Hd.
  pose proof (streams_pid_time rc (v_endian v) (v_time v) s ts (sres_list (v_tnames v)) (sres_opt (v_exception v))
                (sres_opt (v_breakpad v)) (sres_opt (v_misc v)) (sres_opt (v_lx_status v)) (sres_list (v_modules v)) (sres_list (v_unloaded v)) (unified_view v))
    as (H1 & H2 & H3).
  pose proof (streams_threads rc (v_endian v) (v_time v) s ts (sres_list (v_tnames v)) (sres_opt (v_exception v))
                (sres_opt (v_breakpad v)) (sres_opt (v_misc v)) (sres_opt (v_lx_status v)) (sres_list (v_modules v)) (sres_list (v_unloaded v)) (unified_view v))
    as (_ & H4).
  split; [exact H3|]. split; [reflexivity|]. split; [reflexivity|]. split; [exact H1|]. split; [exact H2|].
  intros i cs Hcs. destruct (H4 i cs Hcs) as (t & _ & Hid & Hname & Hskip). rewrite Hid. split; [exact Hname|exact Hskip].
Qed.

(* ---------------------------------------------------------------- byte order *)
Lemma model_forget_ctx rc e1 e2 m : option_map forget_ctx (dump_of_model rc e1 m) = option_map forget_ctx (dump_of_model rc e2 m).
Proof.
  unfold dump_of_model, dump_of_streams. destruct (m_threads m) as [ts|]; [|reflexivity]. destruct (m_sysinfo m) as [s|]; [|reflexivity].
  cbn [option_map]. f_equal. unfold forget_ctx. cbn [d_platform d_arch d_time d_threads d_names d_exc d_bp d_misc d_status d_modules d_unloaded d_mems].
  f_equal.
  - rewrite !map_map. apply map_ext. intro t. reflexivity.
  - destruct (m_exception m); reflexivity.
Qed.

Lemma bytes_byte_order rc m : wf_model LE m = true -> wf_model BE m = true ->
  option_map forget_ctx (dump_of_bytes rc (encode_dump LE m)) = option_map forget_ctx (dump_of_bytes rc (encode_dump BE m)).
Proof. intros H1 H2. rewrite (bytes_roundtrip rc LE m H1), (bytes_roundtrip rc BE m H2). apply model_forget_ctx. Qed.

(* what does not look at the contexts *)
Lemma forget_dump_tid d : dump_tid (forget_ctx d) = dump_tid d.
Proof. reflexivity. Qed.
Lemma forget_target_tid d : target_tid (forget_ctx d) = target_tid d.
Proof. unfold target_tid, req_tid, forget_ctx. cbn [d_exc d_bp]. destruct (d_exc d); reflexivity. Qed.

Lemma forget_walk d : forall ts i req,
  snd (walk_threads (forget_ctx d) i (map forget_thread_ctx ts) req) = snd (walk_threads d i ts req) /\
  map cs_id (fst (walk_threads (forget_ctx d) i (map forget_thread_ctx ts) req)) = map cs_id (fst (walk_threads d i ts req)) /\
  map cs_name (fst (walk_threads (forget_ctx d) i (map forget_thread_ctx ts) req)) = map cs_name (fst (walk_threads d i ts req)).
Proof.
  induction ts as [|t ts IH]; intros i req; [repeat split|].
  cbn [map walk_threads]. unfold one_thread. rewrite forget_dump_tid, forget_target_tid. cbn [t_id forget_thread_ctx].
  change (d_names (forget_ctx d)) with (d_names d).
  destruct (oz_eqb (dump_tid d) (t_id t)).
  - specialize (IH (S i) req). destruct (walk_threads (forget_ctx d) (S i) (map forget_thread_ctx ts) req) as [a b].
    destruct (walk_threads d (S i) ts req) as [a' b']. cbn [fst snd map cs_id cs_name] in *. destruct IH as (H1 & H2 & H3).
    rewrite H1, H2, H3. repeat split.
  - destruct (oz_eqb (target_tid d) (t_id t)).
    + specialize (IH (S i) (Some i)). destruct (walk_threads (forget_ctx d) (S i) (map forget_thread_ctx ts) (Some i)) as [a b].
      destruct (walk_threads d (S i) ts (Some i)) as [a' b']. cbn [fst snd map cs_id cs_name] in *. destruct IH as (H1 & H2 & H3).
      rewrite H1, H2, H3. repeat split.
    + specialize (IH (S i) req). destruct (walk_threads (forget_ctx d) (S i) (map forget_thread_ctx ts) req) as [a b].
      destruct (walk_threads d (S i) ts req) as [a' b']. cbn [fst snd map cs_id cs_name] in *. destruct IH as (H1 & H2 & H3).
      rewrite H1, H2, H3. repeat split.
Qed.

Lemma forget_index d :
  requesting_thread (forget_ctx d) = requesting_thread d /\
  map cs_id (threads_of (forget_ctx d)) = map cs_id (threads_of d) /\
  map cs_name (threads_of (forget_ctx d)) = map cs_name (threads_of d) /\
  process_id (forget_ctx d) = process_id d /\ process_create_time (forget_ctx d) = process_create_time d /\
  (forall lk o c x, crash_reason lk o c (forget_exc_ctx x) = crash_reason lk o c x /\ crash_address o c (forget_exc_ctx x) = crash_address o c x).
Proof.
  unfold requesting_thread, threads_of. change (d_threads (forget_ctx d)) with (map forget_thread_ctx (d_threads d)).
  destruct (forget_walk d (d_threads d) 0%nat None) as (H1 & H2 & H3).
  split; [exact H1|]. split; [exact H2|]. split; [exact H3|]. split; [reflexivity|]. split; [reflexivity|].
  intros lk o c x. destruct x. split; reflexivity.
Qed.

(* the byte-level context reader covers exactly the architectures MinidumpContext::read has an arm for *)
Lemma ctx_regs_covers arch : (ctx_regs arch <> None) <-> arch_has_context arch = true.
Proof.
  unfold ctx_regs, arch_has_context.
  destruct (arch =? 0), (arch =? 10), (arch =? 9), (arch =? 5), (arch =? 12), (arch =? 32771), (arch =? 1), (arch =? 3),
    (arch =? 32770), (arch =? 32769); cbn; split; intro H; try reflexivity; try discriminate; try (exfalso; apply H; reflexivity).
Qed.

(* ---------------------------------------------------------------- stack memory of a thread with a null stack descriptor *)
Section StackMemory.
Variable rc : endian -> Z -> list Z -> option ctx.
Lemma model_stack_memory e m d s t : dump_of_model rc e m = Some d -> m_sysinfo m = Some s -> th_stack t = None ->
  let regs := map region_of (unified_model m) in
  let own := mem_at regs (th_stack_base t) in
  d_mems d = regs /\
  forall src c,
    ((exists k, own = Some k /\ readable_u64 regs k (c_sp c) = true) ->
       choose_stack (d_mems d) (thread_of rc e (si_arch s) t) (Some (src, c)) = own) /\
    (~ (exists k, own = Some k /\ readable_u64 regs k (c_sp c) = true) ->
       choose_stack (d_mems d) (thread_of rc e (si_arch s) t) (Some (src, c)) =
         match mem_at regs (c_sp c) with Some k => Some k | None => own end) /\
    choose_stack (d_mems d) (thread_of rc e (si_arch s) t) None = own.
Proof.
  intros Hd Hs Hnull regs own.
  destruct (model_some rc e m d Hd) as (s' & ts & _ & _ & H). cbn [dump_of_streams] in H. inversion H as [Hd']. clear H.
  cbn [d_mems]. split; [reflexivity|]. intros src c.
  exact (stack_choice regs (thread_of rc e (si_arch s) t) src c).
Qed.
End StackMemory.
