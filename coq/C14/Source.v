(* C14/Source.v — the hand-written crash-reason / crash-address model (C14/Model.v) IS the dispatch regenerated from
   minidump/src/minidump.rs by translate/c14_reason.py (Gen/C14Reason.v), for every membership function; and, on the
   membership tables regenerated from minidump-common/src/errors, the documented refinements of the Windows codes hold. *)
From Coq Require Import Lia.
From RM Require Import C14.Model Gen.C14Reason Gen.C14Process.
Open Scope Z_scope.

Ltac split_ifs :=
  repeat match goal with
         | |- context [if ?b then _ else _] => destruct b eqn:?; cbn [negb andb orb fst snd family_index zlist_eqb Z.eqb Pos.eqb os_eqb]
         end.

Lemma windows_facility_is_source : forall lk code,
  gen_windows_error_with_facility lk code =
  if negb (Z.land code 4026531840 =? 0) &&
     lk EN_WIN_FACILITY (Z.shiftr (Z.land code 268369920) 16) && lk EN_WIN_ERROR (Z.land code 65535)
  then Some (WindowsWinErrorWithFacility, [Z.shiftr (Z.land code 268369920) 16; Z.land code 65535]) else None.
Proof. intros. unfold gen_windows_error_with_facility. split_ifs; reflexivity. Qed.

Lemma windows_code_is_source : forall lk code, windows_code lk code = gen_windows_code lk code.
Proof.
  intros. unfold windows_code, gen_windows_code, gen_windows_error. rewrite windows_facility_is_source.
  split_ifs; reflexivity.
Qed.

Lemma windows_reason_is_source : forall lk e, gen_windows_exception lk e = Some (windows_reason lk e).
Proof.
  intros. unfold gen_windows_exception, windows_reason. rewrite <- windows_code_is_source.
  unfold windows_code, reason_is, EXCEPTION_ACCESS_VIOLATION, EXCEPTION_IN_PAGE_ERROR, STATUS_STACK_BUFFER_OVERRUN, low32.
  destruct (lk EN_WIN_EXC (e_code e)); [|destruct (lk EN_WIN_ERROR (e_code e)); [|destruct (lk EN_WIN_NTSTATUS (e_code e));
    [|destruct (_ && _ && _)]]]; simpl; rewrite ?andb_true_r; split_ifs; try reflexivity; try discriminate; try lia.
Qed.

Lemma mac_reason_is_source : forall lk c e, gen_mac_exception lk c e = mac_reason lk c e.
Proof.
  intros. unfold gen_mac_exception, mac_reason, refine.
  destruct (lk EN_MAC (e_code e)); cbn [negb]; [|reflexivity].
  destruct c; split_ifs; reflexivity.
Qed.

Lemma linux_reason_is_source : forall lk e, gen_linux_exception lk e = linux_reason lk e.
Proof.
  intros. unfold gen_linux_exception, linux_reason, refine.
  destruct (lk EN_LINUX (e_code e)); cbn [negb]; [|reflexivity]. split_ifs; reflexivity.
Qed.

Lemma crash_reason_is_source : forall lk o c e, crash_reason lk o c e = gen_from_exception lk o c e.
Proof.
  intros. unfold crash_reason, gen_from_exception.
  rewrite mac_reason_is_source, linux_reason_is_source, windows_reason_is_source.
  destruct o; reflexivity.
Qed.

Lemma crash_address_is_source : forall o c e, crash_address o c e = gen_crash_address o c e.
Proof.
  intros. unfold crash_address, crash_address_raw, gen_crash_address, EXCEPTION_ACCESS_VIOLATION, EXCEPTION_IN_PAGE_ERROR.
  destruct o; cbn [os_eqb_windows os_eqb andb orb]; split_ifs; destruct (pointer_width c); reflexivity.
Qed.

(* ------------------------------------------------------------------ on the regenerated membership tables *)
Lemma gen_lk_access v : gen_lk EN_WIN_ACCESS v = documented_access v.
Proof. unfold documented_access. change (gen_lk EN_WIN_ACCESS v) with ((v =? 0) || ((v =? 1) || ((v =? 8) || false))).
  rewrite orb_false_r, orb_assoc. reflexivity. Qed.
Lemma gen_lk_inpage v : gen_lk EN_WIN_INPAGE v = documented_access v.
Proof. unfold documented_access. change (gen_lk EN_WIN_INPAGE v) with ((v =? 0) || ((v =? 1) || ((v =? 8) || false))).
  rewrite orb_false_r, orb_assoc. reflexivity. Qed.

Lemma windows_code_fast_fail : windows_code gen_lk 3221226505 = (WindowsNtStatus, [3221226505]).
Proof. vm_compute. reflexivity. Qed.
Lemma windows_code_av : windows_code gen_lk 3221225477 = (WindowsGeneral, [3221225477]).
Proof. vm_compute. reflexivity. Qed.
Lemma windows_code_inpage : windows_code gen_lk 3221225478 = (WindowsGeneral, [3221225478]).
Proof. vm_compute. reflexivity. Qed.

Lemma fast_fail_documented c e : e_code e = 3221226505 ->
  crash_reason gen_lk OsWindows c e =
  if 1 <=? e_nparams e then (WindowsStackBufferOverrun, [low32 (e_info0 e)]) else (WindowsNtStatus, [3221226505]).
Proof.
  intro H. unfold crash_reason, windows_reason. rewrite H, windows_code_fast_fail. cbn [fst].
  change (3221226505 =? STATUS_STACK_BUFFER_OVERRUN) with true. cbn [andb]. reflexivity.
Qed.
Lemma access_violation_documented c e : e_code e = 3221225477 ->
  crash_reason gen_lk OsWindows c e =
  if (1 <=? e_nparams e) && documented_access (e_info0 e) then (WindowsAccessViolation, [e_info0 e])
  else (WindowsGeneral, [3221225477]).
Proof.
  intro H. unfold crash_reason, windows_reason. rewrite H, windows_code_av, gen_lk_access. cbn [fst].
  change (3221225477 =? EXCEPTION_ACCESS_VIOLATION) with true. cbv iota. reflexivity.
Qed.
Lemma in_page_documented c e : e_code e = 3221225478 ->
  crash_reason gen_lk OsWindows c e =
  if (3 <=? e_nparams e) && documented_access (e_info0 e) then (WindowsInPageError, [e_info0 e; low32 (e_info2 e)])
  else (WindowsGeneral, [3221225478]).
Proof.
  intro H. unfold crash_reason, windows_reason. rewrite H, windows_code_inpage, gen_lk_inpage. cbn [fst].
  change (3221225478 =? EXCEPTION_ACCESS_VIOLATION) with false.
  change (3221225478 =? EXCEPTION_IN_PAGE_ERROR) with true. cbv iota. reflexivity.
Qed.

(* Linux / Android: the six refined signals are in the signal table, so the si_code tables decide *)
Definition linux_refinement (code : Z) : option (Z * family) :=
  if code =? 4 then Some (EN_SIGILL, LinuxSigill) else if code =? 5 then Some (EN_SIGTRAP, LinuxSigtrap)
  else if code =? 8 then Some (EN_SIGFPE, LinuxSigfpe) else if code =? 11 then Some (EN_SIGSEGV, LinuxSigsegv)
  else if code =? 7 then Some (EN_SIGBUS, LinuxSigbus) else if code =? 31 then Some (EN_SIGSYS, LinuxSigsys) else None.
Lemma signals_documented c e o : o = OsLinux \/ o = OsAndroid ->
  crash_reason gen_lk o c e =
  if gen_lk EN_LINUX (e_code e) then
    match linux_refinement (e_code e) with
    | Some (en, f) => if gen_lk en (e_flags e) then (f, [e_flags e]) else (LinuxGeneral, [e_code e; e_flags e])
    | None => (LinuxGeneral, [e_code e; e_flags e])
    end
  else (Unknown, [e_code e; e_flags e]).
Proof.
  intro Ho. assert (E : crash_reason gen_lk o c e = match linux_reason gen_lk e with Some x => x | None => (Unknown, [e_code e; e_flags e]) end)
    by (destruct Ho; subst o; reflexivity).
  rewrite E. unfold linux_reason, linux_refinement, refine.
  destruct (gen_lk EN_LINUX (e_code e)); cbn [negb]; [|reflexivity].
  split_ifs; reflexivity.
Qed.
Lemma refined_signals_known :
  forallb (gen_lk EN_LINUX) [4; 5; 7; 8; 11; 31] = true /\ forallb (gen_lk EN_MAC) [1; 2; 3; 5; 6; 11; 12] = true.
Proof. vm_compute. split; reflexivity. Qed.

(* ------------------------------------------------------------------ platform tables, flag bits *)
Lemma os_of_platform_is_source id : os_of_platform id = gen_os_of_platform id.
Proof. reflexivity. Qed.
Lemma cpu_of_arch_is_source a : cpu_of_arch a = gen_cpu_of_arch a.
Proof. reflexivity. Qed.
Lemma pointer_width_is_source c : pointer_width c = gen_pointer_width c.
Proof. reflexivity. Qed.
Lemma arch_has_context_is_source a : arch_has_context a = gen_arch_has_context a.
Proof.
  unfold arch_has_context, gen_arch_has_context. cbn [existsb]. rewrite orb_false_r, !orb_assoc. reflexivity.
Qed.
Lemma flag_bits_are_source d :
  dump_tid d = match d_bp d with
               | Some b => if Z.testbit (b_validity b) GEN_BP_BIT_dump_thread_id then Some (b_dump_tid b) else None
               | None => None end /\
  req_tid d = match d_bp d with
              | Some b => if Z.testbit (b_validity b) GEN_BP_BIT_requesting_thread_id then Some (b_req_tid b) else None
              | None => None end /\
  process_id d = match d_misc d with
                 | Some m => if Z.testbit (mi_flags1 m) GEN_MISC_BIT_process_id then Some (mi_pid m) else None
                 | None => option_map status_pid (d_status d) end /\
  process_create_time d = match d_misc d with
                          | Some m => if Z.testbit (mi_flags1 m) GEN_MISC_BIT_process_create_time then Some (mi_ctime m) else None
                          | None => None end.
Proof. repeat split; reflexivity. Qed.

(* ------------------------------------------------------------------ into_process_state (Gen/C14Process.v) *)
Lemma optz_eqb_some a x : optz_eqb a (Some x) = oz_eqb a x.
Proof. destruct a; reflexivity. Qed.
Lemma target_tid_or d : or_optz (crash_tid d) (req_tid d) = target_tid d.
Proof. unfold or_optz, crash_tid, target_tid. destruct (d_exc d); reflexivity. Qed.

Lemma one_thread_is_source d i t req : one_thread d i t req = gen_one_thread d i t req.
Proof.
  unfold one_thread, gen_one_thread. rewrite !optz_eqb_some, target_tid_or.
  destruct (oz_eqb (dump_tid d) (t_id t)); [reflexivity|].
  destruct (oz_eqb (target_tid d) (t_id t)).
  - destruct (or_ctx (tag_ctx FromException (exc_ctx d)) (tag_ctx FromThread (t_ctx t))); reflexivity.
  - destruct (tag_ctx FromThread (t_ctx t)); reflexivity.
Qed.

Lemma walk_threads_is_source d : forall ts i req,
  walk_threads d i ts req =
  (fix go (i : nat) (ts : list thread) (req : option nat) : list callstack * option nat :=
     match ts with
     | [] => ([], req)
     | t :: rest => let '(cs, req1) := gen_one_thread d i t req in
                    let '(css, req2) := go (S i) rest req1 in (cs :: css, req2)
     end) i ts req.
Proof.
  induction ts as [|t rest IH]; intros i req; [reflexivity|].
  cbn [walk_threads]. rewrite one_thread_is_source. destruct (gen_one_thread d i t req) as [cs req1].
  rewrite IH. reflexivity.
Qed.

Lemma pid_time_is_source d :
  process_id d = gen_process_id d /\ process_create_time d = gen_process_create_time d.
Proof. unfold process_id, process_create_time, gen_process_id, gen_process_create_time. destruct (d_misc d); split; reflexivity. Qed.

Lemma choose_stack_is_source mems t f : choose_stack mems t f = gen_choose_stack mems t f.
Proof.
  unfold choose_stack, gen_choose_stack, or_optz, opt_and_then, get_u64.
  destruct f as [[s c]|]; cbn [option_map snd]; [|reflexivity].
  destruct (thread_stack mems t) as [k|]; cbn [opt_is_some negb].
  - destruct (readable_u64 mems k (c_sp c)); cbn [opt_is_some negb]; [reflexivity|].
    destruct (mem_at mems (c_sp c)); reflexivity.
  - destruct (mem_at mems (c_sp c)); reflexivity.
Qed.

(* ------------------------------------------------------------------ Display for CrashReason *)
Lemma display_prefix_is_source f p v s :
  In (f, p) GEN_DISPLAY -> f <> WindowsGeneral -> reason_string (f, [v]) = Some s -> exists n, s = p ++ n.
Proof.
  intros Hin Hne. unfold GEN_DISPLAY in Hin. cbn [In] in Hin.
  repeat (destruct Hin as [Hin|Hin]; [inversion Hin; subst f p; clear Hin|]); try contradiction;
    try (exfalso; apply Hne; reflexivity);
    cbn [reason_string]; unfold prefixed; destruct (name_of _ v) as [n|]; intro H; inversion H; eexists; reflexivity.
Qed.

(* ------------------------------------------------------------------ /proc/self/status constants *)
Fixpoint pid_of_lines_with (sep : Z) (key : list Z) (absent bad : Z) (lines : list (list Z)) : Z :=
  match lines with
  | [] => absent
  | l :: rest =>
      match split_once sep l with
      | Some (k, v) => if zlist_eqb (strip_quotes k) key
                       then match parse_u32 (strip_quotes v) with Some n => n | None => bad end
                       else pid_of_lines_with sep key absent bad rest
      | None => pid_of_lines_with sep key absent bad rest
      end
  end.
Lemma status_consts_are_source lines :
  pid_of_lines lines = pid_of_lines_with GEN_STATUS_SEP GEN_STATUS_KEY GEN_STATUS_ABSENT GEN_STATUS_UNPARSEABLE lines.
Proof.
  induction lines as [|l rest IH]; [reflexivity|].
  cbn [pid_of_lines pid_of_lines_with]. unfold kv_of_line. change GEN_STATUS_SEP with 58.
  destruct (split_once 58 l) as [[k v]|]; [|exact IH].
  change GEN_STATUS_KEY with KEY_PID. destruct (zlist_eqb (strip_quotes k) KEY_PID); [reflexivity|exact IH].
Qed.

Lemma thread_stack_is_source mems t : thread_stack mems t = gen_thread_stack mems t.
Proof. unfold thread_stack, gen_thread_stack, or_else_optz. destruct (t_stack t); [reflexivity|]. destruct (mem_at mems (t_sbase t)); reflexivity. Qed.

(* ------------------------------------------------------------------ which values two consulted tables share *)
(* Where the dispatch consults one enumeration before another, a value in both is decided by the ORDER.  The shared values
   are pinned here on the regenerated tables: a new enumeration value that shadows a later table (or a refinement arm keyed
   on it) changes these lists. *)
Definition overlap (a b : list Z) : list Z := filter (gen_mem b) a.
Definition facility_decomposable (v : Z) : bool :=
  negb (Z.land v 4026531840 =? 0) && gen_mem MEM_WinErrorFacilityWindows (Z.shiftr (Z.land v 268369920) 16) &&
  gen_mem MEM_WinErrorWindows (Z.land v 65535).
Lemma dispatch_overlaps :
  overlap MEM_ExceptionCodeWindows MEM_WinErrorWindows = [] /\
  overlap MEM_ExceptionCodeWindows MEM_NtStatusWindows =
    [2147483649; 2147483650; 2147483651; 2147483652; 3221225477; 3221225478; 3221225480; 3221225501; 3221225509; 3221225510;
     3221225612; 3221225613; 3221225614; 3221225615; 3221225616; 3221225617; 3221225618; 3221225619; 3221225620; 3221225621;
     3221225622; 3221225725; 3221225876] /\
  overlap MEM_WinErrorWindows MEM_NtStatusWindows =
    [0; 1; 2; 3; 63; 128; 191; 192; 255; 259; 266; 267; 275; 276; 277; 278; 288; 298; 299; 300; 301; 302; 303; 304; 514; 534] /\
  filter facility_decomposable (MEM_ExceptionCodeWindows ++ MEM_WinErrorWindows ++ MEM_NtStatusWindows) = [] /\
  overlap MEM_ExceptionCodeMacBadAccessKernType
          (MEM_ExceptionCodeMacBadAccessArmType ++ MEM_ExceptionCodeMacBadAccessPpcType ++ MEM_ExceptionCodeMacBadAccessX86Type) = [].
Proof. vm_compute. repeat split. Qed.
