(* C14/Driver.v — entry point of the correspondence run (extracted to OCaml). *)
From RM Require Import C02.Model.
From RM Require Import C14.Model Gen.C14Reason C14.Bytes.
Open Scope Z_scope.

(* a thread context of kind 1 is readable when the architecture has a context reader *)
Definition mk_ctx (arch kind ip sp : Z) : option ctx :=
  if arch_has_context arch && (kind =? 1) then Some {| c_ip := ip; c_sp := sp |} else None.

Record thread_out := {
  to_id : Z; to_name : option Z; to_info : Z;
  to_ctx : option (Z * Z * Z);          (* source (0 exception, 1 thread), ip, sp *)
  to_stack : Z;                         (* chosen memory region index, -1 none *)
  to_stack_room : Z;                    (* bytes of the chosen region at and after frame 0's sp; -1 when sp is outside *)
  to_unloaded : option (list (Z * Z)) }. (* None = the subtraction trapped *)

Record c14_out := {
  o_threads : list thread_out;
  o_requesting : Z;
  o_exc : option (Z * Z * list Z * option (list Z));   (* crash address, family, payload, predicted string *)
  o_pid : option Z; o_ctime : option Z; o_time : Z;
  o_modules : list (Z * Z);
  o_unloaded : list (Z * Z * Z) }.

Definition out_thread (p : profile) (d : dump) (tc : thread * callstack) : thread_out :=
  let '(t, cs) := tc in
  let chosen := choose_stack (d_mems d) t (cs_ctx cs) in
  {| to_id := cs_id cs; to_name := cs_name cs;
     to_info := match cs_info cs with CsOk => 0 | CsDumpThreadSkipped => 1 | CsMissingContext => 2 end;
     to_ctx := match cs_ctx cs with
               | Some (s, c) => Some (match s with FromException => 0 | FromThread => 1 end, c_ip c, c_sp c)
               | None => None end;
     to_stack := match chosen with Some k => k | None => -1 end;
     to_stack_room := match chosen, cs_ctx cs with
                      | Some k, Some (_, c) =>
                          match nth_error (d_mems d) (Z.to_nat k) with
                          | Some (b, s) => if (b <=? c_sp c) && (c_sp c <? b + s) then b + s - c_sp c else -1
                          | None => -1 end
                      | _, _ => -1 end;
     to_unloaded := match cs_ctx cs with
                    | Some (_, c) => match frame_unloaded p d (c_ip c) with Ret l => Some l | _ => None end
                    | None => Some [] end |}.

(* enumeration membership: the tables translate/c14_reason.py regenerates from minidump-common/src/errors *)
Definition run_case_nm (nm : Z -> Z -> option (list Z)) (p : profile) (d : dump) : c14_out :=
  let o := os_of_platform (d_platform d) in
  let c := cpu_of_arch (d_arch d) in
  {| o_threads := map (out_thread p d) (combine (d_threads d) (threads_of d));
     o_requesting := match requesting_thread d with Some i => Z.of_nat i | None => -1 end;
     o_exc := match d_exc d with
              | Some e => let r := crash_reason gen_lk o c e in
                          Some (crash_address o c e, family_index (fst r), snd r, reason_string_nm nm r)
              | None => None end;
     o_pid := process_id d; o_ctime := process_create_time d; o_time := d_time d;
     o_modules := read_modules (d_modules d); o_unloaded := read_unloaded (d_unloaded d) |}.

(* without the names of the two large Windows tables (the text of the four families that need them is then not compared) *)
Definition run_case (p : profile) (d : dump) : c14_out := run_case_nm (fun _ _ => None) p d.

(* the same observables computed from the BYTES of a dump: C02's reader model (decode_dump), MinidumpInfo::new (dump_of_view), then
   the process state; None = Minidump::read or process_minidump fails (no header / thread list / system info) *)
Definition run_bytes (p : profile) (bs : list Z) : option c14_out :=
  match dump_of_bytes ctx_of_bytes bs with Some d => Some (run_case p d) | None => None end.
