(* C14/Types.v — the types shared by the hand-written model (C14/Model.v) and the dispatch regenerated from the
   Rust source (Gen/C14Reason.v, translate/c14_reason.py): platform / CPU, the exception record, the variants of
   CrashReason with numeric payloads, the ids of the error-code enumerations.  Definitions only. *)
From RM Require Export Base.Word.
Open Scope Z_scope.

(* ------------------------------------------------------------------ platform *)
Inductive os := OsWindows | OsMac | OsIos | OsLinux | OsSolaris | OsAndroid | OsPs3 | OsNaCl | OsUnknown.
Inductive cpu := X86 | X86_64 | Ppc | Ppc64 | Sparc | Arm | Arm64 | Mips | Mips64 | CpuUnknown.
Inductive pwidth := W32 | W64 | WUnknown.

Definition os_of_platform (id : Z) : os :=
  if (id =? 2) || (id =? 3) then OsWindows
  else if id =? 33025 then OsMac          (* 0x8101 *)
  else if id =? 33026 then OsIos          (* 0x8102 *)
  else if id =? 33281 then OsLinux        (* 0x8201 *)
  else if id =? 33282 then OsSolaris
  else if id =? 33283 then OsAndroid
  else if id =? 33284 then OsPs3
  else if id =? 33285 then OsNaCl
  else OsUnknown.

Definition cpu_of_arch (a : Z) : cpu :=
  if (a =? 0) || (a =? 10) then X86
  else if a =? 9 then X86_64
  else if a =? 3 then Ppc
  else if a =? 32770 then Ppc64           (* 0x8002 *)
  else if a =? 32769 then Sparc           (* 0x8001 *)
  else if a =? 5 then Arm
  else if (a =? 12) || (a =? 32771) then Arm64   (* 0x8003 = ARM64_OLD *)
  else if a =? 1 then Mips
  else if a =? 32772 then Mips64          (* 0x8004 *)
  else CpuUnknown.

Definition pointer_width (c : cpu) : pwidth :=
  match c with
  | X86 | Ppc | Sparc | Arm | Mips => W32
  | X86_64 | Ppc64 | Arm64 | Mips64 => W64
  | CpuUnknown => WUnknown
  end.

(* MinidumpContext::read has an arm for these raw architectures only (MIPS64 has none) *)
Definition arch_has_context (a : Z) : bool :=
  (a =? 0) || (a =? 10) || (a =? 9) || (a =? 3) || (a =? 32770) || (a =? 32769) ||
  (a =? 5) || (a =? 12) || (a =? 32771) || (a =? 1).

Definition os_eqb (a b : os) : bool :=
  match a, b with
  | OsWindows, OsWindows | OsMac, OsMac | OsIos, OsIos | OsLinux, OsLinux | OsSolaris, OsSolaris
  | OsAndroid, OsAndroid | OsPs3, OsPs3 | OsNaCl, OsNaCl | OsUnknown, OsUnknown => true
  | _, _ => false
  end.

(* ------------------------------------------------------------------ the exception record *)
Record ctx := { c_ip : Z; c_sp : Z }.
Record exception := {
  e_tid : Z; e_code : Z; e_flags : Z; e_nparams : Z;
  e_info0 : Z; e_info1 : Z; e_info2 : Z; e_addr : Z; e_ctx : option ctx }.

(* ------------------------------------------------------------------ crash reasons *)
(* enumeration ids for [lk] *)
Definition EN_WIN_EXC := 1.      Definition EN_WIN_ERROR := 2.   Definition EN_WIN_NTSTATUS := 3.
Definition EN_WIN_FACILITY := 4. Definition EN_WIN_ACCESS := 5.  Definition EN_WIN_INPAGE := 6.
Definition EN_LINUX := 10.       Definition EN_SIGILL := 11.     Definition EN_SIGTRAP := 12.
Definition EN_SIGFPE := 13.      Definition EN_SIGSEGV := 14.    Definition EN_SIGBUS := 15.
Definition EN_SIGSYS := 16.
Definition EN_MAC := 20.         Definition EN_MAC_KERN := 21.
Definition EN_MAC_ACC_ARM := 22. Definition EN_MAC_ACC_PPC := 23. Definition EN_MAC_ACC_X86 := 24.
Definition EN_MAC_INS_ARM := 25. Definition EN_MAC_INS_PPC := 26. Definition EN_MAC_INS_X86 := 27.
Definition EN_MAC_ARI_ARM := 28. Definition EN_MAC_ARI_PPC := 29. Definition EN_MAC_ARI_X86 := 30.
Definition EN_MAC_SOFTWARE := 31.
Definition EN_MAC_BRK_ARM := 32. Definition EN_MAC_BRK_PPC := 33. Definition EN_MAC_BRK_X86 := 34.
Definition EN_MAC_RESOURCE := 35. Definition EN_MAC_GUARD := 36.

(* the variants of CrashReason, in declaration order, with the numeric value of every payload *)
Inductive family :=
| MacGeneral | MacBadAccessKern | MacBadAccessArm | MacBadAccessPpc | MacBadAccessX86
| MacBadInstructionArm | MacBadInstructionPpc | MacBadInstructionX86
| MacArithmeticArm | MacArithmeticPpc | MacArithmeticX86 | MacSoftware
| MacBreakpointArm | MacBreakpointPpc | MacBreakpointX86 | MacResource | MacGuard
| LinuxGeneral | LinuxSigill | LinuxSigtrap | LinuxSigbus | LinuxSigfpe | LinuxSigsegv | LinuxSigsys
| WindowsGeneral | WindowsWinError | WindowsWinErrorWithFacility | WindowsNtStatus
| WindowsAccessViolation | WindowsInPageError | WindowsStackBufferOverrun | WindowsUnknown
| Unknown.
Definition reason := (family * list Z)%type.


Definition family_index (f : family) : Z :=
  match f with
  | MacGeneral => 0 | MacBadAccessKern => 1 | MacBadAccessArm => 2 | MacBadAccessPpc => 3 | MacBadAccessX86 => 4
  | MacBadInstructionArm => 5 | MacBadInstructionPpc => 6 | MacBadInstructionX86 => 7
  | MacArithmeticArm => 8 | MacArithmeticPpc => 9 | MacArithmeticX86 => 10 | MacSoftware => 11
  | MacBreakpointArm => 12 | MacBreakpointPpc => 13 | MacBreakpointX86 => 14 | MacResource => 15 | MacGuard => 16
  | LinuxGeneral => 17 | LinuxSigill => 18 | LinuxSigtrap => 19 | LinuxSigbus => 20 | LinuxSigfpe => 21
  | LinuxSigsegv => 22 | LinuxSigsys => 23
  | WindowsGeneral => 24 | WindowsWinError => 25 | WindowsWinErrorWithFacility => 26 | WindowsNtStatus => 27
  | WindowsAccessViolation => 28 | WindowsInPageError => 29 | WindowsStackBufferOverrun => 30 | WindowsUnknown => 31
  | Unknown => 32
  end.
Fixpoint zlist_eqb (a b : list Z) : bool :=
  match a, b with
  | [], [] => true
  | x :: a', y :: b' => (x =? y) && zlist_eqb a' b'
  | _, _ => false
  end.
(* `match reason { CrashReason::V(E::CONST) => ..` : the variant and its numeric payload *)
Definition reason_is (r : reason) (f : family) (p : list Z) : bool :=
  (family_index (fst r) =? family_index f) && zlist_eqb (snd r) p.
Definition low32 (x : Z) : Z := Z.land x 4294967295.
