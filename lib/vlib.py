"""Shared machinery of the /verif checks.

One check run =  translate -> coq build + proof gate -> extract/ocaml build ->
cargo build of the harness against /repo's working tree (both profiles) ->
generate cases -> run model and implementation -> canonical diff ->
property oracle over the implementation's answers -> known findings -> evidence.
"""
import concurrent.futures as cf
import glob
import hashlib
import json
import os
import re
import resource
import shutil
import subprocess
import sys
import time

ROOT = os.path.dirname(os.path.dirname(os.path.abspath(__file__)))
CACHE = os.path.join(ROOT, ".cache")
COQ = os.path.join(ROOT, "coq")
# VERIF_REPO: developer facility — run a check against another checkout (e.g. a scratch worktree
# with a seeded change) without touching /repo.  Registered commands never set it.
REPO = os.path.abspath(os.environ.get("VERIF_REPO", "/repo"))
ALT = REPO != "/repo"
ALT_DIR = os.path.join(CACHE, "alt", hashlib.sha256(REPO.encode()).hexdigest()[:10]) if ALT else None
if ALT:
    # private copy of the Coq tree (translators write Gen/*.v from the other checkout) and of the OCaml cache
    os.makedirs(ALT_DIR, exist_ok=True)
    subprocess.run(["rsync", "-a", "--delete", "--exclude", ".lia.cache", "--exclude", ".nia.cache",
                    COQ + "/", os.path.join(ALT_DIR, "coq") + "/"], check=True)
    COQ = os.path.join(ALT_DIR, "coq")
GUARD = "rust_minidump_verif"
NCPU = 16

ENV = dict(os.environ)
ENV.update({
    "CARGO_NET_OFFLINE": "true",
    "RUSTFLAGS": "--cfg %s -Awarnings" % GUARD,
    "CARGO_TARGET_DIR": os.path.join(ALT_DIR, "target") if ALT else os.path.join(CACHE, "cargo-target"),
    "CARGO_TERM_COLOR": "never",
})

# Axioms that may appear under a property theorem (library-declared only; §2 of DESIGN.md).
AXIOM_ALLOW = {
    "functional_extensionality_dep", "FunctionalExtensionality.functional_extensionality_dep",
    "Classical_Prop.classic", "classic",
    "ClassicalEpsilon.constructive_indefinite_description", "constructive_indefinite_description",
    "ProofIrrelevance.proof_irrelevance", "proof_irrelevance",
    "Eqdep.Eq_rect_eq.eq_rect_eq", "Eq_rect_eq.eq_rect_eq", "eq_rect_eq",
    "JMeq_eq", "JMeq.JMeq_eq",
    # axioms of the standard library's real numbers (reach C19 through Flocq's binary32)
    "ClassicalDedekindReals.sig_not_dec", "ClassicalDedekindReals.sig_forall_dec", "sig_not_dec", "sig_forall_dec",
}
FORBIDDEN = re.compile(
    r"\b(Admitted|admit|Axiom|Axioms|Parameter|Parameters|Conjecture|Conjectures|Admit\s+Obligations|"
    r"bypass_check|Unset\s+Guard\s+Checking|Unset\s+Positivity\s+Checking|Unset\s+Universe\s+Checking|"
    r"type-in-type|impredicative-set|native_compute)\b")


class CheckFailure(Exception):
    """Infrastructure failure (not a property verdict)."""


def log(*a):
    print(*a, file=sys.stderr, flush=True)


def sh(cmd, timeout=1800, cwd=None, env=None, check=False, stdin=None, mem_gb=None):
    """Run a command in its own process group; on timeout the whole group is killed (a timed-out `make`
    must not leave an orphaned coqc behind) and subprocess.TimeoutExpired is raised as before.
    mem_gb: address-space limit per process of the group (a runaway coqc must not take the machine down)."""
    import signal
    t0 = time.time()

    def pre():
        os.setsid()
        if mem_gb:
            lim = int(mem_gb * (1 << 30))
            resource.setrlimit(resource.RLIMIT_AS, (lim, lim))

    p = subprocess.Popen(cmd, shell=isinstance(cmd, str), cwd=cwd, env=env or ENV, preexec_fn=pre,
                         stdout=subprocess.PIPE, stderr=subprocess.STDOUT, stdin=stdin, text=True, errors="replace")
    try:
        out, _ = p.communicate(timeout=timeout)
    except subprocess.TimeoutExpired:
        try:
            os.killpg(p.pid, signal.SIGKILL)
        except OSError:
            pass
        p.communicate()
        raise
    if check and p.returncode != 0:
        raise CheckFailure("command failed (%s): %s\n%s" % (p.returncode, cmd, out[-4000:]))
    return p.returncode, out, time.time() - t0


def write_if_changed(path, content):
    os.makedirs(os.path.dirname(path), exist_ok=True)
    try:
        if open(path).read() == content:
            return False
    except OSError:
        pass
    with open(path, "w") as f:
        f.write(content)
    return True


def sha(*parts):
    h = hashlib.sha256()
    for p in parts:
        h.update(p if isinstance(p, bytes) else p.encode())
    return h.hexdigest()[:16]


# --------------------------------------------------------------------------- translators
def translate(names=None):
    """Regenerate coq/Gen/*.v from /repo's working tree (content-addressed).
    names = the translators a property depends on (None = all of them)."""
    tdir = os.path.join(ROOT, "translate")
    problems = []
    for script in sorted(glob.glob(os.path.join(tdir, "*.py"))):
        if names is not None and os.path.basename(script) not in names:
            continue
        rc, out, _ = sh([sys.executable, script, REPO, os.path.join(COQ, "Gen")], timeout=120)
        if rc != 0:
            # the source no longer has the shape the translator (and hence the model) was written for:
            # a broken tie, reported like a broken proof obligation; the search still runs
            problems.append("translator %s aborted: %s" % (os.path.basename(script), out.strip()[-1500:]))
    return problems


# --------------------------------------------------------------------------- coq
def coq_files():
    fs = []
    for p in sorted(glob.glob(os.path.join(COQ, "**", "*.v"), recursive=True)):
        rel = os.path.relpath(p, COQ)
        if os.path.basename(rel) == "Extract.v":
            continue
        fs.append(rel)
    return fs


def coq_prepare():
    content = "-Q . RM\n-arg -w -arg -notation-overridden,-deprecated,-ambiguous-paths\n" + "\n".join(coq_files()) + "\n"
    changed = write_if_changed(os.path.join(COQ, "_CoqProject"), content)
    if changed or not os.path.exists(os.path.join(COQ, "Makefile")):
        sh("coq_makefile -f _CoqProject -o Makefile", cwd=COQ, check=True)


class FLock:
    """Inter-process lock: several checks (or people) may run in /verif at once."""

    def __init__(self, name):
        os.makedirs(os.path.join(CACHE, "locks"), exist_ok=True)
        self.path = os.path.join(CACHE, "locks", name)

    def __enter__(self):
        import fcntl
        self.f = open(self.path, "w")
        fcntl.flock(self.f, fcntl.LOCK_EX)
        return self

    def __exit__(self, *a):
        import fcntl
        fcntl.flock(self.f, fcntl.LOCK_UN)
        self.f.close()


def use_private_coq(pid):
    """Main-tree runs of different properties used to serialize on one lock around coq/ (a slow proof of one
    property stalled every other check).  Each property now builds in its own mirror .cache/coq-main/<pid>/:
    the first sync copies coq/ with its compiled files (after `./check --setup` nothing but <pid>/Properties.vo
    is rebuilt), later syncs bring over sources only.  VERIF_SHARED_COQ=1 restores the old behaviour."""
    global COQ
    if ALT or os.environ.get("VERIF_SHARED_COQ"):
        return
    src = os.path.join(ROOT, "coq")
    mirror = os.path.join(CACHE, "coq-main", pid)
    first = not os.path.exists(os.path.join(mirror, "_CoqProject"))
    os.makedirs(mirror, exist_ok=True)
    cmd = ["rsync", "-a", "--delete", "--exclude", ".lia.cache", "--exclude", ".nia.cache"]
    if not first:
        # Gen/ belongs to the translators, which write into the mirror on every run (content-addressed)
        for pat in ("*.vo", "*.vos", "*.vok", "*.glob", ".*.aux", "Makefile", "Makefile.conf", ".Makefile.d", "_CoqProject", "/Gen/"):
            cmd += ["--exclude", pat]
    with FLock("coq"):          # never copy while `--setup` (or an old-style run) is compiling in coq/
        subprocess.run(cmd + [src + "/", mirror + "/"], check=True)
    COQ = mirror


def _coq_lock_name():
    if ALT:
        return "coq-" + os.path.basename(ALT_DIR)
    if COQ != os.path.join(ROOT, "coq"):
        return "coq-main-" + os.path.basename(COQ)
    return "coq"


def coq_make(targets, timeout=1500):
    # VERIF_REPO runs build in their private copy of coq/: they need not queue behind the main tree's lock
    with FLock(_coq_lock_name()):
        coq_prepare()
        rc, out, dt = sh(["make", "-j%d" % NCPU] + list(targets), cwd=COQ, timeout=timeout, mem_gb=16)
    return rc, out, dt


def coq_scan_forbidden(dirs):
    """grep gate over the property's Coq sources (comments stripped)."""
    bad = []
    for d in dirs:
        for p in sorted(glob.glob(os.path.join(COQ, d, "*.v"))):
            src = strip_coq_comments(open(p).read())
            for m in FORBIDDEN.finditer(src):
                line = src.count("\n", 0, m.start()) + 1
                bad.append("%s:%d: %s" % (os.path.relpath(p, COQ), line, m.group(0)))
    return bad


def strip_coq_comments(s):
    out, depth, i = [], 0, 0
    while i < len(s):
        if s.startswith("(*", i):
            depth += 1
            i += 2
        elif s.startswith("*)", i) and depth > 0:
            depth -= 1
            i += 2
        else:
            if depth == 0:
                out.append(s[i])
            elif s[i] == "\n":
                out.append("\n")
            i += 1
    return "".join(out)


def coq_property_gate(pid, dirs):
    """Re-check <pid>/Properties.v (forces recompilation), parse Print Assumptions.
    Returns dict(obligations, discharged, theorems, axioms, lemmas, problems, cmd, wall)."""
    prop_v = os.path.join(pid, "Properties.v")
    vo = os.path.join(COQ, pid, "Properties.vo")
    with FLock("coq-gate-" + pid):
        if os.path.exists(vo):
            os.unlink(vo)
        rc, out, dt = coq_make([os.path.join(pid, "Properties.vo")])
    src = strip_coq_comments(open(os.path.join(COQ, prop_v)).read())
    theorems = re.findall(r"\b(?:Theorem|Lemma|Corollary|Example|Fact)\s+([A-Za-z0-9_']+)", src)
    printed = re.findall(r"Print\s+Assumptions\s+([A-Za-z0-9_'.]+)\s*\.", src)
    problems = []
    if rc != 0:
        m = re.search(r'File "([^"]+)", line (\d+)[^\n]*\n(Error:.*?)(?:\n\n|\Z)', out, re.S)
        problems.append("coq build failed: " + (("%s:%s %s" % (m.group(1), m.group(2), m.group(3)[:600])) if m else out[-1500:]))
    problems += ["forbidden token " + b for b in coq_scan_forbidden(dirs)]
    # Print Assumptions output blocks, in order
    blocks = []
    cur = None
    for line in out.splitlines():
        if line.startswith("Closed under the global context"):
            blocks.append([])
            cur = None
        elif line.startswith("Axioms:"):
            cur = []
            blocks.append(cur)
        elif cur is not None:
            # an axiom is printed as `name : type` or, when the type is long, `name` alone followed by indented lines
            m = re.match(r"^([A-Za-z_][A-Za-z0-9_'.]*)\s*(:|$)", line)
            if line.startswith((" ", "\t")) or not line.strip():
                continue
            if m and not line.startswith(("COQC", "COQDEP", "make")):
                cur.append(m.group(1))
            else:
                cur = None
    axioms = sorted({a for b in blocks for a in b})
    for a in axioms:
        if a not in AXIOM_ALLOW and a.split(".")[-1] not in AXIOM_ALLOW:
            problems.append("axiom outside the allowlist under a property theorem: " + a)
    if rc == 0 and len(blocks) != len(printed):
        problems.append("Print Assumptions blocks (%d) != statements (%d)" % (len(blocks), len(printed)))
    stated = [t for t in theorems if not t.startswith(pid.lower() + "_nonvacuous")]
    missing = [t for t in stated if t not in printed]
    if missing:
        problems.append("theorems without Print Assumptions: " + ",".join(missing))
    lemmas = 0
    for d in dirs:
        for p in glob.glob(os.path.join(COQ, d, "*.v")):
            lemmas += len(re.findall(r"\bQed\s*\.", strip_coq_comments(open(p).read())))
    return {
        "obligations": len(stated), "discharged": len(stated) if not problems else 0,
        "theorems": stated, "examples": [t for t in theorems if t not in stated],
        "axioms": axioms, "lemmas_qed": lemmas, "problems": problems,
        "cmd": "cd coq && make -j%d %s  (coq_makefile full .vo build; Print Assumptions parsed; grep gate)" % (NCPU, os.path.join(pid, "Properties.vo")),
        "wall": dt, "log_tail": out[-2000:] if rc != 0 else "",
    }


def coqchk(pid):
    rc, out, dt = sh(["coqchk", "-silent", "-o", "-Q", ".", "RM", "RM.%s.Properties" % pid], cwd=COQ, timeout=1500)
    return rc, out, dt


# --------------------------------------------------------------------------- ocaml model driver
def ocaml_build(pid):
    """Extract coq/<pid>/Extract.v and build .cache/ocaml/<pid>/model. Returns path."""
    low = pid.lower()
    d = os.path.join(ALT_DIR if ALT else CACHE, "ocaml", low)
    os.makedirs(d, exist_ok=True)
    rc, out, _ = coq_make([os.path.join(pid, "Driver.vo")])
    if rc != 0:
        raise CheckFailure("coq build of %s/Driver.vo failed:\n%s" % (pid, out[-3000:]))
    with FLock("ocaml-" + low):
        return _ocaml_build_locked(pid, low, d)


def _ocaml_build_locked(pid, low, d):
    srcs = [os.path.join(COQ, pid, "Extract.v"), os.path.join(ROOT, "ocaml", "zconv.ml"),
            os.path.join(ROOT, "ocaml", low, "main.ml")]
    vos = sorted(glob.glob(os.path.join(COQ, "**", "*.vo"), recursive=True))
    key = sha(*[open(s, "rb").read() for s in srcs],
              *[("%s:%d" % (v, os.stat(v).st_mtime_ns)) for v in vos if "/Properties" not in v and "/Proofs" not in v])
    stamp = os.path.join(d, "stamp")
    exe = os.path.join(d, "model")
    if os.path.exists(exe) and os.path.exists(stamp) and open(stamp).read() == key:
        return exe
    for f in glob.glob(os.path.join(d, "*")):
        if os.path.isfile(f):
            os.unlink(f)
    shutil.copy(srcs[0], os.path.join(d, "Extract.v"))
    sh(["coqc", "-Q", COQ, "RM", "Extract.v"], cwd=d, check=True, timeout=600)
    mod = low + "_model"
    with open(os.path.join(d, "main.ml"), "w") as f:
        f.write("module ZA = Z\nopen %s\n" % mod.capitalize())
        f.write(open(srcs[1]).read())
        f.write(open(srcs[2]).read())
    sh(["ocamlfind", "ocamlopt", "-package", "zarith,str,unix", "-linkpkg", "-O2", "-w", "-a",
        mod + ".mli", mod + ".ml", "main.ml", "-o", "model"], cwd=d, check=True, timeout=600)
    open(stamp, "w").write(key)
    return exe


# --------------------------------------------------------------------------- rust harness
def harness_dir():
    """The harness crate; for VERIF_REPO runs a generated twin whose path dependencies point there."""
    if not ALT:
        return os.path.join(ROOT, "harness")
    hd = os.path.join(ALT_DIR, "harness")
    os.makedirs(os.path.join(hd, ".cargo"), exist_ok=True)
    toml = open(os.path.join(ROOT, "harness", "Cargo.toml")).read().replace('"/repo/', '"%s/' % REPO)
    write_if_changed(os.path.join(hd, "Cargo.toml"), toml)
    write_if_changed(os.path.join(hd, ".cargo", "config.toml"), "[net]\noffline = true\n")
    src = os.path.join(hd, "src")
    if not os.path.islink(src):
        os.symlink(os.path.join(ROOT, "harness", "src"), src)
    return hd


def cargo_build(bins, profiles=("debug", "release")):
    hd = harness_dir()
    lock = os.path.join(hd, "Cargo.lock")
    if not os.path.exists(lock):
        shutil.copy(os.path.join(REPO, "Cargo.lock"), lock)
    exes = {}
    if not bins:
        return exes
    for prof in profiles:
        cmd = ["cargo", "build", "--offline", "--quiet"] + (["--release"] if prof == "release" else [])
        for b in bins:
            cmd += ["--bin", b]
        rc, out, dt = sh(cmd, cwd=hd, timeout=3000)
        if rc != 0:
            raise CheckFailure("cargo build (%s) failed — /repo's working tree does not compile with the harness:\n%s" % (prof, out[-4000:]))
        for b in bins:
            exes[(b, prof)] = os.path.join(ENV["CARGO_TARGET_DIR"], prof, b)
    return exes


def _limits(mem_gb):
    def f():
        lim = int(mem_gb * (1 << 30))
        resource.setrlimit(resource.RLIMIT_AS, (lim, lim))
        resource.setrlimit(resource.RLIMIT_CORE, (0, 0))
    return f


def run_lines(cmd, lines, timeout=600, mem_gb=4, shards=NCPU, env=None):
    """Feed case lines to `cmd` (one answer line per case), sharded over processes.
    Returns list of answers (None where the child died before answering) and a list of
    (first_unanswered_index, reason) for shards that died."""
    n = len(lines)
    if n == 0:
        return [], []
    shards = max(1, min(shards, (n + 49) // 50))
    bounds = [(i * n // shards, (i + 1) * n // shards) for i in range(shards)]

    def one(b):
        lo, hi = b
        data = "\n".join(lines[lo:hi]) + "\n"
        try:
            p = subprocess.run(cmd, input=data, stdout=subprocess.PIPE, stderr=subprocess.PIPE, text=True,
                               errors="replace", timeout=timeout, preexec_fn=_limits(mem_gb), env=env or ENV)
            out, rc, why = p.stdout, p.returncode, ""
            if rc != 0:
                why = "exit status %d: %s" % (rc, p.stderr[-300:].replace("\n", " "))
        except subprocess.TimeoutExpired as e:
            out = e.stdout or ""
            if isinstance(out, bytes):
                out = out.decode("utf-8", "replace")
            rc, why = -1, "timeout after %ds" % timeout
        ans = out.split("\n")
        if ans and ans[-1] == "":
            ans.pop()
        return lo, hi, ans, rc, why

    answers = [None] * n
    dead = []
    with cf.ThreadPoolExecutor(max_workers=NCPU) as ex:
        for lo, hi, ans, rc, why in ex.map(one, bounds):
            for i, a in enumerate(ans[: hi - lo]):
                answers[lo + i] = a
            if len(ans) < hi - lo:
                dead.append((lo + len(ans), why or "child produced too few answers"))
    return answers, dead


# --------------------------------------------------------------------------- findings / evidence
def load_known():
    p = os.path.join(ROOT, "known_findings.json")
    if not os.path.exists(p):
        return []
    return json.load(open(p)).get("findings", [])


def write_replay(pid, name, obj):
    d = os.path.join(ROOT, "out", "replay", pid)
    os.makedirs(d, exist_ok=True)
    p = os.path.join(d, name + ".json")
    with open(p, "w") as f:
        json.dump(obj, f, indent=1)
    return p


def write_evidence(pid, ev):
    d = os.path.join(ROOT, "out", "alt-evidence") if ALT else os.path.join(ROOT, "evidence")
    os.makedirs(d, exist_ok=True)
    with open(os.path.join(d, pid + ".json"), "w") as f:
        json.dump(ev, f, indent=1)


class Rng:
    """xorshift64* — every random choice of a run derives from VERIF_SEED through this."""

    def __init__(self, seed):
        self.s = (seed * 0x9E3779B97F4A7C15 + 0x1234567) & 0xFFFFFFFFFFFFFFFF or 1

    def next(self):
        x = self.s
        x ^= (x >> 12)
        x ^= (x << 25) & 0xFFFFFFFFFFFFFFFF
        x ^= (x >> 27)
        self.s = x
        return (x * 0x2545F4914F6CDD1D) & 0xFFFFFFFFFFFFFFFF

    def below(self, n):
        return self.next() % n

    def choice(self, xs):
        return xs[self.below(len(xs))]

    def chance(self, num, den):
        return self.below(den) < num

    def range(self, lo, hi):
        return lo + self.below(hi - lo + 1)
