#!/usr/bin/env python3
"""Append/replace one entry of /verif/known_findings.json under a lock.
usage: addfinding.py '<json object with at least property,id,status,what>'"""
import fcntl, json, os, sys
ROOT = os.path.dirname(os.path.dirname(os.path.abspath(__file__)))
p = os.path.join(ROOT, "known_findings.json")
e = json.loads(sys.argv[1])
for k in ("property", "id", "status", "what"):
    assert k in e, k
assert e["status"] in ("known", "fixed")
with open(p, "r+") as f:
    fcntl.flock(f, fcntl.LOCK_EX)
    d = json.load(f)
    d["findings"] = [x for x in d["findings"] if x["id"] != e["id"]] + [e]
    d["findings"].sort(key=lambda x: (x["property"], x["id"]))
    f.seek(0); f.truncate(); json.dump(d, f, indent=1); f.write("\n")
print("ok", e["id"])
