#!/usr/bin/env python3
"""Regenerates the tables of DESIGN.md §8.2 (per-property status), §8.3 (findings) and §8.5 (seeded changes)
between the <!-- BEGIN/END generated:* --> markers, from evidence/*.json, known_findings.json, seeded/*/meta.json."""
import glob
import json
import os
import re

ROOT = os.path.dirname(os.path.abspath(__file__))


def status_table():
    rows = ["| id | theorems (Qed lemmas) | quick run: cases × profiles, compared with model | known findings reproduced | axioms | as-built notes |",
            "|----|----|----|----|----|----|"]
    for i in range(1, 21):
        pid = "C%02d" % i
        p = os.path.join(ROOT, "evidence", pid + ".json")
        if not os.path.exists(p):
            rows.append("| %s | — | — | — | — | — |" % pid)
            continue
        ev = json.load(open(p))
        c = ev["coverage"]
        ax = [t for t in c.get("trusted_base", []) if t.startswith("axioms under")]
        ax = ax[0].split(":", 1)[1].strip() if ax else "?"
        if "none" in ax:
            ax = "none"
        rows.append("| %s | %d (%d) | %d × %d, %d | %s | %s | design/%s.md |" % (
            pid, c.get("obligations", 0), c.get("lemmas_qed", 0),
            c.get("evaluations", 0) // max(1, len(c.get("profiles", [1]))), len(c.get("profiles", [])),
            c.get("traces_validated_against_impl", 0), ", ".join(c.get("known_findings_reproduced", [])) or "—", ax, pid))
    return "\n".join(rows)


def findings_table():
    d = json.load(open(os.path.join(ROOT, "known_findings.json")))
    rows = ["| finding | property | status | /repo commit | what failed |", "|----|----|----|----|----|"]
    for f in d["findings"]:
        rows.append("| %s | %s | %s | %s | %s |" % (f["id"], f["property"], f["status"], f.get("commit", "—"),
                                                    f["what"].replace("|", "\\|").replace("\n", " ")[:330]))
    return "\n".join(rows)


def _verdict(v):
    if not isinstance(v, dict) or "exit_status" not in v:
        return None
    if v.get("caught"):
        return "caught, failing input" if v.get("found_failing_input") else "caught, no-failing-input-found (proof / correspondence / translator named)"
    return "**missed**"


def seeded_table():
    rows = ["| seeded change | what it breaks (independent sub-agent, property text only) | confirmed | verdict of the check as it stood when the change arrived | verdict of the current check (after strengthening) |",
            "|----|----|----|----|----|"]
    for p in sorted(glob.glob(os.path.join(ROOT, "seeded", "C*-*", "meta.json")),
                    key=lambda q: (os.path.basename(os.path.dirname(q)).split("-")[0], int(os.path.basename(os.path.dirname(q)).split("-")[1]))):
        m = json.load(open(p))
        name = os.path.basename(os.path.dirname(p))
        first = _verdict(m.get("verif")) or "not run"
        latest = None
        for key in ("verif_now", "verif_after"):
            v = m.get(key)
            if isinstance(v, dict) and "exit_status" not in v:      # per-property dict (checked by several properties)
                v = v.get(m.get("property")) or next(iter(v.values()), None)
            latest = _verdict(v)
            if latest:
                commit = v.get("verif_commit") if isinstance(v, dict) else None
                latest += (" (@%s)" % commit) if commit else ""
                break
        if m.get("strengthened"):
            first += "; strengthened: " + str(m["strengthened"])[:220].replace("|", "\\|").replace("\n", " ")
        rows.append("| %s | %s | %s | %s | %s |" % (name, m.get("summary", "").replace("|", "\\|").replace("\n", " ")[:240],
                                                   "yes" if m.get("confirmed_ok") else "no: " + json.dumps(m.get("confirmed", {}))[:80],
                                                   first, latest or "—"))
    return "\n".join(rows)


def main():
    p = os.path.join(ROOT, "DESIGN.md")
    s = open(p).read()
    for key, fn in (("status", status_table), ("findings", findings_table), ("seeded", seeded_table)):
        b, e = "<!-- BEGIN generated:%s -->" % key, "<!-- END generated:%s -->" % key
        if b not in s:
            continue
        s = s[:s.index(b) + len(b)] + "\n" + fn() + "\n" + s[s.index(e):]
    open(p, "w").write(s)


if __name__ == "__main__":
    main()
