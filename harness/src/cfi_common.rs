//! Shared by the C06 and C07 harness binaries (included with #[path]): a mock
//! `FrameWalker` (front-end a) and a one-step `walk_stack` driver (front-end b).
use breakpad_symbols::FrameWalker;
use minidump::system_info::{Cpu, Os};
use minidump::*;
use minidump_unwind::{string_symbol_supplier, walk_stack, CallStack, FrameTrust, Symbolizer, SystemInfo};
use std::collections::{BTreeMap, BTreeSet, HashMap, HashSet};
use std::future::Future;
use std::panic::{catch_unwind, AssertUnwindSafe};
use std::task::{Context, Poll};

pub fn parse_regs(s: &str) -> Vec<(String, u64)> {
    if s == "-" || s.is_empty() {
        return vec![];
    }
    s.split(',')
        .map(|kv| {
            let (k, v) = kv.split_once('=').expect("reg=val");
            (k.to_string(), v.parse::<u64>().expect("u64"))
        })
        .collect()
}

/// Mock walker. Word size `w` (4 or 8): memory reads are `w`-byte little-endian reads
/// inside [membase, membase+len); `set_*` fail when the value does not fit `w` bytes;
/// `set_caller_register` additionally rejects names that start with "no".
pub struct MockWalker {
    pub w: usize,
    pub instruction: u64,
    pub has_gc: bool,
    pub gcps: u32,
    pub callee: HashMap<String, u64>,
    pub membase: u64,
    pub mem: Vec<u8>,
    pub cfa: Option<u64>,
    pub ra: Option<u64>,
    pub caller: BTreeMap<String, u64>,
    pub cleared: BTreeSet<String>,
}

impl MockWalker {
    fn fits(&self, v: u64) -> bool {
        self.w == 8 || v <= u32::MAX as u64
    }
    pub fn answer(&self) -> String {
        format!(
            "S|cfa={}|ra={}|regs={}|cleared={}",
            self.cfa.map(|v| v.to_string()).unwrap_or("-".into()),
            self.ra.map(|v| v.to_string()).unwrap_or("-".into()),
            self.caller.iter().map(|(k, v)| format!("{}={}", k, v)).collect::<Vec<_>>().join(","),
            self.cleared.iter().cloned().collect::<Vec<_>>().join(",")
        )
    }
}

impl FrameWalker for MockWalker {
    fn get_instruction(&self) -> u64 {
        self.instruction
    }
    fn has_grand_callee(&self) -> bool {
        self.has_gc
    }
    fn get_grand_callee_parameter_size(&self) -> u32 {
        self.gcps
    }
    fn get_register_at_address(&self, address: u64) -> Option<u64> {
        let off = usize::try_from(address.checked_sub(self.membase)?).ok()?;
        let end = off.checked_add(self.w)?;
        let s = self.mem.get(off..end)?;
        let mut buf = [0u8; 8];
        buf[..self.w].copy_from_slice(s);
        Some(u64::from_le_bytes(buf))
    }
    fn get_callee_register(&self, name: &str) -> Option<u64> {
        self.callee.get(name).copied()
    }
    fn set_caller_register(&mut self, name: &str, val: u64) -> Option<()> {
        if name.starts_with("no") || !self.fits(val) {
            return None;
        }
        self.caller.insert(name.to_string(), val);
        self.cleared.remove(name);
        Some(())
    }
    fn clear_caller_register(&mut self, name: &str) {
        self.caller.remove(name);
        self.cleared.insert(name.to_string());
    }
    fn set_cfa(&mut self, val: u64) -> Option<()> {
        if !self.fits(val) {
            return None;
        }
        self.cfa = Some(val);
        Some(())
    }
    fn set_ra(&mut self, val: u64) -> Option<()> {
        if !self.fits(val) {
            return None;
        }
        self.ra = Some(val);
        Some(())
    }
}

pub const MODULE_BASE: u64 = 0x4000_0000;
pub const MODULE_SIZE: u32 = 0x10000;

/// Front-end (a): parse `symtext`, walk one frame with the mock walker.
/// Lookup address is relative to a module based at 0.
pub fn mock_walk(symtext: &str, w: &mut MockWalker) -> String {
    let sym = match breakpad_symbols::SymbolFile::from_bytes(symtext.as_bytes()) {
        Ok(s) => s,
        Err(_) => return "E".to_string(),
    };
    let module = MinidumpModule::new(0, u32::MAX, "m");
    match sym.walk_frame(&module, w) {
        Some(()) => w.answer(),
        None => "N".to_string(),
    }
}

fn block_on<F: Future>(f: F) -> F::Output {
    let mut f = Box::pin(f);
    let w = futures_util::task::noop_waker();
    let mut cx = Context::from_waker(&w);
    loop {
        if let Poll::Ready(v) = f.as_mut().poll(&mut cx) {
            return v;
        }
    }
}

struct StopWalk;

fn mk_valid<C: CpuContext>(c: &C, valid: &str) -> MinidumpContextValidity {
    if valid == "all" {
        MinidumpContextValidity::All
    } else {
        let mut s: HashSet<&'static str> = HashSet::new();
        if valid != "-" {
            for n in valid.split(',') {
                s.insert(c.memoize_register(n).expect("valid register name"));
            }
        }
        MinidumpContextValidity::Some(s)
    }
}

/// Front-end (b): one `walk_stack` step from a context frame whose module "m1" is
/// [MODULE_BASE, +MODULE_SIZE) with symbols `symtext`.  Returns the second frame if it
/// was produced by CFI (STACK CFI or STACK WIN), else "N".
pub fn real_walk(arch: &str, regs: &[(String, u64)], valid: &str, stackbase: u64, stack: &[u8], symtext: &str) -> String {
    let (raw, valid, cpu, os) = match arch {
        "x86" => {
            let mut c = format::CONTEXT_X86::default();
            for (k, v) in regs {
                c.set_register(k, *v as u32).expect("x86 reg");
            }
            let v = mk_valid(&c, valid);
            (MinidumpRawContext::X86(c), v, Cpu::X86, Os::Windows)
        }
        "amd64" => {
            let mut c = format::CONTEXT_AMD64::default();
            for (k, v) in regs {
                c.set_register(k, *v).expect("amd64 reg");
            }
            let v = mk_valid(&c, valid);
            (MinidumpRawContext::Amd64(c), v, Cpu::X86_64, Os::Linux)
        }
        "arm64" => {
            let mut c = format::CONTEXT_ARM64::default();
            for (k, v) in regs {
                c.set_register(k, *v).expect("arm64 reg");
            }
            let v = mk_valid(&c, valid);
            (MinidumpRawContext::Arm64(c), v, Cpu::Arm64, Os::Linux)
        }
        // the pre-2016 arm64 layout: same registers and aliases, its own copy of the unwinder (arm64_old.rs)
        "arm64_old" => {
            let mut c = format::CONTEXT_ARM64_OLD::default();
            for (k, v) in regs {
                c.set_register(k, *v).expect("arm64 reg");
            }
            let v = mk_valid(&c, valid);
            (MinidumpRawContext::OldArm64(c), v, Cpu::Arm64, Os::Linux)
        }
        "arm" => {
            let mut c = format::CONTEXT_ARM::default();
            for (k, v) in regs {
                c.set_register(k, *v as u32).expect("arm reg");
            }
            let v = mk_valid(&c, valid);
            (MinidumpRawContext::Arm(c), v, Cpu::Arm, Os::Linux)
        }
        // one CONTEXT_MIPS for both widths: the CONTEXT_MIPS64 flag selects the 64-bit unwinder (mips.rs Mips32Context)
        "mips" | "mips64" => {
            let mut c = format::CONTEXT_MIPS::default();
            c.context_flags = if arch == "mips64" {
                format::ContextFlagsCpu::CONTEXT_MIPS64.bits()
            } else {
                format::ContextFlagsCpu::CONTEXT_MIPS.bits()
            };
            for (k, v) in regs {
                c.set_register(k, *v).expect("mips reg");
            }
            let v = mk_valid(&c, valid);
            (MinidumpRawContext::Mips(c), v, if arch == "mips64" { Cpu::Mips64 } else { Cpu::Mips }, Os::Linux)
        }
        _ => panic!("bad arch"),
    };
    let context = MinidumpContext { raw, valid };
    let modules = MinidumpModuleList::from_modules(vec![MinidumpModule::new(MODULE_BASE, MODULE_SIZE, "m1")]);
    let mut symbols = HashMap::new();
    symbols.insert("m1".to_string(), format!("MODULE Linux x86 ABCD1234 m1\n{}", symtext));
    let stack_memory = MinidumpMemory {
        desc: Default::default(),
        base_address: stackbase,
        size: stack.len() as u64,
        bytes: stack,
        endian: scroll::LE,
    };
    let system_info = SystemInfo {
        os,
        os_version: None,
        os_build: None,
        cpu,
        cpu_info: None,
        cpu_microcode_version: None,
        cpu_count: 1,
    };
    let symbolizer = Symbolizer::new(string_symbol_supplier(symbols));
    let mut cs = CallStack::with_context(context);
    let r = catch_unwind(AssertUnwindSafe(|| {
        block_on(walk_stack(
            0,
            |idx: usize, _f: &minidump_unwind::StackFrame| {
                if idx >= 1 {
                    std::panic::panic_any(StopWalk);
                }
            },
            &mut cs,
            Some(UnifiedMemory::Memory(&stack_memory)),
            &modules,
            &system_info,
            &symbolizer,
        ))
    }));
    if let Err(e) = r {
        if e.downcast_ref::<StopWalk>().is_none() {
            std::panic::resume_unwind(e);
        }
    }
    if cs.frames.len() < 2 || cs.frames[1].trust != FrameTrust::CallFrameInfo {
        return "N".to_string();
    }
    let f = &cs.frames[1];
    let names: Vec<String> = match &f.context.valid {
        MinidumpContextValidity::All => vec!["<all>".to_string()],
        MinidumpContextValidity::Some(s) => {
            let mut v: Vec<String> = s.iter().map(|x| x.to_string()).collect();
            v.sort();
            v
        }
    };
    let get = |n: &str| -> u64 {
        match &f.context.raw {
            MinidumpRawContext::X86(c) => c.get_register_always(n) as u64,
            MinidumpRawContext::Amd64(c) => c.get_register_always(n),
            MinidumpRawContext::Arm64(c) => c.get_register_always(n),
            MinidumpRawContext::OldArm64(c) => c.get_register_always(n),
            MinidumpRawContext::Arm(c) => c.get_register_always(n) as u64,
            MinidumpRawContext::Mips(c) => c.get_register_always(n),
            _ => panic!("arch"),
        }
    };
    format!(
        "S|valid={}|regs={}",
        names.join(","),
        names.iter().filter(|n| *n != "<all>").map(|n| format!("{}={}", n, get(n))).collect::<Vec<_>>().join(",")
    )
}

/// Front-end (f), C07 round 4: one x86 `walk_stack` step from a *frame list*.  `below` = the frames
/// under the callee (innermost first), each given by its `StackFrame::parameter_size` (None = the frame's
/// code has no FUNC/PUBLIC record); empty = the callee is the context frame.  The callee is appended with
/// the given registers/validity (its `instruction` is eip - 1 unless it is the context frame, as
/// x86::get_caller_frame leaves it), then `walk_stack` is resumed: it symbolicates the callee, picks
/// the grand-callee out of `CallStack::frames` and goes through x86::get_caller_frame →
/// CfiStackWalker::from_ctx_and_args → SymbolFile::walk_frame.  `funcs` are extra symbol-file lines
/// (FUNC records) placed in front of `symtext`.  Returns the new frame if it was produced by CFI.
pub fn real_walk_from(
    below: &[Option<u32>],
    regs: &[(String, u64)],
    valid: &str,
    stackbase: u64,
    stack: &[u8],
    symtext: &str,
) -> String {
    let mut c = format::CONTEXT_X86::default();
    for (k, v) in regs {
        c.set_register(k, *v as u32).expect("x86 reg");
    }
    let v = mk_valid(&c, valid);
    let callee_ctx = MinidumpContext { raw: MinidumpRawContext::X86(c.clone()), valid: v };
    let modules = MinidumpModuleList::from_modules(vec![MinidumpModule::new(MODULE_BASE, MODULE_SIZE, "m1")]);
    let mut symbols = HashMap::new();
    symbols.insert("m1".to_string(), format!("MODULE Linux x86 ABCD1234 m1\n{}", symtext));
    let stack_memory = MinidumpMemory {
        desc: Default::default(),
        base_address: stackbase,
        size: stack.len() as u64,
        bytes: stack,
        endian: scroll::LE,
    };
    let system_info = SystemInfo {
        os: Os::Windows,
        os_version: None,
        os_build: None,
        cpu: Cpu::X86,
        cpu_info: None,
        cpu_microcode_version: None,
        cpu_count: 1,
    };
    let symbolizer = Symbolizer::new(string_symbol_supplier(symbols));
    // the frames below the callee: registers do not matter to the step under test (only parameter_size is read)
    let mut frames = Vec::new();
    for (i, ps) in below.iter().enumerate() {
        let mut bc = format::CONTEXT_X86::default();
        bc.eip = (MODULE_BASE as u32) + 0x8000 + 0x10 * i as u32;
        bc.esp = (stackbase as u32).wrapping_sub(0x100).wrapping_add(0x10 * i as u32);
        let bctx = MinidumpContext { raw: MinidumpRawContext::X86(bc), valid: MinidumpContextValidity::All };
        let mut f = minidump_unwind::StackFrame::from_context(
            bctx,
            if i == 0 { FrameTrust::Context } else { FrameTrust::CallFrameInfo },
        );
        if i > 0 {
            f.instruction -= 1;
        }
        f.parameter_size = *ps;
        frames.push(f);
    }
    let mut callee = minidump_unwind::StackFrame::from_context(
        callee_ctx,
        if below.is_empty() { FrameTrust::Context } else { FrameTrust::CallFrameInfo },
    );
    if !below.is_empty() {
        callee.instruction = callee.instruction.wrapping_sub(1);
    }
    frames.push(callee);
    let n = frames.len();
    let mut cs = CallStack::with_context(MinidumpContext {
        raw: MinidumpRawContext::X86(c),
        valid: MinidumpContextValidity::All,
    });
    cs.frames = frames;
    let r = catch_unwind(AssertUnwindSafe(|| {
        block_on(walk_stack(
            0,
            move |idx: usize, _f: &minidump_unwind::StackFrame| {
                if idx >= n {
                    std::panic::panic_any(StopWalk);
                }
            },
            &mut cs,
            Some(UnifiedMemory::Memory(&stack_memory)),
            &modules,
            &system_info,
            &symbolizer,
        ))
    }));
    if let Err(e) = r {
        if e.downcast_ref::<StopWalk>().is_none() {
            std::panic::resume_unwind(e);
        }
    }
    if cs.frames.len() <= n || cs.frames[n].trust != FrameTrust::CallFrameInfo {
        return "N".to_string();
    }
    let f = &cs.frames[n];
    let names: Vec<String> = match &f.context.valid {
        MinidumpContextValidity::All => vec!["<all>".to_string()],
        MinidumpContextValidity::Some(s) => {
            let mut v: Vec<String> = s.iter().map(|x| x.to_string()).collect();
            v.sort();
            v
        }
    };
    let get = |nm: &str| -> u64 {
        match &f.context.raw {
            MinidumpRawContext::X86(c) => c.get_register_always(nm) as u64,
            _ => panic!("arch"),
        }
    };
    format!(
        "S|valid={}|regs={}",
        names.join(","),
        names.iter().filter(|n| *n != "<all>").map(|n| format!("{}={}", n, get(n))).collect::<Vec<_>>().join(",")
    )
}

/// C07 front-end G: a WHOLE x86 `walk_stack` from a context frame over a symbol file with FUNC and STACK WIN records.
/// Returns the leading run of frames the unwinder produced by call frame info (`trust == CallFrameInfo`), each as
/// `eip,esp,ebp`; frames found by frame pointer / scanning after the STACK WIN chain ended are not reported.
pub fn real_walk_all(regs: &[(String, u64)], stackbase: u64, stack: &[u8], symtext: &str) -> String {
    let mut c = format::CONTEXT_X86::default();
    for (k, v) in regs {
        c.set_register(k, *v as u32).expect("x86 reg");
    }
    let modules = MinidumpModuleList::from_modules(vec![MinidumpModule::new(MODULE_BASE, MODULE_SIZE, "m1")]);
    let mut symbols = HashMap::new();
    symbols.insert("m1".to_string(), format!("MODULE Linux x86 ABCD1234 m1\n{}", symtext));
    let stack_memory = MinidumpMemory {
        desc: Default::default(),
        base_address: stackbase,
        size: stack.len() as u64,
        bytes: stack,
        endian: scroll::LE,
    };
    let system_info = SystemInfo {
        os: Os::Windows,
        os_version: None,
        os_build: None,
        cpu: Cpu::X86,
        cpu_info: None,
        cpu_microcode_version: None,
        cpu_count: 1,
    };
    let symbolizer = Symbolizer::new(string_symbol_supplier(symbols));
    let mut cs = CallStack::with_context(MinidumpContext {
        raw: MinidumpRawContext::X86(c),
        valid: MinidumpContextValidity::All,
    });
    block_on(walk_stack(
        0,
        |_idx: usize, _f: &minidump_unwind::StackFrame| {},
        &mut cs,
        Some(UnifiedMemory::Memory(&stack_memory)),
        &modules,
        &system_info,
        &symbolizer,
    ));
    let mut out = Vec::new();
    for f in cs.frames.iter().skip(1) {
        if f.trust != FrameTrust::CallFrameInfo {
            break;
        }
        match &f.context.raw {
            MinidumpRawContext::X86(c) => out.push(format!("{},{},{}", c.eip, c.esp, c.ebp)),
            _ => panic!("arch"),
        }
    }
    format!("W;{}", out.join(";"))
}
