//! C13 direct oracle harness: the same (dump, symbols) processed `runs` times under each of
//! three executors and per-run rotated supplier delay scripts must render byte-identically.
//!
//! case:  <dump spec tokens, see ../dumpspec.rs>  dl=<k,k,...> | sk=<k,k,...>  runs=<n>  seed=<s>  [evil=<hex json>]
//!   dl    delay script: the lookup of module m in run r is delayed by dl[(fnv(code_file) + r) mod len]
//!   sk    suspension script by module position: the lookup of the i-th M= module in run r suspends
//!         sk[(i + r) mod len] times (Pending / parked token / sleep) — the case controls which module is slow
//! The first rendering of every case is the synchronous one (plain supplier, no suspension, executor A).
//! Renderings 1..3 print ONE state that was built synchronously: after an amd64 dump was processed and printed on the same thread,
//! after an x86 dump was, and on a freshly spawned OS thread (state kept between building and printing, in the thread or the process).
//!   deep  <thread index>:<frames>:<ra>+<ra>+...[;...]  the stack of that T= thread is replaced by a chain of <frames>
//!         two-word frames [saved frame pointer -> next frame, return address (cycling through the list)], ended by
//!         [0, 0]: walkable by frame pointer and by `.cfa: sp 2w + .ra: .cfa w - ^ fp: .cfa 2w - ^` alike (the thread's
//!         sp and fp registers must point at its stack base).  Keeps case lines short for stacks of 10^4 frames.
//!   evil  contents of the "evil json" file handed to ProcessorOptions::evil_json (unstable_all only)
//! executors:
//!   A  one future polled to completion with a no-op waker; a delayed lookup answers Pending k times
//!   B  seeded random poller: every delayed lookup parks on a token; whenever the processing future
//!      is Pending the executor releases one parked lookup chosen by the seeded generator
//!   C  multi-threaded tokio runtime; a delayed lookup sleeps 30*k microseconds
//! Every run uses a fresh Symbolizer; every HashMap built during a run gets a fresh RandomState.
//! `U <addr,addr,..> <base:size:name hex;..>`: model correspondence for the per-frame map of overlapping unloaded modules
//!   (thread i has its instruction pointer at addr i and no loaded module: frames[0].unloaded_modules of print_json and the
//!   `(unloaded name@0x..|0x..)` groups of the text report's frame 0 line).
//! `B <regs> | <dump spec>`: model correspondence for the order of the register-derived entries of crash_info.possible_bit_flips.
//! `E <certs> <modules>`: model correspondence for the evil-json certificate fold (cert_subject per module).
//! A line `R <hex limits stream>` is the model correspondence case (names of the proc_limits array).
//! `L <hex lsb> <hex status> <hex cpuinfo>`: model correspondence for the Linux key/value streams (lsb_release
//!   fields + the text `Linux ...` line, pid, cpu_microcode_version as print_json / print report them).
//! answer:  n=<distinct renderings> h=<fnv of the first> runs=<total> thr=<threads> fr=<frames>
//!          ord=<ok | BAD:<first index whose thread_id is not the thread list's>>
//!          diff=<up to 32 differing JSON paths / text line numbers, or ->
#[path = "../dumpspec.rs"]
mod dumpspec;
use async_trait::async_trait;
use breakpad_symbols::{FileError, FileKind, LocateSymbolsResult, SymbolError, SymbolSupplier};
use dumpspec::*;
use minidump::*;
use minidump_processor::ProcessorOptions;
use minidump_unwind::{string_symbol_supplier, Symbolizer};
use std::collections::HashMap;
use std::future::Future;
use std::path::PathBuf;
use std::pin::Pin;
use std::sync::{Arc, Mutex};
use std::task::{Context, Poll, Waker};
use std::time::Duration;
use vharness::*;

#[derive(Clone, Copy, PartialEq)]
enum Mode {
    Count,
    Token,
    Sleep,
}

#[derive(Default)]
struct Tokens {
    parked: Vec<(bool, Option<Waker>)>, // (released, waker)
}

struct Delay {
    mode: Mode,
    left: u32,
    tokens: Arc<Mutex<Tokens>>,
    id: Option<usize>,
}
impl Future for Delay {
    type Output = ();
    fn poll(mut self: Pin<&mut Self>, cx: &mut Context<'_>) -> Poll<()> {
        match self.mode {
            Mode::Count | Mode::Sleep => {
                if self.left == 0 {
                    Poll::Ready(())
                } else {
                    self.left -= 1;
                    cx.waker().wake_by_ref();
                    Poll::Pending
                }
            }
            Mode::Token => {
                if self.left == 0 {
                    return Poll::Ready(());
                }
                let mut t = self.tokens.lock().unwrap();
                match self.id {
                    None => {
                        t.parked.push((false, Some(cx.waker().clone())));
                        let id = t.parked.len() - 1;
                        drop(t);
                        self.id = Some(id);
                        Poll::Pending
                    }
                    Some(id) => {
                        if t.parked[id].0 {
                            Poll::Ready(())
                        } else {
                            t.parked[id].1 = Some(cx.waker().clone());
                            Poll::Pending
                        }
                    }
                }
            }
        }
    }
}

struct DelaySupplier<S> {
    inner: S,
    mode: Mode,
    script: Vec<u32>,
    sk: Vec<u32>,
    mod_index: Arc<HashMap<String, usize>>,
    run: usize,
    tokens: Arc<Mutex<Tokens>>,
}
impl<S> DelaySupplier<S> {
    fn k(&self, module: &(dyn breakpad_symbols::Module + Sync)) -> u32 {
        if !self.sk.is_empty() {
            let i = self.mod_index.get(&*module.code_file()).copied().unwrap_or(0);
            return self.sk[(i + self.run) % self.sk.len()];
        }
        if self.script.is_empty() {
            return 0;
        }
        let h = fnv(module.code_file().as_bytes()) as usize;
        self.script[(h.wrapping_add(self.run)) % self.script.len()]
    }
}
#[async_trait]
impl<S: SymbolSupplier + Send + Sync> SymbolSupplier for DelaySupplier<S> {
    async fn locate_symbols(&self, module: &(dyn breakpad_symbols::Module + Sync)) -> Result<LocateSymbolsResult, SymbolError> {
        let k = self.k(module);
        if self.mode == Mode::Sleep {
            if k > 0 {
                tokio::time::sleep(Duration::from_micros(30 * k as u64)).await;
            }
        } else {
            Delay { mode: self.mode, left: k, tokens: self.tokens.clone(), id: None }.await;
        }
        self.inner.locate_symbols(module).await
    }
    async fn locate_file(&self, module: &(dyn breakpad_symbols::Module + Sync), kind: FileKind) -> Result<PathBuf, FileError> {
        self.inner.locate_file(module, kind).await
    }
}

struct Xs(u64);
impl Xs {
    fn next(&mut self) -> u64 {
        let mut x = self.0;
        x ^= x >> 12;
        x ^= x << 25;
        x ^= x >> 27;
        self.0 = x;
        x.wrapping_mul(0x2545F4914F6CDD1D)
    }
}

struct Noop;
impl std::task::Wake for Noop {
    fn wake(self: Arc<Self>) {}
}

const POLL_CAP: usize = 20_000_000;

fn exec_a<F: Future>(f: F) -> F::Output {
    let waker = Waker::from(Arc::new(Noop));
    let mut cx = Context::from_waker(&waker);
    let mut f = std::pin::pin!(f);
    for _ in 0..POLL_CAP {
        if let Poll::Ready(v) = f.as_mut().poll(&mut cx) {
            return v;
        }
    }
    panic!("HUNG: executor A polled {} times without completion", POLL_CAP);
}

fn exec_b<F: Future>(f: F, tokens: &Arc<Mutex<Tokens>>, rng: &mut Xs) -> F::Output {
    let waker = Waker::from(Arc::new(Noop));
    let mut cx = Context::from_waker(&waker);
    let mut f = std::pin::pin!(f);
    let mut idle = 0usize;
    for _ in 0..POLL_CAP {
        if let Poll::Ready(v) = f.as_mut().poll(&mut cx) {
            return v;
        }
        let mut t = tokens.lock().unwrap();
        let waiting: Vec<usize> = t.parked.iter().enumerate().filter(|(_, p)| !p.0).map(|(i, _)| i).collect();
        if waiting.is_empty() {
            idle += 1;
            if idle > 100_000 {
                panic!("HUNG: executor B: processing future pending with no parked lookup");
            }
            continue;
        }
        idle = 0;
        // sometimes poll again without releasing anything (spurious poll)
        if rng.next() % 4 == 0 {
            continue;
        }
        let pick = waiting[(rng.next() % waiting.len() as u64) as usize];
        t.parked[pick].0 = true;
        if let Some(w) = t.parked[pick].1.take() {
            drop(t);
            w.wake();
        }
    }
    panic!("HUNG: executor B polled {} times without completion", POLL_CAP);
}

fn tokio_rt() -> &'static tokio::runtime::Runtime {
    static RT: std::sync::OnceLock<tokio::runtime::Runtime> = std::sync::OnceLock::new();
    RT.get_or_init(|| tokio::runtime::Builder::new_multi_thread().worker_threads(3).enable_time().build().unwrap())
}

struct Rendering {
    json: Vec<u8>,
    text: Vec<u8>,
    threads: usize,
    frames: usize,
    tids: Vec<u32>,
}

/// build the ProcessState (nothing is printed here)
async fn build_state<S: SymbolSupplier + Send + Sync + 'static>(
    dump: &Minidump<'_, Vec<u8>>,
    supplier: S,
    opt: u32,
    evil: Option<&std::path::Path>,
) -> Result<minidump_processor::ProcessState, String> {
    let provider = Symbolizer::new(supplier);
    let mut options = match opt {
        0 => ProcessorOptions::stable_basic(),
        1 => ProcessorOptions::stable_all(),
        _ => ProcessorOptions::unstable_all(),
    };
    if opt >= 2 {
        options.evil_json = evil;
    }
    minidump_processor::process_minidump_with_options(dump, &provider, options).await.map_err(|e| format!("\"ERR {:?}\"", e))
}

/// print_json + print + print_brief of a state that was built before (possibly elsewhere, possibly long ago)
fn render_state(state: &Result<minidump_processor::ProcessState, String>) -> Rendering {
    match state {
        Ok(state) => {
            let mut json = Vec::new();
            state.print_json(&mut json, false).expect("print_json");
            let mut text = Vec::new();
            state.print(&mut text).expect("print");
            text.extend_from_slice(b"\n=====brief=====\n");
            state.print_brief(&mut text).expect("print_brief");
            Rendering {
                json,
                text,
                threads: state.threads.len(),
                frames: state.threads.iter().map(|t| t.frames.len()).sum(),
                tids: state.threads.iter().map(|t| t.thread_id).collect(),
            }
        }
        Err(e) => Rendering { json: e.clone().into_bytes(), text: vec![], threads: 0, frames: 0, tids: vec![] },
    }
}

async fn process_and_render<S: SymbolSupplier + Send + Sync + 'static>(
    dump: &Minidump<'_, Vec<u8>>,
    supplier: S,
    opt: u32,
    evil: Option<&std::path::Path>,
) -> Rendering {
    render_state(&build_state(dump, supplier, opt, evil).await)
}

/// a one-thread dump of the given CPU, processed AND printed on the calling thread: whatever per-thread / per-process state
/// processing or printing a dump leaves behind is now that of a dump of this CPU (pointer width 4 for x86, 8 for amd64)
fn process_other_dump(cpu: &str) {
    let mut spec = Spec { cpu: cpu.into(), os: "linux".into(), ..Default::default() };
    let (ip, sp) = if cpu == "x86" { ("eip", "esp") } else { ("rip", "rsp") };
    spec.threads.push(ThreadSpec { id: 1, stack_base: 0x10000, stack: vec![0; 64], regs: Some(vec![(ip.into(), 0x400010), (sp.into(), 0x10000)]) });
    let dump = Minidump::read(build_dump(&spec)).expect("read");
    let st = exec_a(build_state(&dump, string_symbol_supplier(HashMap::new()), 0, None));
    let _ = render_state(&st);
}

fn json_diff(a: &serde_json::Value, b: &serde_json::Value, path: String, out: &mut Vec<String>) {
    use serde_json::Value::{Array, Null, Object};
    if out.len() >= 32 || a == b {
        return;
    }
    match (a, b) {
        (Object(x), Object(y)) => {
            let mut keys: Vec<&String> = x.keys().chain(y.keys()).collect();
            keys.sort();
            keys.dedup();
            for k in keys {
                let p = if path.is_empty() { k.clone() } else { format!("{}.{}", path, k) };
                json_diff(x.get(k).unwrap_or(&Null), y.get(k).unwrap_or(&Null), p, out);
            }
        }
        (Array(x), Array(y)) if x.len() == y.len() => {
            for (i, (u, v)) in x.iter().zip(y.iter()).enumerate() {
                json_diff(u, v, format!("{}.{}", path, i), out);
            }
        }
        _ => out.push(path),
    }
}

/// R <hex limits stream>: the entries of the proc_limits array (name, soft, hard, unit) in the order print_json emits them
fn run_limits_names(h: &str) -> String {
    let mut spec = Spec { cpu: "x86".into(), os: "linux".into(), ..Default::default() };
    spec.threads.push(ThreadSpec { id: 1, stack_base: 0x10000, stack: vec![0; 64], regs: Some(vec![]) });
    spec.limits = Some(unhex(h));
    let dump = Minidump::read(build_dump(&spec)).expect("read");
    let rend = exec_a(process_and_render(&dump, string_symbol_supplier(HashMap::new()), 0, None));
    let v: serde_json::Value = serde_json::from_slice(&rend.json).expect("json");
    // name (hex) : soft : hard : unit (hex)   with a limit rendered as `u` (unlimited), `err` or the decimal number
    let lim = |x: &serde_json::Value| match x {
        serde_json::Value::String(t) if t == "unlimited" => "u".to_string(),
        serde_json::Value::String(t) => t.clone(),
        other => other.to_string(),
    };
    let names: Vec<String> = v["proc_limits"]["limits"]
        .as_array()
        .map(|a| a.iter().map(|e| format!("{}:{}:{}:{}", hex(e["name"].as_str().unwrap_or("").as_bytes()), lim(&e["soft"]), lim(&e["hard"]), hex(e["unit"].as_str().unwrap_or("?").as_bytes()))).collect())
        .unwrap_or_default();
    format!("R {}", names.join(","))
}

/// B <regs> | <dump spec>: an amd64 crash on an instruction whose memory operand names the registers <regs> (the model's input), every
/// one of them a single bit away from null.  Answer: the source_register of crash_info.possible_bit_flips in array order, consecutive
/// repetitions collapsed (the candidates of the crash address itself, which have no source register, are skipped).
fn run_bitflip_sources(spec_line: &str) -> String {
    let spec = parse_spec(spec_line.split_ascii_whitespace());
    let dump = Minidump::read(build_dump(&spec)).expect("read");
    let rend = exec_a(process_and_render(&dump, string_symbol_supplier(HashMap::new()), spec.opt, None));
    let v: serde_json::Value = serde_json::from_slice(&rend.json).expect("json");
    let mut seq: Vec<String> = Vec::new();
    for b in v["crash_info"]["possible_bit_flips"].as_array().map(|a| a.as_slice()).unwrap_or(&[]) {
        let Some(r) = b["source_register"].as_str().map(|x| x.to_string()) else { continue };
        if seq.last() != Some(&r) {
            seq.push(r);
        }
    }
    format!("B {}", if seq.is_empty() { "none".to_string() } else { seq.join(",") })
}

/// U <addr,addr,..> <base:size:name hex;..>: amd64 dump without loaded modules, the listed unloaded modules, thread i with rip =
/// addr i.  Answer: per thread the entries of frames[0].unloaded_modules as print_json emits them (name hex @ offsets, decimal),
/// then the same read off the `(unloaded name@0x..|0x..)` groups of the frame-0 line of the text report.
fn run_unloaded(addrs: &str, mods: &str) -> String {
    let mut spec = Spec { cpu: "amd64".into(), os: "win".into(), ..Default::default() };
    for e in mods.split(';').filter(|x| !x.is_empty() && *x != "-") {
        let f: Vec<&str> = e.split(':').collect();
        spec.unloaded.push(ModSpec { base: num(f[0]), size: num(f[1]) as u32, name: lossy(&unhex(f[2])), sym: None, debug: None });
    }
    let addrs: Vec<u64> = addrs.split(',').map(num).collect();
    for (i, a) in addrs.iter().enumerate() {
        let sb = 0x10000 + 0x1000 * i as u64;
        spec.threads.push(ThreadSpec { id: i as u32 + 1, stack_base: sb, stack: vec![0; 64], regs: Some(vec![("rip".into(), *a), ("rsp".into(), sb)]) });
    }
    let dump = Minidump::read(build_dump(&spec)).expect("read");
    let rend = exec_a(process_and_render(&dump, string_symbol_supplier(HashMap::new()), 0, None));
    let v: serde_json::Value = serde_json::from_slice(&rend.json).expect("json");
    let mut js = Vec::new();
    for t in v["threads"].as_array().expect("threads") {
        let um = &t["frames"][0]["unloaded_modules"];
        let ents: Vec<String> = um
            .as_array()
            .map(|a| {
                a.iter()
                    .map(|e| {
                        let offs: Vec<String> = e["offsets"].as_array().expect("offsets").iter().map(|o| u64::from_str_radix(o.as_str().expect("hex").trim_start_matches("0x"), 16).expect("hex").to_string()).collect();
                        format!("{}@{}", hex(e["module"].as_str().expect("module").as_bytes()), offs.join("|"))
                    })
                    .collect()
            })
            .unwrap_or_default();
        js.push(if ents.is_empty() { "-".to_string() } else { ents.join(",") });
    }
    let text = String::from_utf8_lossy(&rend.text).into_owned();
    let mut tx = Vec::new();
    for l in text.lines().filter(|l| l.starts_with(" 0  ")) {
        let mut ents = Vec::new();
        let mut rest = l;
        while let Some(p) = rest.find(" (unloaded ") {
            rest = &rest[p + " (unloaded ".len()..];
            let close = rest.find(')').expect("close");
            let (name, offs) = rest[..close].rsplit_once('@').expect("@");
            let offs: Vec<String> = offs.split('|').map(|o| u64::from_str_radix(o.trim_start_matches("0x"), 16).expect("hex").to_string()).collect();
            ents.push(format!("{}@{}", hex(name.as_bytes()), offs.join("|")));
            rest = &rest[close..];
        }
        tx.push(if ents.is_empty() { "-".to_string() } else { ents.join(",") });
    }
    // print() lists the requesting / crashing thread first only when there is one: none here, so text order = thread order
    format!("U {} T {}", js.join(";"), tx.join(";"))
}

/// E c1:m1+m2,c2:m1 m1,m2,m3 : evil-json ModuleSignatureInfo {c1:[m1.dll,m2.dll],c2:[m1.dll]} and a dump
/// with modules C:\x\m1.dll ...; answer: cert_subject of each module as print_json reports it
fn run_certs(spec_s: &str, mods: &str, as_object: bool) -> String {
    // the inner object is written by hand, member by member in the order of the case, so that a certificate name can occur
    // twice (serde's HashMap visitor then keeps the LAST member of that name: C13/Unloaded.hm_of_members)
    let members: Vec<String> = spec_s
        .split(',')
        .map(|e| {
            let (c, ms) = e.split_once(':').expect("cert:mods");
            format!("{}:{}", serde_json::Value::String(c.to_string()), serde_json::Value::Array(ms.split('+').map(|m| serde_json::Value::String(format!("{}.dll", m))).collect()))
        })
        .collect();
    let inner = format!("{{{}}}", members.join(","));
    // evil_obj accepts the table as a string that holds JSON (what crash reporters write) or as a JSON object; in the second
    // form serde_json's own Map resolves a repeated name first (last member wins as well)
    let evil = if as_object { format!("{{\"ModuleSignatureInfo\":{}}}", inner) } else { serde_json::json!({ "ModuleSignatureInfo": inner }).to_string() };
    let mut f = tempfile::NamedTempFile::new().expect("tmp");
    std::io::Write::write_all(&mut f, evil.as_bytes()).unwrap();
    let mut spec = Spec { cpu: "x86".into(), os: "win".into(), ..Default::default() };
    spec.threads.push(ThreadSpec { id: 1, stack_base: 0x10000, stack: vec![0; 64], regs: Some(vec![("eip".into(), 0x400010), ("esp".into(), 0x10000)]) });
    for (i, m) in mods.split(',').enumerate() {
        spec.modules.push(ModSpec { base: 0x400000 + 0x10000 * i as u64, size: 0x1000, name: format!("C:\\x\\{}.dll", m), sym: None, debug: None });
    }
    let dump = Minidump::read(build_dump(&spec)).expect("read");
    let rend = exec_a(process_and_render(&dump, string_symbol_supplier(HashMap::new()), 2, Some(f.path())));
    let v: serde_json::Value = serde_json::from_slice(&rend.json).expect("json");
    let out: Vec<String> = v["modules"].as_array().map(|a| a.iter().map(|m| m["cert_subject"].as_str().unwrap_or("-").to_string()).collect()).unwrap_or_default();
    format!("E {}", out.join(","))
}

/// L <hex lsb> <hex status> <hex cpuinfo>  ("-" = empty stream): what print_json / print report from the three
/// key/value streams: lsb_release {id,release,codename,description}, the text `Linux ...` line, pid, microcode
fn run_linux(lsb: &str, status: &str, cpuinfo: &str) -> String {
    let mut spec = Spec { cpu: "x86".into(), os: "linux".into(), ..Default::default() };
    spec.threads.push(ThreadSpec { id: 1, stack_base: 0x10000, stack: vec![0; 64], regs: Some(vec![]) });
    spec.lsb = Some(bytes_spec(lsb));
    spec.status = Some(bytes_spec(status));
    spec.cpuinfo = Some(bytes_spec(cpuinfo));
    let dump = Minidump::read(build_dump(&spec)).expect("read");
    let rend = exec_a(process_and_render(&dump, string_symbol_supplier(HashMap::new()), 0, None));
    let v: serde_json::Value = serde_json::from_slice(&rend.json).expect("json");
    let hx = |s: &str| if s.is_empty() { "-".to_string() } else { hex(s.as_bytes()) };
    let l = &v["lsb_release"];
    let fields = if l.is_null() {
        "none".to_string()
    } else {
        ["id", "release", "codename", "description"].iter().map(|k| hx(l[*k].as_str().unwrap_or("?"))).collect::<Vec<_>>().join(",")
    };
    let pid = if v["pid"].is_null() { "-".to_string() } else { v["pid"].to_string() };
    let mc = v["system_info"]["cpu_microcode_version"].as_str().map(|s| s.to_string()).unwrap_or_else(|| "-".into());
    let text_line = rend.text.split(|&b| b == b'\n').find(|l| l.starts_with(b"Linux ")).map(hex).unwrap_or_else(|| "-".into());
    format!("L {} pid={} mc={} line={}", fields, pid, mc, text_line)
}

/// Q <callee regs name=val,..> <rules of the INIT line>;<rules of delta line 1>;..   (rule = name=const | name=! for an
/// expression that fails): the general registers of the CFI caller frame (frames[1]) of an arm64 thread, by name
const Q_OBSERVE: [&str; 15] = ["x19", "x20", "x21", "x22", "x23", "x24", "x25", "x26", "x27", "x28", "x29", "fp", "x30", "lr", "x0"];
const Q_OBSERVE_ARM: [&str; 13] = ["r4", "r5", "r6", "r7", "r8", "r9", "r10", "r11", "fp", "r14", "lr", "r0", "r12"];
fn run_cfi_q(callee: &str, lines: &str, arm: bool) -> String {
    let mut text = format!("MODULE Linux {} 000000000000000000000000000000000 q\nFUNC 0 10000 0 f\n", if arm { "arm" } else { "arm64" });
    let w: usize = if arm { 4 } else { 8 };
    for (i, l) in lines.split(';').enumerate() {
        let rules: Vec<String> = l
            .split(',')
            .filter(|e| *e != "-")
            .map(|e| {
                let (k, v) = e.split_once('=').expect("name=val");
                format!("{}: {}", k, if v == "!" { "1 0 /".to_string() } else { v.to_string() })
            })
            .collect();
        if i == 0 {
            text.push_str(&format!("STACK CFI INIT 0 10000 .cfa: sp {} + .ra: .cfa {} - ^ {}\n", 2 * w, w, rules.join(" ")));
        } else {
            text.push_str(&format!("STACK CFI {:x} {}\n", 4 * i, rules.join(" ")));
        }
    }
    let mut spec = Spec { cpu: if arm { "arm".into() } else { "arm64".into() }, os: "linux".into(), ..Default::default() };
    spec.syms.push(text.into_bytes());
    spec.modules.push(ModSpec { base: 0x400000, size: 0x10000, name: "/lib/q.so".into(), sym: Some(0), debug: None });
    let mut regs: Vec<(String, u64)> = vec![("pc".into(), 0x400800), ("sp".into(), 0x10000), ("lr".into(), 0x400080)];
    for e in callee.split(',') {
        let (k, v) = e.split_once('=').expect("reg=val");
        regs.push((k.to_string(), num(v)));
    }
    let mut stack = vec![0u8; 64];
    stack[0..w].copy_from_slice(&0x20000u64.to_le_bytes()[..w]);
    stack[w..2 * w].copy_from_slice(&0x400100u64.to_le_bytes()[..w]);
    spec.threads.push(ThreadSpec { id: 1, stack_base: 0x10000, stack, regs: Some(regs) });
    let dump = Minidump::read(build_dump(&spec)).expect("read");
    let syms = symbol_table(&spec, &dump);
    let provider = Symbolizer::new(BytesSupplier { modules: syms });
    let state = exec_a(minidump_processor::process_minidump_with_options(&dump, &provider, ProcessorOptions::stable_basic())).expect("process");
    let frames = &state.threads[0].frames;
    if frames.len() < 2 || frames[1].trust != minidump_unwind::FrameTrust::CallFrameInfo {
        return format!("Q nocfi frames={}", frames.len());
    }
    let ctx = &frames[1].context;
    let names: &[&str] = if arm { &Q_OBSERVE_ARM } else { &Q_OBSERVE };
    let out: Vec<String> = names
        .iter()
        .map(|n| match &ctx.raw {
            MinidumpRawContext::Arm64(c) => c.get_register(n, &ctx.valid).map(|v| v.to_string()).unwrap_or_else(|| "-".into()),
            MinidumpRawContext::Arm(c) => c.get_register(n, &ctx.valid).map(|v| v.to_string()).unwrap_or_else(|| "-".into()),
            _ => "?".into(),
        })
        .collect();
    format!("Q {}", out.join(","))
}

/// A nk {susp outc}*nk nt {tree}*nt ns {t}*ns : ADAPTIVE walks on one real Symbolizer.  tree = d<v> (done, value v) |
/// k<key> <ok subtree> <err subtree> (fill_symbol on module <key>; continue with the first subtree if it returned Ok).
/// The supplier answers key k after `susp` Pending polls with outc (0 Ok, 1 NotFound, 2 MissingDebugFileOrId, 3 LoadError,
/// 4 ParseError).  The tasks' futures are polled in schedule order (finished / unknown ids skipped), then round-robin until
/// all are finished.  answer: results ; per-task answer logs key:ok ; supplier call log ; stats per key ; requested/processed
enum Tree {
    Done(u64),
    Ask(usize, Box<Tree>, Box<Tree>),
}
fn parse_tree<'a>(it: &mut impl Iterator<Item = &'a str>) -> Tree {
    let t = it.next().expect("tree token");
    let v = num(&t[1..]);
    if t.starts_with('d') {
        Tree::Done(v)
    } else {
        let ok = parse_tree(it);
        let err = parse_tree(it);
        Tree::Ask(v as usize, Box::new(ok), Box::new(err))
    }
}
struct Scripted {
    scripts: Vec<(u32, u8)>,
    log: Arc<Mutex<Vec<usize>>>,
    /// symbol text served for a key whose outcome is Ok (P cases: with STACK CFI)
    text: Option<Vec<u8>>,
}
fn key_of_code_file(cf: &str) -> Option<usize> {
    cf.strip_prefix("/m/k")?.strip_suffix(".so")?.parse().ok()
}
#[async_trait]
impl SymbolSupplier for Scripted {
    async fn locate_symbols(&self, module: &(dyn breakpad_symbols::Module + Sync)) -> Result<LocateSymbolsResult, SymbolError> {
        let k = key_of_code_file(&module.code_file()).expect("known module");
        self.log.lock().unwrap().push(k);
        let (susp, outc) = self.scripts[k];
        Delay { mode: Mode::Count, left: susp, tokens: Arc::new(Mutex::new(Tokens::default())), id: None }.await;
        match outc {
            0 => Ok(LocateSymbolsResult {
                symbols: breakpad_symbols::SymbolFile::from_bytes(
                    self.text.as_deref().unwrap_or(b"MODULE Linux x86_64 000000000000000000000000000000000 mock\nFUNC 1000 10 0 f\n"),
                )?,
                extra_debug_info: None,
            }),
            1 => Err(SymbolError::NotFound),
            2 => Err(SymbolError::MissingDebugFileOrId),
            3 => Err(SymbolError::LoadError(std::io::Error::new(std::io::ErrorKind::Other, "mock"))),
            _ => match breakpad_symbols::SymbolFile::from_bytes(b"this is not a symbol file\n") {
                Err(e) => Err(e),
                Ok(_) => Err(SymbolError::ParseError("mock", 1)),
            },
        }
    }
    async fn locate_file(&self, _module: &(dyn breakpad_symbols::Module + Sync), _kind: FileKind) -> Result<PathBuf, FileError> {
        Err(FileError::NotFound)
    }
}
async fn adaptive_walk(tree: &Tree, sym: &breakpad_symbols::Symbolizer, mods: &[breakpad_symbols::SimpleModule], log: &Mutex<Vec<(usize, bool)>>) -> u64 {
    let mut node = tree;
    loop {
        match node {
            Tree::Done(v) => return *v,
            Tree::Ask(k, ok, err) => {
                let mut frame = breakpad_symbols::SimpleFrame::with_instruction(0x1005);
                let r = sym.fill_symbol(&mods[*k], &mut frame).await;
                log.lock().unwrap().push((*k, r.is_ok()));
                node = if r.is_ok() { ok } else { err };
            }
        }
    }
}
fn run_adaptive(rest: &str) -> String {
    let mut it = rest.split_ascii_whitespace();
    let nk = num(it.next().expect("nk")) as usize;
    let scripts: Vec<(u32, u8)> = (0..nk).map(|_| (num(it.next().expect("susp")) as u32, num(it.next().expect("outc")) as u8)).collect();
    let nt = num(it.next().expect("nt")) as usize;
    let trees: Vec<Tree> = (0..nt).map(|_| parse_tree(&mut it)).collect();
    let ns = num(it.next().expect("ns")) as usize;
    let sched: Vec<usize> = (0..ns).map(|_| num(it.next().expect("t")) as usize).collect();
    let mods: Vec<breakpad_symbols::SimpleModule> = (0..nk)
        .map(|k| breakpad_symbols::SimpleModule { code_file: Some(format!("/m/k{}.so", k)), ..Default::default() })
        .collect();
    let calls = Arc::new(Mutex::new(Vec::new()));
    let sym = breakpad_symbols::Symbolizer::new(Scripted { scripts, log: calls.clone(), text: None });
    let logs: Vec<Mutex<Vec<(usize, bool)>>> = (0..nt).map(|_| Mutex::new(Vec::new())).collect();
    let mut results: Vec<Option<u64>> = vec![None; nt];
    {
        let mut futs: Vec<Option<Pin<Box<dyn Future<Output = u64> + '_>>>> =
            (0..nt).map(|t| Some(Box::pin(adaptive_walk(&trees[t], &sym, &mods, &logs[t])) as Pin<Box<dyn Future<Output = u64> + '_>>)).collect();
        let waker = Waker::from(Arc::new(Noop));
        let mut cx = Context::from_waker(&waker);
        macro_rules! poll_task {
            ($t:expr) => {{
                let t: usize = $t;
                if t < nt {
                    if let Some(f) = futs[t].as_mut() {
                        if let Poll::Ready(v) = f.as_mut().poll(&mut cx) {
                            results[t] = Some(v);
                            futs[t] = None;
                        }
                    }
                }
            }};
        }
        for &t in &sched {
            poll_task!(t);
        }
        let mut rounds = 0;
        while results.iter().any(|r| r.is_none()) {
            rounds += 1;
            if rounds > 200 {
                break;
            }
            for t in 0..nt {
                poll_task!(t);
            }
        }
    }
    let join = |v: Vec<String>, sep: &str| if v.is_empty() { "-".to_string() } else { v.join(sep) };
    let stats = sym.stats();
    let pend = sym.pending_stats();
    format!(
        "A {};{};{};{};{}/{}",
        join(results.iter().map(|r| r.map(|v| v.to_string()).unwrap_or_else(|| "?".into())).collect(), ","),
        join(logs.iter().map(|l| join(l.lock().unwrap().iter().map(|(k, ok)| format!("{}:{}", k, *ok as u8)).collect(), ".")).collect(), "|"),
        join(calls.lock().unwrap().iter().map(|k| k.to_string()).collect(), "."),
        join((0..nk).map(|k| match stats.get(&format!("k{}.so", k)) {
            None => "-".to_string(),
            Some(s) => format!("{}{}", if s.loaded_symbols { "L" } else { "l" }, if s.corrupt_symbols { "C" } else { "c" }),
        }).collect(), ","),
        pend.symbols_requested,
        pend.symbols_processed
    )
}

/// P <susp,outc;...> <nt> <trees> | <dump spec>: the real processor on a dump whose threads are decision trees (see props/c13.py
/// process_tree_case), one Symbolizer over the scripted supplier, the process future polled to completion.
/// answer: per-thread module keys of the frames ; supplier call log ; stats per key ; requested/processed
fn run_process_trees(rest: &str) -> String {
    let (head, spec_s) = rest.split_once(" | ").expect("P head | spec");
    let scripts: Vec<(u32, u8)> = head
        .split_ascii_whitespace()
        .next()
        .expect("scripts")
        .split(';')
        .map(|e| {
            let (a, b) = e.split_once(',').expect("susp,outc");
            (num(a) as u32, num(b) as u8)
        })
        .collect();
    let nk = scripts.len();
    let spec = parse_spec(spec_s.split_ascii_whitespace());
    let dump = Minidump::read(build_dump(&spec)).expect("read");
    let calls = Arc::new(Mutex::new(Vec::new()));
    let text = b"MODULE Linux x86_64 000000000000000000000000000000000 tree\nFUNC 0 10000 0 f\nSTACK CFI INIT 0 10000 .cfa: $rsp 16 + .ra: .cfa 8 - ^ $rbp: .cfa 16 - ^\n".to_vec();
    let provider = Symbolizer::new(Scripted { scripts, log: calls.clone(), text: Some(text) });
    let state = exec_a(minidump_processor::process_minidump_with_options(&dump, &provider, ProcessorOptions::stable_basic())).expect("process");
    let join = |v: Vec<String>, sep: &str| if v.is_empty() { "-".to_string() } else { v.join(sep) };
    let threads: Vec<String> = state
        .threads
        .iter()
        .map(|t| {
            join(
                t.frames
                    .iter()
                    .map(|f| f.module.as_ref().and_then(|m| key_of_code_file(&m.code_file())).map(|k| k.to_string()).unwrap_or_else(|| "?".into()))
                    .collect(),
                ".",
            )
        })
        .collect();
    let stats = provider.stats();
    let pend = provider.pending_stats();
    format!(
        "P {};{};{};{}/{}",
        join(threads, "|"),
        join(calls.lock().unwrap().iter().map(|k| k.to_string()).collect(), "."),
        join((0..nk).map(|k| match stats.get(&format!("k{}.so", k)) {
            None => "-".to_string(),
            Some(s) => format!("{}{}", if s.loaded_symbols { "L" } else { "l" }, if s.corrupt_symbols { "C" } else { "c" }),
        }).collect(), ","),
        pend.symbols_requested,
        pend.symbols_processed
    )
}

fn run(line: &str) -> String {
    if let Some(rest) = line.strip_prefix("P ") {
        return run_process_trees(rest);
    }
    if let Some(rest) = line.strip_prefix("A ") {
        return run_adaptive(rest);
    }
    if let Some(rest) = line.strip_prefix("Q ") {
        let mut it = rest.split_ascii_whitespace();
        let (callee, rules) = (it.next().expect("callee"), it.next().expect("rules"));
        return run_cfi_q(callee, rules, it.next() == Some("arm"));
    }
    if let Some(h) = line.strip_prefix("R ") {
        return run_limits_names(h.trim());
    }
    if let Some(rest) = line.strip_prefix("L ") {
        let mut it = rest.split_ascii_whitespace();
        return run_linux(it.next().expect("lsb"), it.next().expect("status"), it.next().expect("cpuinfo"));
    }
    if let Some(rest) = line.strip_prefix("B ") {
        return run_bitflip_sources(rest.split_once(" | ").expect("B regs | spec").1);
    }
    if let Some(rest) = line.strip_prefix("U ") {
        let mut it = rest.split_ascii_whitespace();
        return run_unloaded(it.next().expect("addrs"), it.next().unwrap_or("-"));
    }
    if let Some(rest) = line.strip_prefix("E ") {
        let mut it = rest.split_ascii_whitespace();
        let (c, m) = (it.next().expect("certs"), it.next().expect("mods"));
        return run_certs(c, m, it.next() == Some("obj"));
    }
    let mut spec = parse_spec(line.split_ascii_whitespace());
    if let Some(d) = spec.extra.get("deep").cloned() {
        let w: usize = if matches!(spec.cpu.as_str(), "amd64" | "arm64" | "arm64old" | "mips64" | "ppc64" | "sparc") { 8 } else { 4 };
        for e in d.split(';').filter(|x| !x.is_empty()) {
            let f: Vec<&str> = e.split(':').collect();
            let (ti, n) = (num(f[0]) as usize, num(f[1]) as usize);
            let ras: Vec<u64> = f[2].split('+').map(num).collect();
            let t = &mut spec.threads[ti];
            let mut st = Vec::with_capacity((n + 1) * 2 * w);
            for k in 0..n {
                let next = t.stack_base + ((k + 1) * 2 * w) as u64;
                st.extend_from_slice(&next.to_le_bytes()[..w]);
                st.extend_from_slice(&ras[k % ras.len()].to_le_bytes()[..w]);
            }
            st.extend_from_slice(&vec![0u8; 2 * w]);
            t.stack = st;
        }
    }
    let dl: Vec<u32> = spec.extra.get("dl").map(|s| s.split(',').filter(|x| !x.is_empty()).map(|x| num(x) as u32).collect()).unwrap_or_default();
    let sk: Vec<u32> = spec.extra.get("sk").map(|s| s.split(',').filter(|x| !x.is_empty()).map(|x| num(x) as u32).collect()).unwrap_or_default();
    let mod_index: Arc<HashMap<String, usize>> = Arc::new(spec.modules.iter().enumerate().map(|(i, m)| (m.name.clone(), i)).collect());
    let runs = spec.extra.get("runs").map(|s| num(s) as usize).unwrap_or(8);
    let seed = spec.extra.get("seed").map(|s| num(s)).unwrap_or(1);
    let evil_file = spec.extra.get("evil").map(|h| {
        let mut f = tempfile::NamedTempFile::new().expect("tmp");
        std::io::Write::write_all(&mut f, &unhex(h)).unwrap();
        f
    });
    let evil_path = evil_file.as_ref().map(|f| f.path().to_path_buf());
    let bytes = build_dump(&spec);
    let dump = match Minidump::read(bytes) {
        Ok(d) => d,
        Err(_) => return "n=1 h=0 runs=0 thr=0 fr=0 diff=- readerr".to_string(),
    };
    let syms = symbol_table(&spec, &dump);
    let all_utf8 = syms.values().all(|b| std::str::from_utf8(b).is_ok());
    let mut rng = Xs(seed.wrapping_mul(0x9E3779B97F4A7C15) | 1);
    let mut renderings: Vec<Rendering> = vec![];
    let opt = spec.opt.min(2);
    // the thread list as the reader sees it: state.threads must be in this order
    let want_tids: Option<Vec<u32>> = dump.get_stream::<MinidumpThreadList>().ok().map(|l| l.threads.iter().map(|t| t.raw.thread_id).collect());
    // the synchronous rendering: no suspension at all
    {
        let rend = if all_utf8 {
            let m: HashMap<String, String> = syms.iter().map(|(k, v)| (k.clone(), String::from_utf8(v.clone()).unwrap())).collect();
            exec_a(process_and_render(&dump, string_symbol_supplier(m), opt, evil_path.as_deref()))
        } else {
            exec_a(process_and_render(&dump, BytesSupplier { modules: syms.clone() }, opt, evil_path.as_deref()))
        };
        renderings.push(rend);
    }
    // a state that is built once and printed LATER / ELSEWHERE must print the same bytes as one printed at once: (1) after a dump of
    // each pointer width was processed and printed on this thread in between, (2) on a thread that has never processed anything
    {
        let state = if all_utf8 {
            let m: HashMap<String, String> = syms.iter().map(|(k, v)| (k.clone(), String::from_utf8(v.clone()).unwrap())).collect();
            exec_a(build_state(&dump, string_symbol_supplier(m), opt, evil_path.as_deref()))
        } else {
            exec_a(build_state(&dump, BytesSupplier { modules: syms.clone() }, opt, evil_path.as_deref()))
        };
        process_other_dump("amd64");
        renderings.push(render_state(&state));
        process_other_dump("x86");
        renderings.push(render_state(&state));
        let rend = std::thread::scope(|sc| sc.spawn(|| render_state(&state)).join().expect("printer thread panicked"));
        renderings.push(rend);
    }
    for mode in [Mode::Count, Mode::Token, Mode::Sleep] {
        for r in 0..runs {
            let tokens = Arc::new(Mutex::new(Tokens::default()));
            macro_rules! go {
                ($inner:expr) => {{
                    let sup = DelaySupplier { inner: $inner, mode, script: dl.clone(), sk: sk.clone(), mod_index: mod_index.clone(), run: r, tokens: tokens.clone() };
                    let fut = process_and_render(&dump, sup, opt, evil_path.as_deref());
                    match mode {
                        Mode::Count => exec_a(fut),
                        Mode::Token => exec_b(fut, &tokens, &mut rng),
                        Mode::Sleep => tokio_rt().block_on(async { tokio::time::timeout(Duration::from_secs(1200), fut).await.expect("HUNG: executor C timeout") }),
                    }
                }};
            }
            let rend = if all_utf8 {
                let m: HashMap<String, String> = syms.iter().map(|(k, v)| (k.clone(), String::from_utf8(v.clone()).unwrap())).collect();
                go!(string_symbol_supplier(m))
            } else {
                go!(BytesSupplier { modules: syms.clone() })
            };
            renderings.push(rend);
        }
    }
    let first = &renderings[0];
    let mut distinct: Vec<(&[u8], &[u8])> = vec![];
    for r in &renderings {
        if !distinct.iter().any(|(j, t)| *j == &r.json[..] && *t == &r.text[..]) {
            distinct.push((&r.json, &r.text));
        }
    }
    let mut diff: Vec<String> = vec![];
    if distinct.len() > 1 {
        let (j0, t0) = distinct[0];
        let (j1, t1) = distinct[1];
        if j0 != j1 {
            match (serde_json::from_slice::<serde_json::Value>(j0), serde_json::from_slice::<serde_json::Value>(j1)) {
                (Ok(a), Ok(b)) => json_diff(&a, &b, String::new(), &mut diff),
                _ => diff.push("json-unparseable".into()),
            }
        }
        if t0 != t1 {
            let l0: Vec<&[u8]> = t0.split(|&b| b == b'\n').collect();
            let l1: Vec<&[u8]> = t1.split(|&b| b == b'\n').collect();
            let i = l0.iter().zip(l1.iter()).position(|(a, b)| a != b).unwrap_or(l0.len().min(l1.len()));
            diff.push(format!("text:{}:{}", i + 1, String::from_utf8_lossy(l0.get(i).copied().unwrap_or(b"")).chars().take(40).collect::<String>().replace(' ', "_")));
        }
    }
    let mut all = first.json.clone();
    all.extend_from_slice(&first.text);
    let mut ord = "ok".to_string();
    if let Some(w) = &want_tids {
        'o: for r in &renderings {
            if r.threads == 0 && r.tids.is_empty() {
                continue;
            }
            if r.tids.len() != w.len() {
                ord = format!("BAD:len{}", r.tids.len());
                break;
            }
            for (i, (a, b)) in r.tids.iter().zip(w.iter()).enumerate() {
                if a != b {
                    ord = format!("BAD:{}", i);
                    break 'o;
                }
            }
        }
    }
    format!(
        "n={} h={:016x} runs={} thr={} fr={} ord={} diff={}",
        distinct.len(),
        fnv(&all),
        renderings.len(),
        first.threads,
        first.frames,
        ord,
        if diff.is_empty() { "-".to_string() } else { diff.join(",") }
    )
}

fn main() {
    for_each_case(run);
}
