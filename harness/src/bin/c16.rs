//! C16 correspondence harness: the real `HttpSymbolSupplier` against a scripted loopback
//! HTTP/1.1 server (tokio TcpListener, one request per connection).
//!
//! Case line (space separated); an optional first token kB | kD selects HttpSymbolSupplier::locate_file
//! for FileKind::Binary | ExtraDebugInfo instead of locate_symbols; <df> or <id> may be N (absent: the
//! code-info redirect lookup is tried first; requests without a query are then answered 302 + Location when
//! the server script has a 6th field J<hex location>, else 404):
//!   <df> <id> <cf> <ci>      debug_file (hex), debug id (breakpad text), code_file (hex), code id text
//!   <pre>                    pre-existing object at the cache path: - | F<hex> | D (a directory)
//!   <nloc> <loc>*            local symbol directories searched before the cache: - (no file) | F<hex>
//!   <env>                    n | c (cache root below a regular file) | t (tmp below a regular file)
//!                            | m (tmp directory missing) | w<bytes> (RLIMIT_FSIZE during the download)
//!                            | d (<cache>/<debug_file> is a regular file) | i (<cache>/<debug_file>/<id> is a regular file)
//!                            | x (the cache root does not exist yet: create_dir_all has to make every level)
//!   <drop>                   - | n: additionally run the lookup dropped after n polls
//!   <tmo>                    client timeout in ms
//!   <ns> <server>*           server = status;framing;cut;race;body
//!        framing  L[o1,o2..] Content-Length, flushed in pieces at the offsets
//!                 K[o1,o2..] chunked transfer encoding, chunk boundaries at the offsets
//!                 E          close-delimited (no length; EOF ends the body)
//!                 T[o1,o2..] chunked with chunk extensions (`;v=1`) and a trailer section after the last chunk
//!                 S[o1,o2..] Content-Length, slow: the response HEAD is sent in pieces too and the server sleeps 1 ms
//!                            between all pieces
//!                 M<decl>[,o1,o2..] Content-Length header says <decl> whatever the body's length is (all body bytes
//!                            are sent): decl < len = the client takes the first decl bytes for the complete body;
//!                            decl > len = the connection ends before the announced length
//!        cut      - | h (close without a response) | c<k> (FIN after k body bytes) | r<k> (RST after k bytes) | s<k> (stall after k bytes)
//!        race     - | R<hex>: on receiving the request the server writes this file at the cache path
//!                 (another process finishing first)
//!        body     hex | -
//!        optional 6th field: J<hex location> (code-info lookup, see above) or
//!                 V<code>:<hex loc1>[:<hex loc2>..]  download redirect chain: the .sym request is answered
//!                 `<code>` (301/302/303/307/308) + `Location: loc1`, the request for loc1 with a redirect to loc2 ...,
//!                 the request for the last location gets the scripted response.  `PORTSELF` in a location is
//!                 replaced by this server's port (absolute URLs).  Follow-up requests are logged with a '>' in
//!                 front of their target.
//! In-process concurrency (round 5, second pass): first token kS<n>: ONE `Symbolizer` over the HttpSymbolSupplier (wrapped in a
//!   recording supplier), n concurrent `fill_symbol` calls for the same module in one `join_all`.  The blocks are as usual
//!   (r= is the result of the supplier call) plus `k=<number of supplier calls>:<classes of the n fill results>`.
//!   `kS<n> kB ..` / `kS<n> kD ..`: n concurrent locate_file calls on ONE HttpSymbolSupplier (its own slot per (module, kind));
//!   k=<number of distinct answers>:<k for an answer equal to the first, e otherwise>.
//!   A location of a redirect chain that ends in `LOOP` redirects to itself for ever (the client gives up).
//! Shared-cache histories (round 4): first token kM:
//!   kM <df> <id> <cf> <ci> <pre> <tmo> <nc> <server script>*nc <schedule>
//!   nc clients (one HttpSymbolSupplier each, client i talks to server i only) share ONE cache directory and ONE
//!   tmp directory and look up the same module.  Every server holds its response back until the schedule releases
//!   it; the schedule is a ','-joined list of tokens <i><op>:
//!     S start client i now (clients without an S token start together before the first token)
//!     H send the response head (status line + headers) of server i; settled when the client has reacted
//!       (temp file created / lookup finished)
//!     B send the first half of the (possibly cut) body
//!     E send the rest of the response and end it as scripted (clean end, FIN, RST); settled when client i finished
//!     D drop client i's future now (abandoned request)
//!   After every token the directories are snapshotted.  Answer:
//!   S{n=<tokens> s0=<cache tree>/<tmp sizes>/<finished clients bitmask> ..} (s0: after the clients started, s<k>: after token k) R{r0=<result>/<#requests> ..}
//!   F{c= t=} (after all clients finished) B{r= q= c= t=} (a further supplier with every server answering 404)
//! Answer: A{..}B{..}[X{..}Y{..}] polls=<n>
//!   A first lookup run to completion, B second lookup with every server answering 404,
//!   X the lookup dropped at a poll boundary, Y a second lookup after the drop.
//!   {r=<result> q=<request log> c=<cache tree> t=<tmp tree> d=<leaf dir exists>}
//!   result: OK:<nfuncs>:<npublics>:<url hex|N>:<table crc> | E:NotFound | E:Parse | E:Load | E:Missing | DROPPED
//!   request log: <server>:<hex of request target> joined by ','
//!   tree: <relative path hex>:<len>:<crc32 of content, port numbers canonicalised> joined by ','
use breakpad_symbols::{FileKind, HttpSymbolSupplier, SimpleModule, SymbolError, SymbolFile, SymbolSupplier};
use debugid::{CodeId, DebugId};
use std::future::Future;
use std::path::{Path, PathBuf};
use std::pin::Pin;
use std::sync::atomic::{AtomicBool, AtomicUsize, Ordering};
use std::sync::{Arc, Mutex};
use std::task::{Context, Poll};
use std::time::Duration;
use tokio::io::{AsyncReadExt, AsyncWriteExt};
use tokio::net::{TcpListener, TcpStream};
use vharness::*;

fn crc32(data: &[u8]) -> u32 {
    let mut crc = 0xffff_ffffu32;
    for &b in data {
        crc ^= b as u32;
        for _ in 0..8 {
            crc = if crc & 1 != 0 { (crc >> 1) ^ 0xedb8_8320 } else { crc >> 1 };
        }
    }
    !crc
}

#[derive(Clone)]
enum Cut {
    None,
    Fin(usize),
    Rst(usize),
    Stall(usize),
    NoHead,
}
#[derive(Clone)]
enum Framing {
    Len(Vec<usize>),
    Chunked(Vec<usize>),
    Eof,
}
#[derive(Clone)]
struct Script {
    status: u32,
    trailers: bool,
    slow: bool,
    decl: Option<usize>,
    framing: Framing,
    cut: Cut,
    race: Option<Vec<u8>>,
    body: Vec<u8>,
    redirect: Option<String>,
    dl_redirect: Option<(u32, Vec<String>)>,
}

fn offs(s: &str) -> Vec<usize> {
    if s.is_empty() {
        vec![]
    } else {
        s.split(',').map(|x| x.parse().expect("offset")).collect()
    }
}

fn parse_script(s: &str) -> Script {
    let p: Vec<&str> = s.split(';').collect();
    assert!(p.len() == 5 || p.len() == 6, "server script");
    let mut decl = None;
    let framing = match &p[1][..1] {
        "L" | "S" => Framing::Len(offs(&p[1][1..])),
        "K" | "T" => Framing::Chunked(offs(&p[1][1..])),
        "E" => Framing::Eof,
        "M" => {
            let mut o = offs(&p[1][1..]);
            assert!(!o.is_empty(), "M framing needs the declared length");
            decl = Some(o.remove(0));
            Framing::Len(o)
        }
        _ => panic!("framing"),
    };
    let trailers = &p[1][..1] == "T";
    let slow = &p[1][..1] == "S";
    let cut = match p[2] {
        "-" => Cut::None,
        "h" => Cut::NoHead,
        c => {
            let k: usize = c[1..].parse().expect("cut");
            match &c[..1] {
                "c" => Cut::Fin(k),
                "r" => Cut::Rst(k),
                "s" => Cut::Stall(k),
                _ => panic!("cut"),
            }
        }
    };
    let race = if p[3] == "-" { None } else { Some(unhex(&p[3][1..])) };
    let redirect = if p.len() == 6 && p[5].starts_with('J') { Some(String::from_utf8(unhex(&p[5][1..])).expect("utf8")) } else { None };
    let dl_redirect = if p.len() == 6 && p[5].starts_with('V') {
        let mut it = p[5][1..].split(':');
        let code: u32 = it.next().expect("redirect code").parse().expect("redirect code");
        let locs: Vec<String> = it.map(|h| String::from_utf8(unhex(h)).expect("utf8")).collect();
        assert!(!locs.is_empty(), "redirect chain");
        Some((code, locs))
    } else {
        None
    };
    assert!(p.len() == 5 || redirect.is_some() || dl_redirect.is_some(), "6th field");
    Script { status: p[0].parse().expect("status"), trailers, slow, decl, framing, cut, race, body: unhex(p[4]), redirect, dl_redirect }
}

struct Shared {
    off: AtomicBool,
    log: Mutex<Vec<(usize, String)>>,
    race_path: PathBuf,
    code_info: bool,
    gates: Option<Gates>,
}

/// Release points of the gated servers of a shared-cache history (one slot per client/server index).
struct Gates {
    stage: Vec<std::sync::atomic::AtomicU8>, // 0 hold, 1 head released, 2 first half of the body released, 3 everything
    req: Vec<AtomicBool>,                     // the request has arrived
    sent: Vec<std::sync::atomic::AtomicU8>,   // what the server has flushed so far (same scale as stage)
}

async fn wait_stage(g: &Gates, idx: usize, want: u8) {
    while g.stage[idx].load(Ordering::SeqCst) < want {
        tokio::time::sleep(Duration::from_micros(500)).await;
    }
}

fn reason(status: u32) -> &'static str {
    match status {
        200 => "OK",
        404 => "Not Found",
        403 => "Forbidden",
        500 => "Internal Server Error",
        503 => "Service Unavailable",
        _ => "Status",
    }
}

async fn send_pieces(sock: &mut TcpStream, data: &[u8], cuts: &[usize], slow: bool) -> std::io::Result<()> {
    let mut at = 0usize;
    for &c in cuts.iter().chain(std::iter::once(&data.len())) {
        let c = c.min(data.len());
        if c > at {
            sock.write_all(&data[at..c]).await?;
            sock.flush().await?;
            at = c;
            tokio::task::yield_now().await;
            tokio::task::yield_now().await;
            if slow {
                tokio::time::sleep(Duration::from_millis(1)).await;
            }
        }
    }
    Ok(())
}

async fn serve_conn(mut sock: TcpStream, idx: usize, script: Script, sh: Arc<Shared>) -> std::io::Result<()> {
    let _ = sock.set_nodelay(true);
    let mut head = Vec::new();
    let mut buf = [0u8; 2048];
    loop {
        let n = sock.read(&mut buf).await?;
        if n == 0 {
            return Ok(());
        }
        head.extend_from_slice(&buf[..n]);
        if head.windows(4).any(|w| w == b"\r\n\r\n") {
            break;
        }
        if head.len() > 65536 {
            return Ok(());
        }
    }
    let first = head.split(|&b| b == b'\r').next().unwrap_or(&[]);
    let first = String::from_utf8_lossy(first).to_string();
    let target = first.split(' ').nth(1).unwrap_or("").to_string();
    // download redirect chain: which hop is this request?
    let self_port = sock.local_addr().map(|a| a.port()).unwrap_or(0);
    let locs: Vec<String> = match &script.dl_redirect {
        Some((_, l)) => l.iter().map(|x| x.replace("PORTSELF", &self_port.to_string())).collect(),
        None => vec![],
    };
    let path_of = |l: &str| -> String {
        // request target of a location: absolute URLs lose scheme and authority
        match l.find("://") {
            Some(k) => match l[k + 3..].find('/') {
                Some(j) => l[k + 3 + j..].to_string(),
                None => "/".to_string(),
            },
            None => l.to_string(),
        }
    };
    let hop = locs.iter().rposition(|l| path_of(l) == target).map(|k| k + 1).unwrap_or(0);
    sh.log.lock().unwrap().push((idx, if hop > 0 { format!(">{}", target) } else { target.clone() }));
    if sh.code_info && !target.contains('?') {
        // code-info lookup (<code_file>/<code_id>/<code_file>.sym, no query): redirect or 404
        let resp = match &script.redirect {
            Some(loc) => format!("HTTP/1.1 302 Found\r\nLocation: {}\r\nContent-Length: 0\r\nConnection: close\r\n\r\n", loc),
            None => "HTTP/1.1 404 Not Found\r\nContent-Length: 0\r\nConnection: close\r\n\r\n".to_string(),
        };
        sock.write_all(resp.as_bytes()).await?;
        sock.shutdown().await?;
        return Ok(());
    }
    if sh.off.load(Ordering::SeqCst) {
        sock.write_all(b"HTTP/1.1 404 Not Found\r\nContent-Length: 0\r\nConnection: close\r\n\r\n").await?;
        sock.shutdown().await?;
        return Ok(());
    }
    if let Some((code, _)) = &script.dl_redirect {
        if target.ends_with("LOOP") {
            let resp = format!("HTTP/1.1 {} Redirect\r\nLocation: {}\r\nContent-Length: 0\r\nConnection: close\r\n\r\n", code, target);
            sock.write_all(resp.as_bytes()).await?;
            sock.shutdown().await?;
            return Ok(());
        }
        if hop < locs.len() {
            let resp = format!("HTTP/1.1 {} Redirect\r\nLocation: {}\r\nContent-Length: 0\r\nConnection: close\r\n\r\n", code, locs[hop]);
            sock.write_all(resp.as_bytes()).await?;
            sock.shutdown().await?;
            return Ok(());
        }
    }
    if let Some(content) = &script.race {
        if let Some(parent) = sh.race_path.parent() {
            let _ = std::fs::create_dir_all(parent);
        }
        let _ = std::fs::write(&sh.race_path, content);
    }
    if let Some(g) = &sh.gates {
        g.req[idx].store(true, Ordering::SeqCst);
        if let Cut::NoHead = script.cut {
            wait_stage(g, idx, 1).await;
            g.sent[idx].store(3, Ordering::SeqCst);
        }
    }
    if let Cut::NoHead = script.cut {
        // close without answering: the client's send() fails
        return Ok(());
    }
    let body = &script.body;
    let (limit, after) = match script.cut {
        Cut::NoHead => unreachable!(),
        Cut::None => (body.len(), 0),
        Cut::Fin(k) => (k.min(body.len()), 1),
        Cut::Rst(k) => (k.min(body.len()), 2),
        Cut::Stall(k) => (k.min(body.len()), 3),
    };
    let mut wire: Vec<u8> = Vec::new();
    let mut cuts: Vec<usize> = Vec::new();
    let headline = format!("HTTP/1.1 {} {}\r\nContent-Type: text/plain\r\nConnection: close\r\n", script.status, reason(script.status));
    match &script.framing {
        Framing::Len(o) => {
            wire.extend_from_slice(format!("{}Content-Length: {}\r\n\r\n", headline, script.decl.unwrap_or(body.len())).as_bytes());
            let h = wire.len();
            cuts.push(h);
            for &x in o {
                if x < limit {
                    cuts.push(h + x);
                }
            }
            wire.extend_from_slice(&body[..limit]);
        }
        Framing::Eof => {
            wire.extend_from_slice(format!("{}\r\n", headline).as_bytes());
            cuts.push(wire.len());
            wire.extend_from_slice(&body[..limit]);
        }
        Framing::Chunked(o) => {
            wire.extend_from_slice(format!("{}{}Transfer-Encoding: chunked\r\n\r\n", headline, if script.trailers { "Trailer: X-Sum, X-Note\r\n" } else { "" }).as_bytes());
            cuts.push(wire.len());
            let head_len = wire.len();
            let mut bounds: Vec<usize> = o.iter().cloned().filter(|&x| x > 0 && x < body.len()).collect();
            bounds.push(body.len());
            bounds.sort();
            bounds.dedup();
            let mut at = 0usize;
            let mut cut_pos = head_len; // wire position just after `limit` payload bytes
            for &b in &bounds {
                if b <= at {
                    continue;
                }
                if script.trailers && (cuts.len() % 2 == 1) {
                    wire.extend_from_slice(format!("{:x};v=1;name=\"a b\"\r\n", b - at).as_bytes());
                } else {
                    wire.extend_from_slice(format!("{:x}\r\n", b - at).as_bytes());
                }
                for j in at..b {
                    wire.push(body[j]);
                    if j + 1 == limit {
                        cut_pos = wire.len();
                    }
                }
                wire.extend_from_slice(b"\r\n");
                cuts.push(wire.len());
                at = b;
            }
            if script.trailers {
                wire.extend_from_slice(b"0;last\r\nX-Sum: 0123456789abcdef\r\nX-Note: INFO URL http://trailer.example/x\r\n\r\n");
            } else {
                wire.extend_from_slice(b"0\r\n\r\n");
            }
            if after != 0 {
                wire.truncate(cut_pos);
            }
        }
    }
    if let Some(g) = &sh.gates {
        let head_len = cuts[0].min(wire.len());
        let mid = head_len + (wire.len() - head_len) / 2;
        wait_stage(g, idx, 1).await;
        sock.write_all(&wire[..head_len]).await?;
        sock.flush().await?;
        g.sent[idx].store(1, Ordering::SeqCst);
        let mut at = head_len;
        loop {
            wait_stage(g, idx, 2).await;
            if g.stage[idx].load(Ordering::SeqCst) >= 3 {
                break;
            }
            if at < mid {
                sock.write_all(&wire[at..mid]).await?;
                sock.flush().await?;
                at = mid;
            }
            g.sent[idx].store(2, Ordering::SeqCst);
            wait_stage(g, idx, 3).await;
        }
        let rest: Vec<usize> = cuts.iter().filter(|&&c| c > at).map(|&c| c - at).collect();
        let r = send_pieces(&mut sock, &wire[at..], &rest, false).await;
        g.sent[idx].store(3, Ordering::SeqCst);
        r?;
    } else {
        if script.slow {
            // the head dribbles in as well: inside the status line, inside a header name, before the blank line
            let h = cuts[0];
            let mut c2: Vec<usize> = vec![7, 19, h.saturating_sub(2)].into_iter().filter(|&x| x > 0 && x < h).collect();
            c2.extend_from_slice(&cuts);
            cuts = c2;
        }
        send_pieces(&mut sock, &wire, &cuts, script.slow).await?;
    }
    match after {
        0 | 1 => {
            sock.shutdown().await?;
            // wait for the peer to close so that no data is lost to an early RST
            let _ = tokio::time::timeout(Duration::from_millis(2000), sock.read(&mut buf)).await;
        }
        2 => {
            let _ = sock.set_linger(Some(Duration::from_secs(0)));
            drop(sock);
        }
        _ => {
            // stall: keep the connection open until the peer gives up
            let _ = tokio::time::timeout(Duration::from_millis(20000), sock.read(&mut buf)).await;
        }
    }
    Ok(())
}

/// One listening socket per server index for the whole life of this process (every child process has
/// its own ports). Binding a fresh ephemeral port per case leaves thousands of ports in TIME_WAIT and
/// exhausts the ephemeral range when checks run back to back.
static POOL: Mutex<Vec<std::net::TcpListener>> = Mutex::new(Vec::new());

async fn start_server(idx: usize, script: Script, sh: Arc<Shared>) -> (u16, tokio::task::JoinHandle<()>) {
    let std_l = {
        let mut pool = POOL.lock().unwrap();
        while pool.len() <= idx {
            let mut tries = 0;
            let l = loop {
                match std::net::TcpListener::bind("127.0.0.1:0") {
                    Ok(l) => break l,
                    Err(e) if tries < 300 => {
                        let _ = e;
                        tries += 1;
                        std::thread::sleep(Duration::from_millis(200));
                    }
                    Err(e) => panic!("bind loopback: {:?}", e),
                }
            };
            l.set_nonblocking(true).expect("nonblocking");
            pool.push(l);
        }
        // connections left over from the previous case (never accepted there) must not reach this script
        while pool[idx].accept().is_ok() {}
        pool[idx].try_clone().expect("clone listener")
    };
    let port = std_l.local_addr().unwrap().port();
    let l = TcpListener::from_std(std_l).expect("listener into runtime");
    let h = tokio::spawn(async move {
        loop {
            match l.accept().await {
                Ok((sock, _)) => {
                    let sc = script.clone();
                    let s2 = sh.clone();
                    tokio::spawn(async move {
                        let _ = serve_conn(sock, idx, sc, s2).await;
                    });
                }
                Err(_) => break,
            }
        }
    });
    (port, h)
}

/// Polls the inner future at most `limit` times; at the next poll boundary the future is
/// dropped (inside `poll`, before anything else runs) and `None` is returned.
struct DropAfter<F> {
    fut: Option<Pin<Box<F>>>,
    left: Option<usize>,
    polls: Arc<AtomicUsize>,
    /// tmp directory and the number of files seen in it just before the drop
    probe: PathBuf,
    inflight: Arc<AtomicUsize>,
}
impl<F: Future> Future for DropAfter<F> {
    type Output = Option<F::Output>;
    fn poll(mut self: Pin<&mut Self>, cx: &mut Context<'_>) -> Poll<Self::Output> {
        if let Some(0) = self.left {
            let n = std::fs::read_dir(&self.probe).map(|r| r.count()).unwrap_or(0);
            self.inflight.store(n, Ordering::SeqCst);
            self.fut = None; // the drop: RAII cleanup of everything the future owns runs here
            return Poll::Ready(None);
        }
        if let Some(n) = self.left.as_mut() {
            *n -= 1;
        }
        self.polls.fetch_add(1, Ordering::SeqCst);
        match self.fut.as_mut().expect("polled after completion").as_mut().poll(cx) {
            Poll::Ready(v) => {
                self.fut = None;
                Poll::Ready(Some(v))
            }
            Poll::Pending => Poll::Pending,
        }
    }
}

fn table_digest(s: &SymbolFile) -> u32 {
    let mut files: Vec<_> = s.files.iter().collect();
    files.sort();
    let mut origins: Vec<_> = s.inline_origins.iter().collect();
    origins.sort();
    let text = format!(
        "{:?}|{:?}|{:?}|{:?}|{:?}|{:?}|{:?}|{:?}|{:?}",
        s.module_id, s.debug_file, files, origins, s.publics, s.functions, s.cfi_stack_info,
        s.win_stack_framedata_info, s.win_stack_fpo_info
    );
    crc32(text.as_bytes())
}

fn canon_ports(data: &[u8], ports: &[u16]) -> Vec<u8> {
    let mut out = data.to_vec();
    for (i, p) in ports.iter().enumerate() {
        let from = format!("127.0.0.1:{}/", p).into_bytes();
        let to = format!("127.0.0.1:PORT{}/", i).into_bytes();
        let mut res = Vec::with_capacity(out.len());
        let mut j = 0;
        while j < out.len() {
            if out[j..].starts_with(&from) {
                res.extend_from_slice(&to);
                j += from.len();
            } else {
                res.push(out[j]);
                j += 1;
            }
        }
        out = res;
    }
    out
}

fn tree(root: &Path, ports: &[u16]) -> String {
    fn walk(dir: &Path, root: &Path, ports: &[u16], out: &mut Vec<String>) {
        let rd = match std::fs::read_dir(dir) {
            Ok(r) => r,
            Err(_) => return,
        };
        for e in rd.flatten() {
            let p = e.path();
            let md = match std::fs::symlink_metadata(&p) {
                Ok(m) => m,
                Err(_) => continue,
            };
            if md.is_dir() {
                walk(&p, root, ports, out);
            } else {
                let rel = p.strip_prefix(root).unwrap().to_string_lossy().to_string();
                let data = std::fs::read(&p).unwrap_or_default();
                let c = canon_ports(&data, ports);
                out.push(format!("{}:{}:{}", hex(rel.as_bytes()), c.len(), crc32(&c)));
            }
        }
    }
    let mut v = Vec::new();
    walk(root, root, ports, &mut v);
    v.sort();
    if v.is_empty() {
        "-".into()
    } else {
        v.join(",")
    }
}

fn tmp_tree(root: &Path) -> String {
    // temp names are random: report only how many regular files there are and their sizes
    fn walk(dir: &Path, out: &mut Vec<u64>) {
        if let Ok(rd) = std::fs::read_dir(dir) {
            for e in rd.flatten() {
                let p = e.path();
                if let Ok(md) = std::fs::symlink_metadata(&p) {
                    if md.is_dir() {
                        walk(&p, out);
                    } else {
                        out.push(md.len());
                    }
                }
            }
        }
    }
    let mut v = Vec::new();
    walk(root, &mut v);
    v.sort();
    if v.is_empty() {
        "-".into()
    } else {
        v.iter().map(|x| x.to_string()).collect::<Vec<_>>().join(",")
    }
}

fn result_text(r: &Result<breakpad_symbols::LocateSymbolsResult, SymbolError>, ports: &[u16]) -> String {
    match r {
        Ok(l) => {
            let s = &l.symbols;
            let url = match &s.url {
                Some(u) => hex(&canon_ports(u.as_bytes(), ports)),
                None => "N".into(),
            };
            let nf = s.functions.ranges_values().count();
            let extra = match &l.extra_debug_info {
                Some(e) => format!(":x{}", hex(format!("{} {}", e.debug_file, e.debug_identifier.breakpad()).as_bytes())),
                None => String::new(),
            };
            format!("OK:{}:{}:{}:{}{}", nf, s.publics.len(), url, table_digest(s), extra)
        }
        Err(SymbolError::NotFound) => "E:NotFound".into(),
        Err(SymbolError::ParseError(..)) => "E:Parse".into(),
        Err(SymbolError::LoadError(_)) => "E:Load".into(),
        Err(SymbolError::MissingDebugFileOrId) => "E:Missing".into(),
    }
}

async fn do_lookup(s: &HttpSymbolSupplier, m: &SimpleModule, kind: Option<FileKind>, ports: &[u16], cache: &Path) -> String {
    match kind {
        None => result_text(&s.locate_symbols(m).await, ports),
        Some(k) => match s.locate_file(m, k).await {
            Ok(p) => match p.strip_prefix(cache) {
                Ok(rel) => format!("OK:{}", hex(rel.to_string_lossy().as_bytes())),
                Err(_) => format!("OK:L{}", hex(p.file_name().map(|n| n.to_string_lossy().to_string()).unwrap_or_default().as_bytes())),
            },
            Err(_) => "E:NotFound".into(),
        },
    }
}

/// The HttpSymbolSupplier behind a `Symbolizer`: every call of locate_symbols is counted and its result recorded.
struct Recording {
    inner: HttpSymbolSupplier,
    ports: Vec<u16>,
    calls: Arc<AtomicUsize>,
    last: Arc<Mutex<Option<String>>>,
}
#[async_trait::async_trait]
impl SymbolSupplier for Recording {
    async fn locate_symbols(&self, module: &(dyn breakpad_symbols::Module + Sync)) -> Result<breakpad_symbols::LocateSymbolsResult, SymbolError> {
        self.calls.fetch_add(1, Ordering::SeqCst);
        let r = self.inner.locate_symbols(module).await;
        *self.last.lock().unwrap() = Some(result_text(&r, &self.ports));
        r
    }
    async fn locate_file(&self, module: &(dyn breakpad_symbols::Module + Sync), file_kind: FileKind) -> Result<PathBuf, breakpad_symbols::FileError> {
        self.inner.locate_file(module, file_kind).await
    }
}

/// n concurrent lookups of the same module on ONE Symbolizer (its per-module slot decides who calls the supplier).
async fn do_concurrent(s: HttpSymbolSupplier, m: &SimpleModule, n: usize, ports: &[u16], kind: Option<FileKind>, cache: &Path) -> String {
    if kind.is_some() {
        // files: the HttpSymbolSupplier's own slot per (module, kind) in front of its fetch closure; n concurrent locate_file
        // calls on ONE supplier.  k=<number of distinct answers>:<k per answer equal to the first, e otherwise>
        let s = &s;
        let futs = (0..n).map(|_| do_lookup(s, m, kind, ports, cache));
        let rs: Vec<String> = futures_util::future::join_all(futs).await;
        let mut distinct: Vec<&String> = rs.iter().collect();
        distinct.sort();
        distinct.dedup();
        let marks: String = rs.iter().map(|r| if *r == rs[0] { 'k' } else { 'e' }).collect();
        return format!("{} k={}:{}", rs[0], distinct.len(), marks);
    }
    let calls = Arc::new(AtomicUsize::new(0));
    let last = Arc::new(Mutex::new(None));
    let sym = breakpad_symbols::Symbolizer::new(Recording { inner: s, ports: ports.to_vec(), calls: calls.clone(), last: last.clone() });
    let sym = &sym;
    let futs = (0..n).map(|i| async move {
        let mut f = breakpad_symbols::SimpleFrame::with_instruction(0x1000 + i as u64);
        match sym.fill_symbol(m, &mut f).await {
            Ok(()) => "k",
            Err(_) => "e",
        }
    });
    let rs: Vec<&str> = futures_util::future::join_all(futs).await;
    let r = last.lock().unwrap().clone().unwrap_or_else(|| "NOCALL".into());
    format!("{} k={}:{}", r, calls.load(Ordering::SeqCst), rs.concat())
}

struct Case {
    conc: usize,
    kind: Option<FileKind>,
    df: Option<String>,
    id: Option<String>,
    cf: String,
    ci: String,
    pre: String,
    locs: Vec<String>,
    env: String,
    drop: Option<usize>,
    tmo: u64,
    servers: Vec<Script>,
}

fn parse_case(line: &str) -> Case {
    let mut t = Toks::new(line);
    let mut first = t.str();
    let mut conc = 0usize;
    if let Some(n) = first.strip_prefix("kS") {
        conc = n.parse().expect("kS<n>");
        first = t.str();
    }
    let kind = match first {
        "kB" => Some(FileKind::Binary),
        "kD" => Some(FileKind::ExtraDebugInfo),
        _ => None,
    };
    if kind.is_some() {
        first = t.str();
    }
    let df = if first == "N" { None } else { Some(String::from_utf8(unhex(first)).expect("utf8")) };
    let id = match t.str() {
        "N" => None,
        x => Some(x.to_string()),
    };
    let cf = String::from_utf8(unhex(t.str())).expect("utf8");
    let ci = t.str().to_string();
    let pre = t.str().to_string();
    let nloc = t.usize();
    let locs = (0..nloc).map(|_| t.str().to_string()).collect();
    let env = t.str().to_string();
    let drop = match t.str() {
        "-" => None,
        n => Some(n.parse().expect("drop")),
    };
    let tmo = t.u64();
    let ns = t.usize();
    let servers = (0..ns).map(|_| parse_script(t.str())).collect();
    Case { conc, kind, df, id, cf, ci, pre, locs, env, drop, tmo, servers }
}

static COUNTER: AtomicUsize = AtomicUsize::new(0);

struct Dirs {
    base: PathBuf,
    cache: PathBuf,
    tmp: PathBuf,
    locals: Vec<PathBuf>,
    rel: PathBuf,
}

fn make_module(c: &Case) -> SimpleModule {
    SimpleModule::from_basic_info(
        c.df.clone(),
        c.id.as_ref().map(|i| DebugId::from_breakpad(i).expect("debug id")),
        Some(c.cf.clone()),
        if c.ci == "N" { None } else { Some(CodeId::new(c.ci.clone())) },
    )
}

fn rel_path(c: &Case) -> PathBuf {
    match (c.kind, &c.df, &c.id) {
        (None, Some(df), Some(id)) => {
            // <debug_file>/<ID>/<debug_file with .sym>; the oracle recomputes this independently
            let leaf = df.rsplit(['/', '\\']).next().unwrap().to_string();
            let stem = if leaf.to_lowercase().ends_with(".pdb") { leaf[..leaf.len() - 4].to_string() } else { leaf.clone() };
            PathBuf::from(&leaf).join(id).join(format!("{}.sym", stem))
        }
        (Some(k), _, _) => match breakpad_symbols::lookup(&make_module(c), k) {
            // where a pre-existing binary / debug file is planted: the code's own lookup path
            Some(l) => PathBuf::from(l.cache_rel),
            None => PathBuf::from("no-lookup-path"),
        },
        _ => PathBuf::from("no-debug-info"),
    }
}

fn setup_dirs(c: &Case) -> Dirs {
    let n = COUNTER.fetch_add(1, Ordering::SeqCst);
    let base = PathBuf::from(format!("/verif/.cache/run/c16/{}-{}", std::process::id(), n));
    let _ = std::fs::remove_dir_all(&base);
    std::fs::create_dir_all(&base).expect("mkdir base");
    std::fs::write(base.join("blk"), b"x").unwrap();
    let rel = rel_path(c);
    let cache = if c.env == "c" { base.join("blk").join("cache") } else { base.join("cache") };
    let tmp = if c.env == "t" { base.join("blk").join("tmp") } else { base.join("tmp") };
    if c.env != "c" && c.env != "x" {
        std::fs::create_dir_all(&cache).unwrap();
    }
    if c.env == "d" || c.env == "i" {
        // a regular file where create_cache_file needs a directory
        let comps: Vec<_> = rel.components().collect();
        if comps.len() >= 3 {
            let mut p = cache.join(comps[0]);
            if c.env == "i" {
                std::fs::create_dir_all(&p).unwrap();
                p = p.join(comps[1]);
            }
            std::fs::write(&p, b"x").unwrap();
        }
    }
    if c.env != "t" && c.env != "m" {
        std::fs::create_dir_all(&tmp).unwrap();
    }
    if c.env != "c" && c.env != "x" && c.env != "d" && c.env != "i" {
        let p = cache.join(&rel);
        if c.pre == "D" {
            std::fs::create_dir_all(&p).unwrap();
        } else if let Some(h) = c.pre.strip_prefix('F') {
            std::fs::create_dir_all(p.parent().unwrap()).unwrap();
            std::fs::write(&p, unhex(h)).unwrap();
        }
    }
    let mut locals = Vec::new();
    for (i, l) in c.locs.iter().enumerate() {
        let d = base.join(format!("local{}", i));
        std::fs::create_dir_all(&d).unwrap();
        if let Some(h) = l.strip_prefix('F') {
            let p = d.join(&rel);
            std::fs::create_dir_all(p.parent().unwrap()).unwrap();
            std::fs::write(&p, unhex(h)).unwrap();
        }
        locals.push(d);
    }
    Dirs { base, cache, tmp, locals, rel }
}

fn set_fsize(limit: Option<u64>) {
    unsafe {
        let mut r = libc::rlimit { rlim_cur: 0, rlim_max: 0 };
        libc::getrlimit(libc::RLIMIT_FSIZE, &mut r);
        r.rlim_cur = match limit {
            Some(l) => l.min(r.rlim_max),
            None => r.rlim_max,
        };
        libc::setrlimit(libc::RLIMIT_FSIZE, &r);
    }
}

/// One scenario: first lookup (to completion or dropped after `drop` polls), then a second
/// lookup with the servers answering 404 only. Returns the two blocks and the number of polls.
fn scenario(c: &Case, drop_at: Option<usize>) -> (String, String, usize, bool, usize) {
    let d = setup_dirs(c);
    let rt = tokio::runtime::Builder::new_current_thread().enable_all().build().expect("runtime");
    let out = rt.block_on(async {
        let sh = Arc::new(Shared {
            off: AtomicBool::new(false),
            log: Mutex::new(Vec::new()),
            race_path: d.cache.join(&d.rel),
            code_info: c.kind.is_none() && (c.df.is_none() || c.id.is_none()),
            gates: None,
        });
        let mut ports = Vec::new();
        let mut handles = Vec::new();
        for (i, s) in c.servers.iter().enumerate() {
            let (p, h) = start_server(i, s.clone(), sh.clone()).await;
            ports.push(p);
            handles.push(h);
        }
        let urls: Vec<String> = ports.iter().map(|p| format!("http://127.0.0.1:{}/", p)).collect();
        let module = make_module(c);
        let block = |r: String, sh: &Shared| {
            let log: Vec<String> = sh.log.lock().unwrap().drain(..).map(|(i, t)| format!("{}:{}", i, hex(t.as_bytes()))).collect();
            let leaf = d.cache.join(&d.rel);
            let dir_exists = leaf.parent().map(|p| p.is_dir()).unwrap_or(false);
            format!(
                "r={} q={} c={} t={} d={}",
                r,
                if log.is_empty() { "-".to_string() } else { log.join(",") },
                tree(&d.cache, &ports),
                tmp_tree(&d.tmp),
                dir_exists as u8
            )
        };
        // ---- first lookup
        let polls = Arc::new(AtomicUsize::new(0));
        let inflight = Arc::new(AtomicUsize::new(0));
        let wlim = c.env.strip_prefix('w').map(|x| x.parse::<u64>().expect("wlim"));
        let (a, dropped) = {
            let supplier = HttpSymbolSupplier::new(urls.clone(), d.cache.clone(), d.tmp.clone(), d.locals.clone(), Duration::from_millis(c.tmo));
            if wlim.is_some() {
                set_fsize(wlim);
            }
            let fut: Pin<Box<dyn Future<Output = String> + '_>> = if c.conc > 0 {
                Box::pin(do_concurrent(supplier, &module, c.conc, &ports, c.kind, &d.cache))
            } else {
                Box::pin(do_lookup(&supplier, &module, c.kind, &ports, &d.cache))
            };
            let r = DropAfter { fut: Some(Box::pin(fut)), left: drop_at, polls: polls.clone(), probe: d.tmp.clone(), inflight: inflight.clone() }.await;
            if wlim.is_some() {
                set_fsize(None);
            }
            match r {
                Some(res) => (block(res, &sh), false),
                None => (block("DROPPED".into(), &sh), true),
            }
        };
        // ---- second lookup: servers only answer 404
        sh.off.store(true, Ordering::SeqCst);
        let b = {
            let supplier = HttpSymbolSupplier::new(urls.clone(), d.cache.clone(), d.tmp.clone(), d.locals.clone(), Duration::from_millis(c.tmo));
            let res = do_lookup(&supplier, &module, c.kind, &ports, &d.cache).await;
            block(res, &sh)
        };
        for h in handles {
            h.abort();
        }
        (a, b, polls.load(Ordering::SeqCst), dropped, inflight.load(Ordering::SeqCst))
    });
    drop(rt);
    let _ = std::fs::remove_dir_all(&d.base);
    out
}

fn strip_q(block: &str) -> String {
    // the request log of a dropped run depends on timing: leave it out
    block.split(' ').filter(|f| !f.starts_with("q=")).collect::<Vec<_>>().join(" ")
}

/// Shared-cache history: see the module comment (kM).
fn run_multi(line: &str) -> String {
    let mut t = Toks::new(line);
    assert_eq!(t.str(), "kM");
    let df = String::from_utf8(unhex(t.str())).expect("utf8");
    let id = t.str().to_string();
    let cf = String::from_utf8(unhex(t.str())).expect("utf8");
    let ci = t.str().to_string();
    let pre = t.str().to_string();
    let tmo = t.u64();
    let nc = t.usize();
    let servers: Vec<Script> = (0..nc).map(|_| parse_script(t.str())).collect();
    let sched: Vec<(usize, char)> = t
        .str()
        .split(',')
        .filter(|x| !x.is_empty() && *x != "-")
        .map(|x| (x[..x.len() - 1].parse().expect("client"), x.chars().last().unwrap()))
        .collect();
    let c = Case { conc: 0, kind: None, df: Some(df), id: Some(id), cf, ci, pre, locs: vec![], env: "n".into(), drop: None, tmo, servers };
    let d = setup_dirs(&c);
    let rt = tokio::runtime::Builder::new_current_thread().enable_all().build().expect("runtime");
    let out = rt.block_on(async {
        use std::sync::atomic::AtomicU8;
        let sh = Arc::new(Shared {
            off: AtomicBool::new(false),
            log: Mutex::new(Vec::new()),
            race_path: d.cache.join(&d.rel),
            code_info: false,
            gates: Some(Gates {
                stage: (0..nc).map(|_| AtomicU8::new(0)).collect(),
                req: (0..nc).map(|_| AtomicBool::new(false)).collect(),
                sent: (0..nc).map(|_| AtomicU8::new(0)).collect(),
            }),
        });
        let g = sh.gates.as_ref().unwrap();
        let mut ports = Vec::new();
        let mut handles = Vec::new();
        for (i, s) in c.servers.iter().enumerate() {
            let (p, h) = start_server(i, s.clone(), sh.clone()).await;
            ports.push(p);
            handles.push(h);
        }
        let urls: Vec<String> = ports.iter().map(|p| format!("http://127.0.0.1:{}/", p)).collect();
        let mut clients: Vec<Option<tokio::task::JoinHandle<String>>> = (0..nc).map(|_| None).collect();
        let mut results: Vec<Option<String>> = vec![None; nc];
        let spawn_client = |i: usize| {
            let supplier = HttpSymbolSupplier::new(vec![urls[i].clone()], d.cache.clone(), d.tmp.clone(), vec![], Duration::from_millis(c.tmo));
            let module = make_module(&c);
            let ports = ports.clone();
            let cache = d.cache.clone();
            tokio::spawn(async move { do_lookup(&supplier, &module, None, &ports, &cache).await })
        };
        let tick = || tokio::time::sleep(Duration::from_micros(500));
        // a client is "settled" when it finished, or (request phase) its request has reached its server
        macro_rules! finished {
            ($i:expr) => {
                results[$i].is_some() || clients[$i].as_ref().map(|h| h.is_finished()).unwrap_or(false)
            };
        }
        let explicit: Vec<usize> = sched.iter().filter(|(_, op)| *op == 'S').map(|(i, _)| *i).collect();
        for i in 0..nc {
            if !explicit.contains(&i) {
                clients[i] = Some(spawn_client(i));
            }
        }
        for i in 0..nc {
            if clients[i].is_some() {
                let mut n = 0;
                while !(g.req[i].load(Ordering::SeqCst) || finished!(i)) && n < 4000 {
                    tick().await;
                    n += 1;
                }
            }
        }
        // number of directory entries under tmp/ and (recursively) under cache/: a client that reacted to a
        // response head has created its temp file (wherever it puts it) or the leaf directory
        fn count(dir: &Path) -> usize {
            std::fs::read_dir(dir).map(|r| r.flatten().map(|e| 1 + if e.path().is_dir() { count(&e.path()) } else { 0 }).sum()).unwrap_or(0)
        }
        let ntmp = |d: &Dirs| count(&d.tmp) + count(&d.cache);
        let mut snaps: Vec<String> = Vec::new();
        for j in 0..nc {
            if results[j].is_none() && clients[j].as_ref().map(|h| h.is_finished()).unwrap_or(false) {
                results[j] = Some(clients[j].take().unwrap().await.unwrap_or_else(|_| "P".into()));
            }
        }
        let mask0: usize = (0..nc).filter(|&j| results[j].is_some()).map(|j| 1 << j).sum();
        snaps.push(format!("{}/{}/{}", tree(&d.cache, &ports), tmp_tree(&d.tmp), mask0));
        for &(i, op) in &sched {
            assert!(i < nc, "client index");
            let before = ntmp(&d);
            match op {
                'S' => {
                    if clients[i].is_none() && results[i].is_none() {
                        clients[i] = Some(spawn_client(i));
                    }
                    let mut n = 0;
                    while !(g.req[i].load(Ordering::SeqCst) || finished!(i)) && n < 4000 {
                        tick().await;
                        n += 1;
                    }
                }
                'H' | 'B' | 'E' => {
                    let want: u8 = match op {
                        'H' => 1,
                        'B' => 2,
                        _ => 3,
                    };
                    if clients[i].is_some() && !finished!(i) && g.req[i].load(Ordering::SeqCst) {
                        if g.stage[i].load(Ordering::SeqCst) < want {
                            g.stage[i].store(want, Ordering::SeqCst);
                        }
                        let mut n = 0;
                        loop {
                            let sent = g.sent[i].load(Ordering::SeqCst);
                            let fin = finished!(i);
                            let ok = match op {
                                'H' => fin || (sent >= 1 && ntmp(&d) != before),
                                'B' => fin || sent >= 2,
                                _ => fin,
                            };
                            // the reaction to a head takes a few ms; E waits for the client's own timeout at most
                            if ok || n > (if op == 'E' { 2 * (c.tmo as usize + 1000) } else { 600 }) {
                                break;
                            }
                            tick().await;
                            n += 1;
                        }
                        if op == 'B' {
                            tokio::time::sleep(Duration::from_millis(3)).await;
                        }
                    }
                }
                'D' => {
                    if let Some(h) = clients[i].take() {
                        if h.is_finished() {
                            results[i] = Some(h.await.unwrap_or_else(|_| "P".into()));
                        } else {
                            h.abort();
                            let _ = h.await; // the future has been dropped when this returns
                            results[i] = Some("DROPPED".into());
                        }
                    }
                }
                _ => panic!("schedule op"),
            }
            // collect finished clients
            for j in 0..nc {
                if results[j].is_none() && clients[j].as_ref().map(|h| h.is_finished()).unwrap_or(false) {
                    results[j] = Some(clients[j].take().unwrap().await.unwrap_or_else(|_| "P".into()));
                }
            }
            let mask: usize = (0..nc).filter(|&j| results[j].is_some()).map(|j| 1 << j).sum();
            snaps.push(format!("{}/{}/{}", tree(&d.cache, &ports), tmp_tree(&d.tmp), mask));
        }
        // release everything that is still held back and let every started client finish
        for i in 0..nc {
            g.stage[i].store(3, Ordering::SeqCst);
        }
        for i in 0..nc {
            if let Some(h) = clients[i].take() {
                results[i] = Some(match tokio::time::timeout(Duration::from_millis(c.tmo + 2000), h).await {
                    Ok(r) => r.unwrap_or_else(|_| "P".into()),
                    Err(_) => "HUNG".into(),
                });
            }
        }
        let log: Vec<(usize, String)> = sh.log.lock().unwrap().drain(..).collect();
        let mut out = format!("S{{n={}", sched.len());
        for (k, s) in snaps.iter().enumerate() {
            out.push_str(&format!(" s{}={}", k, s));
        }
        out.push_str("}R{");
        for i in 0..nc {
            let nreq = log.iter().filter(|(j, _)| *j == i).count();
            out.push_str(&format!("{}r{}={}/{}", if i > 0 { " " } else { "" }, i, results[i].clone().unwrap_or_else(|| "NOTSTARTED".into()), nreq));
        }
        out.push_str(&format!("}}F{{c={} t={}}}", tree(&d.cache, &ports), tmp_tree(&d.tmp)));
        // a further client, every server answering 404: served from the cache or not at all
        sh.off.store(true, Ordering::SeqCst);
        let supplier = HttpSymbolSupplier::new(urls.clone(), d.cache.clone(), d.tmp.clone(), vec![], Duration::from_millis(c.tmo));
        let module = make_module(&c);
        let res = do_lookup(&supplier, &module, None, &ports, &d.cache).await;
        let nq = sh.log.lock().unwrap().drain(..).count();
        out.push_str(&format!("B{{r={} q={} c={} t={}}}", res, nq, tree(&d.cache, &ports), tmp_tree(&d.tmp)));
        for h in handles {
            h.abort();
        }
        out
    });
    drop(rt);
    let _ = std::fs::remove_dir_all(&d.base);
    out
}

fn run(line: &str) -> String {
    if line.starts_with("kM ") {
        return run_multi(line);
    }
    let c = parse_case(line);
    let (a, b, polls, _, _) = scenario(&c, None);
    let mut out = format!("A{{{}}}B{{{}}}", a, b);
    if let Some(n) = c.drop {
        // drop after (n mod polls-to-completion) polls so that the drop happens before
        // completion; timing may still vary between runs: retry, finally drop before the first poll
        let mut total = polls.max(1);
        let mut done = false;
        for attempt in 0..4 {
            let k = if attempt == 3 { 0 } else { n % total };
            let (x, y, p2, dropped, inflight) = scenario(&c, Some(k));
            if dropped {
                out.push_str(&format!("X{{{}}}Y{{{}}} dropat={} inflight={}", strip_q(&x), y, k, inflight));
                done = true;
                break;
            }
            total = p2.max(1);
        }
        assert!(done, "could not drop the future before completion");
    }
    out.push_str(&format!(" polls={}", polls));
    out
}

fn main() {
    unsafe {
        libc::signal(libc::SIGXFSZ, libc::SIG_IGN);
    }
    let _ = std::fs::create_dir_all("/verif/.cache/run/c16");
    for_each_case(run);
}
