//! C08 correspondence harness: builds every range table of the repository from the
//! case's (base,size,tag) entries and prints the table and the query answers.
//!   kind n (base size tag)*n m (query)*m
//! kinds: 0 generic trait (u32 values)     1 MinidumpModuleList      11 MinidumpMemoryList
//!        12 MinidumpMemoryInfoList (stream bytes)   2 MinidumpLinuxMaps (maps text)
//!        3 MinidumpUnloadedModuleList     4 FUNC records   41 STACK CFI INIT records
//!        5 line records of one FUNC    13-17 Memory64 / Unified* views    18 MinidumpModuleList::read (stream bytes)
//!        19 MinidumpUnloadedModuleList::read (stream bytes)   21 / 22 MinidumpMemoryList / MinidumpMemory64List ::read (stream bytes)
//!        23 MinidumpLinuxMaps::read on hostile address-field spellings (incl. values past 2^64)
//!        42/43 STACK WIN frame-data / FPO tables
use minidump::*;
use minidump_common::traits::IntoRangeMapSafe;
use range_map::Range;
use vharness::*;

fn mk_range(base: u64, size: u64) -> Option<Range<u64>> {
    if size == 0 {
        return None;
    }
    Some(Range::new(base, base.checked_add(size)? - 1))
}

fn fmt_gets(g: &[Vec<String>]) -> String {
    g.iter()
        .map(|v| if v.is_empty() { "-".to_string() } else { v.join("+") })
        .collect::<Vec<_>>()
        .join("|")
}

fn tag_of_name(s: &str) -> String {
    s.trim_start_matches(|c: char| !c.is_ascii_digit()).to_string()
}

fn run(line: &str) -> String {
    let mut t = Toks::new(line);
    let kind = t.u64();
    let n = t.usize();
    let ents: Vec<(u64, u64, u64)> = (0..n).map(|_| (t.u64(), t.u64(), t.u64())).collect();
    let m = t.usize();
    let qs: Vec<u64> = (0..m).map(|_| t.u64()).collect();
    let mut table: Vec<String> = vec![];
    let mut gets: Vec<Vec<String>> = vec![];
    match kind {
        0 => {
            let rm = ents
                .iter()
                .map(|&(b, s, v)| (mk_range(b, s), v as u32))
                .collect::<Vec<_>>()
                .into_rangemap_safe();
            for (r, v) in rm.ranges_values() {
                table.push(format!("{}-{}:{}", r.start, r.end, v));
            }
            for &q in &qs {
                gets.push(rm.get(q).map(|v| vec![v.to_string()]).unwrap_or_default());
            }
        }
        1 => {
            let mods: Vec<MinidumpModule> = ents
                .iter()
                .enumerate()
                .map(|(i, &(b, s, _))| MinidumpModule::new(b, s as u32, &format!("m{}", i)))
                .collect();
            let list = MinidumpModuleList::from_modules(mods);
            for md in list.by_addr() {
                use minidump::Module;
                // by_addr yields modules, the table range is the module's own range
                let b = md.base_address();
                let e = b + md.size() - 1;
                table.push(format!("{}-{}:{}", b, e, tag_of_name(&md.code_file())));
            }
            for &q in &qs {
                use minidump::Module;
                gets.push(
                    list.module_at_address(q)
                        .map(|md| vec![tag_of_name(&md.code_file())])
                        .unwrap_or_default(),
                );
            }
        }
        11 => {
            let regions: Vec<MinidumpMemory> = ents
                .iter()
                .enumerate()
                .map(|(i, &(b, s, _))| MinidumpMemory {
                    desc: minidump::format::MINIDUMP_MEMORY_DESCRIPTOR {
                        start_of_memory_range: b,
                        memory: minidump::format::MINIDUMP_LOCATION_DESCRIPTOR {
                            data_size: s as u32,
                            rva: i as u32,
                        },
                    },
                    base_address: b,
                    size: s,
                    bytes: &[],
                    endian: scroll::LE,
                })
                .collect();
            let list = MinidumpMemoryList::from_regions(regions);
            for r in list.by_addr() {
                table.push(format!(
                    "{}-{}:{}",
                    r.base_address,
                    r.base_address + r.size - 1,
                    r.desc.memory.rva
                ));
            }
            for &q in &qs {
                gets.push(
                    list.memory_at_address(q)
                        .map(|r| vec![r.desc.memory.rva.to_string()])
                        .unwrap_or_default(),
                );
            }
        }
        12 => {
            // MINIDUMP_MEMORY_INFO_LIST: size_of_header=16, size_of_entry=48, number_of_entries u64
            let mut bytes: Vec<u8> = vec![];
            bytes.extend_from_slice(&16u32.to_le_bytes());
            bytes.extend_from_slice(&48u32.to_le_bytes());
            bytes.extend_from_slice(&(ents.len() as u64).to_le_bytes());
            for (i, &(b, s, _)) in ents.iter().enumerate() {
                bytes.extend_from_slice(&b.to_le_bytes()); // base_address
                bytes.extend_from_slice(&(i as u64).to_le_bytes()); // allocation_base (tag)
                bytes.extend_from_slice(&0u32.to_le_bytes()); // allocation_protection
                bytes.extend_from_slice(&0u32.to_le_bytes()); // __alignment1
                bytes.extend_from_slice(&s.to_le_bytes()); // region_size
                bytes.extend_from_slice(&0u32.to_le_bytes()); // state
                bytes.extend_from_slice(&0u32.to_le_bytes()); // protection
                bytes.extend_from_slice(&0u32.to_le_bytes()); // _type
                bytes.extend_from_slice(&0u32.to_le_bytes()); // __alignment2
            }
            let list = MinidumpMemoryInfoList::read(&bytes, &bytes, scroll::LE, None).expect("meminfo read");
            for r in list.by_addr() {
                table.push(format!(
                    "{}-{}:{}",
                    r.raw.base_address,
                    r.raw.base_address + r.raw.region_size - 1,
                    r.raw.allocation_base
                ));
            }
            for &q in &qs {
                gets.push(
                    list.memory_info_at_address(q)
                        .map(|r| vec![r.raw.allocation_base.to_string()])
                        .unwrap_or_default(),
                );
            }
        }
        2 => {
            // entries are (lo, hi, tag); inode carries the tag
            let mut text = String::new();
            for (i, &(lo, hi, _)) in ents.iter().enumerate() {
                text.push_str(&format!("{:x}-{:x} r-xp 00000000 00:00 {} /m{}\n", lo, hi, i, i));
            }
            let list = MinidumpLinuxMaps::read(text.as_bytes(), text.as_bytes(), scroll::LE, None).expect("maps read");
            for r in list.by_addr() {
                table.push(format!("{}-{}:{}", r.map.address.0, r.map.address.1, r.map.inode));
            }
            for &q in &qs {
                gets.push(
                    list.memory_info_at_address(q)
                        .map(|r| vec![r.map.inode.to_string()])
                        .unwrap_or_default(),
                );
            }
        }
        3 => {
            use minidump::Module;
            let mods: Vec<MinidumpUnloadedModule> = ents
                .iter()
                .enumerate()
                .map(|(i, &(b, s, _))| MinidumpUnloadedModule::new(b, s as u32, &format!("m{}", i)))
                .collect();
            let list = MinidumpUnloadedModuleList::from_modules(mods);
            for md in list.by_addr() {
                table.push(format!(
                    "{}-{}:{}",
                    md.base_address(),
                    md.base_address() + md.size() - 1,
                    tag_of_name(&md.code_file())
                ));
            }
            for &q in &qs {
                gets.push(list.modules_at_address(q).map(|md| tag_of_name(&md.code_file())).collect());
            }
        }
        18 => {
            // MinidumpModuleList::read from MINIDUMP_MODULE_LIST bytes: u32 count, then 108-byte MINIDUMP_MODULEs.
            // The entry's position in the stream rides in the checksum; every name is the string at rva 0 of `all`.
            use minidump::Module;
            let all: Vec<u8> = vec![4, 0, 0, 0, b'm', 0, b'x', 0];
            let mut bytes: Vec<u8> = vec![];
            bytes.extend_from_slice(&(ents.len() as u32).to_le_bytes());
            for (i, &(b, s, _)) in ents.iter().enumerate() {
                bytes.extend_from_slice(&b.to_le_bytes()); // base_of_image
                bytes.extend_from_slice(&(s as u32).to_le_bytes()); // size_of_image
                bytes.extend_from_slice(&(i as u32).to_le_bytes()); // checksum (tag)
                bytes.extend_from_slice(&0u32.to_le_bytes()); // time_date_stamp
                bytes.extend_from_slice(&0u32.to_le_bytes()); // module_name_rva
                bytes.extend_from_slice(&[0u8; 52]); // version_info
                bytes.extend_from_slice(&[0u8; 8]); // cv_record
                bytes.extend_from_slice(&[0u8; 8]); // misc_record
                bytes.extend_from_slice(&[0u8; 16]); // reserved0, reserved1
            }
            let list = MinidumpModuleList::read(&bytes, &all, scroll::LE, None).expect("module list read");
            for md in list.by_addr() {
                let b = md.base_address();
                let e = b + md.size() - 1;
                table.push(format!("{}-{}:{}", b, e, md.raw.checksum));
            }
            for &q in &qs {
                gets.push(list.module_at_address(q).map(|md| vec![md.raw.checksum.to_string()]).unwrap_or_default());
            }
        }
        19 => {
            // MinidumpUnloadedModuleList::read from MINIDUMP_UNLOADED_MODULE_LIST bytes: 12-byte header (size_of_header,
            // size_of_entry, number_of_entries), then 24-byte MINIDUMP_UNLOADED_MODULEs.  The entry's position in the
            // stream rides in the checksum; every name is the string at rva 0 of `all`.  One bad raw module makes the
            // whole read return Err: answer ERR;;
            use minidump::Module;
            let all: Vec<u8> = vec![4, 0, 0, 0, b'm', 0, b'x', 0];
            let mut bytes: Vec<u8> = vec![];
            bytes.extend_from_slice(&12u32.to_le_bytes());
            bytes.extend_from_slice(&24u32.to_le_bytes());
            bytes.extend_from_slice(&(ents.len() as u32).to_le_bytes());
            for (i, &(b, s, _)) in ents.iter().enumerate() {
                bytes.extend_from_slice(&b.to_le_bytes()); // base_of_image
                bytes.extend_from_slice(&(s as u32).to_le_bytes()); // size_of_image
                bytes.extend_from_slice(&(i as u32).to_le_bytes()); // checksum (tag)
                bytes.extend_from_slice(&0u32.to_le_bytes()); // time_date_stamp
                bytes.extend_from_slice(&0u32.to_le_bytes()); // module_name_rva
            }
            let list = match MinidumpUnloadedModuleList::read(&bytes, &all, scroll::LE, None) {
                Ok(l) => l,
                Err(_) => return "ERR;;".to_string(),
            };
            for md in list.by_addr() {
                table.push(format!("{}-{}:{}", md.base_address(), md.base_address() + md.size() - 1, md.raw.checksum));
            }
            for &q in &qs {
                gets.push(list.modules_at_address(q).map(|md| md.raw.checksum.to_string()).collect());
            }
        }
        21 => {
            // MinidumpMemoryList::read from MINIDUMP_MEMORY_LIST bytes: u32 count, then 16-byte descriptors
            // {start_of_memory_range u64, data_size u32, rva u32}; `all` is an 80-byte file image.  The rva of entry i is
            // 0 (null: the region reader refuses it) when its tag is 0, else 1 + i, so a region's rva names its entry.
            let all: Vec<u8> = vec![0u8; 80];
            let mut bytes: Vec<u8> = vec![];
            bytes.extend_from_slice(&(ents.len() as u32).to_le_bytes());
            for (i, &(b, s, v)) in ents.iter().enumerate() {
                bytes.extend_from_slice(&b.to_le_bytes());
                bytes.extend_from_slice(&(s as u32).to_le_bytes());
                bytes.extend_from_slice(&(if v == 0 { 0u32 } else { 1 + i as u32 }).to_le_bytes());
            }
            let list = MinidumpMemoryList::read(&bytes, &all, scroll::LE, None).expect("memory list read");
            for r in list.by_addr() {
                table.push(format!("{}-{}:{}", r.base_address, r.base_address + r.size - 1, r.desc.memory.rva - 1));
            }
            for &q in &qs {
                gets.push(list.memory_at_address(q).map(|r| vec![(r.desc.memory.rva - 1).to_string()]).unwrap_or_default());
            }
        }
        22 => {
            // MinidumpMemory64List::read from MINIDUMP_MEMORY64_LIST bytes: u64 count, u64 base rva (16), then 16-byte
            // descriptors {start_of_memory_range u64, data_size u64}; the regions lie back to back in the 80-byte `all`.
            // Every region is kept (or the whole read fails: ERR;;), so a region's position in iter() names its entry.
            let all: Vec<u8> = vec![0u8; 80];
            let mut bytes: Vec<u8> = vec![];
            bytes.extend_from_slice(&(ents.len() as u64).to_le_bytes());
            bytes.extend_from_slice(&16u64.to_le_bytes());
            for &(b, s, _) in ents.iter() {
                bytes.extend_from_slice(&b.to_le_bytes());
                bytes.extend_from_slice(&s.to_le_bytes());
            }
            let list = match MinidumpMemory64List::read(&bytes, &all, scroll::LE, None) {
                Ok(l) => l,
                Err(_) => return "ERR;;".to_string(),
            };
            let pos = |r: &MinidumpMemory64| list.iter().position(|x| std::ptr::eq(x, r)).expect("region of the list");
            for r in list.by_addr() {
                table.push(format!("{}-{}:{}", r.base_address, r.base_address + r.size - 1, pos(r)));
            }
            for &q in &qs {
                gets.push(list.memory_at_address(q).map(|r| vec![pos(r).to_string()]).unwrap_or_default());
            }
        }
        23 => {
            // MinidumpLinuxMaps::read on hostile address fields: entries are (lo, hi, form); form 0: lower-case hex,
            // form 1: leading '+', upper case / leading zeros (from_str_radix takes them), form 2: lo + 2^64 written with
            // 17 hex digits (does not fit a u64: the line parser fails and the read is Err: ERR;;)
            let mut text = String::new();
            for (i, &(lo, hi, v)) in ents.iter().enumerate() {
                let addr = match v {
                    0 => format!("{:x}-{:x}", lo, hi),
                    1 => format!("+{:X}-{:018x}", lo, hi),
                    _ => format!("1{:016x}-{:x}", lo, hi),
                };
                text.push_str(&format!("{} r-xp 00000000 00:00 {} /m{}\n", addr, i, i));
            }
            let list = match MinidumpLinuxMaps::read(text.as_bytes(), text.as_bytes(), scroll::LE, None) {
                Ok(l) => l,
                Err(_) => return "ERR;;".to_string(),
            };
            for r in list.by_addr() {
                table.push(format!("{}-{}:{}", r.map.address.0, r.map.address.1, r.map.inode));
            }
            for &q in &qs {
                gets.push(list.memory_info_at_address(q).map(|r| vec![r.map.inode.to_string()]).unwrap_or_default());
            }
        }
        13 | 14 | 15 => {
            // 13: MinidumpMemory64List; 14: UnifiedMemoryList::Memory; 15: UnifiedMemoryList::Memory64
            if kind == 14 {
                let regions: Vec<MinidumpMemory> = ents
                    .iter()
                    .enumerate()
                    .map(|(i, &(b, s, _))| MinidumpMemory {
                        desc: minidump::format::MINIDUMP_MEMORY_DESCRIPTOR {
                            start_of_memory_range: b,
                            memory: minidump::format::MINIDUMP_LOCATION_DESCRIPTOR { data_size: s as u32, rva: i as u32 },
                        },
                        base_address: b,
                        size: s,
                        bytes: &[],
                        endian: scroll::LE,
                    })
                    .collect();
                let list = UnifiedMemoryList::Memory(MinidumpMemoryList::from_regions(regions));
                for r in list.by_addr() {
                    let tag = match r { UnifiedMemory::Memory(m) => m.desc.memory.rva as u64, UnifiedMemory::Memory64(m) => m.desc.data_size };
                    table.push(format!("{}-{}:{}", r.base_address(), r.base_address() + r.size() - 1, tag));
                }
                for &q in &qs {
                    gets.push(list.memory_at_address(q).map(|r| match r {
                        UnifiedMemory::Memory(m) => vec![m.desc.memory.rva.to_string()],
                        UnifiedMemory::Memory64(m) => vec![m.desc.data_size.to_string()],
                    }).unwrap_or_default());
                }
            } else {
                // the 64-bit descriptor has no spare field: the tag rides in data_size, the real size in `size`
                let regions: Vec<MinidumpMemory64> = ents
                    .iter()
                    .enumerate()
                    .map(|(i, &(b, s, _))| MinidumpMemory64 {
                        desc: minidump::format::MINIDUMP_MEMORY_DESCRIPTOR64 { start_of_memory_range: b, data_size: i as u64 },
                        base_address: b,
                        size: s,
                        bytes: &[],
                        endian: scroll::LE,
                    })
                    .collect();
                if kind == 13 {
                    let list = MinidumpMemory64List::from_regions(regions);
                    for r in list.by_addr() {
                        table.push(format!("{}-{}:{}", r.base_address, r.base_address + r.size - 1, r.desc.data_size));
                    }
                    for &q in &qs {
                        gets.push(list.memory_at_address(q).map(|r| vec![r.desc.data_size.to_string()]).unwrap_or_default());
                    }
                } else {
                    let list = UnifiedMemoryList::Memory64(MinidumpMemory64List::from_regions(regions));
                    for r in list.by_addr() {
                        let tag = match r { UnifiedMemory::Memory(m) => m.desc.memory.rva as u64, UnifiedMemory::Memory64(m) => m.desc.data_size };
                        table.push(format!("{}-{}:{}", r.base_address(), r.base_address() + r.size() - 1, tag));
                    }
                    for &q in &qs {
                        gets.push(list.memory_at_address(q).map(|r| match r {
                            UnifiedMemory::Memory(m) => vec![m.desc.memory.rva.to_string()],
                            UnifiedMemory::Memory64(m) => vec![m.desc.data_size.to_string()],
                        }).unwrap_or_default());
                    }
                }
            }
        }
        16 | 17 => {
            // UnifiedMemoryInfoList over a memory-info stream (16) or Linux maps (17, entries are lo,hi)
            let mut bytes: Vec<u8> = vec![];
            let mut text = String::new();
            let list = if kind == 16 {
                bytes.extend_from_slice(&16u32.to_le_bytes());
                bytes.extend_from_slice(&48u32.to_le_bytes());
                bytes.extend_from_slice(&(ents.len() as u64).to_le_bytes());
                for (i, &(b, s, _)) in ents.iter().enumerate() {
                    bytes.extend_from_slice(&b.to_le_bytes());
                    bytes.extend_from_slice(&(i as u64).to_le_bytes());
                    bytes.extend_from_slice(&[0u8; 8]);
                    bytes.extend_from_slice(&s.to_le_bytes());
                    bytes.extend_from_slice(&[0u8; 16]);
                }
                UnifiedMemoryInfoList::Info(MinidumpMemoryInfoList::read(&bytes, &bytes, scroll::LE, None).expect("meminfo read"))
            } else {
                for (i, &(lo, hi, _)) in ents.iter().enumerate() {
                    text.push_str(&format!("{:x}-{:x} r-xp 00000000 00:00 {} /m{}\n", lo, hi, i, i));
                }
                UnifiedMemoryInfoList::Maps(MinidumpLinuxMaps::read(text.as_bytes(), text.as_bytes(), scroll::LE, None).expect("maps read"))
            };
            let tag = |r: &UnifiedMemoryInfo| match r {
                UnifiedMemoryInfo::Info(m) => m.raw.allocation_base.to_string(),
                UnifiedMemoryInfo::Map(m) => m.map.inode.to_string(),
            };
            for r in list.by_addr() {
                let rg = r.memory_range().expect("range of a listed region");
                table.push(format!("{}-{}:{}", rg.start, rg.end, tag(&r)));
            }
            for &q in &qs {
                gets.push(list.memory_info_at_address(q).map(|r| vec![tag(&r)]).unwrap_or_default());
            }
        }
        42 | 43 => {
            // STACK WIN frame-data (42) / FPO (43) tables; the tag rides in the parameter_size field.
            // Predicted by C08/WinModel.v; oracle_win judges independently.
            let mut text = String::from("MODULE windows x86 ABCD1234 m\n");
            for &(b, s, v) in &ents {
                if kind == 42 {
                    text.push_str(&format!("STACK WIN 4 {:x} {:x} 0 0 {:x} 0 0 0 1 $eip .raSearch ^ =\n", b, s, v));
                } else {
                    text.push_str(&format!("STACK WIN 0 {:x} {:x} 0 0 {:x} 0 0 0 0 0\n", b, s, v));
                }
            }
            let sym = breakpad_symbols::SymbolFile::from_bytes(text.as_bytes()).expect("sym parse");
            let t = if kind == 42 { &sym.win_stack_framedata_info } else { &sym.win_stack_fpo_info };
            for (r, w) in t.ranges_values() {
                table.push(format!("{}-{}:{}@{}+{}", r.start, r.end, w.parameter_size, w.address, w.size));
            }
            for &q in &qs {
                gets.push(t.get(q).map(|w| vec![format!("{}@{}+{}", w.parameter_size, w.address, w.size)]).unwrap_or_default());
            }
        }
        4 | 41 | 5 => {
            let mut text = String::from("MODULE Linux x86 ABCD1234 m\n");
            match kind {
                4 => {
                    for &(b, s, v) in &ents {
                        text.push_str(&format!("FUNC {:x} {:x} 0 f{}\n", b, s, v));
                    }
                }
                41 => {
                    for &(b, s, v) in &ents {
                        text.push_str(&format!("STACK CFI INIT {:x} {:x} .cfa: {} .ra: 0\n", b, s, v));
                    }
                }
                _ => {
                    text.push_str("FUNC 0 1 0 f\n");
                    for &(b, s, v) in &ents {
                        text.push_str(&format!("{:x} {:x} {} 0\n", b, s, v));
                    }
                }
            }
            let sym = breakpad_symbols::SymbolFile::from_bytes(text.as_bytes()).expect("sym parse");
            match kind {
                4 => {
                    for (r, f) in sym.functions.ranges_values() {
                        table.push(format!("{}-{}:{}", r.start, r.end, tag_of_name(&f.name)));
                    }
                    for &q in &qs {
                        gets.push(sym.functions.get(q).map(|f| vec![tag_of_name(&f.name)]).unwrap_or_default());
                    }
                }
                41 => {
                    for (r, c) in sym.cfi_stack_info.ranges_values() {
                        let tag = c.init.rules.split_ascii_whitespace().nth(1).unwrap().to_string();
                        table.push(format!("{}-{}:{}", r.start, r.end, tag));
                    }
                    for &q in &qs {
                        gets.push(
                            sym.cfi_stack_info
                                .get(q)
                                .map(|c| vec![c.init.rules.split_ascii_whitespace().nth(1).unwrap().to_string()])
                                .unwrap_or_default(),
                        );
                    }
                }
                _ => {
                    let f = sym.functions.get(0).expect("func");
                    for (r, l) in f.lines.ranges_values() {
                        table.push(format!("{}-{}:{}", r.start, r.end, l.line));
                    }
                    for &q in &qs {
                        gets.push(f.lines.get(q).map(|l| vec![l.line.to_string()]).unwrap_or_default());
                    }
                }
            }
        }
        _ => panic!("bad kind"),
    }
    format!("OK;{};{}", table.join(","), fmt_gets(&gets))
}

fn main() {
    for_each_case(run);
}
