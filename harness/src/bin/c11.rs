//! C11 correspondence harness: renders the case's records as a Breakpad .sym text, parses it
//! with the real parser and symbolicates every query instruction twice:
//!   D  SymbolFile::fill_symbol(&module, &mut recording FrameSymbolizer)      (callback order)
//!   S  minidump_unwind::walk_stack on a one-frame CallStack (-> fill_source_line_info, which
//!      reverses the inlines) with a Symbolizer over a string symbol supplier
//!      the module list is [(mbase, msize), extra modules…]; modules without symbols are unknown to the supplier
//!   G  Symbolizer::get_symbol_at_address(debug_file, debug_id, instr)   (module base 0, name only)
//! case:  M <mbase> <msize> [X <k> (<base> <size> <hassym>)*k] Q <n> <instr>*n R <item>*   (see ocaml/c11/main.ml)
//!        item `Y <bits>` sets the text style: 1 CRLF line ends, 2 upper-case hex, 4 a leading zero on hex fields, 8 space-tab-space between fields
//! answer: T<tables>;D<out>/S<idx>:<out>/G<name>;...;X<twin>    names are printed as the integer they encode.
//!   X  twins of the file, parsed and queried again: the INLINE ranges of every FUNC block permuted (`order`), every FILE /
//!      INLINE_ORIGIN line moved to the end (`move`): `Xok` when the tables and every D answer are identical, else
//!      `X<label>:<what>` (judged by the oracle only; the model has no such field)
//! Names are rendered as letter + 4 digits + a decoration chosen by the number (spaces, parentheses,
//! templates, non-ASCII, tabs): String order is still the integer order, and every name flows through the
//! real parser; FUNC/PUBLIC get the `m` flag when the name number is divisible by 3.
use breakpad_symbols::{FrameSymbolizer, SimpleModule, SymbolFile};
use minidump::system_info::{Cpu, Os};
use minidump::*;
use minidump_unwind::{string_symbol_supplier, walk_stack, CallStack, Symbolizer, SystemInfo};
use std::collections::HashMap;
use std::fmt::Write as _;
use std::future::Future;
use std::task::{Context, Poll};
use vharness::*;

fn block_on<F: Future>(f: F) -> F::Output {
    let mut f = Box::pin(f);
    let w = futures_util::task::noop_waker();
    let mut cx = Context::from_waker(&w);
    loop {
        if let Poll::Ready(v) = f.as_mut().poll(&mut cx) {
            return v;
        }
    }
}

/// names are one letter + fixed-width decimal (+ decoration): string order = numeric order
fn nm(s: &str) -> String {
    s[1..5].parse::<u64>().expect("name").to_string()
}
const DECOR: [&str; 8] = [
    "",
    " (anonymous namespace)::f<int, char const*>(void*) const",
    " h\u{e9}llo w\u{f6}rld \u{3bb}\u{2192}\u{1f600}",
    "\tTab\there",
    "  two  spaces  ",
    "::operator()(unsigned long) [clone .cold]",
    " m 10 20 PUBLIC FUNC INLINE_ORIGIN",
    "`anonymous namespace'::<lambda_1>::operator()",
];
fn name(letter: char, n: u64) -> String {
    format!("{}{:04}{}", letter, n, DECOR[(n % 8) as usize])
}
fn mflag(n: u64) -> &'static str {
    if n % 3 == 0 { "m " } else { "" }
}

#[derive(Default)]
struct Rec {
    instruction: u64,
    func: Option<(String, u64, u32)>,
    src: Option<(String, u32, u64)>,
    inl: Vec<(String, Option<String>, Option<u32>)>,
    calls: usize,
}
impl FrameSymbolizer for Rec {
    fn get_instruction(&self) -> u64 {
        self.instruction
    }
    fn set_function(&mut self, name: &str, base: u64, parameter_size: u32) {
        self.calls += 1;
        self.func = Some((name.to_string(), base, parameter_size));
    }
    fn set_source_file(&mut self, file: &str, line: u32, base: u64) {
        self.calls += 1;
        self.src = Some((file.to_string(), line, base));
    }
    fn add_inline_frame(&mut self, name: &str, file: Option<&str>, line: Option<u32>) {
        self.inl.push((name.to_string(), file.map(|s| s.to_string()), line));
    }
}

fn fmt_out(
    func: &Option<(String, u64, u32)>,
    src: &Option<(String, u32, u64)>,
    inl: &[(String, Option<String>, Option<u32>)],
) -> String {
    let f = match func {
        Some((n, b, p)) => format!("{},{},{}", nm(n), b, p),
        None => "-".into(),
    };
    let s = match src {
        Some((n, l, b)) => format!("{},{},{}", nm(n), l, b),
        None => "-".into(),
    };
    let i: Vec<String> = inl
        .iter()
        .map(|(n, f, l)| {
            format!(
                "{}:{}:{}",
                nm(n),
                f.as_ref().map(|x| nm(x)).unwrap_or("-".into()),
                l.map(|x| x.to_string()).unwrap_or("-".into())
            )
        })
        .collect();
    format!("fn={}|src={}|inl={}", f, s, i.join(","))
}

/// hexadecimal field in the style of the file: bit 1 = upper-case digits, bit 2 = one leading zero
/// (never beyond the 16 / 8 digits hex_str::<u64> / <u32> read)
fn hx(v: u64, style: u64, max_digits: usize) -> String {
    let mut s = if style & 2 != 0 { format!("{:X}", v) } else { format!("{:x}", v) };
    if style & 4 != 0 && s.len() < max_digits {
        s.insert(0, '0');
    }
    s
}

/// the field separators number `skip` .. `skip + n` of the line (single spaces) in the style of the file:
/// bit 8 = space, tab, space (nom's space1 takes any run of spaces and tabs)
fn sep(line: &str, skip: usize, n: usize, style: u64) -> String {
    if style & 8 == 0 {
        return line.to_string();
    }
    let (mut out, mut i) = (String::new(), 0);
    for ch in line.chars() {
        if ch == ' ' {
            if i >= skip && i < skip + n {
                out.push_str(" \t ");
            } else {
                out.push(' ');
            }
            i += 1;
        } else {
            out.push(ch);
        }
    }
    out
}

fn render(t: &mut Toks) -> String {
    let mut text = String::from("MODULE Linux x86_64 ABCD1234 m1\n");
    // text style (item `Y <bits>`, from there on): 1 = CRLF line ends (whole file), 2 = upper-case hex, 4 = a leading zero,
    // 8 = " \t " between the fields
    let mut st = 0u64;
    let mut crlf = false;
    while let Some(k) = t.opt() {
        match k {
            "Y" => {
                st = t.u64();
                crlf = crlf || st & 1 != 0;
            }
            "F" => {
                let (id, name) = (t.u64(), t.u64());
                text.push_str(&sep(&format!("FILE {} {}\n", id, self::name('s', name)), 0, 2, st));
            }
            "O" => {
                let (id, name) = (t.u64(), t.u64());
                text.push_str(&sep(&format!("INLINE_ORIGIN {} {}\n", id, self::name('o', name)), 0, 2, st));
            }
            "P" => {
                let (a, ps, name) = (t.u64(), t.u64(), t.u64());
                let l = format!("PUBLIC {}{} {} {}\n", mflag(name), hx(a, st, 16), hx(ps, st, 8), self::name('p', name));
                text.push_str(&sep(&l, 0, 3 + mflag(name).len() / 2, st));
            }
            "U" => {
                let (a, s, ps, name) = (t.u64(), t.u64(), t.u64(), t.u64());
                let l = format!("FUNC {}{} {} {} {}\n", mflag(name), hx(a, st, 16), hx(s, st, 8), hx(ps, st, 8), self::name('f', name));
                text.push_str(&sep(&l, 0, 4 + mflag(name).len() / 2, st));
            }
            "Z" => {
                // a FUNC line made over-long (> MAX_BUFFER_CAPACITY) by padding its name: the parse loop drops it
                let (a, s, ps, name, len) = (t.u64(), t.u64(), t.u64(), t.u64(), t.usize());
                let l = format!("FUNC {} {} {} {}{}\n", hx(a, st, 16), hx(s, st, 8), hx(ps, st, 8), self::name('f', name), "x".repeat(len));
                text.push_str(&sep(&l, 0, 4, st));
            }
            "L" => {
                let (a, s, ln, fl) = (t.u64(), t.u64(), t.u64(), t.u64());
                text.push_str(&sep(&format!("{} {} {} {}\n", hx(a, st, 16), hx(s, st, 8), ln, fl), 0, 3, st));
            }
            "I" => {
                let (d, cl, cf, og) = (t.u64(), t.u64(), t.u64(), t.u64());
                let k = t.usize();
                let mut l = format!("INLINE {} {} {} {}", d, cl, cf, og);
                for _ in 0..k {
                    let (a, s) = (t.u64(), t.u64());
                    write!(l, " {} {}", hx(a, st, 16), hx(s, st, 8)).unwrap();
                }
                l.push('\n');
                text.push_str(&sep(&l, 0, 4 + 2 * k, st));
            }
            "W" => {
                let (ty, a, s, ps, tag) = (t.u64(), t.u64(), t.u64(), t.u64(), t.u64());
                let (hp, rest) = if ty == 4 { (1, "$eip 4 + ^ =") } else { (0, "0") };
                let l = format!("STACK WIN {:x} {} {} {} 0 {} 0 0 0 {} {}\n", ty, hx(a, st, 16), hx(s, st, 8), hx(tag, st, 8), hx(ps, st, 8), hp, rest);
                text.push_str(&sep(&l, 1, 11, st));
            }
            other => panic!("bad item {}", other),
        }
    }
    if crlf {
        text = text.replace('\n', "\r\n");
    }
    text
}

/// The same text with, inside every run of FUNC sub-lines, the INLINE records in reverse order (they take the
/// slots the INLINE lines occupied; line records and INLINE_ORIGINs stay where they are) and the address
/// ranges of each INLINE record reversed: a permutation of every block's INLINE ranges.
fn permuted(text: &str) -> String {
    const TOP: [&str; 6] = ["FUNC ", "PUBLIC ", "FILE ", "STACK ", "MODULE ", "INFO "];
    let mut out: Vec<String> = text.lines().map(|s| s.to_string()).collect();
    let flip = |l: &str| -> String {
        let t: Vec<&str> = l.split_whitespace().collect();
        let mut r: Vec<String> = t[..5].iter().map(|s| s.to_string()).collect();
        let pairs: Vec<&[&str]> = t[5..].chunks(2).collect();
        for p in pairs.iter().rev() {
            r.push(p.join(" "));
        }
        r.join(" ")
    };
    let mut i = 0;
    while i < out.len() {
        let mut j = i + 1;
        while j < out.len() && !TOP.iter().any(|p| out[j].starts_with(p)) {
            j += 1;
        }
        let slots: Vec<usize> = (i + 1..j).filter(|&k| out[k].starts_with("INLINE ")).collect();
        let recs: Vec<String> = slots.iter().rev().map(|&k| flip(&out[k])).collect();
        for (k, r) in slots.iter().zip(recs) {
            out[*k] = r;
        }
        i = j;
    }
    let mut s = out.join("\n");
    s.push('\n');
    s
}

/// The same text with every FILE and INLINE_ORIGIN line moved to the end (relative order kept).
fn moved(text: &str) -> String {
    let is_map = |l: &str| l.starts_with("FILE ") || l.starts_with("INLINE_ORIGIN ");
    let mut out: Vec<&str> = text.lines().filter(|l| !is_map(l)).collect();
    out.extend(text.lines().filter(|l| is_map(l)));
    let mut s = out.join("\n");
    s.push('\n');
    s
}

fn fmt_table(sym: &SymbolFile) -> String {
    let funcs: Vec<String> = sym
        .functions
        .ranges_values()
        .map(|(r, f)| {
            let lines: Vec<String> = f
                .lines
                .ranges_values()
                .map(|(r, l)| format!("{}-{}:{}:{}", r.start, r.end, l.line, l.file))
                .collect();
            let inls: Vec<String> = f
                .inlinees
                .iter()
                .map(|e| format!("{}/{}/{}/{}/{}/{}", e.depth, e.address, e.size, e.call_file, e.call_line, e.origin_id))
                .collect();
            format!("{}-{}:{}({})({})", r.start, r.end, nm(&f.name), lines.join(","), inls.join(","))
        })
        .collect();
    let pubs: Vec<String> = sym.publics.iter().map(|p| format!("{}:{}:{}", p.address, nm(&p.name), p.parameter_size)).collect();
    macro_rules! win {
        ($m:expr) => {
            $m.ranges_values()
                .map(|(r, w)| format!("{}-{}:{}:{}", r.start, r.end, w.parameter_size, w.prologue_size))
                .collect::<Vec<_>>()
                .join(" ")
        };
    }
    format!("T{}#{}#{}#{}", funcs.join(" "), pubs.join(" "), win!(sym.win_stack_framedata_info), win!(sym.win_stack_fpo_info))
}

/// a symbol file the parser rejects (a line record with no FUNC block open)
const CORRUPT: &str = "MODULE Linux x86_64 ABCD1234 m1\n10 4 7 1\n";

fn run(line: &str) -> String {
    let mut t = Toks::new(line);
    assert_eq!(t.str(), "M");
    let mbase = t.u64();
    let msize = t.u64();
    let mut tok = t.str();
    // third field: 0 = the supplier does not know the module, 1 = it has the symbol file, 2 = it has a file that does not parse,
    // 3 = it has ANOTHER symbol file (a module must be symbolicated from its own file, not from one cached for another module)
    let mut extra: Vec<(u64, u64, u8)> = vec![];
    if tok == "X" {
        let k = t.usize();
        for _ in 0..k {
            extra.push((t.u64(), t.u64(), t.str().parse::<u8>().expect("module flag")));
        }
        tok = t.str();
    }
    assert_eq!(tok, "Q");
    let nq = t.usize();
    let qs: Vec<u64> = (0..nq).map(|_| t.u64()).collect();
    assert_eq!(t.str(), "R");
    let text = render(&mut t);
    let sym = match SymbolFile::from_bytes(text.as_bytes()) {
        Ok(s) => s,
        Err(e) => return format!("E;{:?}", e),
    };
    let mut out = vec![fmt_table(&sym)];

    // front-end S set-up: one module, symbols supplied by name
    let mut mods = vec![MinidumpModule::new(mbase, msize as u32, "m1")];
    let mut symbols = HashMap::new();
    symbols.insert("m1".to_string(), text.clone());
    symbols.insert("".to_string(), text.clone()); // (debug_file, debug_id) modules have code_file ""
    for (i, &(b, sz, hs)) in extra.iter().enumerate() {
        let n = format!("x{}", i + 1);
        mods.push(MinidumpModule::new(b, sz as u32, &n));
        if hs == 1 {
            symbols.insert(n, text.clone());
        } else if hs == 2 {
            symbols.insert(n, CORRUPT.to_string());
        } else if hs == 3 {
            // another, valid symbol file: one FUNC f9999 covering [0, 0xfffffffe] (the model's Driver.alt_table)
            symbols.insert(n, format!("MODULE Linux x86_64 ABCD1234 m1\nFUNC 0 ffffffff 0 {}\n", name('f', 9999)));
        }
    }
    assert!(SymbolFile::from_bytes(CORRUPT.as_bytes()).is_err(), "the corrupt symbol file parses");
    let names: Vec<String> = mods.iter().map(|m| m.code_file().to_string()).collect();
    let modules = MinidumpModuleList::from_modules(mods);
    let symbolizer = Symbolizer::new(string_symbol_supplier(symbols));
    let system_info = SystemInfo {
        os: Os::Linux,
        os_version: None,
        os_build: None,
        cpu: Cpu::X86_64,
        cpu_info: None,
        cpu_microcode_version: None,
        cpu_count: 1,
    };
    let module = SimpleModule { base_address: Some(mbase), ..Default::default() };

    for &q in &qs {
        let mut rec = Rec { instruction: q, ..Default::default() };
        sym.fill_symbol(&module, &mut rec);
        let d = fmt_out(&rec.func, &rec.src, &rec.inl);

        let mut c = format::CONTEXT_AMD64::default();
        c.rip = q;
        let context = MinidumpContext { raw: MinidumpRawContext::Amd64(c), valid: MinidumpContextValidity::All };
        let mut cs = CallStack::with_context(context);
        block_on(walk_stack(0, (), &mut cs, None, &modules, &system_info, &symbolizer));
        assert_eq!(cs.frames.len(), 1);
        let f = &cs.frames[0];
        assert_eq!(f.instruction, q);
        let s = if f.module.is_none() {
            "-".to_string()
        } else {
            let mname = f.module.as_ref().unwrap().code_file().to_string();
            let idx = names.iter().position(|n| *n == mname).expect("module of the list");
            let func = match (&f.function_name, f.function_base, f.parameter_size) {
                (Some(n), Some(b), Some(p)) => Some((n.clone(), b, p)),
                (None, None, None) => None,
                _ => panic!("function fields partly set"),
            };
            let src = match (&f.source_file_name, f.source_line, f.source_line_base) {
                (Some(n), Some(l), Some(b)) => Some((n.clone(), l, b)),
                (None, None, None) => None,
                _ => panic!("source fields partly set"),
            };
            let inl: Vec<_> = f
                .inlines
                .iter()
                .map(|i| (i.function_name.clone(), i.source_file_name.clone(), i.source_line))
                .collect();
            format!("{}:{}", idx, fmt_out(&func, &src, &inl))
        };
        let g = block_on(symbolizer.get_symbol_at_address("m1", debugid::DebugId::nil(), q));
        out.push(format!("D{}/S{}/G{}", d, s, g.map(|n| nm(&n)).unwrap_or("-".into())));
    }
    // the Symbolizer after the session (second pass): pending_stats and the stats entry of every module of the list (and of the
    // (debug_file, debug_id) pseudo-module of front-end G, code_file ""): C<requested>,<processed>|<loaded><corrupt> or - per module
    {
        let ps = symbolizer.pending_stats();
        let st = symbolizer.stats();
        let mut keys: Vec<String> = names.clone();
        keys.push(String::new());
        let ents: Vec<String> = keys
            .iter()
            .map(|n| match st.get(n) {
                Some(s) => format!("{}{}", s.loaded_symbols as u8, s.corrupt_symbols as u8),
                None => "-".to_string(),
            })
            .collect();
        let other = st.keys().filter(|k| !keys.contains(k)).count();
        let tail = if other > 0 { format!("+{}", other) } else { String::new() };
        out.push(format!("C{},{}|{}{}", ps.symbols_requested, ps.symbols_processed, ents.join(","), tail));
    }
    // twins (judged by the oracle): same printed tables, same fill_symbol callbacks at every query
    //   order  the INLINE ranges of every FUNC block permuted (c11_inline_order_irrelevant)
    //   move   every FILE and INLINE_ORIGIN record moved to the end of the file, relative order kept: the model's raw_file
    //          (records per kind, in file order) is literally the same, so the result may not depend on where between the
    //          other records a FILE / INLINE_ORIGIN line stands
    let mut twin = "Xok".to_string();
    for (label, t2) in [("order", permuted(&text)), ("move", moved(&text))] {
        let v = match SymbolFile::from_bytes(t2.as_bytes()) {
            Ok(s2) => {
                if fmt_table(&s2) != out[0] {
                    Some("table".to_string())
                } else {
                    let mut v = None;
                    for &q in &qs {
                        let mut r1 = Rec { instruction: q, ..Default::default() };
                        sym.fill_symbol(&module, &mut r1);
                        let mut r2 = Rec { instruction: q, ..Default::default() };
                        s2.fill_symbol(&module, &mut r2);
                        if fmt_out(&r1.func, &r1.src, &r1.inl) != fmt_out(&r2.func, &r2.src, &r2.inl) {
                            v = Some(format!("diff@{}", q));
                            break;
                        }
                    }
                    v
                }
            }
            Err(e) => Some(format!("err:{:?}", e).replace(';', ",")),
        };
        if let Some(v) = v {
            twin = format!("X{}:{}", label, v);
            break;
        }
    }
    out.push(twin);
    out.join(";")
}

fn main() {
    for_each_case(run);
}
