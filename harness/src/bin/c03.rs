//! C03 harness: whole-pipeline search (D/F cases) and site correspondence (L/G/S/J cases).
//!
//!  D <spec>   synthesize the dump described by the spec (see ../dumpspec.rs), serve the spec's
//!  F <spec>   symbol bytes, run process_minidump_with_options under the option set(s), then
//!             print / print_brief / print_json(false|true) into counting sinks.  opt: 0 stable_basic, 1 stable_all,
//!             2 unstable_all, 3 = those three, 4 unstable_all + evil_json (evil=<hex>) + stat_reporter, 5 = all four.
//!     answer: OK r=<ok|readerr|err:..|timeout> thr=<threads> fr=<max frames>/<stack bytes of that thread>
//!             fb=<1 iff every thread has frames <= stack bytes + 2> peak=<peak heap bytes> in=<input bytes>
//!             out=<bytes rendered> ms=<wall ms> cpu=<CPU ms of the processing thread> al=<allocator calls>
//!             sym=<symbol-provider calls: fill_symbol+walk_frame+get_file_path>/<frames produced, all option sets>
//!             fbud=<frame budget of the state: sum over threads of (stack bytes + 2)>/<its upper bound threads x (largest region + 2)>
//!     A CPU watchdog ends the process (status 124, reason on stderr) as soon as a D/F case has used more CPU time than
//!     the budget 10000 ms + 0.5 ms per (input byte + frame of the frame budget threads x (largest region + 2)): the budget proved
//!     for the model (c03_total_frames_bound), tied to the input alone and independent of machine load.
//!  L <hex of /proc/<pid>/limits>          -> L <name hex>|<soft>|<hard>|<unit hex>;...   (sorted by name)
//!  G <addr> <kind 0 info|1 maps> <n> (a b p)*n   amd64/Linux crash at `mov rax,[rbx]`, rbx = addr
//!                                         -> G <is_likely_guard_page of the access | ->
//!  S <rsp> <op>   amd64 crash at op (0 push [rax] 1 call [rax] 2 pop [rax] 3 ret 4 push rax 5 call rel32
//!                 6 pop rax 7 mov rax,[rax]) with rax = 0x5000 -> S <access addresses, comma separated | ->
//!  J <n> (base size)*n <u> (base size)*u  -> J <end_addr,...>|<unloaded end_addr,...>   (from print_json)
//!  I <mem64 0|1> <os 0 linux|1 win> <cpu 0 amd64|1 x86> <ip> <L> <n> (base len)*n
//!                 exception context with instruction pointer ip; memory regions (after the 64-byte thread stack at
//!                 0x10000) whose bytes are a function of the address: an L-byte instruction (L-3 segment prefixes +
//!                 mov rax,[rbx]; L=1 ret; L=2 push [rax]) starts at ip, nop elsewhere
//!                                         -> I <1 iff the crashing instruction was decoded>
//!  U <mem64 0|1> <addr> <n> (base len)*n   amd64/Linux crash at `jmp [rbx]` (ff 23 at 0x400000), rbx = addr; regions after the
//!                 stack (64 bytes at 0x10000) and the 2-byte code region; every byte is a function of its address: ff 23 at 0x400000, (a * 131 + 7) mod 256 elsewhere
//!                                         -> U <the u64 the instruction pointer is updated to> | U -
//!  A <hex of a function name>            -> A <cc> <argument names hex,...> | A -   (x86 argument recovery, unstable_all)
//!  T <spec>   (round 5) the thread loop of into_process_state: a D-style spec restricted to cpu= os= mem64= B= T= X= M= U= R=
//!             (no symbol files), processed under stable_basic and rendered
//!                                         -> T req=<requesting_thread|-> <tid>:<info 0 Ok|1 MissingContext|2 DumpThreadSkipped|3 other>:
//!                                            <instruction>/<trust>,...:<unloaded offsets of frame 0 joined by +>,... ; ...
//!             (second pass) the answer continues ` | <items of print> | <items of print_brief> | <items of print_json>`: the blocks the
//!             printers wrote as the items of coq/C03/RenderModel.v (T<i> thread header, N <no frames>, F<n>:<offset|-> frame line,
//!             J<frames> f<idx>:<module_offset|-> JSON thread, C<threads_index> crashing_thread), compared with the model's printers.
//!             share=1 (D and T): every thread-list entry cites the stack bytes and the context of the first one (share_patch).
//!  B <good> <crash> 16 (v)*16   (round 5) amd64/Linux crash at address <crash> = <good> with one bit (12..47) flipped; the page of
//!             <good> is the only mapped memory (memory-info list); the 16 general-purpose registers (rax rbx rcx rdx rsi rdi rbp rsp
//!             r8..r15) hold the values, rip = 0x400000
//!                                         -> B <nearby_registers of the candidate <good>> <index into NEARBY_REGISTER the confidence
//!                                            was computed with | ->     (B ? .. when the candidate is missing)
//!  N (<stream type>)*   (round 5) MinidumpInfo::new: a fixed dump with every stream minidump-synth can write (threads, names, exception,
//!             modules, unloaded modules, memory, memory info, breakpad info, the Linux text streams); the directory entries of the
//!             listed stream types are retyped to an unused type, i.e. those streams cannot be read
//!                                         -> N ok | N err:<ProcessError>      (rendered when ok)
//! A panic anywhere inside a case is answered `P;;<message>` by vharness::for_each_case.
#[path = "../dumpspec.rs"]
mod dumpspec;
use dumpspec::*;
use minidump::*;
use minidump_processor::{ProcessState, ProcessorOptions};
use minidump_unwind::{string_symbol_supplier, Symbolizer};
use std::alloc::{GlobalAlloc, Layout, System};
use std::collections::HashMap;
use std::io::Write;
use std::sync::atomic::{AtomicUsize, Ordering};
use std::time::{Duration, Instant};
use vharness::*;

struct Counting;
static CUR: AtomicUsize = AtomicUsize::new(0);
static PEAK: AtomicUsize = AtomicUsize::new(0);
unsafe impl GlobalAlloc for Counting {
    unsafe fn alloc(&self, l: Layout) -> *mut u8 {
        let p = System.alloc(l);
        NALLOC.fetch_add(1, Ordering::Relaxed);
        if !p.is_null() {
            let c = CUR.fetch_add(l.size(), Ordering::Relaxed) + l.size();
            PEAK.fetch_max(c, Ordering::Relaxed);
        }
        p
    }
    unsafe fn dealloc(&self, p: *mut u8, l: Layout) {
        CUR.fetch_sub(l.size(), Ordering::Relaxed);
        System.dealloc(p, l)
    }
    unsafe fn realloc(&self, p: *mut u8, l: Layout, n: usize) -> *mut u8 {
        let q = System.realloc(p, l, n);
        NALLOC.fetch_add(1, Ordering::Relaxed);
        if !q.is_null() {
            if n >= l.size() {
                let c = CUR.fetch_add(n - l.size(), Ordering::Relaxed) + (n - l.size());
                PEAK.fetch_max(c, Ordering::Relaxed);
            } else {
                CUR.fetch_sub(l.size() - n, Ordering::Relaxed);
            }
        }
        q
    }
}
#[global_allocator]
static A: Counting = Counting;

static NALLOC: AtomicUsize = AtomicUsize::new(0);
static MAIN_CLOCK: std::sync::atomic::AtomicI32 = std::sync::atomic::AtomicI32::new(-1);
/// CPU ms at which the running case must be finished (0 = no budget armed), and its input size (for the message)
static CPU_DEADLINE_MS: std::sync::atomic::AtomicU64 = std::sync::atomic::AtomicU64::new(0);
static CPU_CASE_INPUT: AtomicUsize = AtomicUsize::new(0);

fn clock_ms(clk: libc::clockid_t) -> u64 {
    let mut ts = libc::timespec { tv_sec: 0, tv_nsec: 0 };
    unsafe { libc::clock_gettime(clk, &mut ts) };
    ts.tv_sec as u64 * 1000 + ts.tv_nsec as u64 / 1_000_000
}

/// CPU time of the thread that processes the cases
fn cpu_ms() -> u64 {
    clock_ms(MAIN_CLOCK.load(Ordering::Relaxed) as libc::clockid_t)
}

/// wall-clock backstop for processing that waits instead of computing (the CPU budget below catches loops); generous,
/// because the check runs on machines with load averages of 100-180 where a 4 s case takes minutes (round 5: 537 s)
const WALL_LIMIT_S: u64 = 3000;
pub const CPU_BUDGET_BASE_MS: u64 = 10000;
pub const CPU_BUDGET_BYTES_PER_MS: u64 = 2;

fn arm_cpu_budget(input_bytes: usize) {
    CPU_CASE_INPUT.store(input_bytes, Ordering::Relaxed);
    CPU_DEADLINE_MS.store(cpu_ms() + CPU_BUDGET_BASE_MS + input_bytes as u64 / CPU_BUDGET_BYTES_PER_MS, Ordering::Relaxed);
}

fn disarm_cpu_budget() {
    CPU_DEADLINE_MS.store(0, Ordering::Relaxed);
}

fn start_cpu_watchdog() {
    let mut clk: libc::clockid_t = 0;
    let rc = unsafe { libc::pthread_getcpuclockid(libc::pthread_self(), &mut clk) };
    assert_eq!(rc, 0, "pthread_getcpuclockid");
    MAIN_CLOCK.store(clk as i32, Ordering::Relaxed);
    std::thread::spawn(move || loop {
        std::thread::sleep(Duration::from_millis(100));
        let d = CPU_DEADLINE_MS.load(Ordering::Relaxed);
        if d != 0 && clock_ms(clk) > d {
            let n = CPU_CASE_INPUT.load(Ordering::Relaxed);
            eprintln!(
                "budget: a case used more than {} ms of CPU time for {} input bytes + frames of the frame budget (budget {} ms + 1 ms per {} of them)",
                CPU_BUDGET_BASE_MS + n as u64 / CPU_BUDGET_BYTES_PER_MS,
                n,
                CPU_BUDGET_BASE_MS,
                CPU_BUDGET_BYTES_PER_MS
            );
            std::process::exit(124);
        }
    });
}

struct Sink(usize);
impl Write for Sink {
    fn write(&mut self, b: &[u8]) -> std::io::Result<usize> {
        self.0 += b.len();
        Ok(b.len())
    }
    fn flush(&mut self) -> std::io::Result<()> {
        Ok(())
    }
}

/// A SymbolProvider that counts the calls it forwards: work observed at the provider interface (hook-free).
struct CountingProvider<P> {
    inner: P,
}
static SYM_CALLS: AtomicUsize = AtomicUsize::new(0);
#[async_trait::async_trait]
impl<P: minidump_unwind::SymbolProvider + Sync> minidump_unwind::SymbolProvider for CountingProvider<P> {
    async fn fill_symbol(
        &self,
        module: &(dyn minidump::Module + Sync),
        frame: &mut (dyn minidump_unwind::FrameSymbolizer + Send),
    ) -> Result<(), minidump_unwind::FillSymbolError> {
        SYM_CALLS.fetch_add(1, Ordering::Relaxed);
        self.inner.fill_symbol(module, frame).await
    }
    async fn walk_frame(&self, module: &(dyn minidump::Module + Sync), walker: &mut (dyn minidump_unwind::FrameWalker + Send)) -> Option<()> {
        SYM_CALLS.fetch_add(1, Ordering::Relaxed);
        self.inner.walk_frame(module, walker).await
    }
    async fn get_file_path(
        &self,
        module: &(dyn minidump::Module + Sync),
        file_kind: minidump_unwind::FileKind,
    ) -> Result<std::path::PathBuf, minidump_unwind::FileError> {
        SYM_CALLS.fetch_add(1, Ordering::Relaxed);
        self.inner.get_file_path(module, file_kind).await
    }
    fn stats(&self) -> HashMap<String, minidump_unwind::SymbolStats> {
        self.inner.stats()
    }
    fn pending_stats(&self) -> minidump_unwind::PendingSymbolStats {
        self.inner.pending_stats()
    }
}

fn options(i: u32) -> ProcessorOptions<'static> {
    match i {
        0 => ProcessorOptions::stable_basic(),
        1 => ProcessorOptions::stable_all(),
        _ => ProcessorOptions::unstable_all(),
    }
}

enum Outcome {
    Ok(ProcessState),
    Err(String),
    Timeout,
}

/// opt 0..2: the three public option sets; opt 4: unstable_all plus every other flag of ProcessorOptions
/// (evil_json file when the case carries one, stat_reporter with all subscriptions)
fn process(dump: &Minidump<'_, Vec<u8>>, syms: &HashMap<String, Vec<u8>>, opt: u32, evil: Option<&std::path::Path>) -> Outcome {
    let rt = tokio::runtime::Builder::new_current_thread().enable_time().build().unwrap();
    let all_utf8 = syms.values().all(|b| std::str::from_utf8(b).is_ok());
    let mut subs = minidump_processor::PendingProcessorStatSubscriptions::default();
    subs.thread_count = true;
    subs.frame_count = true;
    subs.unwalked_result = true;
    subs.live_frames = true;
    let reporter = minidump_processor::PendingProcessorStats::new(subs);
    let mut o = options(opt);
    if opt >= 4 {
        o.evil_json = evil;
        o.stat_reporter = Some(&reporter);
    }
    let fut = async {
        if all_utf8 {
            let m: HashMap<String, String> = syms.iter().map(|(k, v)| (k.clone(), String::from_utf8(v.clone()).unwrap())).collect();
            let provider = CountingProvider { inner: Symbolizer::new(string_symbol_supplier(m)) };
            tokio::time::timeout(Duration::from_secs(WALL_LIMIT_S), minidump_processor::process_minidump_with_options(dump, &provider, o)).await
        } else {
            let provider = CountingProvider { inner: Symbolizer::new(BytesSupplier { modules: syms.clone() }) };
            tokio::time::timeout(Duration::from_secs(WALL_LIMIT_S), minidump_processor::process_minidump_with_options(dump, &provider, o)).await
        }
    };
    let res = rt.block_on(fut);
    if opt >= 4 {
        // the live statistics must be readable, and the pre-walk state renderable, whatever happened
        let _ = reporter.get_thread_count();
        let _ = reporter.get_frame_count();
        reporter.drain_new_frames(|_f| {});
        if let Some(pre) = reporter.take_unwalked_result() {
            render(&pre);
        }
    }
    match res {
        Err(_) => Outcome::Timeout,
        Ok(Ok(s)) => Outcome::Ok(s),
        Ok(Err(e)) => Outcome::Err(format!("{:?}", e).split(|c: char| !c.is_alphanumeric()).next().unwrap_or("?").to_string()),
    }
}

fn render(state: &ProcessState) -> usize {
    let mut s = Sink(0);
    state.print(&mut s).expect("print");
    state.print_brief(&mut s).expect("print_brief");
    state.print_json(&mut s, false).expect("print_json");
    state.print_json(&mut s, true).expect("print_json pretty");
    s.0
}

/// (max frames of any thread, stack bytes available to that thread, every thread within the bound)
fn frame_bound(dump: &Minidump<'_, Vec<u8>>, state: &ProcessState) -> (usize, u64, bool) {
    let mem = dump.get_memory().unwrap_or_default();
    let threads = dump.get_stream::<MinidumpThreadList>().ok();
    let mut worst = (0usize, 0u64);
    let mut ok = true;
    for (i, cs) in state.threads.iter().enumerate() {
        let mut bytes = 0u64;
        if let Some(t) = threads.as_ref().and_then(|tl| tl.threads.get(i)) {
            if let Some(m) = t.stack_memory(&mem) {
                bytes = bytes.max(m.size());
            }
        }
        if let Some(f0) = cs.frames.first() {
            if let Some(m) = mem.memory_at_address(f0.context.get_stack_pointer()) {
                bytes = bytes.max(m.size());
            }
        }
        let n = cs.frames.len();
        if (n as u64) > bytes.saturating_add(2) {
            ok = false;
            worst = (n, bytes);
        } else if ok && n >= worst.0 {
            worst = (n, bytes);
        }
    }
    (worst.0, worst.1, ok)
}

/// `share=1` (round 5, second pass): every entry of the thread list cites the FILE BYTES of the first entry — its stack
/// descriptor (start_of_memory_range, data_size, rva) and its context location are copied into all other entries. A
/// MINIDUMP_LOCATION_DESCRIPTOR is a reference into the file and nothing in the readers forbids two descriptors from
/// naming the same bytes, so T threads can be walked over one S-byte stack that the file holds once.
/// Returns the patched dump and (threads, data_size of the shared stack).
fn share_patch(spec: &Spec, mut bytes: Vec<u8>) -> (Vec<u8>, u64, u64) {
    if spec.extra.get("share").map(|v| v != "1").unwrap_or(true) || bytes.len() < 32 {
        return (bytes, 0, 0);
    }
    let rd = |b: &[u8], o: usize| -> usize {
        if o + 4 <= b.len() {
            u32::from_le_bytes([b[o], b[o + 1], b[o + 2], b[o + 3]]) as usize
        } else {
            0
        }
    };
    let (count, dir) = (rd(&bytes, 8), rd(&bytes, 12));
    for i in 0..count.min(64) {
        let o = dir + 12 * i;
        if rd(&bytes, o) == 3 {
            let (size, rva) = (rd(&bytes, o + 4), rd(&bytes, o + 8));
            let n = rd(&bytes, rva);
            if n == 0 || 4 + 48 * n > size || rva + size > bytes.len() {
                return (bytes, 0, 0);
            }
            let first: Vec<u8> = bytes[rva + 4 + 24..rva + 4 + 48].to_vec();
            for k in 1..n {
                let e = rva + 4 + 48 * k;
                bytes[e + 24..e + 48].copy_from_slice(&first);
            }
            let ssz = u32::from_le_bytes([first[8], first[9], first[10], first[11]]) as u64;
            return (bytes, n as u64, ssz);
        }
    }
    (bytes, 0, 0)
}

/// |thread list| x (bytes of the largest region a thread can be walked on + 2): the bound of c03_total_frames_bound, computable
/// before processing (regions of the memory list and the threads' own stack descriptors)
fn whole_frame_budget(dump: &Minidump<'_, Vec<u8>>) -> usize {
    let mem = dump.get_memory().unwrap_or_default();
    let mut largest = 0u64;
    for m in mem.iter() {
        largest = largest.max(m.size());
    }
    let mut n = 0u64;
    if let Ok(tl) = dump.get_stream::<MinidumpThreadList>() {
        n = tl.threads.len() as u64;
        for t in &tl.threads {
            if let Some(m) = t.stack_memory(&mem) {
                largest = largest.max(m.size());
            }
        }
    }
    n.saturating_mul(largest.saturating_add(2)).min(usize::MAX as u64) as usize
}

/// the frame budget of a processed state: the sum over its threads of (bytes of the stack memory the thread can have been walked
/// on + 2) — per thread the bound of c03_process_threads_total, with the same measure of "stack bytes" as frame_bound below
fn frame_budget(dump: &Minidump<'_, Vec<u8>>, state: &ProcessState) -> u64 {
    let mem = dump.get_memory().unwrap_or_default();
    let threads = dump.get_stream::<MinidumpThreadList>().ok();
    let mut total = 0u64;
    for (i, cs) in state.threads.iter().enumerate() {
        let mut bytes = 0u64;
        if let Some(t) = threads.as_ref().and_then(|tl| tl.threads.get(i)) {
            if let Some(m) = t.stack_memory(&mem) {
                bytes = bytes.max(m.size());
            }
        }
        if let Some(f0) = cs.frames.first() {
            if let Some(m) = mem.memory_at_address(f0.context.get_stack_pointer()) {
                bytes = bytes.max(m.size());
            }
        }
        total = total.saturating_add(bytes.saturating_add(2));
    }
    total
}

fn run_whole(spec: &Spec) -> String {
    let t0 = Instant::now();
    PEAK.store(CUR.load(Ordering::Relaxed), Ordering::Relaxed);
    let base = CUR.load(Ordering::Relaxed);
    let (bytes, _sh_threads, _sh_bytes) = share_patch(spec, build_dump(spec));
    let insz = bytes.len() + spec.syms.iter().map(|s| s.len()).sum::<usize>();
    // reading the dump: budget on the input bytes alone; re-armed below with the frame budget once the thread list is known
    arm_cpu_budget(insz);
    let (cpu0, al0) = (cpu_ms(), NALLOC.load(Ordering::Relaxed));
    SYM_CALLS.store(0, Ordering::Relaxed);
    let dump = match Minidump::read(bytes) {
        Ok(d) => d,
        Err(_) => {
            disarm_cpu_budget();
            return format!("OK r=readerr thr=0 fr=0/0 fb=1 peak=0 in={} out=0 ms=0 cpu={} al=0 sym=0/0 fbud=0/0", insz, cpu_ms() - cpu0);
        }
    };
    // The budget "tied to the input size" is the one PROVED for the model (c03_total_frames_bound / c03_frames_budget_in_file_size):
    // the whole state has at most |thread list| x (largest memory region + 2) frames, whatever the stacks and symbols contain —
    // descriptors are references into the file, so this is quadratic in the file length, not linear. The watchdog is armed with
    // that figure (cheap to compute before processing); the oracle judges with the tighter per-thread sum `fbud` reported below.
    let frame_budget_upper = whole_frame_budget(&dump);
    arm_cpu_budget(insz.saturating_add(frame_budget_upper));
    let syms = symbol_table(spec, &dump);
    let opts: Vec<u32> = match spec.opt {
        3 => vec![0, 1, 2],
        5 => vec![0, 1, 2, 4],
        x => vec![x],
    };
    let evil_file = spec.extra.get("evil").map(|h| {
        let mut f = tempfile::NamedTempFile::new().expect("tmp");
        f.write_all(&unhex(h)).unwrap();
        f
    });
    let evil = evil_file.as_ref().map(|f| f.path());
    let mut res = String::from("ok");
    let (mut thr, mut fr, mut sb, mut fb, mut out) = (0usize, 0usize, 0u64, true, 0usize);
    let mut frames_total = 0usize;
    let mut fbud = 0u64;
    for o in opts {
        match process(&dump, &syms, o, evil) {
            Outcome::Timeout => res = "timeout".into(),
            Outcome::Err(e) => res = format!("err:{}", e),
            Outcome::Ok(state) => {
                out += render(&state);
                let (n, b, ok) = frame_bound(&dump, &state);
                fbud = fbud.max(frame_budget(&dump, &state));
                thr = state.threads.len();
                frames_total += state.threads.iter().map(|t| t.frames.len()).sum::<usize>();
                if !ok || (fb && n >= fr) {
                    fr = n;
                    sb = b;
                }
                fb &= ok;
            }
        }
    }
    let peak = PEAK.load(Ordering::Relaxed).saturating_sub(base);
    disarm_cpu_budget();
    format!(
        "OK r={} thr={} fr={}/{} fb={} peak={} in={} out={} ms={} cpu={} al={} sym={}/{} fbud={}/{}",
        res,
        thr,
        fr,
        sb,
        fb as u8,
        peak,
        insz,
        out,
        t0.elapsed().as_millis(),
        cpu_ms() - cpu0,
        NALLOC.load(Ordering::Relaxed) - al0,
        SYM_CALLS.load(Ordering::Relaxed),
        frames_total,
        fbud,
        frame_budget_upper
    )
}

fn hexs(s: &str) -> String {
    hex(s.as_bytes())
}

fn state_of(spec: &Spec) -> ProcessState {
    let dump = Minidump::read(share_patch(spec, build_dump(spec)).0).expect("read");
    match process(&dump, &HashMap::new(), 0, None) {
        Outcome::Ok(s) => s,
        Outcome::Err(e) => panic!("process error {}", e),
        Outcome::Timeout => panic!("timeout"),
    }
}

fn base_thread() -> ThreadSpec {
    ThreadSpec { id: 1, stack_base: 0x10000, stack: vec![0; 64], regs: Some(vec![]) }
}

fn run_limits(t: &mut Toks) -> String {
    let mut spec = Spec { cpu: "x86".into(), os: "linux".into(), ..Default::default() };
    spec.threads.push(base_thread());
    spec.limits = Some(unhex(t.str()));
    let state = state_of(&spec);
    let mut v: Vec<String> = vec![];
    if let Some(l) = &state.linux_proc_limits {
        let mut keys: Vec<&String> = l.limits.keys().collect();
        keys.sort();
        for k in keys {
            let e = &l.limits[k];
            let lim = |x: &minidump_processor::Limit| match x {
                minidump_processor::Limit::Unlimited => "u".to_string(),
                minidump_processor::Limit::Limited(v) => v.to_string(),
                _ => "e".to_string(),
            };
            v.push(format!("{}|{}|{}|{}", hexs(k), lim(&e.soft), lim(&e.hard), hexs(&e.unit)));
        }
    }
    // the printers must cope with whatever was parsed
    render(&state);
    format!("L {}", v.join(";"))
}

fn amd64_crash(instr: &[u8], regs: Vec<(String, u64)>) -> Spec {
    let mut spec = Spec { cpu: "amd64".into(), os: "linux".into(), ..Default::default() };
    let mut r = regs.clone();
    r.push(("rip".into(), 0x400000));
    spec.threads.push(ThreadSpec { id: 1, stack_base: 0x10000, stack: vec![0; 64], regs: Some(r.clone()) });
    spec.exc = Some(ExcSpec { tid: 1, code: 11, flags: 0, addr: 0, nparams: 0, info0: 0, info1: 0, regs: Some(r) });
    spec.regions.push((0x400000, instr.to_vec()));
    spec
}

fn run_guard(t: &mut Toks) -> String {
    let addr = t.u64();
    let kind = t.u64();
    let n = t.usize();
    let regs: Vec<(u64, u64, u64)> = (0..n).map(|_| (t.u64(), t.u64(), t.u64())).collect();
    let mut spec = amd64_crash(&[0x48, 0x8b, 0x03], vec![("rbx".into(), addr), ("rsp".into(), 0x10020)]);
    if kind == 0 {
        for &(b, s, p) in &regs {
            spec.meminfo.push((b, s, p as u32));
        }
    } else {
        let mut text = String::new();
        for (i, &(lo, hi, p)) in regs.iter().enumerate() {
            text.push_str(&format!(
                "{:x}-{:x} {}{}{}p 00000000 00:00 {} /m{}\n",
                lo,
                hi,
                if p & 4 != 0 { 'r' } else { '-' },
                if p & 2 != 0 { 'w' } else { '-' },
                if p & 1 != 0 { 'x' } else { '-' },
                i,
                i
            ));
        }
        spec.maps = Some(text.into_bytes());
    }
    let state = state_of(&spec);
    render(&state);
    let g = state
        .exception_info
        .as_ref()
        .and_then(|ei| ei.memory_access_list.as_ref())
        .and_then(|l| l.accesses.first().map(|a| a.address_info.is_likely_guard_page));
    match g {
        Some(b) => format!("G {}", b as u8),
        None => "G -".into(),
    }
}

const OPS: [&[u8]; 8] = [
    &[0xff, 0x30],
    &[0xff, 0x10],
    &[0x8f, 0x00],
    &[0xc3],
    &[0x50],
    &[0xe8, 0, 0, 0, 0],
    &[0x58],
    &[0x48, 0x8b, 0x00],
];

fn run_stack_access(t: &mut Toks) -> String {
    let rsp = t.u64();
    let op = t.usize();
    let spec = amd64_crash(OPS[op], vec![("rax".into(), 0x5000), ("rsp".into(), rsp)]);
    let state = state_of(&spec);
    render(&state);
    let l = state.exception_info.as_ref().and_then(|ei| ei.memory_access_list.as_ref());
    match l {
        Some(l) => format!("S {}", l.accesses.iter().map(|a| a.address_info.address.to_string()).collect::<Vec<_>>().join(",")),
        None => "S -".into(),
    }
}

fn run_json_modules(t: &mut Toks) -> String {
    let mut spec = Spec { cpu: "amd64".into(), os: "linux".into(), ..Default::default() };
    spec.threads.push(ThreadSpec { id: 1, stack_base: 0x10000, stack: vec![0; 64], regs: Some(vec![("rip".into(), 0x1000), ("rsp".into(), 0x10000)]) });
    let n = t.usize();
    for i in 0..n {
        spec.modules.push(ModSpec { base: t.u64(), size: t.u64() as u32, name: format!("/m/mod{}", i), sym: None, debug: None });
    }
    let u = t.usize();
    for i in 0..u {
        spec.unloaded.push(ModSpec { base: t.u64(), size: t.u64() as u32, name: format!("/u/unl{}", i), sym: None, debug: None });
    }
    let state = state_of(&spec);
    let mut s = Sink(0);
    state.print(&mut s).expect("print");
    state.print_brief(&mut s).expect("print_brief");
    let mut out = Vec::new();
    state.print_json(&mut out, false).expect("print_json");
    let v: serde_json::Value = serde_json::from_slice(&out).expect("json");
    let ends = |key: &str| {
        v[key]
            .as_array()
            .map(|a| {
                a.iter()
                    .map(|m| u64::from_str_radix(m["end_addr"].as_str().unwrap_or("0x0").trim_start_matches("0x"), 16).unwrap().to_string())
                    .collect::<Vec<_>>()
                    .join(",")
            })
            .unwrap_or_default()
    };
    format!("J {}|{}", ends("modules"), ends("unloaded_modules"))
}

/// I case: see the header. The regions' bytes are a function of the address.
fn run_fetch(t: &mut Toks) -> String {
    let mem64 = t.u64() == 1;
    let os = if t.u64() == 1 { "win" } else { "linux" };
    let cpu = if t.u64() == 1 { "x86" } else { "amd64" };
    let ip = t.u64();
    let l = t.usize();
    let n = t.usize();
    let mut instr: Vec<u8> = match l {
        1 => vec![0xc3],
        2 => vec![0xff, 0x30],
        _ => {
            let mut v = vec![0x2e; l - 3];
            v.extend_from_slice(&[0x48, 0x8b, 0x03]);
            v
        }
    };
    instr.truncate(l);
    let byte_at = |a: u64| -> u8 {
        let d = a.wrapping_sub(ip);
        if (d as usize) < instr.len() && d < 64 {
            instr[d as usize]
        } else {
            0x90
        }
    };
    let mut spec = Spec { cpu: cpu.into(), os: os.into(), ..Default::default() };
    let (ipn, spn) = if cpu == "x86" { ("eip", "esp") } else { ("rip", "rsp") };
    let r: Vec<(String, u64)> = vec![(ipn.into(), ip), (spn.into(), 0x10020), ("rbx".into(), 0x5000), ("rax".into(), 0x5000)];
    // the stack is a region of the memory list like the others: its bytes follow the same function of the address
    spec.threads.push(ThreadSpec { id: 1, stack_base: 0x10000, stack: (0..64u64).map(|i| byte_at(0x10000 + i)).collect(), regs: Some(r.clone()) });
    spec.exc = Some(ExcSpec { tid: 1, code: 11, flags: 0, addr: 0, nparams: 0, info0: 0, info1: 0, regs: Some(r) });
    for _ in 0..n {
        let (b, len) = (t.u64(), t.u64());
        spec.regions.push((b, (0..len).map(|i| byte_at(b.wrapping_add(i))).collect()));
    }
    if mem64 {
        spec.extra.insert("mem64".into(), "1".into());
    }
    let state = state_of(&spec);
    render(&state);
    let decoded = state.exception_info.as_ref().map(|ei| ei.instruction_str.is_some()).unwrap_or(false);
    format!("I {}", decoded as u8)
}

/// the bytes of every region of a U case are this function of the address: `jmp [rbx]` at 0x400000, a pattern elsewhere
pub fn pattern_byte(a: u64) -> u8 {
    match a {
        0x400000 => 0xff,
        0x400001 => 0x23,
        _ => (a.wrapping_mul(131).wrapping_add(7) & 0xff) as u8,
    }
}

fn run_read_u64(t: &mut Toks) -> String {
    let mem64 = t.u64() == 1;
    let addr = t.u64();
    let n = t.usize();
    let mut spec = Spec { cpu: "amd64".into(), os: "linux".into(), ..Default::default() };
    let r: Vec<(String, u64)> = vec![("rip".into(), 0x400000), ("rsp".into(), 0x10020), ("rbx".into(), addr)];
    spec.threads.push(ThreadSpec { id: 1, stack_base: 0x10000, stack: (0..64u64).map(|i| pattern_byte(0x10000 + i)).collect(), regs: Some(r.clone()) });
    spec.exc = Some(ExcSpec { tid: 1, code: 11, flags: 0, addr: 0, nparams: 0, info0: 0, info1: 0, regs: Some(r) });
    spec.regions.push((0x400000, vec![0xff, 0x23]));
    for _ in 0..n {
        let (b, len) = (t.u64(), t.u64());
        spec.regions.push((b, (0..len).map(|i| pattern_byte(b.wrapping_add(i))).collect()));
    }
    if mem64 {
        spec.extra.insert("mem64".into(), "1".into());
    }
    let state = state_of(&spec);
    render(&state);
    let ei = state.exception_info.as_ref().expect("exception info");
    if ei.instruction_str.is_none() {
        return "U -".into(); // a generated region cut the instruction off (the model predicts that too)
    }
    // the enum is not nameable from outside the crate: read the address out of its Debug rendering
    let dbg = format!("{:?}", ei.instruction_pointer_update);
    match dbg.strip_prefix("Some(Update { address_info: MemoryAddressInfo { address: ") {
        Some(rest) => format!("U {}", rest.split(',').next().unwrap()),
        None => "U -".into(),
    }
}

/// A <hex of a function name (UTF-8)>: x86 / Windows thread inside a module whose symbol file names the
/// covering FUNC so; unstable_all. -> A <cc 0 cdecl|1 thiscall> <arg names hex, comma separated> | A -
fn run_args(t: &mut Toks) -> String {
    let name = String::from_utf8(unhex(t.str())).expect("utf8 name");
    let mut spec = Spec { cpu: "x86".into(), os: "win".into(), opt: 2, ..Default::default() };
    spec.threads.push(ThreadSpec { id: 1, stack_base: 0x10000, stack: vec![0; 64], regs: Some(vec![("eip".into(), 0x400010), ("esp".into(), 0x10000)]) });
    spec.modules.push(ModSpec { base: 0x400000, size: 0x1000, name: "c:\\m\\mod.dll".into(), sym: Some(0), debug: None });
    spec.syms.push(format!("MODULE windows x86 000000000000000000000000000000000 mod.pdb\nFUNC 0 1000 0 {}\n", name).into_bytes());
    let dump = Minidump::read(build_dump(&spec)).expect("read");
    let syms = symbol_table(&spec, &dump);
    let state = match process(&dump, &syms, 2, None) {
        Outcome::Ok(s) => s,
        Outcome::Err(e) => panic!("process error {}", e),
        Outcome::Timeout => panic!("timeout"),
    };
    render(&state);
    let f0 = &state.threads[0].frames[0];
    if f0.function_name.as_deref() != Some(name.as_str()) {
        return format!("A ?name {}", hexs(f0.function_name.as_deref().unwrap_or("<none>")));
    }
    match &f0.arguments {
        None => "A -".into(),
        Some(a) => {
            let cc = match a.calling_convention {
                minidump_unwind::CallingConvention::Cdecl => 0,
                _ => 1,
            };
            format!("A {} {}", cc, a.args.iter().map(|x| hexs(&x.name)).collect::<Vec<_>>().join(","))
        }
    }
}

/// N case: see the header.
fn run_info_new(t: &mut Toks) -> String {
    let mut hidden: Vec<u32> = vec![];
    while let Some(x) = t.opt() {
        hidden.push(x.parse::<u64>().expect("stream type") as u32);
    }
    let r: Vec<(String, u64)> = vec![("rip".into(), 0x400010), ("rsp".into(), 0x10020), ("rbp".into(), 0x10030)];
    let mut spec = Spec { cpu: "amd64".into(), os: "linux".into(), ..Default::default() };
    spec.threads.push(ThreadSpec { id: 1, stack_base: 0x10000, stack: vec![0; 64], regs: Some(r.clone()) });
    spec.threads.push(ThreadSpec { id: 2, stack_base: 0x20000, stack: vec![0; 32], regs: Some(r.clone()) });
    spec.exc = Some(ExcSpec { tid: 1, code: 11, flags: 0, addr: 0x80400, nparams: 0, info0: 0, info1: 0, regs: Some(r) });
    spec.modules.push(ModSpec { base: 0x400000, size: 0x1000, name: "/m/mod0".into(), sym: None, debug: None });
    spec.unloaded.push(ModSpec { base: 0x600000, size: 0x1000, name: "/u/unl0".into(), sym: None, debug: None });
    spec.meminfo.push((0x80000, 0x1000, 4));
    spec.regions.push((0x400000, vec![0x48, 0x8b, 0x03]));
    spec.names.push((1, "main".into()));
    spec.breakpad = Some((2, 1));
    spec.maps = Some(b"00400000-00401000 r-xp 00000000 00:00 0 /m/mod0\n".to_vec());
    spec.limits = Some(b"Limit  Soft Limit  Hard Limit  Units\nMax cpu time  unlimited  unlimited  seconds\n".to_vec());
    spec.status = Some(b"Name:\tx\nPid:\t42\n".to_vec());
    spec.lsb = Some(b"DISTRIB_ID=x\n".to_vec());
    spec.cpuinfo = Some(b"processor\t: 0\nmicrocode\t: 0x1f\n".to_vec());
    spec.environ = Some(b"A=b\0".to_vec());
    let mut bytes = build_dump(&spec);
    let rd = |b: &[u8], o: usize| u32::from_le_bytes([b[o], b[o + 1], b[o + 2], b[o + 3]]);
    let (count, dir) = (rd(&bytes, 8) as usize, rd(&bytes, 12) as usize);
    for i in 0..count {
        let o = dir + 12 * i;
        if hidden.contains(&rd(&bytes, o)) {
            bytes[o..o + 4].copy_from_slice(&(0x4d5a_0000u32 + i as u32).to_le_bytes());
        }
    }
    let dump = Minidump::read(bytes).expect("read");
    match process(&dump, &HashMap::new(), 0, None) {
        Outcome::Ok(s) => {
            render(&s);
            "N ok".into()
        }
        Outcome::Err(e) => format!("N err:{}", e),
        Outcome::Timeout => "N timeout".into(),
    }
}

/// B case: see the header.
fn run_nearby(t: &mut Toks) -> String {
    let good = t.u64();
    let crash = t.u64();
    let n = t.usize();
    const NAMES: [&str; 16] = ["rax", "rbx", "rcx", "rdx", "rsi", "rdi", "rbp", "rsp", "r8", "r9", "r10", "r11", "r12", "r13", "r14", "r15"];
    let mut r: Vec<(String, u64)> = (0..n).map(|i| (NAMES[i].to_string(), t.u64())).collect();
    r.push(("rip".into(), 0x400000));
    let mut spec = Spec { cpu: "amd64".into(), os: "linux".into(), ..Default::default() };
    spec.threads.push(ThreadSpec { id: 1, stack_base: 0x10000, stack: vec![0; 64], regs: Some(r.clone()) });
    spec.exc = Some(ExcSpec { tid: 1, code: 11, flags: 0, addr: crash, nparams: 0, info0: 0, info1: 0, regs: Some(r) });
    spec.meminfo.push((good & !0xfff, 0x1000, 4));
    let state = state_of(&spec);
    render(&state);
    let ei = state.exception_info.as_ref().expect("exception info");
    let Some(bf) = ei.possible_bit_flips.iter().find(|b| b.address.0 == good && b.source_register.is_none()) else {
        return format!("B ? {} candidates", ei.possible_bit_flips.len());
    };
    let count = bf.details.nearby_registers;
    // which table entry went into the confidence: recompute it for the counts 1..=4, which use the entries 0..=3
    let mut idx: Option<usize> = None;
    if count > 0 {
        for k in 1..=4u32 {
            let mut d = bf.details.clone();
            d.nearby_registers = k;
            if Some(d.confidence()) == bf.confidence {
                idx = Some(k as usize - 1);
            }
        }
        if idx.is_none() {
            return format!("B {} ?", count);
        }
    }
    format!("B {} {}", count, idx.map(|i| i.to_string()).unwrap_or_else(|| "-".into()))
}

/// what print / print_brief wrote, as the items of coq/C03/RenderModel.v: T<i> thread header, N `<no frames>`, I<n> inline frame,
/// F<n>:<offset|-> real frame with the offset printed after `module + ` (- = raw address)
fn text_items(out: &str) -> String {
    let mut toks: Vec<String> = vec![];
    for line in out.lines() {
        if let Some(rest) = line.strip_prefix("Thread ") {
            toks.push(format!("T{}", rest.split(' ').next().unwrap_or("?")));
        } else if line == "<no frames>" {
            toks.push("N".into());
        } else {
            // `{frame_idx:2}  ` then the frame
            let t = line.trim_start_matches(' ');
            if line.len() - t.len() > 1 {
                continue;
            }
            let digits: String = t.chars().take_while(|c| c.is_ascii_digit()).collect();
            if digits.is_empty() || !t[digits.len()..].starts_with("  ") || (digits.len() == 1 && line.len() - t.len() != 1) {
                continue;
            }
            let rest = &t[digits.len() + 2..];
            if rest.starts_with("0x") {
                toks.push(format!("F{}:-", digits));
            } else if let Some(i) = rest.rfind(" + 0x") {
                let off = u64::from_str_radix(&rest[i + 5..], 16).map(|v| v.to_string()).unwrap_or_else(|_| "?".into());
                toks.push(format!("F{}:{}", digits, off));
            } else if rest.contains('!') {
                toks.push(format!("I{}", digits));
            } else {
                toks.push(format!("?{}", digits));
            }
        }
    }
    if toks.is_empty() {
        "-".into()
    } else {
        toks.join(",")
    }
}

/// print_json's threads / frames / crashing_thread as items: J<frames> per thread followed by f<idx>:<module_offset|-> per frame,
/// C<threads_index> for the crashing_thread object
fn json_items(out: &[u8]) -> String {
    let v: serde_json::Value = serde_json::from_slice(out).expect("json");
    let mut toks: Vec<String> = vec![];
    let hexnum = |x: &serde_json::Value| match x.as_str() {
        Some(s) => u64::from_str_radix(s.trim_start_matches("0x"), 16).map(|v| v.to_string()).unwrap_or_else(|_| "?".into()),
        None => "-".into(),
    };
    for t in v["threads"].as_array().map(|a| a.as_slice()).unwrap_or(&[]) {
        let frames = t["frames"].as_array().map(|a| a.as_slice()).unwrap_or(&[]);
        toks.push(format!("J{}", frames.len()));
        if t["frame_count"].as_u64() != Some(frames.len() as u64) {
            toks.push("?frame_count".into());
        }
        for f in frames {
            toks.push(format!("f{}:{}", f["frame"].as_u64().map(|x| x.to_string()).unwrap_or_else(|| "?".into()), hexnum(&f["module_offset"])));
        }
    }
    if let Some(ct) = v.get("crashing_thread") {
        toks.push(format!("C{}", ct["threads_index"].as_u64().map(|x| x.to_string()).unwrap_or_else(|| "?".into())));
        if !ct["frames"][0]["registers"].is_object() {
            toks.push("?registers".into());
        }
    }
    if toks.is_empty() {
        "-".into()
    } else {
        toks.join(",")
    }
}

/// T case: see the header.
fn run_threads(spec: &Spec) -> String {
    let state = state_of(spec);
    render(&state);
    let (mut full, mut brief, mut json) = (Vec::new(), Vec::new(), Vec::new());
    state.print(&mut full).expect("print");
    state.print_brief(&mut brief).expect("print_brief");
    state.print_json(&mut json, false).expect("print_json");
    let rendered = format!(
        "{} | {} | {}",
        text_items(&String::from_utf8_lossy(&full)),
        text_items(&String::from_utf8_lossy(&brief)),
        json_items(&json)
    );
    let mut parts: Vec<String> = vec![];
    for cs in &state.threads {
        let info = match cs.info {
            minidump_unwind::CallStackInfo::Ok => 0,
            minidump_unwind::CallStackInfo::MissingContext => 1,
            minidump_unwind::CallStackInfo::DumpThreadSkipped => 2,
            _ => 3,
        };
        let frames: Vec<String> = cs
            .frames
            .iter()
            .map(|f| {
                let t = match f.trust {
                    minidump_unwind::FrameTrust::None => 0,
                    minidump_unwind::FrameTrust::Scan => 1,
                    minidump_unwind::FrameTrust::CfiScan => 2,
                    minidump_unwind::FrameTrust::FramePointer => 3,
                    minidump_unwind::FrameTrust::CallFrameInfo => 4,
                    minidump_unwind::FrameTrust::PreWalked => 5,
                    minidump_unwind::FrameTrust::Context => 6,
                };
                format!("{}/{}", f.instruction, t)
            })
            .collect();
        let offs: Vec<String> = cs
            .frames
            .iter()
            .map(|f| {
                let mut v: Vec<u64> = f.unloaded_modules.values().flat_map(|s| s.iter().copied()).collect();
                v.sort();
                v.iter().map(|x| x.to_string()).collect::<Vec<_>>().join("+")
            })
            .collect();
        parts.push(format!("{}:{}:{}:{}", cs.thread_id, info, frames.join(","), offs.join(",")));
    }
    format!(
        "T req={} {} | {}",
        state.requesting_thread.map(|i| i.to_string()).unwrap_or_else(|| "-".into()),
        parts.join(";"),
        rendered
    )
}

fn run(line: &str) -> String {
    let mut t = Toks::new(line);
    match t.str() {
        "D" | "F" => {
            let spec = parse_spec(line.split_ascii_whitespace().skip(1));
            run_whole(&spec)
        }
        "T" => {
            let spec = parse_spec(line.split_ascii_whitespace().skip(1));
            run_threads(&spec)
        }
        "N" => run_info_new(&mut t),
        "B" => run_nearby(&mut t),
        "L" => run_limits(&mut t),
        "G" => run_guard(&mut t),
        "S" => run_stack_access(&mut t),
        "J" => run_json_modules(&mut t),
        "A" => run_args(&mut t),
        "I" => run_fetch(&mut t),
        "U" => run_read_u64(&mut t),
        x => panic!("kind {}", x),
    }
}

fn main() {
    start_cpu_watchdog();
    for_each_case(run);
}
