//! C18 correspondence harness: calls the live CpuContext / MinidumpContext methods.
//!   <variant> <name> <validity> <value> [<context_flags>|- [<fill>]]
//!   R <arch> <fill> <len>      (MinidumpContext::read: which context type is chosen; see run_read)
//!   W <variant> <n1>=<v1>,<n2>=<v2>,... [<fill>]   (a sequence of set_register calls; see run_writes)
//!   D <arch> <flags_off> <flags_width> <flags> <L|B>  (read of the byte pattern, every register reported; see run_decode)
//! variant: MinidumpRawContext variant (X86 Ppc Ppc64 Amd64 Sparc Arm Arm64 OldArm64 Mips)
//! name: register name, `-` for the empty string, `~` stands for a space
//! validity: `A` (All) or `S:<n1>,<n2>,...` (Some(set); `S:` is the empty set; `-` = empty name)
//! value: decimal, below 2^width
//! context_flags: decimal; written into the context's `context_flags` field (truncated to its width)
//!   before anything else happens (absent or `-` = the base value)
//! fill: decimal 32-bit word; when present the base context is read from bytes in which EVERY 32-bit word is this
//!   word (so every integer field, whichever a method might consult - cpsr, eflags, context_flags, ... - holds that
//!   bit pattern, repeated to the field's width); absent = the pattern below
//!
//! The context starts from a byte pattern read through the struct's own `Pread` impl (every
//! field holds a distinct value with top byte 0x5A, no field is named here); then
//! set_register(name, value) is applied and everything is observed through the public
//! methods.  Values are printed as `B` when they still hold what they held before the set.
//! Answer: `k=v` fields joined by ';' (shared with the model), then `|`-separated
//! implementation-only observations used by the oracle:
//!   mz  memoize_register(name) or N          st  set_register -> 1 (Some) / 0 (None)
//!   ga  get_register_always(name) after the set: value / B / P (panicked)
//!   gA  get_register(name, All): value / B / N / P        gr  get_register(name, validity)
//!   iv  register_is_valid(name, validity)   ch  REGISTERS entries whose value changed `r:v,...`
//!   sp / ip  MinidumpContext::get_stack_pointer / get_instruction_pointer after the set: value / B
//!   spn / ipn  stack_pointer_register_name / instruction_pointer_register_name
//!   rn  MinidumpContext::registers() names   vn  MinidumpContext::valid_registers() names
//!   cr  CpuContext::registers() names        cv  CpuContext::valid_registers(validity) names, sorted (P if it panicked)
//!   sz  register_size()                      fm  format_register(name) (P if it panicked; B-relative like ga)
//!   mg  MinidumpContext::get_register(name) with the case's validity: value / B / N / P
//!   mga MinidumpContext::get_register_always(name) after the set: value / B / P
//!   g0 / sp0 / ip0  raw values BEFORE the set: get_register_always(name) (P if it panicked), get_stack_pointer,
//!            get_instruction_pointer (the model computes them from the byte layout the translator derives from format.rs)
//!   sa / ia  1 iff get_stack_pointer / get_instruction_pointer equals get_register_always(<sp / ip register name>)
//!            widened to u64, both before and after the set
//!   mf  1 iff MinidumpContext::format_register(name) = CpuContext::format_register(name) (same string, or both panic)
//!   ev  1 iff every (name, value) pair MinidumpContext::registers() and CpuContext::registers() yield after the set
//!       carries the value get_register_always(name) returns
//!   | RG=<T::REGISTERS> | spm=<memoize(sp name)> | ipm=<memoize(ip name)> | sm=<memoize of each validity member>
use minidump::{ContextError, CpuContext, MinidumpContext, MinidumpContextValidity, MinidumpRawContext, MinidumpStream, MinidumpSystemInfo};
use minidump_common::format as md;
use scroll::Pread;
use std::collections::HashSet;
use std::panic::{catch_unwind, AssertUnwindSafe};
use vharness::*;

fn leak(s: &str) -> &'static str {
    Box::leak(s.to_string().into_boxed_str())
}

fn name_of(t: &str) -> String {
    if t == "-" {
        String::new()
    } else {
        t.replace('~', " ")
    }
}

fn pattern(fill: Option<u32>) -> Vec<u8> {
    // 32-bit word j = 0x5A000000 + j (little endian): distinct u32 and u64 fields; or the fill word everywhere
    let mut v = Vec::with_capacity(8192);
    for j in 0u32..2048 {
        v.extend_from_slice(&fill.unwrap_or(0x5A00_0000u32 + j).to_le_bytes());
    }
    v
}

fn show(v: Option<u64>, before: Option<u64>) -> String {
    match v {
        None => "P".into(),
        Some(x) if Some(x) == before => "B".into(),
        Some(x) => x.to_string(),
    }
}

fn guard<R>(f: impl FnOnce() -> R) -> Option<R> {
    catch_unwind(AssertUnwindSafe(f)).ok()
}

fn run_ctx<T>(base: T, wrap: fn(T) -> MinidumpRawContext, name: &str, valid: MinidumpContextValidity, members: &[String], value: u64) -> String
where
    T: CpuContext + Clone,
    T::Register: Copy + Into<u64> + TryFrom<u64> + PartialEq,
{
    let val: T::Register = match T::Register::try_from(value) {
        Ok(v) => v,
        Err(_) => panic!("value does not fit the register width"),
    };
    let before_md = MinidumpContext { raw: wrap(base.clone()), valid: valid.clone() };
    let before_regs: Vec<(&'static str, u64)> = T::REGISTERS
        .iter()
        .map(|r| (*r, guard(|| base.get_register_always(r).into()).unwrap_or(u64::MAX)))
        .collect();
    let before_named: Option<u64> = guard(|| base.get_register_always(name).into());
    let before_sp = before_md.get_stack_pointer();
    let before_ip = before_md.get_instruction_pointer();
    let named = |c: &T, n: &'static str| -> Option<u64> { guard(|| c.get_register_always(n).into()) };
    let sa_before = Some(before_sp) == named(&base, base.stack_pointer_register_name());
    let ia_before = Some(before_ip) == named(&base, base.instruction_pointer_register_name());

    let mut ctx = base.clone();
    let st = ctx.set_register(name, val).is_some();
    let mdc = MinidumpContext { raw: wrap(ctx.clone()), valid: valid.clone() };

    let mz = ctx.memoize_register(name);
    let ga: Option<u64> = guard(|| ctx.get_register_always(name).into());
    let g_all: Option<Option<u64>> = guard(|| ctx.get_register(name, &MinidumpContextValidity::All).map(Into::into));
    let gr: Option<Option<u64>> = guard(|| ctx.get_register(name, &valid).map(Into::into));
    let mg: Option<Option<u64>> = guard(|| mdc.get_register(name));
    let iv = ctx.register_is_valid(name, &valid);
    let opt_show = |o: Option<Option<u64>>| match o {
        None => "P".to_string(),
        Some(None) => "N".to_string(),
        Some(Some(x)) => show(Some(x), before_named),
    };
    let mut ch: Vec<String> = vec![];
    for (r, b) in &before_regs {
        let now: u64 = guard(|| ctx.get_register_always(r).into()).unwrap_or(u64::MAX);
        if now != *b {
            ch.push(format!("{}:{}", r, now));
        }
    }
    let sp = mdc.get_stack_pointer();
    let ip = mdc.get_instruction_pointer();
    let rn: Vec<&str> = mdc.registers().map(|(n, _)| n).collect();
    let vn: Option<Vec<&str>> = guard(|| mdc.valid_registers().map(|(n, _)| n).collect());
    let cr: Vec<&str> = ctx.registers().map(|(n, _)| n).collect();
    let cv: Option<Vec<&str>> = guard(|| {
        let mut v: Vec<&str> = ctx.valid_registers(&valid).map(|(n, _)| n).collect();
        v.sort();
        v
    });
    // values reported by the enumerations must be the registers' values
    let enum_values_ok = mdc.registers().all(|(n, v)| guard(|| ctx.get_register_always(n).into()) == Some(v))
        && ctx.registers().all(|(n, v)| guard(|| ctx.get_register_always(n).into()) == Some(v.into()));
    let fm: String = match guard(|| ctx.format_register(name)) {
        None => "P".into(),
        Some(s) => {
            if ga.is_some() && ga == before_named {
                // unchanged: check the rendering here, print B
                let w = std::mem::size_of::<T::Register>() * 2;
                if s == format!("0x{:0w$x}", ga.unwrap(), w = w) { "B".into() } else { format!("BAD{}", s) }
            } else {
                s
            }
        }
    };
    let mdfm_same = guard(|| mdc.format_register(name)) == guard(|| ctx.format_register(name));
    let md_ga_same = guard(|| mdc.get_register_always(name)) == ga;

    let sa = sa_before && Some(sp) == named(&ctx, ctx.stack_pointer_register_name());
    let ia = ia_before && Some(ip) == named(&ctx, ctx.instruction_pointer_register_name());

    let common = format!(
        "mz={};st={};ga={};gA={};gr={};iv={};ch={};sp={};ip={};spn={};ipn={};rn={};vn={};cr={};cv={};sz={};fm={};mg={};mga={};g0={};sp0={};ip0={};sa={};ia={};ev={};mf={}",
        mz.unwrap_or("N"),
        st as u8,
        show(ga, before_named),
        opt_show(g_all),
        opt_show(gr),
        iv as u8,
        ch.join(","),
        if sp == before_sp { "B".to_string() } else { sp.to_string() },
        if ip == before_ip { "B".to_string() } else { ip.to_string() },
        ctx.stack_pointer_register_name(),
        ctx.instruction_pointer_register_name(),
        rn.join(","),
        vn.map(|v| v.join(",")).unwrap_or_else(|| "P".into()),
        cr.join(","),
        cv.map(|v| v.join(",")).unwrap_or_else(|| "P".into()),
        mdc.register_size(),
        fm,
        opt_show(mg),
        show(guard(|| mdc.get_register_always(name)), before_named),
        before_named.map(|x| x.to_string()).unwrap_or_else(|| "P".into()),
        before_sp,
        before_ip,
        sa as u8,
        ia as u8,
        enum_values_ok as u8,
        mdfm_same as u8,
    );
    let sm: Vec<String> = members
        .iter()
        .map(|m| ctx.memoize_register(m).unwrap_or("N").to_string())
        .collect();
    format!(
        "{}|RG={}|spm={}|ipm={}|sm={}|ma={}",
        common,
        T::REGISTERS.join(","),
        ctx.memoize_register(ctx.stack_pointer_register_name()).unwrap_or("N"),
        ctx.memoize_register(ctx.instruction_pointer_register_name()).unwrap_or("N"),
        sm.join(","),
        md_ga_same as u8,
    )
}

/// `W <variant> <n1>=<v1>,<n2>=<v2>,... [<fill>]`: a sequence of set_register calls on the base context.
/// `wa=<1/0 per call: accepted>;ch=<REGISTERS entries that differ from the base afterwards r:v,...>;sp=..;ip=..` (B = as before)
fn run_writes<T>(base: T, wrap: fn(T) -> MinidumpRawContext, ops: &[(String, u64)]) -> String
where
    T: CpuContext + Clone,
    T::Register: Copy + Into<u64> + TryFrom<u64> + PartialEq,
{
    let before_md = MinidumpContext { raw: wrap(base.clone()), valid: MinidumpContextValidity::All };
    let mut ctx = base.clone();
    let mut wa = String::new();
    for (n, v) in ops {
        let val: T::Register = match T::Register::try_from(*v) {
            Ok(x) => x,
            Err(_) => panic!("value does not fit the register width"),
        };
        wa.push(if ctx.set_register(n, val).is_some() { '1' } else { '0' });
    }
    let mut ch: Vec<String> = vec![];
    for r in T::REGISTERS {
        let b: u64 = base.get_register_always(r).into();
        let now: u64 = ctx.get_register_always(r).into();
        if now != b {
            ch.push(format!("{}:{}", r, now));
        }
    }
    let mdc = MinidumpContext { raw: wrap(ctx), valid: MinidumpContextValidity::All };
    let rel = |now: u64, before: u64| if now == before { "B".to_string() } else { now.to_string() };
    format!(
        "wa={};ch={};sp={};ip={}",
        wa,
        ch.join(","),
        rel(mdc.get_stack_pointer(), before_md.get_stack_pointer()),
        rel(mdc.get_instruction_pointer(), before_md.get_instruction_pointer())
    )
}

fn run_writes_line(t: &mut Toks) -> String {
    let variant = t.str();
    let ops: Vec<(String, u64)> = t
        .str()
        .split(',')
        .map(|p| {
            let (n, v) = p.split_once('=').expect("name=value");
            (name_of(n), v.parse().expect("value"))
        })
        .collect();
    let fill: Option<u32> = t.opt().map(|f| f.parse().expect("fill"));
    let bytes = pattern(fill);
    macro_rules! go {
        ($ty:ty, $wrap:path) => {{
            let base: $ty = bytes.pread_with(0, scroll::LE).expect("context from pattern bytes");
            run_writes::<$ty>(base, $wrap, &ops)
        }};
    }
    match variant {
        "X86" => go!(md::CONTEXT_X86, MinidumpRawContext::X86),
        "Ppc" => go!(md::CONTEXT_PPC, MinidumpRawContext::Ppc),
        "Ppc64" => go!(md::CONTEXT_PPC64, MinidumpRawContext::Ppc64),
        "Amd64" => go!(md::CONTEXT_AMD64, MinidumpRawContext::Amd64),
        "Sparc" => go!(md::CONTEXT_SPARC, MinidumpRawContext::Sparc),
        "Arm" => go!(md::CONTEXT_ARM, MinidumpRawContext::Arm),
        "Arm64" => go!(md::CONTEXT_ARM64, MinidumpRawContext::Arm64),
        "OldArm64" => go!(md::CONTEXT_ARM64_OLD, MinidumpRawContext::OldArm64),
        "Mips" => go!(md::CONTEXT_MIPS, MinidumpRawContext::Mips),
        _ => panic!("unknown context variant {}", variant),
    }
}

/// `R <arch> <fill> <len> [B]`: (B = everything read big-endian; the bytes still hold the fill word little-endian)
/// MinidumpContext::read on `len` bytes in which every 32-bit word is `fill`, with a system info
/// whose processor_architecture is `arch` (parsed from a 56-byte MINIDUMP_SYSTEM_INFO through the stream's own reader):
/// `rd=<variant>;rsz=<register_size>;rip=<get_instruction_pointer>` or `rd=RF` (ReadFailure) / `rd=UC` (UnknownCpuContext)
fn run_read(t: &mut Toks) -> String {
    let arch = t.u64() as u16;
    let fill = t.u64() as u32;
    let len = t.u64() as usize;
    let big = t.opt() == Some("B");
    let endian = if big { scroll::BE } else { scroll::LE };
    let mut sys = vec![0u8; 56];
    sys[0..2].copy_from_slice(&(if big { arch.to_be_bytes() } else { arch.to_le_bytes() }));
    let si = MinidumpSystemInfo::read(&sys, &sys, endian, None).expect("system info from 56 bytes");
    let mut bytes = pattern(Some(fill));
    bytes.truncate(len);
    match MinidumpContext::read(&bytes, endian, &si, None) {
        Ok(c) => {
            let v = variant_name(&c.raw);
            let all = matches!(c.valid, MinidumpContextValidity::All);
            format!("rd={};rsz={};rip={}|va={}", v, c.register_size(), c.get_instruction_pointer(), all as u8)
        }
        Err(ContextError::ReadFailure) => "rd=RF".into(),
        Err(ContextError::UnknownCpuContext) => "rd=UC".into(),
    }
}

/// `D <arch> <flags_off> <flags_width> <flags> <L|B>`: MinidumpContext::read (little- / big-endian) on the 8 KiB byte pattern with
/// `flags` written at byte `flags_off` (`flags_width` bits, in the byte order of the read):
/// `rd=<variant>;regs=<name:value of every pair registers() yields>;sp=..;ip=..` or `rd=RF` / `rd=UC`
fn run_decode(t: &mut Toks) -> String {
    let arch = t.u64() as u16;
    let off = t.u64() as usize;
    let width = t.u64() as usize;
    let flags = t.u64();
    let big = t.str() == "B";
    let endian = if big { scroll::BE } else { scroll::LE };
    let mut sys = vec![0u8; 56];
    sys[0..2].copy_from_slice(&(if big { arch.to_be_bytes() } else { arch.to_le_bytes() }));
    let si = MinidumpSystemInfo::read(&sys, &sys, endian, None).expect("system info from 56 bytes");
    let mut bytes = pattern(None);
    let n = width / 8;
    for i in 0..n {
        let shift = 8 * (if big { n - 1 - i } else { i });
        bytes[off + i] = ((flags >> shift) & 0xff) as u8;
    }
    match MinidumpContext::read(&bytes, endian, &si, None) {
        Ok(c) => {
            let regs: Vec<String> = c.registers().map(|(n, v)| format!("{}:{}", n, v)).collect();
            format!("rd={};regs={};sp={};ip={}", variant_name(&c.raw), regs.join(","), c.get_stack_pointer(), c.get_instruction_pointer())
        }
        Err(ContextError::ReadFailure) => "rd=RF".into(),
        Err(ContextError::UnknownCpuContext) => "rd=UC".into(),
    }
}

fn variant_name(raw: &MinidumpRawContext) -> &'static str {
    match raw {
        MinidumpRawContext::X86(_) => "X86",
        MinidumpRawContext::Ppc(_) => "Ppc",
        MinidumpRawContext::Ppc64(_) => "Ppc64",
        MinidumpRawContext::Amd64(_) => "Amd64",
        MinidumpRawContext::Sparc(_) => "Sparc",
        MinidumpRawContext::Arm(_) => "Arm",
        MinidumpRawContext::Arm64(_) => "Arm64",
        MinidumpRawContext::OldArm64(_) => "OldArm64",
        MinidumpRawContext::Mips(_) => "Mips",
    }
}

fn run(line: &str) -> String {
    let mut t = Toks::new(line);
    let variant = t.str();
    if variant == "D" {
        return run_decode(&mut t);
    }
    if variant == "R" {
        return run_read(&mut t);
    }
    if variant == "W" {
        return run_writes_line(&mut t);
    }
    let name = name_of(t.str());
    let vspec = t.str();
    let value = t.u64();
    let flags: Option<u64> = t.opt().and_then(|f| if f == "-" { None } else { Some(f.parse().expect("flags")) });
    let fill: Option<u32> = t.opt().map(|f| f.parse().expect("fill"));
    let mut members: Vec<String> = vec![];
    let valid = if vspec == "A" {
        MinidumpContextValidity::All
    } else {
        let list = vspec.strip_prefix("S:").expect("validity spec");
        let mut set: HashSet<&'static str> = HashSet::new();
        if !list.is_empty() {
            for m in list.split(',') {
                let m = name_of(m);
                set.insert(leak(&m));
                members.push(m);
            }
        }
        MinidumpContextValidity::Some(set)
    };
    let bytes = pattern(fill);
    macro_rules! go {
        ($ty:ty, $wrap:path) => {{
            let mut base: $ty = bytes.pread_with(0, scroll::LE).expect("context from pattern bytes");
            if let Some(f) = flags {
                base.context_flags = f as _;
            }
            run_ctx::<$ty>(base, $wrap, &name, valid, &members, value)
        }};
    }
    match variant {
        "X86" => go!(md::CONTEXT_X86, MinidumpRawContext::X86),
        "Ppc" => go!(md::CONTEXT_PPC, MinidumpRawContext::Ppc),
        "Ppc64" => go!(md::CONTEXT_PPC64, MinidumpRawContext::Ppc64),
        "Amd64" => go!(md::CONTEXT_AMD64, MinidumpRawContext::Amd64),
        "Sparc" => go!(md::CONTEXT_SPARC, MinidumpRawContext::Sparc),
        "Arm" => go!(md::CONTEXT_ARM, MinidumpRawContext::Arm),
        "Arm64" => go!(md::CONTEXT_ARM64, MinidumpRawContext::Arm64),
        "OldArm64" => go!(md::CONTEXT_ARM64_OLD, MinidumpRawContext::OldArm64),
        "Mips" => go!(md::CONTEXT_MIPS, MinidumpRawContext::Mips),
        _ => panic!("unknown context variant {}", variant),
    }
}

fn main() {
    for_each_case(run);
}
