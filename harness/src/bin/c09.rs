//! C09 correspondence harness: SymbolFile::parse over a chunking reader with a recording
//! callback, plus the whole-slice parse of the same bytes (see ../symcase.rs for the protocol).
//!
//! Round 5: a second parse of the same case with a reader that LOOKS at the slice it is handed (`buf.space()` of the
//! circular buffer) before writing into it.  The slice still holds what earlier reads, shifts (memmove) and grows (zero
//! fill) left in the buffer's memory; the byte-level model (coq/C09/Circular.v, run_bytes in Driver.v) predicts those bytes.
//! Every offered slice contributes (3, length, its first 32 bytes, its last 32 bytes) to a hash (same fold as `ev=`).
//! Model part gets  ;sp=<hash>,<result>:<callback bytes>:<callback bytes are the input prefix>:<bytes left in the buffer>
//! or ;sp=* when reads * (largest slice + input length) > 1_200_000 or the input is longer than 128 KiB (the byte-level
//! model run would be slow; the same rule is applied in ocaml/c09/main.ml).
#[path = "../symcase.rs"]
mod symcase;

use breakpad_symbols::SymbolFile;
use std::io::Read;

const SPY_K: usize = 32;
const SPY_MAX_LEN: usize = 131072;
const SPY_MAX_WORK: u64 = 1_200_000;

fn mix(h: &mut u64, v: u64) {
    *h = (*h ^ v).wrapping_mul(0x100000001b3);
}

struct SpyReader<'a> {
    data: &'a [u8],
    pos: usize,
    sched: &'a [usize],
    si: usize,
    nreads: u64,
    maxspace: usize,
    h: u64,
}

impl<'a> Read for SpyReader<'a> {
    fn read(&mut self, out: &mut [u8]) -> std::io::Result<usize> {
        self.nreads += 1;
        self.maxspace = self.maxspace.max(out.len());
        // what the buffer's memory holds behind `end`, before this read overwrites it
        mix(&mut self.h, 3);
        mix(&mut self.h, out.len() as u64);
        let k = SPY_K.min(out.len());
        for &b in &out[..k] {
            mix(&mut self.h, b as u64);
        }
        for &b in &out[out.len() - k..] {
            mix(&mut self.h, b as u64);
        }
        // the same reader as symcase::ChunkReader
        let remaining = self.data.len() - self.pos;
        if out.is_empty() || remaining == 0 {
            return Ok(0);
        }
        let chunk = if self.si < self.sched.len() {
            let c = self.sched[self.si];
            self.si += 1;
            c.max(1)
        } else {
            usize::MAX
        };
        let n = chunk.min(out.len()).min(remaining);
        out[..n].copy_from_slice(&self.data[self.pos..self.pos + n]);
        self.pos += n;
        Ok(n)
    }
}

fn spy_part(c: &symcase::Case) -> String {
    if c.data.len() > SPY_MAX_LEN {
        return "sp=*".to_string();
    }
    let mut rd = SpyReader { data: &c.data, pos: 0, sched: &c.sched, si: 0, nreads: 0, maxspace: 0, h: 0xcbf29ce484222325 };
    let mut cblen: usize = 0;
    let mut cbok = true;
    let data = &c.data;
    let res = SymbolFile::parse(&mut rd, |b: &[u8]| {
        if cblen + b.len() > data.len() || &data[cblen..cblen + b.len()] != b {
            cbok = false;
        }
        cblen += b.len();
    });
    if rd.nreads.saturating_mul((rd.maxspace + c.data.len()) as u64) > SPY_MAX_WORK {
        return "sp=*".to_string();
    }
    format!("sp={},{}:{}:{}:{}", rd.h, symcase::class(&res), cblen, if cbok { 1 } else { 0 }, rd.pos as i64 - cblen as i64)
}

fn run(line: &str) -> String {
    let c = symcase::parse_case(line);
    let (m, o) = symcase::run_parts(&c);
    format!("{};{};;{}", m, spy_part(&c), o)
}

fn main() {
    vharness::for_each_case(run);
}
