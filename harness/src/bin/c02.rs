//! C02 harness: the real reader on serializer output.
//!   case line:  <hex of the dump> [S <model tokens>]
//!   answer   :  observables of Minidump::read + get_stream::<..> on exactly these bytes, in the
//!               format of ocaml/c02/main.ml (sections `status:item|item`, joined by ';');
//!               with `S <tokens>` the same model is also serialized with minidump-synth (the
//!               repository's own writer) and the observables of reading THAT dump are appended
//!               after " ## " (props/c02.py compares them with the model's expectation).
use minidump::*;
use minidump_common::format as md;
use minidump_synth as synth;
use std::fmt::Write as _;
use test_assembler::{Endian as TE, Section};
use vharness::{for_each_case, unhex};

type Item = Vec<i128>;

fn blob_hash(b: &[u8]) -> i128 {
    let mut h: u64 = 0;
    for &x in b {
        h = (h * 257 + x as u64 + 1) % 1_000_000_007;
    }
    h as i128
}
fn blob4(b: &[u8], out: &mut Item) {
    out.push(b.len() as i128);
    out.push(blob_hash(b));
    out.push(b.first().map(|&x| x as i128).unwrap_or(-1));
    out.push(b.last().map(|&x| x as i128).unwrap_or(-1));
}
fn units(s: &str, out: &mut Item) {
    let u: Vec<u16> = s.encode_utf16().collect();
    out.push(u.len() as i128);
    out.extend(u.iter().map(|&x| x as i128));
}
fn chars(s: &str, out: &mut Item) {
    out.push(s.len() as i128);
    out.extend(s.bytes().map(|x| x as i128));
}
fn bytes_full(b: &[u8], out: &mut Item) {
    out.push(b.len() as i128);
    out.extend(b.iter().map(|&x| x as i128));
}

/// an accessor disagrees with the raw field it is derived from: make the case fail loudly
fn debug_ensure(ok: bool, what: &str) {
    if !ok {
        panic!("accessor {} disagrees with the raw value", what);
    }
}

/// the characters of a `{:?}`-rendered string literal (with its quotes) as UTF-8 bytes
fn unescape_debug(q: &str) -> Vec<u8> {
    let inner: Vec<char> = q[1..q.len() - 1].chars().collect();
    let mut out = String::new();
    let mut i = 0;
    while i < inner.len() {
        let c = inner[i];
        if c != '\\' {
            out.push(c);
            i += 1;
            continue;
        }
        let e = inner[i + 1];
        i += 2;
        match e {
            'n' => out.push('\n'),
            'r' => out.push('\r'),
            't' => out.push('\t'),
            '0' => out.push('\0'),
            'u' => {
                let mut v = 0u32;
                i += 1; // {
                while inner[i] != '}' {
                    v = v * 16 + inner[i].to_digit(16).unwrap();
                    i += 1;
                }
                i += 1;
                out.push(char::from_u32(v).unwrap());
            }
            other => out.push(other), // \\ \" \'
        }
    }
    out.into_bytes()
}

/// procfs-core's MMapPath is not nameable from this crate: read the variant from its Debug rendering
fn map_path_obs(d: &str, out: &mut Item) {
    let arg = |name: &str| -> Option<String> {
        d.strip_prefix(name).and_then(|r| r.strip_prefix('(')).and_then(|r| r.strip_suffix(')')).map(|x| x.to_string())
    };
    match d {
        "Heap" => out.push(1),
        "Stack" => out.push(2),
        "Vdso" => out.push(4),
        "Vvar" => out.push(5),
        "Vsyscall" => out.push(6),
        "Rollup" => out.push(7),
        "Anonymous" => out.push(8),
        _ => {
            if let Some(a) = arg("TStack") {
                out.push(3);
                out.push(a.parse::<i128>().unwrap());
            } else if let Some(a) = arg("Vsys") {
                out.push(9);
                out.push(a.parse::<i128>().unwrap());
            } else if let Some(a) = arg("Path") {
                out.push(0);
                bytes_full(&unescape_debug(&a), out);
            } else if let Some(a) = arg("Other") {
                out.push(10);
                bytes_full(&unescape_debug(&a), out);
            } else {
                panic!("unrecognised MMapPath rendering {}", d);
            }
        }
    }
}

fn status<T>(r: &Result<T, Error>) -> i128 {
    match r {
        Ok(_) => 2,
        Err(Error::StreamNotFound) => 0,
        Err(_) => 1,
    }
}

fn fmt_sections(secs: &[(i128, Vec<Item>)]) -> String {
    let mut s = String::new();
    for (i, (st, items)) in secs.iter().enumerate() {
        if i > 0 {
            s.push(';');
        }
        write!(s, "{}:", st).unwrap();
        for (j, it) in items.iter().enumerate() {
            if j > 0 {
                s.push('|');
            }
            for (k, x) in it.iter().enumerate() {
                if k > 0 {
                    s.push(',');
                }
                write!(s, "{}", x).unwrap();
            }
        }
    }
    s
}

fn region_obs<D>(r: &MinidumpMemoryBase<'_, D>) -> Item {
    let mut it = vec![r.base_address as i128];
    // size and bytes are separate fields of the reader's region: both must agree with the dump
    if r.size != r.bytes.len() as u64 {
        it.push(-777);
    }
    blob4(r.bytes, &mut it);
    it
}

fn queries<'a, D: 'a>(l: &MinidumpMemoryListBase<'a, D>) -> Vec<Item> {
    let mut out = vec![];
    for r in l.iter() {
        let b = r.base_address as i128;
        let n = r.bytes.len() as i128;
        for x in [b - 1, b, b + n - 1, b + n] {
            if x < 0 || x > u64::MAX as i128 {
                continue;
            }
            let a = x as u64;
            match l.memory_at_address(a) {
                None => out.push(vec![x, -1]),
                Some(m) => out.push(vec![
                    x,
                    m.base_address as i128,
                    m.bytes.len() as i128,
                    m.get_memory_at_address::<u8>(a).map(|v| v as i128).unwrap_or(-1),
                ]),
            }
        }
    }
    out
}


fn u128p(v: u128, it: &mut Item) {
    it.push((v >> 64) as i128);
    it.push((v & 0xffff_ffff_ffff_ffff) as i128);
}
const MODELLED_ARCH: [u16; 10] = [0, 10, 9, 5, 12, 1, 3, 0x8001, 0x8002, 0x8003];
/// [-3] no system info, [-2] architecture outside the model, [-1] no (valid) context, 1 :: every field
/// of the parsed context in the documented declaration order (u128 as high, low halves)
fn context_obs(sys: Option<&MinidumpSystemInfo>, ctx: impl FnOnce(&MinidumpSystemInfo) -> Option<MinidumpContext>, it: &mut Item) {
    let sys = match sys {
        Some(s) => s,
        None => {
            it.push(-3);
            return;
        }
    };
    if !MODELLED_ARCH.contains(&sys.raw.processor_architecture) {
        it.push(-2);
        return;
    }
    let c = match ctx(sys) {
        Some(c) => c,
        None => {
            it.push(-1);
            return;
        }
    };
    it.push(1);
    macro_rules! p {
        ($($e:expr),* $(,)?) => { $( it.push($e as i128); )* };
    }
    match &c.raw {
        MinidumpRawContext::X86(x) => {
            p!(x.context_flags, x.dr0, x.dr1, x.dr2, x.dr3, x.dr6, x.dr7);
            let f = &x.float_save;
            p!(f.control_word, f.status_word, f.tag_word, f.error_offset, f.error_selector, f.data_offset, f.data_selector);
            it.extend(f.register_area.iter().map(|&b| b as i128));
            p!(f.cr0_npx_state);
            p!(x.gs, x.fs, x.es, x.ds, x.edi, x.esi, x.ebx, x.edx, x.ecx, x.eax, x.ebp, x.eip, x.cs, x.eflags, x.esp, x.ss);
            it.extend(x.extended_registers.iter().map(|&b| b as i128));
        }
        MinidumpRawContext::Amd64(x) => {
            p!(x.p1_home, x.p2_home, x.p3_home, x.p4_home, x.p5_home, x.p6_home, x.context_flags, x.mx_csr);
            p!(x.cs, x.ds, x.es, x.fs, x.gs, x.ss, x.eflags, x.dr0, x.dr1, x.dr2, x.dr3, x.dr6, x.dr7);
            p!(x.rax, x.rcx, x.rdx, x.rbx, x.rsp, x.rbp, x.rsi, x.rdi, x.r8, x.r9, x.r10, x.r11, x.r12, x.r13, x.r14, x.r15, x.rip);
            it.extend(x.float_save.iter().map(|&b| b as i128));
            for v in x.vector_register.iter() {
                u128p(*v, it);
            }
            p!(x.vector_control, x.debug_control, x.last_branch_to_rip, x.last_branch_from_rip, x.last_exception_to_rip, x.last_exception_from_rip);
        }
        MinidumpRawContext::Arm(x) => {
            p!(x.context_flags);
            it.extend(x.iregs.iter().map(|&b| b as i128));
            p!(x.cpsr, x.float_save.fpscr);
            it.extend(x.float_save.regs.iter().map(|&b| b as i128));
            it.extend(x.float_save.extra.iter().map(|&b| b as i128));
        }
        MinidumpRawContext::Arm64(x) => {
            p!(x.context_flags, x.cpsr);
            it.extend(x.iregs.iter().map(|&b| b as i128));
            p!(x.sp, x.pc);
            for v in x.float_regs.iter() {
                u128p(*v, it);
            }
            p!(x.fpcr, x.fpsr);
            it.extend(x.bcr.iter().map(|&b| b as i128));
            it.extend(x.bvr.iter().map(|&b| b as i128));
            it.extend(x.wcr.iter().map(|&b| b as i128));
            it.extend(x.wvr.iter().map(|&b| b as i128));
        }
        MinidumpRawContext::OldArm64(x) => {
            p!(x.context_flags);
            it.extend(x.iregs.iter().map(|&b| b as i128));
            p!(x.sp, x.pc, x.cpsr, x.fpsr, x.fpcr);
            for v in x.float_regs.iter() {
                u128p(*v, it);
            }
        }
        MinidumpRawContext::Mips(x) => {
            p!(x.context_flags, x._pad0);
            it.extend(x.iregs.iter().map(|&b| b as i128));
            p!(x.mdhi, x.mdlo);
            it.extend(x.hi.iter().map(|&b| b as i128));
            it.extend(x.lo.iter().map(|&b| b as i128));
            p!(x.dsp_control, x._pad1, x.epc, x.badvaddr, x.status, x.cause);
            it.extend(x.float_save.regs.iter().map(|&b| b as i128));
            p!(x.float_save.fpcsr, x.float_save.fir);
        }
        MinidumpRawContext::Ppc(x) => {
            p!(x.context_flags, x.srr0, x.srr1);
            it.extend(x.gpr.iter().map(|&b| b as i128));
            p!(x.cr, x.xer, x.lr, x.ctr, x.mq, x.vrsave);
            it.extend(x.float_save.fpregs.iter().map(|&b| b as i128));
            p!(x.float_save.fpscr_pad, x.float_save.fpscr);
            let v = &x.vector_save;
            for r in v.save_vr.iter() {
                u128p(*r, it);
            }
            u128p(v.save_vscr, it);
            it.extend(v.save_pad5.iter().map(|&b| b as i128));
            p!(v.save_vrvalid);
            it.extend(v.save_pad6.iter().map(|&b| b as i128));
        }
        MinidumpRawContext::Ppc64(x) => {
            p!(x.context_flags, x.srr0, x.srr1);
            it.extend(x.gpr.iter().map(|&b| b as i128));
            p!(x.cr, x.xer, x.lr, x.ctr, x.vrsave);
            it.extend(x.float_save.fpregs.iter().map(|&b| b as i128));
            p!(x.float_save.fpscr_pad, x.float_save.fpscr);
            let v = &x.vector_save;
            for r in v.save_vr.iter() {
                u128p(*r, it);
            }
            u128p(v.save_vscr, it);
            it.extend(v.save_pad5.iter().map(|&b| b as i128));
            p!(v.save_vrvalid);
            it.extend(v.save_pad6.iter().map(|&b| b as i128));
        }
        MinidumpRawContext::Sparc(x) => {
            p!(x.context_flags, x.flag_pad);
            it.extend(x.g_r.iter().map(|&b| b as i128));
            p!(x.ccr, x.pc, x.npc, x.y, x.asi, x.fprs);
            it.extend(x.float_save.regs.iter().map(|&b| b as i128));
            p!(x.float_save.filler, x.float_save.fsr);
        }
    }
}

fn observe(bytes: &[u8]) -> String {
    let dump = match Minidump::read(bytes) {
        Ok(d) => d,
        Err(_) => return "READFAIL".to_string(),
    };
    let mut secs: Vec<(i128, Vec<Item>)> = vec![];
    let h = &dump.header;
    secs.push((
        2,
        vec![vec![
            if dump.endian == scroll::Endian::Little { 0 } else { 1 },
            h.version as i128,
            h.checksum as i128,
            h.time_date_stamp as i128,
            h.flags as i128,
        ]],
    ));
    // system info
    let sys = dump.get_stream::<MinidumpSystemInfo>();
    secs.push((
        status(&sys),
        match &sys {
            Ok(s) => {
                let r = &s.raw;
                let mut it: Item = vec![
                    r.processor_architecture as i128,
                    r.processor_level as i128,
                    r.processor_revision as i128,
                    r.number_of_processors as i128,
                    r.product_type as i128,
                    r.major_version as i128,
                    r.minor_version as i128,
                    r.build_number as i128,
                    r.platform_id as i128,
                    r.suite_mask as i128,
                    r.reserved2 as i128,
                ];
                it.extend(r.cpu.data.iter().map(|&x| x as i128));
                match s.csd_version() {
                    Some(c) => units(&c, &mut it),
                    None => it.push(-1),
                }
                vec![it]
            }
            Err(_) => vec![],
        },
    ));
    // threads
    let mem = dump.get_memory().unwrap_or_default();
    let thr = dump.get_stream::<MinidumpThreadList>();
    secs.push((
        status(&thr),
        match &thr {
            Ok(tl) => tl
                .threads
                .iter()
                .map(|t| {
                    let r = &t.raw;
                    let mut it: Item = vec![
                        r.thread_id as i128,
                        r.suspend_count as i128,
                        r.priority_class as i128,
                        r.priority as i128,
                        r.teb as i128,
                        r.stack.start_of_memory_range as i128,
                    ];
                    match t.stack_memory(&mem) {
                        Some(m) => {
                            it.push(m.base_address() as i128);
                            if m.size() != m.bytes().len() as u64 {
                                it.push(-777);
                            }
                            blob4(m.bytes(), &mut it);
                        }
                        None => it.push(-1),
                    }
                    context_obs(sys.as_ref().ok(), |s| t.context(s, None).map(|c| c.into_owned()), &mut it);
                    it
                })
                .collect(),
            Err(_) => vec![],
        },
    ));
    // modules
    let mods = dump.get_stream::<MinidumpModuleList>();
    secs.push((
        status(&mods),
        match &mods {
            Ok(ml) => ml
                .iter()
                .map(|m| {
                    let r = &m.raw;
                    let v = &r.version_info;
                    let mut it: Item = vec![
                        r.base_of_image as i128,
                        r.size_of_image as i128,
                        r.checksum as i128,
                        r.time_date_stamp as i128,
                        v.signature as i128,
                        v.struct_version as i128,
                        v.file_version_hi as i128,
                        v.file_version_lo as i128,
                        v.product_version_hi as i128,
                        v.product_version_lo as i128,
                        v.file_flags_mask as i128,
                        v.file_flags as i128,
                        v.file_os as i128,
                        v.file_type as i128,
                        v.file_subtype as i128,
                        v.file_date_hi as i128,
                        v.file_date_lo as i128,
                        r.misc_record.data_size as i128,
                        r.misc_record.rva as i128,
                        r.reserved0[0] as i128,
                        r.reserved0[1] as i128,
                        r.reserved1[0] as i128,
                        r.reserved1[1] as i128,
                    ];
                    units(&m.name, &mut it);
                    match &m.codeview_info {
                        None => it.push(0),
                        Some(CodeView::Pdb70(c)) => {
                            it.push(1);
                            it.push(c.signature.data1 as i128);
                            it.push(c.signature.data2 as i128);
                            it.push(c.signature.data3 as i128);
                            it.extend(c.signature.data4.iter().map(|&x| x as i128));
                            it.push(c.age as i128);
                            bytes_full(&c.pdb_file_name, &mut it);
                        }
                        Some(CodeView::Pdb20(c)) => {
                            it.push(2);
                            it.push(c.cv_offset as i128);
                            it.push(c.signature as i128);
                            it.push(c.age as i128);
                            bytes_full(&c.pdb_file_name, &mut it);
                        }
                        Some(CodeView::Elf(c)) => {
                            it.push(3);
                            bytes_full(&c.build_id, &mut it);
                        }
                        Some(CodeView::Unknown(b)) => {
                            it.push(4);
                            bytes_full(b, &mut it);
                        }
                    }
                    match m.debug_identifier() {
                        Some(d) => chars(&d.breakpad().to_string(), &mut it),
                        None => it.push(-1),
                    }
                    match m.code_identifier() {
                        Some(c) => chars(c.as_str(), &mut it),
                        None => it.push(-1),
                    }
                    match m.debug_file() {
                        Some(f) => {
                            // tag 9: UTF-16 units of the string the reader returns (props/c02.py
                            // converts the model's raw bytes / units to the same form)
                            it.push(9);
                            units(&f, &mut it)
                        }
                        None => it.push(-1),
                    }
                    match m.version() {
                        Some(v) => chars(&v, &mut it),
                        None => it.push(-1),
                    }
                    it
                })
                .collect(),
            Err(_) => vec![],
        },
    ));
    // memory lists
    let ml = dump.get_stream::<MinidumpMemoryList>();
    secs.push((status(&ml), ml.as_ref().map(|l| l.iter().map(region_obs).collect()).unwrap_or_default()));
    secs.push((status(&ml), ml.as_ref().map(|l| queries(l)).unwrap_or_default()));
    let m64 = dump.get_stream::<MinidumpMemory64List>();
    secs.push((status(&m64), m64.as_ref().map(|l| l.iter().map(region_obs).collect()).unwrap_or_default()));
    secs.push((status(&m64), m64.as_ref().map(|l| queries(l)).unwrap_or_default()));
    // exception
    let exc = dump.get_stream::<MinidumpException>();
    secs.push((
        status(&exc),
        match &exc {
            Ok(x) => {
                let r = &x.raw;
                let e = &r.exception_record;
                let mut it: Item = vec![
                    r.thread_id as i128,
                    r.__align as i128,
                    e.exception_code as i128,
                    e.exception_flags as i128,
                    e.exception_record as i128,
                    e.exception_address as i128,
                    e.number_parameters as i128,
                    e.__align as i128,
                ];
                it.extend(e.exception_information.iter().map(|&v| v as i128));
                if x.thread_id != r.thread_id {
                    it.push(-777);
                }
                context_obs(sys.as_ref().ok(), |s| x.context(s, None).map(|c| c.into_owned()), &mut it);
                vec![it]
            }
            Err(_) => vec![],
        },
    ));
    // thread names: ids from print() (the only enumeration the API offers), names via get_name
    let tn = dump.get_stream::<MinidumpThreadNames>();
    secs.push((
        status(&tn),
        match &tn {
            Ok(n) => {
                let mut buf = Vec::new();
                n.print(&mut buf).unwrap();
                let text = String::from_utf8_lossy(&buf).to_string();
                let mut count: i128 = -1;
                let mut ids = std::collections::BTreeSet::new();
                for line in text.lines() {
                    if let Some(c) = line.strip_prefix("  thread_count = ") {
                        if count < 0 {
                            count = c.trim().parse().unwrap_or(-2);
                        }
                    }
                    if let Some(h) = line.strip_prefix("  thread_id = 0x") {
                        if let Ok(v) = u32::from_str_radix(h.trim(), 16) {
                            ids.insert(v);
                        }
                    }
                }
                let mut items: Vec<Item> = vec![];
                for id in ids {
                    if let Some(name) = n.get_name(id) {
                        let mut it = vec![id as i128];
                        units(&name, &mut it);
                        items.push(it);
                    }
                }
                if count != items.len() as i128 {
                    items.push(vec![-777, count]);
                }
                items
            }
            Err(_) => vec![],
        },
    ));
    // unloaded modules
    let un = dump.get_stream::<MinidumpUnloadedModuleList>();
    secs.push((
        status(&un),
        match &un {
            Ok(l) => l
                .iter()
                .map(|m| {
                    let r = &m.raw;
                    let mut it: Item = vec![
                        r.base_of_image as i128,
                        r.size_of_image as i128,
                        r.checksum as i128,
                        r.time_date_stamp as i128,
                    ];
                    units(&m.name, &mut it);
                    match m.code_identifier() {
                        Some(c) => chars(c.as_str(), &mut it),
                        None => it.push(-1),
                    }
                    it
                })
                .collect(),
            Err(_) => vec![],
        },
    ));
    // memory info
    let mi = dump.get_stream::<MinidumpMemoryInfoList>();
    secs.push((
        status(&mi),
        match &mi {
            Ok(l) => l
                .iter()
                .map(|m| {
                    let r = &m.raw;
                    vec![
                        r.base_address as i128,
                        r.allocation_base as i128,
                        r.allocation_protection as i128,
                        r.__alignment1 as i128,
                        r.region_size as i128,
                        r.state as i128,
                        r.protection as i128,
                        r._type as i128,
                        r.__alignment2 as i128,
                    ]
                })
                .collect(),
            Err(_) => vec![],
        },
    ));
    // misc info
    let mc = dump.get_stream::<MinidumpMiscInfo>();
    secs.push((
        status(&mc),
        match &mc {
            Ok(m) => vec![misc_obs(&m.raw)],
            Err(_) => vec![],
        },
    ));
    // Breakpad info
    let bp = dump.get_stream::<MinidumpBreakpadInfo>();
    secs.push((
        status(&bp),
        match &bp {
            Ok(b) => vec![vec![
                b.dump_thread_id.map(|x| x as i128).unwrap_or(-1),
                b.requesting_thread_id.map(|x| x as i128).unwrap_or(-1),
            ]],
            Err(_) => vec![],
        },
    ));
    // assertion info
    let asr = dump.get_stream::<MinidumpAssertion>();
    secs.push((
        status(&asr),
        match &asr {
            Ok(a) => {
                let mut it: Item = vec![];
                it.extend(a.raw.expression.iter().map(|&x| x as i128));
                it.extend(a.raw.function.iter().map(|&x| x as i128));
                it.extend(a.raw.file.iter().map(|&x| x as i128));
                it.push(a.raw.line as i128);
                it.push(a.raw._type as i128);
                for s in [a.expression(), a.function(), a.file()] {
                    match s {
                        Some(s) => units(&s, &mut it),
                        None => it.push(-1),
                    }
                }
                vec![it]
            }
            Err(_) => vec![],
        },
    ));
    // thread info list
    let til = dump.get_stream::<MinidumpThreadInfoList>();
    secs.push((
        status(&til),
        match &til {
            Ok(l) => l
                .thread_infos
                .iter()
                .map(|t| {
                    let r = &t.raw;
                    vec![
                        r.thread_id as i128,
                        r.dump_flags as i128,
                        r.dump_error as i128,
                        r.exit_status as i128,
                        r.create_time as i128,
                        r.exit_time as i128,
                        r.kernel_time as i128,
                        r.user_time as i128,
                        r.start_address as i128,
                        r.affinity as i128,
                    ]
                })
                .collect(),
            Err(_) => vec![],
        },
    ));
    // Linux text streams: raw bytes, then (where the reader offers an iterator) its key/value pairs
    macro_rules! kv_stream {
        ($t:ty) => {{
            let st = dump.get_stream::<$t>();
            secs.push((
                status(&st),
                match &st {
                    Ok(x) => {
                        let mut items: Vec<Item> = vec![];
                        let mut it: Item = vec![];
                        bytes_full(&x.raw_bytes(), &mut it);
                        items.push(it);
                        for (k, v) in x.iter() {
                            let mut it: Item = vec![];
                            bytes_full(k.as_bytes(), &mut it);
                            bytes_full(v.as_bytes(), &mut it);
                            items.push(it);
                        }
                        items
                    }
                    Err(_) => vec![],
                },
            ));
        }};
    }
    kv_stream!(MinidumpLinuxCpuInfo);
    kv_stream!(MinidumpLinuxProcStatus);
    kv_stream!(MinidumpLinuxLsbRelease);
    kv_stream!(MinidumpLinuxEnviron);
    // maps: the bytes get_raw_stream hands to the typed reader, then what MinidumpLinuxMaps::read (procfs-core's line
    // parser) makes of them: outcome (2 regions / 1 error / 3 panic), then every region of iter()
    let maps_raw = dump.get_raw_stream(md::MINIDUMP_STREAM_TYPE::LinuxMaps as u32);
    secs.push((
        status(&maps_raw),
        match &maps_raw {
            Ok(b) => {
                let mut it: Item = vec![];
                bytes_full(b, &mut it);
                let mut items = vec![it];
                let typed = std::panic::catch_unwind(std::panic::AssertUnwindSafe(|| dump.get_stream::<MinidumpLinuxMaps>()));
                match typed {
                    Err(_) => items.push(vec![3]),
                    Ok(Err(_)) => items.push(vec![1]),
                    Ok(Ok(maps)) => {
                        items.push(vec![2]);
                        for r in maps.iter() {
                            let m = &r.map;
                            let mut it: Item = vec![
                                m.address.0 as i128,
                                m.address.1 as i128,
                                m.perms.bits() as i128,
                                m.offset as i128,
                                m.dev.0 as i128,
                                m.dev.1 as i128,
                                m.inode as i128,
                                r.memory_range().is_some() as i128,
                            ];
                            debug_ensure(r.is_readable() == (m.perms.bits() & 1 != 0), "is_readable");
                            debug_ensure(r.is_writable() == (m.perms.bits() & 2 != 0), "is_writable");
                            debug_ensure(r.is_executable() == (m.perms.bits() & 4 != 0), "is_executable");
                            map_path_obs(&format!("{:?}", m.pathname), &mut it);
                            items.push(it);
                        }
                    }
                }
                items
            }
            Err(_) => vec![],
        },
    ));
    let lim = dump.get_stream::<MinidumpLinuxProcLimits>();
    secs.push((
        status(&lim),
        match &lim {
            Ok(x) => {
                let mut it: Item = vec![];
                bytes_full(&x.raw_bytes(), &mut it);
                vec![it]
            }
            Err(_) => vec![],
        },
    ));
    // handle data stream
    let hd = dump.get_stream::<MinidumpHandleDataStream>();
    secs.push((
        status(&hd),
        match &hd {
            Ok(l) => l
                .iter()
                .map(|h| {
                    let r = &h.raw;
                    let mut it: Item = vec![
                        match r {
                            RawHandleDescriptor::HandleDescriptor(_) => 1,
                            RawHandleDescriptor::HandleDescriptor2(_) => 2,
                        },
                        r.handle().map(|x| *x as i128).unwrap_or(-777),
                        r.attributes().map(|x| *x as i128).unwrap_or(-777),
                        r.granted_access().map(|x| *x as i128).unwrap_or(-777),
                        r.handle_count().map(|x| *x as i128).unwrap_or(-777),
                        r.pointer_count().map(|x| *x as i128).unwrap_or(-777),
                    ];
                    for s in [&h.type_name, &h.object_name] {
                        match s {
                            Some(s) => units(s, &mut it),
                            None => it.push(-1),
                        }
                    }
                    it
                })
                .collect(),
            Err(_) => vec![],
        },
    ));
    // the directory as a whole: what all_streams() yields (BTreeMap order), the index print() reports for the served
    // entry, and get_raw_stream of every type present; then unknown_streams() with their vendor
    let mut index_of = std::collections::BTreeMap::new();
    {
        let mut buf = Vec::new();
        dump.print(&mut buf).unwrap();
        let text = String::from_utf8_lossy(&buf).to_string();
        let mut in_streams = false;
        for line in text.lines() {
            if line.starts_with("Streams:") {
                in_streams = true;
                continue;
            }
            if !in_streams {
                continue;
            }
            if let Some(rest) = line.strip_prefix("  stream type 0x") {
                let ty = u32::from_str_radix(rest.split(' ').next().unwrap_or(""), 16).ok();
                let idx = rest.rsplit(' ').next().and_then(|x| x.parse::<i128>().ok());
                if let (Some(ty), Some(idx)) = (ty, idx) {
                    index_of.insert(ty, idx);
                }
            }
        }
    }
    secs.push((
        2,
        dump.all_streams()
            .map(|d| {
                let mut it: Item = vec![
                    d.stream_type as i128,
                    index_of.get(&d.stream_type).copied().unwrap_or(-777),
                    d.location.data_size as i128,
                    d.location.rva as i128,
                ];
                match dump.get_raw_stream(d.stream_type) {
                    Ok(b) => {
                        it.push(2);
                        blob4(b, &mut it);
                    }
                    Err(Error::StreamNotFound) => it.push(0),
                    Err(_) => it.push(1),
                }
                it
            })
            .collect(),
    ));
    secs.push((
        2,
        dump.unknown_streams()
            .map(|u| {
                vec![
                    u.stream_type as i128,
                    u.location.data_size as i128,
                    u.location.rva as i128,
                    match u.vendor {
                        "Official" => 0,
                        "Google Extension" => 1,
                        "Mozilla Extension" => 2,
                        "Unknown Extension" => 3,
                        _ => -777,
                    },
                ]
            })
            .collect(),
    ));
    // MozSoftErrors (UTF-8 text), Mac boot args, Crashpad info
    let se = dump.get_stream::<MinidumpSoftErrors>();
    secs.push((
        status(&se),
        match &se {
            Ok(x) => {
                let mut it: Item = vec![];
                bytes_full(x.as_ref().as_bytes(), &mut it);
                vec![it]
            }
            Err(_) => vec![],
        },
    ));
    let ba = dump.get_stream::<MinidumpMacBootargs>();
    secs.push((
        status(&ba),
        match &ba {
            Ok(x) => {
                let mut it: Item = vec![x.raw.stream_type as i128];
                match &x.bootargs {
                    Some(s) => units(s, &mut it),
                    None => it.push(-1),
                }
                vec![it]
            }
            Err(_) => vec![],
        },
    ));
    let cp = dump.get_stream::<MinidumpCrashpadInfo>();
    secs.push((
        status(&cp),
        match &cp {
            Ok(c) => {
                let mut items: Vec<Item> = vec![];
                let mut it: Item = vec![0, c.raw.version as i128];
                for g in [&c.raw.report_id, &c.raw.client_id] {
                    it.push(g.data1 as i128);
                    it.push(g.data2 as i128);
                    it.push(g.data3 as i128);
                    it.extend(g.data4.iter().map(|&b| b as i128));
                }
                items.push(it);
                for (k, v) in &c.simple_annotations {
                    let mut it: Item = vec![1];
                    bytes_full(k.as_bytes(), &mut it);
                    bytes_full(v.as_bytes(), &mut it);
                    items.push(it);
                }
                for (i, m) in c.module_list.iter().enumerate() {
                    let i = i as i128;
                    items.push(vec![
                        2,
                        i,
                        m.module_index as i128,
                        m.raw.version as i128,
                        m.list_annotations.len() as i128,
                        m.simple_annotations.len() as i128,
                        m.annotation_objects.len() as i128,
                    ]);
                    for s in &m.list_annotations {
                        let mut it: Item = vec![3, i];
                        bytes_full(s.as_bytes(), &mut it);
                        items.push(it);
                    }
                    for (k, v) in &m.simple_annotations {
                        let mut it: Item = vec![4, i];
                        bytes_full(k.as_bytes(), &mut it);
                        bytes_full(v.as_bytes(), &mut it);
                        items.push(it);
                    }
                    for (k, v) in &m.annotation_objects {
                        let mut it: Item = vec![5, i];
                        bytes_full(k.as_bytes(), &mut it);
                        match v {
                            MinidumpAnnotation::Invalid => it.push(0),
                            MinidumpAnnotation::String(s) => {
                                it.push(1);
                                bytes_full(s.as_bytes(), &mut it);
                            }
                            MinidumpAnnotation::UserDefined(r) => {
                                it.extend([2, r.ty as i128, r._reserved as i128, r.value as i128]);
                            }
                            MinidumpAnnotation::Unsupported(r) => {
                                it.extend([3, r.ty as i128, r._reserved as i128, r.value as i128]);
                            }
                            _ => it.push(-777),
                        }
                        items.push(it);
                    }
                }
                items
            }
            Err(_) => vec![],
        },
    ));
    // the object-information chain of every handle, in chain order
    secs.push((
        status(&hd),
        match &hd {
            Ok(l) => l
                .iter()
                .map(|h| {
                    let mut it: Item = vec![h.object_infos.len() as i128];
                    for o in &h.object_infos {
                        it.push(o.raw.info_type as i128);
                        it.push(o.raw.size_of_info as i128);
                        if o.info_type as u32 != o.raw.info_type {
                            it.push(-777);
                        }
                    }
                    it
                })
                .collect(),
            Err(_) => vec![],
        },
    ));
    // unimplemented_streams(): type, location, vendor
    secs.push((
        2,
        dump.unimplemented_streams()
            .map(|u| {
                vec![
                    u.stream_type as u32 as i128,
                    u.location.data_size as i128,
                    u.location.rva as i128,
                    vendor_code(u.vendor),
                ]
            })
            .collect(),
    ));
    // Mac crash info: every record with its fixed fields and strings, then what the accessors give
    let mc = dump.get_stream::<MinidumpMacCrashInfo>();
    secs.push((
        status(&mc),
        match &mc {
            Ok(x) => x
                .raw
                .iter()
                .map(|r| {
                    let mut it: Item = vec![];
                    let strings: Vec<&str> = match r {
                        RawMacCrashInfo::V1(f, _s) => {
                            it.extend([2, f.stream_type as i128, f.version as i128]);
                            vec![]
                        }
                        RawMacCrashInfo::V4(f, s) => {
                            it.extend([4, f.stream_type as i128, f.version as i128, f.thread as i128, f.dialog_mode as i128]);
                            vec![&s.module_path, &s.message, &s.signature_string, &s.backtrace, &s.message2]
                        }
                        RawMacCrashInfo::V5(f, s) => {
                            it.extend([
                                5,
                                f.stream_type as i128,
                                f.version as i128,
                                f.thread as i128,
                                f.dialog_mode as i128,
                                f.abort_cause as i128,
                            ]);
                            vec![&s.module_path, &s.message, &s.signature_string, &s.backtrace, &s.message2]
                        }
                    };
                    it.push(strings.len() as i128);
                    for s in &strings {
                        bytes_full(s.as_bytes(), &mut it);
                    }
                    for a in [r.version(), r.thread(), r.dialog_mode(), r.abort_cause()] {
                        it.push(a.map(|v| *v as i128).unwrap_or(-1));
                    }
                    for a in [r.module_path(), r.message(), r.signature_string(), r.backtrace(), r.message2()] {
                        it.push(a.map(|v| v.len() as i128).unwrap_or(-1));
                    }
                    it
                })
                .collect(),
            Err(_) => vec![],
        },
    ));
    fmt_sections(&secs)
}

fn vendor_code(v: &str) -> i128 {
    match v {
        "Official" => 0,
        "Google Extension" => 1,
        "Mozilla Extension" => 2,
        "Unknown Extension" => 3,
        _ => -777,
    }
}

fn misc1(m: &[u32; 6], it: &mut Item) {
    it.extend(m.iter().map(|&x| x as i128));
}
fn systime(s: &md::SYSTEMTIME, it: &mut Item) {
    for v in [s.year, s.month, s.day_of_week, s.day, s.hour, s.minute, s.second, s.milliseconds] {
        it.push(v as i128);
    }
}
fn tz(t: &md::TIME_ZONE_INFORMATION, it: &mut Item) {
    it.push(t.bias as i128);
    it.extend(t.standard_name.iter().map(|&x| x as i128));
    systime(&t.standard_date, it);
    it.push(t.standard_bias as i128);
    it.extend(t.daylight_name.iter().map(|&x| x as i128));
    systime(&t.daylight_date, it);
    it.push(t.daylight_bias as i128);
}
macro_rules! misc_fields {
    ($m:expr, $it:expr, 1) => {
        misc1(&[$m.size_of_info, $m.flags1, $m.process_id, $m.process_create_time, $m.process_user_time, $m.process_kernel_time], $it);
    };
    ($m:expr, $it:expr, 2) => {
        misc_fields!($m, $it, 1);
        for v in [$m.processor_max_mhz, $m.processor_current_mhz, $m.processor_mhz_limit, $m.processor_max_idle_state, $m.processor_current_idle_state] {
            $it.push(v as i128);
        }
    };
    ($m:expr, $it:expr, 3) => {
        misc_fields!($m, $it, 2);
        for v in [$m.process_integrity_level, $m.process_execute_flags, $m.protected_process, $m.time_zone_id] {
            $it.push(v as i128);
        }
        tz(&$m.time_zone, $it);
    };
    ($m:expr, $it:expr, 4) => {
        misc_fields!($m, $it, 3);
        $it.extend($m.build_string.iter().map(|&x| x as i128));
        $it.extend($m.dbg_bld_str.iter().map(|&x| x as i128));
    };
    ($m:expr, $it:expr, 5) => {
        misc_fields!($m, $it, 4);
        $it.push($m.xstate_data.size_of_info as i128);
        $it.push($m.xstate_data.context_size as i128);
        $it.push($m.xstate_data.enabled_features as i128);
        for f in $m.xstate_data.features.iter() {
            $it.push(f.offset as i128);
            $it.push(f.size as i128);
        }
        $it.push($m.process_cookie as i128);
    };
}
fn misc_obs(raw: &RawMiscInfo) -> Item {
    let mut it: Item = vec![];
    match raw {
        RawMiscInfo::MiscInfo(m) => {
            it.push(1);
            misc_fields!(m, &mut it, 1);
        }
        RawMiscInfo::MiscInfo2(m) => {
            it.push(2);
            misc_fields!(m, &mut it, 2);
        }
        RawMiscInfo::MiscInfo3(m) => {
            it.push(3);
            misc_fields!(m, &mut it, 3);
        }
        RawMiscInfo::MiscInfo4(m) => {
            it.push(4);
            misc_fields!(m, &mut it, 4);
        }
        RawMiscInfo::MiscInfo5(m) => {
            it.push(5);
            misc_fields!(m, &mut it, 5);
        }
    }
    it
}

fn main() {
    for_each_case(|line| {
        let mut parts = line.splitn(2, ' ');
        let hexs = parts.next().unwrap_or("-");
        let rest = parts.next().unwrap_or("");
        let bytes = unhex(hexs);
        let mut out = observe(&bytes);
        if let Some(toks) = rest.strip_prefix("S ") {
            out.push_str(" ## ");
            out.push_str(&synth_observe(toks));
        }
        out
    })
}

// ------------------------------------------------------------------------------------------
// The same model written by minidump-synth (only what that writer can express: see props/c02.py)
struct Tk<'a> {
    it: std::str::SplitAsciiWhitespace<'a>,
}
impl<'a> Tk<'a> {
    fn i(&mut self) -> i128 {
        self.it.next().expect("token").parse().expect("int")
    }
    fn u64(&mut self) -> u64 {
        self.i() as u64
    }
    fn u32(&mut self) -> u32 {
        self.i() as u32
    }
    fn ints(&mut self, n: usize) -> Vec<i128> {
        (0..n).map(|_| self.i()).collect()
    }
    fn blob_k(&mut self, k: i128) -> Vec<u8> {
        let n = self.i() as usize;
        if k == 0 {
            (0..n).map(|_| self.i() as u8).collect()
        } else {
            let s = self.i();
            (0..n as i128).map(|i| ((s + i * (2 * s + 1)).rem_euclid(256)) as u8).collect()
        }
    }
    fn blob(&mut self) -> Vec<u8> {
        let k = self.i();
        self.blob_k(k)
    }
    fn optblob(&mut self) -> Option<Vec<u8>> {
        let k = self.i();
        if k == -1 {
            None
        } else {
            Some(self.blob_k(k))
        }
    }
    fn string(&mut self) -> String {
        let n = self.i() as usize;
        let u: Vec<u16> = (0..n).map(|_| self.i() as u16).collect();
        String::from_utf16(&u).expect("synth cases carry valid UTF-16 only")
    }
}

fn synth_observe(toks: &str) -> String {
    let mut t = Tk { it: toks.split_ascii_whitespace() };
    let endian = if t.i() == 0 { TE::Little } else { TE::Big };
    let _version = t.i();
    let _ck = t.i();
    let _tm = t.i();
    let flags = t.u64();
    let _pad = t.i();
    let nextra = t.i();
    for _ in 0..nextra {
        t.ints(3);
    }
    let mut d = synth::SynthMinidump::with_endian(endian).flags(flags);
    // system info
    if t.i() == 1 {
        let v = t.ints(11);
        let cpu = t.ints(24);
        let n = t.i();
        let csd = if n >= 0 {
            let u: Vec<u16> = (0..n).map(|_| t.i() as u16).collect();
            Some(String::from_utf16(&u).expect("utf16"))
        } else {
            None
        };
        let mut s = synth::SystemInfo::new(endian);
        s.processor_architecture = v[0] as u16;
        s.processor_level = v[1] as u16;
        s.processor_revision = v[2] as u16;
        s.number_of_processors = v[3] as u8;
        s.product_type = v[4] as u8;
        s.major_version = v[5] as u32;
        s.minor_version = v[6] as u32;
        s.build_number = v[7] as u32;
        s.platform_id = v[8] as u32;
        s.suite_mask = v[9] as u16;
        s.reserved2 = v[10] as u16;
        let cb: Vec<u8> = cpu.iter().map(|&x| x as u8).collect();
        let w = |i: usize| -> u32 {
            let a = [cb[4 * i], cb[4 * i + 1], cb[4 * i + 2], cb[4 * i + 3]];
            if endian == TE::Little { u32::from_le_bytes(a) } else { u32::from_be_bytes(a) }
        };
        s.cpu = synth::CpuInfo::X86CpuInfo {
            vendor_id: [w(0), w(1), w(2)],
            version_information: w(3),
            feature_information: w(4),
            amd_extended_cpu_features: w(5),
        };
        let _ = csd; // the synth writer cannot place a CSD string (plain u32 rva field)
        d = d.add_system_info(s);
    }
    // threads
    if t.i() == 1 {
        let n = t.i();
        for _ in 0..n {
            let id = t.u32();
            t.ints(4);
            let sb = t.u64();
            let stack = t.optblob().unwrap_or_default();
            let ctx = t.optblob().unwrap_or_default();
            let st = synth::Memory::with_section(Section::with_endian(endian).append_bytes(&stack), sb);
            let cx = Section::with_endian(endian).append_bytes(&ctx);
            let th = synth::Thread::new(endian, id, &st, &cx);
            d = d.add_thread(th).add(st).add(cx);
        }
    }
    // modules
    if t.i() == 1 {
        let n = t.i();
        for _ in 0..n {
            let base = t.u64();
            let size = t.u32();
            let ck = t.u32();
            let tm = t.u32();
            let name = synth::DumpString::new(&t.string(), endian);
            let v = t.ints(13);
            let ver = md::VS_FIXEDFILEINFO {
                signature: v[0] as u32,
                struct_version: v[1] as u32,
                file_version_hi: v[2] as u32,
                file_version_lo: v[3] as u32,
                product_version_hi: v[4] as u32,
                product_version_lo: v[5] as u32,
                file_flags_mask: v[6] as u32,
                file_flags: v[7] as u32,
                file_os: v[8] as u32,
                file_type: v[9] as u32,
                file_subtype: v[10] as u32,
                file_date_hi: v[11] as u32,
                file_date_lo: v[12] as u32,
            };
            let mut m = synth::Module::new(endian, base, size, &name, tm, ck, Some(&ver));
            let k = t.i();
            let cv = match k {
                1 => {
                    let d1 = t.u32();
                    let d2 = t.i() as u16;
                    let d3 = t.i() as u16;
                    let d4: Vec<u8> = t.ints(8).iter().map(|&x| x as u8).collect();
                    let age = t.u32();
                    let f = t.blob();
                    Some(Section::with_endian(endian).D32(md::CvSignature::Pdb70 as u32).D32(d1).D16(d2).D16(d3).append_bytes(&d4).D32(age).append_bytes(&f))
                }
                2 => {
                    let off = t.u32();
                    let sg = t.u32();
                    let age = t.u32();
                    let f = t.blob();
                    Some(Section::with_endian(endian).D32(md::CvSignature::Pdb20 as u32).D32(off).D32(sg).D32(age).append_bytes(&f))
                }
                3 => {
                    let b = t.blob();
                    Some(Section::with_endian(endian).D32(md::CvSignature::Elf as u32).append_bytes(&b))
                }
                4 => {
                    let b = t.blob();
                    Some(Section::with_endian(endian).append_bytes(&b))
                }
                _ => None,
            };
            t.ints(6);
            if let Some(cvs) = cv {
                m = m.cv_record(&cvs);
                d = d.add_module(m).add(name).add(cvs);
            } else {
                d = d.add_module(m).add(name);
            }
        }
    }
    // memory / memory64
    if t.i() == 1 {
        let n = t.i();
        for _ in 0..n {
            let base = t.u64();
            let b = t.blob();
            d = d.add_memory(synth::Memory::with_section(Section::with_endian(endian).append_bytes(&b), base));
        }
    }
    if t.i() == 1 {
        let n = t.i();
        for _ in 0..n {
            let base = t.u64();
            let b = t.blob();
            d = d.add_memory64(synth::Memory::with_section(Section::with_endian(endian).append_bytes(&b), base));
        }
    }
    // exception
    if t.i() == 1 {
        let v = t.ints(8);
        let info = t.ints(15);
        let ctx = t.optblob().unwrap_or_default();
        let mut e = synth::Exception::new(endian);
        e.thread_id = v[0] as u32;
        e.exception_record.exception_code = v[2] as u32;
        e.exception_record.exception_flags = v[3] as u32;
        e.exception_record.exception_record = v[4] as u64;
        e.exception_record.exception_address = v[5] as u64;
        e.exception_record.number_parameters = v[6] as u32;
        for (i, x) in info.iter().enumerate() {
            e.exception_record.exception_information[i] = *x as u64;
        }
        let _ = ctx; // thread_context is a plain (size, rva) pair in the synth writer
        d = d.add_exception(e);
    }
    // thread names
    if t.i() == 1 {
        let n = t.i();
        for _ in 0..n {
            let id = t.u32();
            let name = synth::DumpString::new(&t.string(), endian);
            d = d.add_thread_name(synth::ThreadName::new(endian, id, Some(&name))).add(name);
        }
    }
    // unloaded modules
    if t.i() == 1 {
        let n = t.i();
        for _ in 0..n {
            let base = t.u64();
            let size = t.u32();
            let ck = t.u32();
            let tm = t.u32();
            let name = synth::DumpString::new(&t.string(), endian);
            d = d.add_unloaded_module(synth::UnloadedModule::new(endian, base, size, &name, tm, ck)).add(name);
        }
    }
    // memory info
    if t.i() == 1 {
        let n = t.i();
        for _ in 0..n {
            let v = t.ints(9);
            d = d.add_memory_info(synth::MemoryInfo::new(endian, v[0] as u64, v[1] as u64, v[2] as u32, v[4] as u64, v[5] as u32, v[6] as u32, v[7] as u32));
        }
    }
    // misc info: not written by this cross-check
    if t.i() == 1 {
        let _k = t.i();
        let n = t.i() as usize;
        t.ints(n);
    }
    // Breakpad info, assertion info, thread info list: hand-assembled sections
    if t.i() == 1 {
        let v = t.ints(3);
        let sec = Section::with_endian(endian).D32(v[0] as u32).D32(v[1] as u32).D32(v[2] as u32);
        d = d.add_stream(synth::SimpleStream { stream_type: md::MINIDUMP_STREAM_TYPE::BreakpadInfoStream as u32, section: sec });
    }
    if t.i() == 1 {
        let v = t.ints(386);
        let mut sec = Section::with_endian(endian);
        for x in &v[..384] {
            sec = sec.D16(*x as u16);
        }
        sec = sec.D32(v[384] as u32).D32(v[385] as u32);
        d = d.add_stream(synth::SimpleStream { stream_type: md::MINIDUMP_STREAM_TYPE::AssertionInfoStream as u32, section: sec });
    }
    if t.i() == 1 {
        let n = t.i();
        let mut sec = Section::with_endian(endian).D32(12).D32(64).D32(n as u32);
        for _ in 0..n {
            let v = t.ints(10);
            sec = sec.D32(v[0] as u32).D32(v[1] as u32).D32(v[2] as u32).D32(v[3] as u32);
            for x in &v[4..] {
                sec = sec.D64(*x as u64);
            }
        }
        d = d.add_stream(synth::SimpleStream { stream_type: md::MINIDUMP_STREAM_TYPE::ThreadInfoListStream as u32, section: sec });
    }
    if t.i() == 1 {
        let b = t.blob();
        d = d.set_linux_cpu_info(&b);
    }
    if t.i() == 1 {
        let b = t.blob();
        d = d.set_linux_proc_status(&b);
    }
    if t.i() == 1 {
        let b = t.blob();
        d = d.set_linux_lsb_release(&b);
    }
    if t.i() == 1 {
        let b = t.blob();
        d = d.set_linux_environ(&b);
    }
    if t.i() == 1 {
        let b = t.blob();
        d = d.set_linux_maps(&b);
    }
    if t.i() == 1 {
        let b = t.blob();
        d = d.set_linux_proc_limits(&b);
    }
    // handle data (the synth writer knows the 32-byte descriptor only)
    if t.i() == 1 {
        let _v2 = t.i();
        let n = t.i();
        for _ in 0..n {
            let h = t.u64();
            let optstr = |t: &mut Tk| -> Option<synth::DumpString> {
                let k = t.i();
                if k < 0 {
                    None
                } else {
                    let u: Vec<u16> = (0..k).map(|_| t.i() as u16).collect();
                    Some(synth::DumpString::new(&String::from_utf16(&u).expect("utf16"), endian))
                }
            };
            let ty = optstr(&mut t);
            let ob = optstr(&mut t);
            let v = t.ints(4);
            d = d.add_handle_descriptor(synth::HandleDescriptor::new(endian, h, ty.as_ref(), ob.as_ref(), v[0] as u32, v[1] as u32, v[2] as u32, v[3] as u32));
            if let Some(x) = ty {
                d = d.add(x);
            }
            if let Some(x) = ob {
                d = d.add(x);
            }
        }
    }
    let bytes = d.finish().expect("synth finish");
    observe(&bytes)
}
