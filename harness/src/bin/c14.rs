//! C14 correspondence harness: synthesize a dump from the case description, run
//! `minidump_processor::process_minidump`, print the ProcessState fields canonically.
//!
//! case (whitespace separated, all decimal):
//!   <arch> <platform_id> <time_date_stamp>          arch + 65536 = big-endian dump, + 131072 = regions in a Memory64List
//!   T <n>  { id ctxkind ip sp stackidx sbase }*n     ctxkind 0 none | 1 valid | 2 wrong flags | 3 truncated
//!                                                   stackidx -1 = null descriptor starting at sbase
//!   N <k>  { id readable nameid }*k                  thread name "n<nameid>"
//!   E <present> tid code flags nparams info0 info1 info2 addr ctxkind ip sp
//!   B <form> validity dump_tid req_tid              form 0 absent | 1 the 12-byte structure | 2 truncated to 8 bytes | 3 16 bytes
//!   M <present> size flags1 pid ctime               the stream is exactly `size` bytes long (unreadable below 24)
//!   L <present> kind pid hex                         the bytes of the /proc/self/status stream in hex ("-" = empty); kind / pid
//!                                                   only describe how the generator built them
//!   MOD <m> { base size }*m
//!   UNL <u> { base size nameid }*u                   module name "u<nameid %02>"
//!   MEM <r> { base size }*r                          region j is filled with the word 0x70000100+16*j (64-bit CPUs)
//!                                                   or with the byte 0x70+j (32-bit CPUs: any alignment reads 0x7j7j7j7j)
//!   LK <q> { enum value }*q                          (only read by the model)
//! or `H <hex> <the same description>`: the dump's bytes as written by the plugin (model: C02 reader model + C14; here: Minidump::read)
//! answer:
//!   T=<id>:<name|->:<info>:<ip|->:<sp|->:<frames>:<f1 instr|->:<unl>,...;R=<idx|->;X=<addr>:<family>:<payload+>|-;
//!   P=<pid|->;C=<ctime|->;TM=<time>;M=<base:size,...>;U=<base:size:name,...>#<reason string>
use minidump::format as md;
use minidump::*;
use minidump_synth::*;
use scroll::ctx::SizeWith;
use scroll::{Pread, Pwrite, LE};
use test_assembler::Endian as TEndian;
use test_assembler::Section;
use vharness::*;

pub struct ThreadCase {
    pub id: u32,
    pub ctxkind: u64,
    pub ip: u64,
    pub sp: u64,
    pub stackidx: i64,
    pub sbase: u64,
}
pub struct ExcCase {
    pub tid: u32,
    pub code: u32,
    pub flags: u32,
    pub nparams: u32,
    pub info: [u64; 3],
    pub addr: u64,
    pub ctxkind: u64,
    pub ip: u64,
    pub sp: u64,
}
#[derive(Default)]
pub struct Case {
    pub arch: u16,
    /// the whole dump is written big-endian (arch token + 65536)
    pub big_endian: bool,
    /// the memory regions are written as a Memory64List (arch token + 131072); threads then have null stack descriptors
    pub mem64: bool,
    pub platform: u32,
    pub time: u32,
    pub threads: Vec<ThreadCase>,
    pub names: Vec<(u32, bool, String)>,
    pub exc: Option<ExcCase>,
    pub bp: Option<(u32, u32, u32)>,
    /// 1 = the 12-byte structure, 2 = truncated to 8 bytes, 3 = 16 bytes
    pub bp_form: u64,
    pub misc: Option<(u32, u32, u32, u32)>,
    pub status: Option<(u64, u64)>,
    pub status_text: Option<Vec<u8>>,
    pub modules: Vec<(u64, u32, String)>,
    pub unloaded: Vec<(u64, u32, String)>,
    pub mems: Vec<(u64, u64)>,
    /// C15 only: amd64 register file of the exception context (rax rcx rdx rbx rsp rbp rsi rdi r8..r15 rip;
    /// rsp / rip are taken from the exception's sp / ip), raw memory regions, memory-info entries
    pub exc_regs: Option<Vec<u64>>,
    pub raw_mems: Vec<(u64, Vec<u8>)>,
    pub mem_infos: Vec<(u64, u64, u32)>,
    pub cpuinfo: Vec<u8>,
    pub lsb: Vec<u8>,
    pub limits: Vec<u8>,
    pub soft: Vec<u8>,
    pub maps: Vec<u8>,
    pub handles: Vec<(u64, String, String)>,
    pub bootargs: Option<String>,
}

pub const ANCHOR_WORD: u64 = 0x7000_0100;

pub fn expect_tok(t: &mut Toks, s: &str) {
    let x = t.str();
    assert!(x == s, "expected {} got {}", s, x);
}

pub fn parse_case(t: &mut Toks) -> Case {
    let mut c = Case::default();
    let a = t.u64();
    c.arch = (a & 0xffff) as u16;
    c.big_endian = (a >> 16) & 1 != 0;
    c.mem64 = (a >> 17) & 1 != 0;
    c.platform = t.u64() as u32;
    c.time = t.u64() as u32;
    expect_tok(t, "T");
    let n = t.usize();
    for _ in 0..n {
        c.threads.push(ThreadCase {
            id: t.u64() as u32,
            ctxkind: t.u64(),
            ip: t.u64(),
            sp: t.u64(),
            stackidx: t.i64(),
            sbase: t.u64(),
        });
    }
    expect_tok(t, "N");
    let k = t.usize();
    for _ in 0..k {
        let id = t.u64() as u32;
        let readable = t.u64() != 0;
        let nameid = t.u64();
        c.names.push((id, readable, format!("n{}", nameid)));
    }
    expect_tok(t, "E");
    let present = t.u64() != 0;
    let e = ExcCase {
        tid: t.u64() as u32,
        code: t.u64() as u32,
        flags: t.u64() as u32,
        nparams: t.u64() as u32,
        info: [t.u64(), t.u64(), t.u64()],
        addr: t.u64(),
        ctxkind: t.u64(),
        ip: t.u64(),
        sp: t.u64(),
    };
    if present {
        c.exc = Some(e);
    }
    expect_tok(t, "B");
    let form = t.u64();
    let b = (t.u64() as u32, t.u64() as u32, t.u64() as u32);
    if form != 0 {
        c.bp = Some(b);
        c.bp_form = form;
    }
    expect_tok(t, "M");
    let present = t.u64() != 0;
    let m = (t.u64() as u32, t.u64() as u32, t.u64() as u32, t.u64() as u32);
    if present {
        c.misc = Some(m);
    }
    expect_tok(t, "L");
    let present = t.u64() != 0;
    let l = (t.u64(), t.u64());
    let hex = t.str();
    if present {
        c.status = Some(l);
        c.status_text = Some(if hex == "-" {
            vec![]
        } else {
            (0..hex.len() / 2).map(|i| u8::from_str_radix(&hex[2 * i..2 * i + 2], 16).expect("status hex")).collect()
        });
    }
    expect_tok(t, "MOD");
    let m = t.usize();
    for i in 0..m {
        c.modules.push((t.u64(), t.u64() as u32, format!("/lib/m{:02}.so", i)));
    }
    expect_tok(t, "UNL");
    let u = t.usize();
    for _ in 0..u {
        let b = t.u64();
        let s = t.u64() as u32;
        c.unloaded.push((b, s, format!("u{:02}", t.u64())));
    }
    expect_tok(t, "MEM");
    let r = t.usize();
    for _ in 0..r {
        c.mems.push((t.u64(), t.u64()));
    }
    c
}

fn zeroed<T: SizeWith<scroll::Endian>>() -> Vec<u8> {
    vec![0u8; T::size_with(&LE)]
}

/// A context of the dump's architecture with the given ip / sp (None: the architecture has no reader).
pub fn context_bytes(arch: u16, ip: u64, sp: u64) -> Option<Vec<u8>> {
    context_bytes_e(arch, ip, sp, false)
}

pub fn context_bytes_e(arch: u16, ip: u64, sp: u64, big: bool) -> Option<Vec<u8>> {
    use md::ContextFlagsCpu as F;
    let e = if big { TEndian::Big } else { TEndian::Little };
    let en = if big { scroll::BE } else { scroll::LE };
    let sec = |s: Section| s.get_contents().unwrap();
    Some(match arch {
        0 | 10 => sec(x86_context(e, ip as u32, sp as u32)),
        9 => sec(amd64_context(e, ip, sp)),
        12 => sec(arm64_context(e, ip, sp)),
        0x8003 => {
            let mut c = md::CONTEXT_ARM64_OLD::default();
            c.context_flags = F::CONTEXT_ARM64_OLD.bits() as u64 | 0x3;
            c.pc = ip;
            c.sp = sp;
            let mut b = zeroed::<md::CONTEXT_ARM64_OLD>();
            b.pwrite_with(c, 0, en).unwrap();
            b
        }
        5 => {
            let mut c = md::CONTEXT_ARM::default();
            c.context_flags = F::CONTEXT_ARM.bits() | 0x3;
            c.iregs[15] = ip as u32;
            c.iregs[13] = sp as u32;
            let mut b = zeroed::<md::CONTEXT_ARM>();
            b.pwrite_with(c, 0, en).unwrap();
            b
        }
        1 => {
            let mut c = md::CONTEXT_MIPS::default();
            c.context_flags = F::CONTEXT_MIPS.bits() | 0x3;
            c.epc = ip;
            c.iregs[29] = sp;
            let mut b = zeroed::<md::CONTEXT_MIPS>();
            b.pwrite_with(c, 0, en).unwrap();
            b
        }
        3 => {
            let z = zeroed::<md::CONTEXT_PPC>();
            let mut c: md::CONTEXT_PPC = z.pread_with(0, en).unwrap();
            c.context_flags = F::CONTEXT_PPC.bits() | 0x3;
            c.srr0 = ip as u32;
            c.gpr[1] = sp as u32;
            let mut b = z.clone();
            b.pwrite_with(c, 0, en).unwrap();
            b
        }
        0x8002 => {
            let z = zeroed::<md::CONTEXT_PPC64>();
            let mut c: md::CONTEXT_PPC64 = z.pread_with(0, en).unwrap();
            c.context_flags = F::CONTEXT_PPC64.bits() as u64 | 0x3;
            c.srr0 = ip;
            c.gpr[1] = sp;
            let mut b = z.clone();
            b.pwrite_with(c, 0, en).unwrap();
            b
        }
        0x8001 => {
            let z = zeroed::<md::CONTEXT_SPARC>();
            let mut c: md::CONTEXT_SPARC = z.pread_with(0, en).unwrap();
            c.context_flags = F::CONTEXT_SPARC.bits() | 0x3;
            c.pc = ip;
            c.g_r[14] = sp;
            let mut b = z.clone();
            b.pwrite_with(c, 0, en).unwrap();
            b
        }
        _ => return None,
    })
}

pub fn amd64_context_regs(regs: &[u64], ip: u64, sp: u64) -> Vec<u8> {
    let z = zeroed::<md::CONTEXT_AMD64>();
    let mut c: md::CONTEXT_AMD64 = z.pread_with(0, LE).unwrap();
    c.context_flags = 0x10001f;
    c.rax = regs[0];
    c.rcx = regs[1];
    c.rdx = regs[2];
    c.rbx = regs[3];
    c.rsp = sp;
    c.rbp = regs[5];
    c.rsi = regs[6];
    c.rdi = regs[7];
    c.r8 = regs[8];
    c.r9 = regs[9];
    c.r10 = regs[10];
    c.r11 = regs[11];
    c.r12 = regs[12];
    c.r13 = regs[13];
    c.r14 = regs[14];
    c.r15 = regs[15];
    c.rip = ip;
    let mut b = z.clone();
    b.pwrite_with(c, 0, LE).unwrap();
    b
}

/// Bytes of a context section of the requested kind (None = no context: null location).
fn context_of_kind(arch: u16, kind: u64, ip: u64, sp: u64, big: bool) -> Option<Vec<u8>> {
    let context_bytes = |arch, ip, sp| context_bytes_e(arch, ip, sp, big);
    match kind {
        0 => None,
        1 => Some(context_bytes(arch, ip, sp).unwrap_or_else(|| vec![0u8; 64])),
        2 => {
            // right size, flags of no architecture
            let mut b = context_bytes(arch, ip, sp).unwrap_or_else(|| vec![0u8; 64]);
            let off = if arch == 9 { 48 } else { 0 };
            for x in &mut b[off..off + 8] {
                *x = 0;
            }
            Some(b)
        }
        _ => Some(context_bytes(arch, ip, sp).unwrap_or_else(|| vec![0u8; 64])[..16].to_vec()),
    }
}

pub fn pointer_bytes(arch: u16) -> usize {
    match arch {
        9 | 12 | 0x8002 | 0x8003 | 0x8004 => 8,
        _ => 4,
    }
}

pub struct Built {
    pub bytes: Vec<u8>,
}

/// `decorate` lets C15 add further streams / rename modules before the dump is finished.
pub fn build_dump(c: &Case) -> Vec<u8> {
    let e = if c.big_endian { TEndian::Big } else { TEndian::Little };
    let mut dump = SynthMinidump::with_endian(e);
    let wsize = pointer_bytes(c.arch);

    // memory regions
    let mut mems: Vec<Memory> = vec![];
    for (j, &(base, size)) in c.mems.iter().enumerate() {
        let w = ANCHOR_WORD + 16 * j as u64;
        let mut s = Section::with_endian(e);
        let mut left = size as usize;
        if wsize == 4 {
            // 32-bit CPUs: every byte is 0x70+j, so a word read at ANY alignment is 0x7j7j7j7j (inside the anchor module)
            s = s.append_repeated(0x70 + (j as u8 & 0xf), left);
            left = 0;
        }
        while left >= wsize {
            s = s.D64(w);
            left -= wsize;
        }
        s = s.append_repeated(0, left);
        mems.push(Memory::with_section(s, base));
    }

    // contexts: one section per thread / exception, cited by label
    let mk_ctx_section = |bytes: Vec<u8>| Section::with_endian(e).append_bytes(&bytes);
    let mut threads = ListStream::<Section>::new(md::MINIDUMP_STREAM_TYPE::ThreadListStream, e);
    let mut ctx_sections: Vec<Section> = vec![];
    for t in &c.threads {
        let mut s = Section::with_endian(e).D32(t.id).D32(0).D32(0).D32(0).D64(0);
        assert!(!(c.mem64 && t.stackidx >= 0), "a Memory64List region cannot be cited by a thread");
        s = if t.stackidx >= 0 {
            mems[t.stackidx as usize].cite_memory_in(s)
        } else {
            s.D64(t.sbase).D32(0).D32(0)
        };
        s = match context_of_kind(c.arch, t.ctxkind, t.ip, t.sp, c.big_endian) {
            Some(b) => {
                let cs = mk_ctx_section(b);
                let s2 = s.D32(cs.file_size()).D32(cs.file_offset());
                ctx_sections.push(cs);
                s2
            }
            None => s.D32(0).D32(0),
        };
        threads = threads.add(s);
    }
    dump = dump.add_stream(threads);

    for (id, readable, name) in &c.names {
        if *readable {
            let ds = DumpString::new(name, e);
            dump = dump.add_thread_name(ThreadName::new(e, *id, Some(&ds))).add(ds);
        } else {
            dump = dump.add_thread_name(ThreadName::new(e, *id, None));
        }
    }

    if let Some(x) = &c.exc {
        let mut ex = Exception::new(e);
        ex.thread_id = x.tid;
        ex.exception_record.exception_code = x.code;
        ex.exception_record.exception_flags = x.flags;
        ex.exception_record.exception_address = x.addr;
        ex.exception_record.number_parameters = x.nparams;
        ex.exception_record.exception_information[0] = x.info[0];
        ex.exception_record.exception_information[1] = x.info[1];
        ex.exception_record.exception_information[2] = x.info[2];
        let exc_bytes = match (&c.exc_regs, c.arch, x.ctxkind) {
            (Some(r), 9, 1) => Some(amd64_context_regs(r, x.ip, x.sp)),
            _ => context_of_kind(c.arch, x.ctxkind, x.ip, x.sp, c.big_endian),
        };
        if let Some(b) = exc_bytes {
            let cs = mk_ctx_section(b);
            let (sz, off) = (cs.file_size(), cs.file_offset());
            dump = dump.add(cs);
            ex.thread_context = (sz.value().unwrap() as u32, off.value().unwrap() as u32);
        }
        dump = dump.add_exception(ex);
    }
    for cs in ctx_sections {
        dump = dump.add(cs);
    }
    for m in mems {
        dump = if c.mem64 { dump.add_memory64(m) } else { dump.add_memory(m) };
    }
    for (base, bytes) in &c.raw_mems {
        dump = dump.add_memory(Memory::with_section(Section::with_endian(e).append_bytes(bytes), *base));
    }
    for &(base, size, prot) in &c.mem_infos {
        dump = dump.add_memory_info(MemoryInfo::new(e, base, base, prot, size, 0x1000, prot, 0x20000));
    }

    if let Some((validity, dt, rt)) = c.bp {
        dump = dump.add_stream(SimpleStream {
            stream_type: md::MINIDUMP_STREAM_TYPE::BreakpadInfoStream as u32,
            section: match c.bp_form {
                2 => Section::with_endian(e).D32(validity).D32(dt),
                3 => Section::with_endian(e).D32(validity).D32(dt).D32(rt).D32(0xdead_beef),
                _ => Section::with_endian(e).D32(validity).D32(dt).D32(rt),
            },
        });
    }
    if let Some((size, flags1, pid, ctime)) = c.misc {
        let s = Section::with_endian(e).D32(size).D32(flags1).D32(pid).D32(ctime).D32(0).D32(0);
        let s = s.append_repeated(0, (size as usize).saturating_sub(24));
        // the stream is exactly `size` bytes long: shorter than the 24-byte structure when size < 24
        let mut bytes = s.get_contents().unwrap();
        bytes.truncate(size as usize);
        let s = Section::with_endian(e).append_bytes(&bytes);
        dump = dump.add_stream(SimpleStream { stream_type: md::MINIDUMP_STREAM_TYPE::MiscInfoStream as u32, section: s });
    }
    if let Some(text) = &c.status_text {
        dump = dump.set_linux_proc_status(text);
    }
    if !c.cpuinfo.is_empty() {
        dump = dump.set_linux_cpu_info(&c.cpuinfo);
    }
    if !c.lsb.is_empty() {
        dump = dump.set_linux_lsb_release(&c.lsb);
    }
    if !c.limits.is_empty() {
        dump = dump.set_linux_proc_limits(&c.limits);
    }
    if !c.soft.is_empty() {
        dump = dump.set_soft_errors(std::str::from_utf8(&c.soft).expect("soft errors utf8"));
    }
    if !c.maps.is_empty() {
        dump = dump.set_linux_maps(&c.maps);
    }
    for (h, ty, name) in &c.handles {
        let t = DumpString::new(ty, e);
        let n = DumpString::new(name, e);
        dump = dump.add_handle_descriptor(HandleDescriptor::new(e, *h, Some(&t), Some(&n), 0, 0, 1, 1)).add(t).add(n);
    }
    if let Some(b) = &c.bootargs {
        // MINIDUMP_MAC_BOOTARGS: stream_type u32, bootargs RVA64 -> MINIDUMP_STRING
        let ds = DumpString::new(b, e);
        let sec = Section::with_endian(e).D32(0).D64(ds.file_offset());
        dump = dump
            .add_stream(SimpleStream { stream_type: md::MINIDUMP_STREAM_TYPE::MozMacosBootargsStream as u32, section: sec })
            .add(ds);
    }
    dump = dump.add_system_info(SystemInfo::new(e).set_processor_architecture(c.arch).set_platform_id(c.platform));
    for (base, size, name) in &c.modules {
        let ds = DumpString::new(name, e);
        dump = dump.add_module(minidump_synth::Module::new(e, *base, *size, &ds, 0x5000_0000, 0, None)).add(ds);
    }
    for (base, size, name) in &c.unloaded {
        let ds = DumpString::new(name, e);
        dump = dump.add_unloaded_module(UnloadedModule::new(e, *base, *size, &ds, 0x5000_0000, 0)).add(ds);
    }
    let mut bytes = dump.finish().expect("synth finish");
    bytes[20..24].copy_from_slice(&if c.big_endian { c.time.to_be_bytes() } else { c.time.to_le_bytes() });
    bytes
}

pub fn process(bytes: Vec<u8>, symbols: std::collections::HashMap<String, String>) -> minidump_processor::ProcessState {
    let md = Minidump::read(bytes).expect("read");
    let rt = tokio::runtime::Builder::new_current_thread().build().unwrap();
    let provider = minidump_unwind::Symbolizer::new(minidump_unwind::string_symbol_supplier(symbols));
    rt.block_on(minidump_processor::process_minidump(&md, &provider)).expect("process")
}

const FAMILIES: [&str; 33] = [
    "MacGeneral", "MacBadAccessKern", "MacBadAccessArm", "MacBadAccessPpc", "MacBadAccessX86",
    "MacBadInstructionArm", "MacBadInstructionPpc", "MacBadInstructionX86",
    "MacArithmeticArm", "MacArithmeticPpc", "MacArithmeticX86", "MacSoftware",
    "MacBreakpointArm", "MacBreakpointPpc", "MacBreakpointX86", "MacResource", "MacGuard",
    "LinuxGeneral", "LinuxSigill", "LinuxSigtrap", "LinuxSigbus", "LinuxSigfpe", "LinuxSigsegv", "LinuxSigsys",
    "WindowsGeneral", "WindowsWinError", "WindowsWinErrorWithFacility", "WindowsNtStatus",
    "WindowsAccessViolation", "WindowsInPageError", "WindowsStackBufferOverrun", "WindowsUnknown",
    "Unknown",
];

fn reason_payload(r: &CrashReason) -> Vec<u64> {
    use CrashReason::*;
    match *r {
        MacGeneral(a, b) => vec![a as u64, b as u64],
        MacBadAccessKern(a) => vec![a as u64],
        MacBadAccessArm(a) => vec![a as u64],
        MacBadAccessPpc(a) => vec![a as u64],
        MacBadAccessX86(a) => vec![a as u64],
        MacBadInstructionArm(a) => vec![a as u64],
        MacBadInstructionPpc(a) => vec![a as u64],
        MacBadInstructionX86(a) => vec![a as u64],
        MacArithmeticArm(a) => vec![a as u64],
        MacArithmeticPpc(a) => vec![a as u64],
        MacArithmeticX86(a) => vec![a as u64],
        MacSoftware(a) => vec![a as u64],
        MacBreakpointArm(a) => vec![a as u64],
        MacBreakpointPpc(a) => vec![a as u64],
        MacBreakpointX86(a) => vec![a as u64],
        MacResource(a, b, c) => vec![a as u64, b, c],
        MacGuard(a, b, c) => vec![a as u64, b, c],
        LinuxGeneral(a, b) => vec![a as u64, b as u64],
        LinuxSigill(a) => vec![a as u64],
        LinuxSigtrap(a) => vec![a as u64],
        LinuxSigbus(a) => vec![a as u64],
        LinuxSigfpe(a) => vec![a as u64],
        LinuxSigsegv(a) => vec![a as u64],
        LinuxSigsys(a) => vec![a as u64],
        WindowsGeneral(a) => vec![a as u64],
        WindowsWinError(a) => vec![a as u64],
        WindowsWinErrorWithFacility(a, b) => vec![a as u64, b as u64],
        WindowsNtStatus(a) => vec![a as u64],
        WindowsAccessViolation(a) => vec![a as u64],
        WindowsInPageError(a, b) => vec![a as u64, b],
        WindowsStackBufferOverrun(a) => vec![a],
        WindowsUnknown(a) => vec![a as u64],
        Unknown(a, b) => vec![a as u64, b as u64],
    }
}

fn secs(t: std::time::SystemTime) -> u64 {
    t.duration_since(std::time::UNIX_EPOCH).map(|d| d.as_secs()).unwrap_or(u64::MAX)
}

pub fn render(state: &minidump_processor::ProcessState) -> String {
    use minidump_unwind::CallStackInfo;
    let mut th = vec![];
    for t in &state.threads {
        let info = match t.info {
            CallStackInfo::Ok => "0".to_string(),
            CallStackInfo::DumpThreadSkipped => "1".to_string(),
            CallStackInfo::MissingContext => "2".to_string(),
            ref x => format!("{:?}", x),
        };
        let (ip, sp) = match t.frames.first() {
            Some(f) => (f.instruction.to_string(), f.context.get_stack_pointer().to_string()),
            None => ("-".into(), "-".into()),
        };
        let f1 = t.frames.get(1).map(|f| f.instruction.to_string()).unwrap_or("-".into());
        let unl = t
            .frames
            .first()
            .map(|f| {
                f.unloaded_modules
                    .iter()
                    .map(|(n, offs)| format!("{}={}", n, offs.iter().map(|o| o.to_string()).collect::<Vec<_>>().join("+")))
                    .collect::<Vec<_>>()
                    .join("|")
            })
            .unwrap_or_default();
        th.push(format!(
            "{}:{}:{}:{}:{}:{}:{}:{}",
            t.thread_id,
            t.thread_name.clone().unwrap_or("-".into()),
            info,
            ip,
            sp,
            t.frames.len(),
            f1,
            unl
        ));
    }
    let (x, reason) = match &state.exception_info {
        Some(ei) => {
            let dbg = format!("{:?}", ei.reason);
            let fam = dbg.split('(').next().unwrap().to_string();
            let idx = FAMILIES.iter().position(|f| *f == fam).map(|i| i as i64).unwrap_or(-1);
            (
                format!(
                    "{}:{}:{}",
                    ei.address.0,
                    idx,
                    reason_payload(&ei.reason).iter().map(|v| v.to_string()).collect::<Vec<_>>().join("+")
                ),
                ei.reason.to_string(),
            )
        }
        None => ("-".into(), String::new()),
    };
    format!(
        "T={};R={};X={};P={};C={};TM={};M={};U={}#{}",
        th.join(","),
        state.requesting_thread.map(|i| i.to_string()).unwrap_or("-".into()),
        x,
        state.process_id.map(|p| p.to_string()).unwrap_or("-".into()),
        state.process_create_time.map(|t| secs(t).to_string()).unwrap_or("-".into()),
        secs(state.time),
        state.modules.iter().map(|m| format!("{}:{}", m.raw.base_of_image, m.raw.size_of_image)).collect::<Vec<_>>().join(","),
        state.unloaded_modules.iter().map(|m| format!("{}:{}:{}", m.raw.base_of_image, m.raw.size_of_image, m.name)).collect::<Vec<_>>().join(","),
        reason.replace('\n', " ")
    )
}

/// `H <hex> ...`: the bytes of a whole dump written by the plugin's own writer (props/c14.py), not by minidump-synth; the rest of
/// the line is the generator's description (read by the oracle only).  "NONE" = Minidump::read or process_minidump fails.
fn run_hex(hex: &str) -> String {
    let bytes: Vec<u8> = (0..hex.len() / 2).map(|i| u8::from_str_radix(&hex[2 * i..2 * i + 2], 16).expect("dump hex")).collect();
    let md = match Minidump::read(bytes) {
        Ok(m) => m,
        Err(_) => return "NONE".into(),
    };
    let rt = tokio::runtime::Builder::new_current_thread().build().unwrap();
    let provider = minidump_unwind::Symbolizer::new(minidump_unwind::string_symbol_supplier(Default::default()));
    match rt.block_on(minidump_processor::process_minidump(&md, &provider)) {
        Ok(state) => render(&state),
        Err(_) => "NONE".into(),
    }
}

fn run(line: &str) -> String {
    if let Some(rest) = line.strip_prefix("H ") {
        return run_hex(rest.split_whitespace().next().unwrap_or(""));
    }
    let mut t = Toks::new(line);
    let c = parse_case(&mut t);
    let bytes = build_dump(&c);
    let state = process(bytes, Default::default());
    render(&state)
}

fn main() {
    for_each_case(run);
}
