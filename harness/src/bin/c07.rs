//! C07 correspondence harness (STACK WIN).  '|'-separated case lines:
//!  A|lookup|gcps|hasgc|regs|membase|memhex|rec|rec|...
//!     SymbolFile::from_bytes + walk_frame with the 32-bit mock walker
//!  B|ctxregs|valid|stackbase|stackhex|rec|rec|...
//!     one x86 walk_stack step through the real CfiStackWalker (context frame, no grand-callee)
//!  F|below|ctxregs|valid|stackbase|stackhex|rec|rec|...
//!     one x86 walk_stack step resumed from a frame LIST: `below` = "." (the callee is the context frame) or the
//!     comma-separated StackFrame::parameter_size of the frames under the callee, innermost first ("-" = None);
//!     the grand-callee and its parameter size reach STACK WIN evaluation through the real
//!     walk_stack -> x86::get_caller_frame -> CfiStackWalker::from_ctx_and_args
//!  G|ctxregs|stackbase|stackhex|funcs|rec|rec|...
//!     a WHOLE x86 walk_stack from the context frame; funcs = ";"-separated "addr size paramsize" FUNC records ("-" = none);
//!     answer: `W;eip,esp,ebp;eip,esp,ebp;...` = the leading frames produced by call frame info
//!  rec = "W ty addr size prolog epilog params saved locals maxstack hasprog rest..."  (decimal numbers,
//!        ty and hasprog single characters; printed in hex as a STACK WIN line)
//!      | "C addr size rules..."   (a STACK CFI INIT line)
//! answers as for C06.
#[path = "../cfi_common.rs"]
mod cfi_common;
use cfi_common::*;
use vharness::*;

fn rec_text(r: &str) -> String {
    let mut it = r.splitn(2, ' ');
    let kind = it.next().expect("kind");
    let rest = it.next().unwrap_or("");
    match kind {
        "W" => {
            let p: Vec<&str> = rest.splitn(11, ' ').collect();
            let n = |i: usize| p[i].parse::<u64>().expect("num");
            format!(
                "STACK WIN {} {:x} {:x} {:x} {:x} {:x} {:x} {:x} {:x} {} {}\n",
                p[0], n(1), n(2), n(3), n(4), n(5), n(6), n(7), n(8), p[9], p.get(10).copied().unwrap_or("")
            )
        }
        "C" => {
            let p: Vec<&str> = rest.splitn(3, ' ').collect();
            format!(
                "STACK CFI INIT {:x} {:x} {}\n",
                p[0].parse::<u64>().expect("addr"),
                p[1].parse::<u64>().expect("size"),
                p.get(2).copied().unwrap_or("")
            )
        }
        _ => panic!("bad rec"),
    }
}

fn run(line: &str) -> String {
    let f: Vec<&str> = line.split('|').collect();
    match f[0] {
        "A" => {
            let mut text = String::from("MODULE windows x86 ABCD1234 m\n");
            for r in &f[7..] {
                text.push_str(&rec_text(r));
            }
            let mut mw = MockWalker {
                w: 4,
                instruction: f[1].parse().expect("lookup"),
                gcps: f[2].parse().expect("gcps"),
                has_gc: f[3] == "1",
                callee: parse_regs(f[4]).into_iter().collect(),
                membase: f[5].parse().expect("membase"),
                mem: unhex(f[6]),
                cfa: None,
                ra: None,
                caller: Default::default(),
                cleared: Default::default(),
            };
            mock_walk(&text, &mut mw)
        }
        "B" => {
            let regs = parse_regs(f[1]);
            let mut text = String::new();
            for r in &f[5..] {
                text.push_str(&rec_text(r));
            }
            real_walk("x86", &regs, f[2], f[3].parse().expect("stackbase"), &unhex(f[4]), &text)
        }
        "F" => {
            let below: Vec<Option<u32>> = if f[1] == "." {
                vec![]
            } else {
                f[1].split(',').map(|x| if x == "-" { None } else { Some(x.parse::<u32>().expect("psize")) }).collect()
            };
            let regs = parse_regs(f[2]);
            let mut text = String::new();
            for r in &f[6..] {
                text.push_str(&rec_text(r));
            }
            real_walk_from(&below, &regs, f[3], f[4].parse().expect("stackbase"), &unhex(f[5]), &text)
        }
        "G" => {
            let regs = parse_regs(f[1]);
            let mut text = String::new();
            if f[4] != "-" {
                for (i, fu) in f[4].split(';').enumerate() {
                    let p: Vec<u64> = fu.split(' ').map(|x| x.parse::<u64>().expect("func num")).collect();
                    text.push_str(&format!("FUNC {:x} {:x} {:x} fn{}\n", p[0], p[1], p[2], i));
                }
            }
            for r in &f[5..] {
                text.push_str(&rec_text(r));
            }
            real_walk_all(&regs, f[2].parse().expect("stackbase"), &unhex(f[3]), &text)
        }
        _ => panic!("bad kind"),
    }
}

fn main() {
    for_each_case(run);
}
