//! C20 harness: runs the built `minidump-stackwalk` binary (argv[1]) and the library in-process on
//! the same input and options, and prints one comparison record per case.
//!
//! case (14 tokens):
//!   <input> <sym> <modes> <brief> <pretty> <feat> <rfa> <out> <cy> <log> <verbose> <stdout> <evil> <noflags>
//!   input   F:<name in /repo/testdata> | M:<name>:<seed>:<n bytes mutated> | MS:<k>:<seed>:<n> (mutated synth) | T:<name>:<len> (truncated)
//!           | S:<k> (minidump-synth variant) | X:missing | X:empty | X:dir | X:text
//!   sym     n none | p positional testdata/symbols | s --symbols-path testdata/symbols
//!           | a positional "symargs" (test_app.sym with argument lists) | b --symbols-path symargs + positional symbols
//!   modes   '-' or letters of h(--human) j(--json) c(--cyborg) D(--dump) m(--help-markdown)
//!   feat    0 stable-basic | 1 stable-all | 2 unstable-all | 9 (no --features argument)
//!   out/cy/log  '-' absent | g writable file | b path in a missing directory | u /dev/full
//!   verbose e (no flag) | off|error|warn|info|debug|trace
//!   stdout  o pipe | u /dev/full | p pipe whose reader is gone
//!   noflags bit 0 --no-color, bit 1 --no-interactive
//! answer:
//!   lib=<R|P|O|X|?> exit=<n|sig:n|timeout> stdout=<sink> out=<sink> cy=<sink> log=<-|len> stderr=<len> exp=<list>
//!   sink = '-' (file absent) | n/a | <len>:<hash>:<names of the in-process renderings it equals, '+'-joined | none>
//!   renderings: H0 H1 HB0 HB1 J0 J1 JP0 JP1 (suffix = recover_function_args) D DB
use minidump::*;
use minidump_processor::ProcessorOptions;
use minidump_unwind::{simple_symbol_supplier, MultiSymbolProvider, Symbolizer};
use minidump_synth as synth;
use std::collections::HashMap;
use std::io::{Read, Write};
use std::ops::Deref;
use std::os::unix::io::FromRawFd;
use std::path::{Path, PathBuf};
use std::process::{Command, Stdio};
use std::time::{Duration, Instant};
use test_assembler::{Endian, Section};
use vharness::*;

const TESTDATA: &str = "/repo/testdata";

fn fnv(b: &[u8]) -> String {
    let mut h: u64 = 0xcbf29ce484222325;
    for &x in b {
        h ^= x as u64;
        h = h.wrapping_mul(0x100000001b3);
    }
    format!("{:08x}", (h ^ (h >> 32)) as u32)
}

struct Rng(u64);
impl Rng {
    fn next(&mut self) -> u64 {
        let mut x = self.0;
        x ^= x >> 12;
        x ^= x << 25;
        x ^= x >> 27;
        self.0 = x;
        x.wrapping_mul(0x2545F4914F6CDD1D)
    }
}

/// Copy of minidump-stackwalk/src/main.rs print_minidump_dump: the same public printers in the same order.
fn print_minidump_dump<'a, T, W>(dump: &Minidump<'a, T>, output: &mut W, brief: bool) -> std::io::Result<()>
where
    T: Deref<Target = [u8]> + 'a,
    W: Write,
{
    dump.print(output)?;
    let system_info = dump.get_stream::<MinidumpSystemInfo>().ok();
    let mut memory_list = dump.get_stream::<MinidumpMemoryList<'_>>().ok();
    let mut memory64_list = dump.get_stream::<MinidumpMemory64List<'_>>().ok();
    let misc_info = dump.get_stream::<MinidumpMiscInfo>().ok();
    let unified_memory = memory64_list
        .take()
        .map(UnifiedMemoryList::Memory64)
        .or_else(|| memory_list.take().map(UnifiedMemoryList::Memory));
    if let Ok(thread_list) = dump.get_stream::<MinidumpThreadList<'_>>() {
        thread_list.print(output, unified_memory.as_ref(), system_info.as_ref(), misc_info.as_ref(), brief)?;
    }
    if let Ok(module_list) = dump.get_stream::<MinidumpModuleList>() {
        module_list.print(output)?;
    }
    if let Ok(module_list) = dump.get_stream::<MinidumpUnloadedModuleList>() {
        module_list.print(output)?;
    }
    if let Ok(handles) = dump.get_stream::<MinidumpHandleDataStream>() {
        handles.print(output)?;
    }
    if let Some(memory_list) = unified_memory {
        memory_list.print(output, brief)?;
    }
    if let Some(memory_list) = memory_list {
        memory_list.print(output, brief)?;
    }
    if let Some(memory64_list) = memory64_list {
        memory64_list.print(output, brief)?;
    }
    if let Ok(memory_info_list) = dump.get_stream::<MinidumpMemoryInfoList<'_>>() {
        memory_info_list.print(output)?;
    }
    if let Ok(exception) = dump.get_stream::<MinidumpException>() {
        exception.print(output, system_info.as_ref(), misc_info.as_ref())?;
    }
    if let Ok(assertion) = dump.get_stream::<MinidumpAssertion>() {
        assertion.print(output)?;
    }
    if let Some(system_info) = system_info {
        system_info.print(output)?;
    }
    if let Some(misc_info) = misc_info {
        misc_info.print(output)?;
    }
    if let Ok(thread_names) = dump.get_stream::<MinidumpThreadNames>() {
        thread_names.print(output)?;
    }
    if let Ok(breakpad_info) = dump.get_stream::<MinidumpBreakpadInfo>() {
        breakpad_info.print(output)?;
    }
    match dump.get_stream::<MinidumpCrashpadInfo>() {
        Ok(crashpad_info) => crashpad_info.print(output)?,
        Err(Error::StreamNotFound) => (),
        Err(_) => write!(output, "MinidumpCrashpadInfo cannot print invalid data")?,
    }
    if let Ok(mac_info) = dump.get_stream::<MinidumpMacCrashInfo>() {
        mac_info.print(output)?;
    }
    if let Ok(mac_bootargs) = dump.get_stream::<MinidumpMacBootargs>() {
        mac_bootargs.print(output)?;
    }
    use minidump_common::format::MINIDUMP_STREAM_TYPE as ST;
    fn print_raw_stream<T: Write>(name: &str, contents: &[u8], out: &mut T) -> std::io::Result<()> {
        writeln!(out, "Stream {name}:")?;
        let s = contents.split(|&v| v == 0).map(String::from_utf8_lossy).collect::<Vec<_>>().join("\\0\n");
        write!(out, "{s}\n\n")
    }
    for &(stream, name) in &[
        (ST::LinuxCmdLine, "LinuxCmdLine"),
        (ST::LinuxEnviron, "LinuxEnviron"),
        (ST::LinuxLsbRelease, "LinuxLsbRelease"),
        (ST::LinuxProcStatus, "LinuxProcStatus"),
        (ST::LinuxCpuInfo, "LinuxCpuInfo"),
        (ST::LinuxMaps, "LinuxMaps"),
        (ST::MozLinuxLimits, "MozLinuxLimits"),
        (ST::MozSoftErrors, "MozSoftErrors"),
    ] {
        if let Ok(contents) = dump.get_raw_stream(stream as u32) {
            print_raw_stream(name, contents, output)?;
        }
    }
    Ok(())
}

// ---------------------------------------------------------------------------------- inputs
fn synth_dump(k: u64) -> Vec<u8> {
    let e = Endian::Little;
    let context = synth::x86_context(e, 0xf00800, 0x1010);
    let stack = synth::Memory::with_section(Section::with_endian(e).append_repeated(0x41, 0x100), 0x1000);
    let thread = synth::Thread::new(e, 0x1234, &stack, &context);
    let system_info = synth::SystemInfo::new(e);
    let base = || {
        synth::SynthMinidump::with_endian(e)
    };
    let d = match k {
        // minimal: thread + system info + stack memory (dump != brief dump)
        0 => base().add_thread(thread).add_system_info(system_info).add(context).add_memory(stack),
        // no system info: processing fails, raw dump works
        1 => base().add_thread(thread).add(context).add_memory(stack),
        // no thread list: processing fails
        2 => base().add_system_info(system_info),
        // header only
        3 => base(),
        // exception + module + unloaded module + thread name + memory info
        4 => {
            let name = synth::DumpString::new("c:\\app\\many.dll", e);
            let uname = synth::DumpString::new("gone.dll", e);
            let tname = synth::DumpString::new("worker", e);
            let module = synth::Module::new(e, 0xf00000, 0x10000, &name, 0xb1054d2a, 0x34571371, None);
            let unloaded = synth::UnloadedModule::new(e, 0xa00000, 0x1000, &uname, 0xb1054d2a, 0x34571371);
            let mut ex = synth::Exception::new(e);
            ex.thread_id = 0x1234;
            ex.exception_record.exception_code = 0xC0000005;
            ex.exception_record.exception_address = 0xf00800;
            ex.exception_record.number_parameters = 2;
            ex.exception_record.exception_information[0] = 1;
            ex.exception_record.exception_information[1] = 0x45;
            base()
                .add_thread(thread)
                .add_system_info(system_info.set_platform_id(2))
                .add_exception(ex)
                .add_module(module)
                .add_unloaded_module(unloaded)
                .add_thread_name(synth::ThreadName::new(e, 0x1234, Some(&tname)))
                .add_memory_info(synth::MemoryInfo::new(e, 0x1000, 0x1000, 4, 0x1000, 0x1000, 4, 0x20000))
                .add(name)
                .add(uname)
                .add(tname)
                .add(context)
                .add_memory(stack)
        }
        // linux: amd64 + the raw procfs streams + soft errors
        5 => {
            let context = synth::amd64_context(e, 0x400800, 0x7ffc0000);
            let stack = synth::Memory::with_section(Section::with_endian(e).append_repeated(0, 0x200), 0x7ffc0000);
            let thread = synth::Thread::new(e, 77, &stack, &context);
            base()
                .add_thread(thread)
                .add_system_info(system_info.set_processor_architecture(9).set_platform_id(0x8201))
                .set_linux_maps(b"00400000-00401000 r-xp 00000000 00:00 1 /bin/app\n7ffc0000-7ffc1000 rw-p 00000000 00:00 0 [stack]\n")
                .set_linux_lsb_release(b"DISTRIB_ID=\"hello\"\nDISTRIB_RELEASE=\"1\"\n")
                .set_linux_proc_status(b"Name:\tapp\nPid:\t77\n")
                .set_linux_cpu_info(b"processor : 0\nmodel name : x\n\n")
                .set_linux_environ(b"A=1\0B=2\0")
                .set_soft_errors("[{\"a\":1}]")
                .add(context)
                .add_memory(stack)
        }
        // arm64 + crashpad info + handle
        _ => {
            let context = synth::arm64_context(e, 0x400800, 0x10000);
            let stack = synth::Memory::with_section(Section::with_endian(e).append_repeated(7, 0x80), 0x10000);
            let thread = synth::Thread::new(e, 5, &stack, &context);
            let crashpad = synth::CrashpadInfo::new(e).add_simple_annotation("k", "v");
            base()
                .add_thread(thread)
                .add_system_info(system_info.set_processor_architecture(0x8003).set_platform_id(0x8101))
                .add_crashpad_info(crashpad)
                .add(context)
                .add_memory(stack)
        }
    };
    d.finish().expect("synth")
}

fn input_bytes(spec: &str) -> Option<Vec<u8>> {
    let parts: Vec<&str> = spec.split(':').collect();
    let read = |n: &str| std::fs::read(Path::new(TESTDATA).join(n)).expect("testdata file");
    match parts[0] {
        "F" => Some(read(parts[1])),
        "M" | "MS" => {
            let mut b = if parts[0] == "M" { read(parts[1]) } else { synth_dump(parts[1].parse().unwrap()) };
            let mut r = Rng(parts[2].parse::<u64>().unwrap().wrapping_mul(0x9E3779B97F4A7C15) | 1);
            let n: usize = parts[3].parse().unwrap();
            for _ in 0..n {
                if b.is_empty() {
                    break;
                }
                // most mutations land in the header, the directory and the stream headers
                let pos = if r.next() % 3 == 0 { (r.next() as usize) % b.len() } else { (r.next() as usize) % b.len().min(2048) };
                b[pos] = match r.next() % 4 {
                    0 => 0,
                    1 => 0xff,
                    2 => b[pos] ^ (1 << (r.next() % 8)),
                    _ => r.next() as u8,
                };
            }
            Some(b)
        }
        "T" => {
            let b = read(parts[1]);
            let l: usize = parts[2].parse().unwrap();
            Some(b[..l.min(b.len())].to_vec())
        }
        "S" => Some(synth_dump(parts[1].parse().unwrap())),
        "X" => match parts[1] {
            "empty" => Some(vec![]),
            "text" => Some(b"this is not a minidump\n".to_vec()),
            _ => None,
        },
        x => panic!("input kind {}", x),
    }
}

// ---------------------------------------------------------------------------------- in-process library
#[derive(Clone, Default)]
struct LibOut {
    class: String,                       // R read error, P process error, O ok, X panic
    renderings: Vec<(String, Vec<u8>)>,  // name -> bytes
}

fn lib_run(path: &Path, sym_dirs: &[PathBuf], feat: u64, rfa_flag: bool, evil: bool) -> LibOut {
    let mut out = LibOut::default();
    let dump = match Minidump::read_path(path) {
        Ok(d) => d,
        Err(_) => {
            out.class = "R".into();
            return out;
        }
    };
    for (name, brief) in [("D", false), ("DB", true)] {
        let mut v = Vec::new();
        print_minidump_dump(&dump, &mut v, brief).expect("dump printer on a Vec");
        out.renderings.push((name.into(), v));
    }
    let rt = tokio::runtime::Builder::new_current_thread().enable_all().build().unwrap();
    out.class = "O".into();
    let evil_path = PathBuf::from(TESTDATA).join("evil.json");
    for rec in [false, true] {
        // the documented option table: the preset named by --features, overloaded by the explicit flags
        let mut options = match feat {
            1 => ProcessorOptions::stable_all(),
            2 => ProcessorOptions::unstable_all(),
            _ => ProcessorOptions::stable_basic(),
        };
        let _ = rfa_flag;
        options.recover_function_args = rec;
        if evil {
            options.evil_json = Some(&evil_path);
        }
        let mut provider = MultiSymbolProvider::new();
        if !sym_dirs.is_empty() {
            provider.add(Box::new(Symbolizer::new(simple_symbol_supplier(sym_dirs.to_vec()))));
        }
        match rt.block_on(minidump_processor::process_minidump_with_options(&dump, &provider, options)) {
            Ok(state) => {
                let s = if rec { "1" } else { "0" };
                let mut v = Vec::new();
                state.print(&mut v).expect("print");
                out.renderings.push((format!("H{}", s), v));
                let mut v = Vec::new();
                state.print_brief(&mut v).expect("print_brief");
                out.renderings.push((format!("HB{}", s), v));
                let mut v = Vec::new();
                state.print_json(&mut v, false).expect("print_json");
                out.renderings.push((format!("J{}", s), v));
                let mut v = Vec::new();
                state.print_json(&mut v, true).expect("print_json pretty");
                out.renderings.push((format!("JP{}", s), v));
            }
            Err(_) => {
                out.class = "P".into();
                break;
            }
        }
    }
    out
}

// ---------------------------------------------------------------------------------- the tool
struct ToolOut {
    exit: String,
    stdout: Option<Vec<u8>>,
    stderr: Vec<u8>,
}

fn run_tool(tool: &str, args: &[String], cwd: &Path, stdout_cls: &str) -> ToolOut {
    let mut cmd = Command::new(tool);
    cmd.args(args).current_dir(cwd).stdin(Stdio::null()).stderr(Stdio::piped());
    cmd.env("TMPDIR", cwd).env_remove("RUST_BACKTRACE").env_remove("RUST_LOG").env_remove("NO_COLOR");
    match stdout_cls {
        "u" => {
            cmd.stdout(std::fs::OpenOptions::new().write(true).open("/dev/full").expect("/dev/full"));
        }
        "p" => unsafe {
            let mut fds = [0i32; 2];
            assert_eq!(libc::pipe2(fds.as_mut_ptr(), libc::O_CLOEXEC), 0);
            libc::close(fds[0]);
            cmd.stdout(Stdio::from_raw_fd(fds[1]));
        },
        _ => {
            cmd.stdout(Stdio::piped());
        }
    }
    let mut child = cmd.spawn().expect("spawn minidump-stackwalk");
    let so = child.stdout.take();
    let se = child.stderr.take().unwrap();
    let t_out = std::thread::spawn(move || {
        so.map(|mut s| {
            let mut v = Vec::new();
            let _ = s.read_to_end(&mut v);
            v
        })
    });
    let t_err = std::thread::spawn(move || {
        let mut v = Vec::new();
        let mut se = se;
        let _ = se.read_to_end(&mut v);
        v
    });
    let start = Instant::now();
    let status = loop {
        match child.try_wait().expect("wait") {
            Some(s) => break Some(s),
            None => {
                if start.elapsed() > Duration::from_secs(60) {
                    let _ = child.kill();
                    let _ = child.wait();
                    break None;
                }
                std::thread::sleep(Duration::from_millis(2));
            }
        }
    };
    let stdout = t_out.join().unwrap();
    let stderr = t_err.join().unwrap();
    let exit = match status {
        None => "timeout".to_string(),
        Some(s) => {
            use std::os::unix::process::ExitStatusExt;
            match (s.code(), s.signal()) {
                (Some(c), _) => c.to_string(),
                (None, Some(sig)) => format!("sig:{}", sig),
                _ => "?".into(),
            }
        }
    };
    ToolOut { exit, stdout, stderr }
}

struct State {
    tool: String,
    tmp: tempfile::TempDir,
    symargs: PathBuf,
    cache: HashMap<String, LibOut>,
    inputs: HashMap<String, PathBuf>,
    n: u64,
}

fn make_symargs(dir: &Path) -> PathBuf {
    // testdata/symbols with argument lists added to two function names of test_app.sym, so that
    // recover_function_args changes the report for testdata/test.dmp
    let root = dir.join("symargs");
    let rel = "test_app.pdb/5A9832E5287241C1838ED98914E9B7FF1";
    std::fs::create_dir_all(root.join(rel)).unwrap();
    let src = std::fs::read_to_string(Path::new(TESTDATA).join("symbols").join(rel).join("test_app.sym")).unwrap();
    let mut out = String::with_capacity(src.len() + 64);
    for line in src.lines() {
        if line.starts_with("FUNC ") && line.ends_with(" main") {
            out.push_str(line);
            out.push_str("(int, char**)");
        } else if line.starts_with("FUNC ") && line.ends_with("::CrashFunction") {
            out.push_str(line);
            out.push_str("(int)");
        } else {
            out.push_str(line);
        }
        out.push('\n');
    }
    std::fs::write(root.join(rel).join("test_app.sym"), out).unwrap();
    root
}

fn sink_desc(bytes: &[u8], lib: &LibOut) -> String {
    let mut names: Vec<&str> = lib.renderings.iter().filter(|(_, b)| b.as_slice() == bytes).map(|(n, _)| n.as_str()).collect();
    if names.is_empty() {
        names.push("none");
    }
    format!("{}:{}:{}", bytes.len(), fnv(bytes), names.join("+"))
}

fn file_desc(cls: &str, p: &Path, lib: &LibOut) -> String {
    match cls {
        "-" => "-".into(),
        "u" => "n/a".into(),
        _ => match std::fs::read(p) {
            Ok(b) => sink_desc(&b, lib),
            Err(_) => "-".into(),
        },
    }
}

fn run(st: &mut State, line: &str) -> String {
    let mut t = Toks::new(line);
    let input = t.str();
    let sym = t.str();
    let modes = t.str();
    let brief = t.u64() == 1;
    let pretty = t.u64() == 1;
    let feat = t.u64();
    let rfa = t.u64() == 1;
    let out_cls = t.str();
    let cy_cls = t.str();
    let log_cls = t.str();
    let verbose = t.str();
    let stdout_cls = t.str();
    let evil = t.u64() == 1;
    let noflags = t.u64();
    st.n += 1;
    let tmp = st.tmp.path().to_path_buf();

    // the input file
    let in_path = match st.inputs.get(input) {
        Some(p) => p.clone(),
        None => {
            let p = tmp.join(format!("in{}.dmp", st.inputs.len()));
            match input_bytes(input) {
                Some(b) => std::fs::write(&p, b).unwrap(),
                None => {
                    if input == "X:dir" {
                        std::fs::create_dir_all(&p).unwrap();
                    } // X:missing: nothing
                }
            }
            st.inputs.insert(input.to_string(), p.clone());
            p
        }
    };

    // paths
    let casedir = tmp.join(format!("c{}", st.n));
    std::fs::create_dir_all(&casedir).unwrap();
    let mk = |cls: &str, name: &str| -> PathBuf {
        match cls {
            "b" => casedir.join("missing-dir").join(name),
            "u" => PathBuf::from("/dev/full"),
            _ => casedir.join(name),
        }
    };
    let out_path = mk(out_cls, "out.txt");
    let cy_path = mk(cy_cls, "cyborg.json");
    let log_path = mk(log_cls, "log.txt");
    let symbols = PathBuf::from(TESTDATA).join("symbols");

    let mut args: Vec<String> = vec![];
    let s = |p: &Path| p.to_str().unwrap().to_string();
    for m in modes.chars() {
        match m {
            'h' => args.push("--human".into()),
            'j' => args.push("--json".into()),
            'D' => args.push("--dump".into()),
            'm' => args.push("--help-markdown".into()),
            'c' => {
                args.push("--cyborg".into());
                args.push(s(&cy_path));
            }
            '-' => {}
            x => panic!("mode {}", x),
        }
    }
    if brief {
        args.push("--brief".into());
    }
    if pretty {
        args.push("--pretty".into());
    }
    match feat {
        0 => args.push("--features=stable-basic".into()),
        1 => {
            args.push("--features".into());
            args.push("stable-all".into());
        }
        2 => args.push("--features=unstable-all".into()),
        _ => {}
    }
    if rfa {
        args.push("--recover-function-args".into());
    }
    if out_cls != "-" {
        args.push("--output-file".into());
        args.push(s(&out_path));
    }
    if log_cls != "-" {
        args.push("--log-file".into());
        args.push(s(&log_path));
    }
    if verbose != "e" {
        args.push(format!("--verbose={}", verbose));
    }
    if evil {
        args.push("--evil-json".into());
        args.push(format!("{}/evil.json", TESTDATA));
    }
    if noflags & 1 != 0 {
        args.push("--no-color".into());
    }
    if noflags & 2 != 0 {
        args.push("--no-interactive".into());
    }
    let mut sym_dirs: Vec<PathBuf> = vec![];
    match sym {
        "s" => {
            args.push("--symbols-path".into());
            args.push(s(&symbols));
            sym_dirs.push(symbols.clone());
        }
        "b" => {
            args.push(format!("--symbols-path={}", s(&st.symargs)));
            sym_dirs.push(st.symargs.clone());
        }
        _ => {}
    }
    args.push(s(&in_path));
    match sym {
        "p" | "b" => {
            args.push(s(&symbols));
            sym_dirs.push(symbols.clone());
        }
        "a" => {
            args.push(s(&st.symargs));
            sym_dirs.push(st.symargs.clone());
        }
        _ => {}
    }

    // (a) the tool first: if it dies the same input is not fed to the library in this process
    let tool = run_tool(&st.tool, &args, &casedir, stdout_cls);
    let died = tool.exit.starts_with("sig") || tool.exit == "timeout";

    // (b) the library, in-process
    let key = format!("{} {} {} {}", input, sym, feat, evil);
    let lib = if died {
        LibOut { class: "?".into(), renderings: vec![] }
    } else if let Some(l) = st.cache.get(&key) {
        l.clone()
    } else {
        let p = in_path.clone();
        let dirs = sym_dirs.clone();
        let l = match std::panic::catch_unwind(std::panic::AssertUnwindSafe(|| lib_run(&p, &dirs, feat, rfa, evil))) {
            Ok(l) => l,
            Err(_) => LibOut { class: "X".into(), renderings: vec![] },
        };
        if st.cache.len() > 64 {
            st.cache.clear();
        }
        st.cache.insert(key, l.clone());
        l
    };

    let stdout_desc = match &tool.stdout {
        Some(b) if stdout_cls == "o" => sink_desc(b, &lib),
        _ => "n/a".into(),
    };
    let out_desc = file_desc(out_cls, &out_path, &lib);
    let cy_desc = if modes.contains('c') { file_desc(cy_cls, &cy_path, &lib) } else { "-".into() };
    let log_desc = match log_cls {
        "-" => "-".to_string(),
        "u" => "n/a".into(),
        _ => std::fs::metadata(&log_path).map(|m| m.len().to_string()).unwrap_or("-".into()),
    };
    let exp: Vec<String> = lib.renderings.iter().map(|(n, b)| format!("{}:{}:{}", n, b.len(), fnv(b))).collect();
    let _ = std::fs::remove_dir_all(&casedir);
    format!(
        "lib={} exit={} stdout={} out={} cy={} log={} stderr={} exp={}",
        lib.class,
        tool.exit,
        stdout_desc,
        out_desc,
        cy_desc,
        log_desc,
        tool.stderr.len(),
        if exp.is_empty() { "-".to_string() } else { exp.join(",") }
    )
}

fn main() {
    let tool = std::env::args().nth(1).expect("usage: c20 <path to minidump-stackwalk>");
    let base = PathBuf::from("/verif/.cache/c20-tmp");
    std::fs::create_dir_all(&base).unwrap();
    let tmp = tempfile::Builder::new().prefix("h").tempdir_in(&base).unwrap();
    let symargs = make_symargs(tmp.path());
    let mut st = State { tool, tmp, symargs, cache: HashMap::new(), inputs: HashMap::new(), n: 0 };
    for_each_case(|line| run(&mut st, line));
}
