//! C20 harness: runs the built `minidump-stackwalk` binary (argv[1]) and the library in-process on
//! the same input and options, and prints one comparison record per case.  argv[2] = the checkout whose
//! testdata is used (default /repo).
//!
//! case (14..16 tokens):
//!   <input> <sym> <modes> <brief> <pretty> <feat> <rfa> <out> <cy> <log> <verbose> <stdout> <evil> <noflags> [<lim> [<ldi>]]
//!   input   F:<name in testdata> | M:<name>:<seed>:<n bytes mutated> | MS:<k>:<seed>:<n> (mutated synth) | T:<name>:<len> (truncated)
//!           | S:<k> (minidump-synth variant) | X:missing | X:empty | X:dir | X:text
//!           | DS:<seed> (a synthesized dump with a drawn subset of the stream kinds --dump prints: each one absent, present, or
//!             present but unreadable)
//!   sym     n none | p positional testdata/symbols | s --symbols-path testdata/symbols
//!           | a positional "symargs" (test_app.sym with argument lists) | b --symbols-path symargs + positional symbols
//!           | U<2|4|g>[c|t] --symbols-url on the harness's loopback server answering 200 / 404 / 200 with garbage,
//!             with fresh --symbols-cache / --symbols-tmp directories (c: cache path unusable, t: tmp path unusable)
//!           | M<items> symbol sources in argv order: '.' = the minidump; a letter = a symbol root, lower case = positional,
//!             upper case = `--symbols-path <root>`; roots: a m z = "alpha" "mid" "zeta" (each holds test_app.sym with the
//!             function names suffixed _a / _m / _z), o = testdata/symbols, g = "symargs", f = "file.sym" (a .sym FILE, names
//!             suffixed _f), e = an empty directory, x = a missing directory; a digit = `--symbols-url` on the loopback
//!             server: 2 ok, 4 not found, 6 garbage, 8 "alt" (serves the symargs tree).  The in-process reference gets the
//!             roots / URLs in argv order; further renderings are named <R>@flagsfirst (flag values first, then positionals), <R>@<letter>
//!             (that root alone) so that the answer tells which store the tool used
//!           | U...d: --symbols-url without --symbols-cache / --symbols-tmp (defaults below $TMPDIR)
//!           | U2s: the server answers for test_app's symbol file after 1.5 s (no timeout option: the default of 1000 s waits);
//!             U2w: after 8 s, with `--symbols-download-timeout-secs 1` (the download is given up; the in-process reference
//!             uses the same timeout)
//!   modes   '-' or letters of h(--human) j(--json) c(--cyborg) D(--dump) m(--help-markdown)
//!   feat    0 stable-basic | 1 stable-all | 2 unstable-all | 9 (no --features argument)
//!   out/cy/log  '-' absent | g writable file | b path in a missing directory | u /dev/full | d an existing directory
//!           | r an existing read-only file (the tool then runs as uid 65534 when the harness is root)
//!           | f<N> (out only) a FIFO whose reader goes away after N >= 1 bytes
//!           | x<k> the path exists BEFORE the run: xe empty file | xs shorter (23 bytes) | xl longer (300 000 bytes) than any
//!             report | xq exactly as long as what this very command writes (a previous identical run, every byte then
//!             replaced by '#') | xk a symlink to a longer file | xK a dangling symlink | xL a symlink loop (open fails)
//!           | q<letters> the path was written by PREVIOUS RUNS of the tool (same input and symbols), one per letter:
//!             out: h --human, b --human --brief, j --json, J --json --pretty, D --dump, d --dump --brief;
//!             cy: c --cyborg F, C --cyborg F --pretty; log: T --verbose=trace --log-file F, E --verbose=error on a missing input
//!   verbose e (no flag) | off|error|warn|info|debug|trace
//!   stdout  o pipe | u /dev/full | p pipe whose reader is gone | p<N> pipe whose reader goes away after N bytes
//!   noflags bit 0 --no-color, bit 1 --no-interactive
//!   lim     0 | N: RLIMIT_FSIZE = N bytes for the tool (SIGXFSZ ignored): every regular file fails with EFBIG after N bytes
//!   ldi     1: --use-local-debuginfo
//!   argv    (17th token, optional; lim and ldi must then be given) A<tag>:<tok>,<tok>,..  the COMPLETE argument vector of the
//!           tool, replacing the one built from the fields above; each token percent-encoded ("%_" = the empty string, "!" in
//!           place of the list = no argument at all); the placeholders @D @O @C @L @S stand for the minidump, the three sink
//!           paths and testdata/symbols.  <tag> is the generator's note for the oracle (S: spells the same command as the
//!           fields; N: a near miss of it - rejected, or taken for it; R: not a command line of the tool; H: help / version)
//! answer:
//!   lib=<R|P|O|X|?> cpu=<x86|amd64|arm64|other|-> exit=<n|sig:n|timeout> stdout=<sink> out=<sink> cy=<sink> log=<-|len> stderr=<len>
//!   pre=<out>/<cy>/<log> (length of each path's content before the run, '-' absent) kept=<-|sinks whose content is byte for
//!   byte what it was before the run> logref=<-|same|diff> (the log file equals
//!   the log of the same command on fresh paths) stale=<-|sinks that still hold pre-state marker bytes> symc=<-|a/b/c/d> (files
//!   below the tool's cache / tmp directory and the library's after the run) logc=<class> errc=<class> (what the log file / standard
//!   error hold against the line main.rs logs for the library's failure: E empty | L exactly `ERROR <name> - Error reading|processing
//!   dump: <err>` | L+ other lines, then that line | 1 one other `ERROR ..` line | C one `Error: ..` line | U clap's `error: ..` | ?) exp=<list>
//!   dst=<-|name=c,..> (--dump cases: what get_stream::<T>() / get_raw_stream answer per stream kind: 0 Ok | 1 StreamNotFound | 2 another
//!   error) dseq=<-|parts> (the tool's primary output cut into the texts of the library's individual printers, called one by one
//!   in-process: H header | S:<T> T::print | L the fixed text | R:<name> a raw stream | ?<n> n bytes that are no printer's text)
//!   sink = '-' (file absent) | n/a | <len>:<hash>:<names of the in-process renderings it equals, '+'-joined | none>
//!          a name followed by '<' means: a proper non-empty prefix of that rendering; followed by '>': that whole rendering
//!          and then further bytes; preceded by '>': further bytes and then that whole rendering
//!   renderings: H0 H1 HB0 HB1 J0 J1 JP0 JP1 (suffix = recover_function_args) D DB
use minidump::*;
use minidump_processor::ProcessorOptions;
use minidump_unwind::{http_symbol_supplier, simple_symbol_supplier, MultiSymbolProvider, Symbolizer};
use minidump_synth as synth;
use std::collections::HashMap;
use std::io::{Read, Write};
use std::ops::Deref;
use std::os::unix::io::FromRawFd;
use std::os::unix::process::CommandExt;
use std::sync::atomic::{AtomicBool, Ordering};
use std::sync::Arc;
use std::path::{Path, PathBuf};
use std::process::{Command, Stdio};
use std::time::{Duration, Instant};
use test_assembler::{Endian, Section};
use vharness::*;

fn testdata() -> PathBuf {
    PathBuf::from(std::env::args().nth(2).unwrap_or_else(|| "/repo".to_string())).join("testdata")
}

fn fnv(b: &[u8]) -> String {
    let mut h: u64 = 0xcbf29ce484222325;
    for &x in b {
        h ^= x as u64;
        h = h.wrapping_mul(0x100000001b3);
    }
    format!("{:08x}", (h ^ (h >> 32)) as u32)
}

struct Rng(u64);
impl Rng {
    fn next(&mut self) -> u64 {
        let mut x = self.0;
        x ^= x >> 12;
        x ^= x << 25;
        x ^= x >> 27;
        self.0 = x;
        x.wrapping_mul(0x2545F4914F6CDD1D)
    }
}

/// Copy of minidump-stackwalk/src/main.rs print_minidump_dump: the same public printers in the same order.
fn print_minidump_dump<'a, T, W>(dump: &Minidump<'a, T>, output: &mut W, brief: bool) -> std::io::Result<()>
where
    T: Deref<Target = [u8]> + 'a,
    W: Write,
{
    dump.print(output)?;
    let system_info = dump.get_stream::<MinidumpSystemInfo>().ok();
    let mut memory_list = dump.get_stream::<MinidumpMemoryList<'_>>().ok();
    let mut memory64_list = dump.get_stream::<MinidumpMemory64List<'_>>().ok();
    let misc_info = dump.get_stream::<MinidumpMiscInfo>().ok();
    let unified_memory = memory64_list
        .take()
        .map(UnifiedMemoryList::Memory64)
        .or_else(|| memory_list.take().map(UnifiedMemoryList::Memory));
    if let Ok(thread_list) = dump.get_stream::<MinidumpThreadList<'_>>() {
        thread_list.print(output, unified_memory.as_ref(), system_info.as_ref(), misc_info.as_ref(), brief)?;
    }
    if let Ok(module_list) = dump.get_stream::<MinidumpModuleList>() {
        module_list.print(output)?;
    }
    if let Ok(module_list) = dump.get_stream::<MinidumpUnloadedModuleList>() {
        module_list.print(output)?;
    }
    if let Ok(handles) = dump.get_stream::<MinidumpHandleDataStream>() {
        handles.print(output)?;
    }
    if let Some(memory_list) = unified_memory {
        memory_list.print(output, brief)?;
    }
    if let Some(memory_list) = memory_list {
        memory_list.print(output, brief)?;
    }
    if let Some(memory64_list) = memory64_list {
        memory64_list.print(output, brief)?;
    }
    if let Ok(memory_info_list) = dump.get_stream::<MinidumpMemoryInfoList<'_>>() {
        memory_info_list.print(output)?;
    }
    if let Ok(exception) = dump.get_stream::<MinidumpException>() {
        exception.print(output, system_info.as_ref(), misc_info.as_ref())?;
    }
    if let Ok(assertion) = dump.get_stream::<MinidumpAssertion>() {
        assertion.print(output)?;
    }
    if let Some(system_info) = system_info {
        system_info.print(output)?;
    }
    if let Some(misc_info) = misc_info {
        misc_info.print(output)?;
    }
    if let Ok(thread_names) = dump.get_stream::<MinidumpThreadNames>() {
        thread_names.print(output)?;
    }
    if let Ok(breakpad_info) = dump.get_stream::<MinidumpBreakpadInfo>() {
        breakpad_info.print(output)?;
    }
    match dump.get_stream::<MinidumpCrashpadInfo>() {
        Ok(crashpad_info) => crashpad_info.print(output)?,
        Err(Error::StreamNotFound) => (),
        Err(_) => write!(output, "MinidumpCrashpadInfo cannot print invalid data")?,
    }
    if let Ok(mac_info) = dump.get_stream::<MinidumpMacCrashInfo>() {
        mac_info.print(output)?;
    }
    if let Ok(mac_bootargs) = dump.get_stream::<MinidumpMacBootargs>() {
        mac_bootargs.print(output)?;
    }
    use minidump_common::format::MINIDUMP_STREAM_TYPE as ST;
    fn print_raw_stream<T: Write>(name: &str, contents: &[u8], out: &mut T) -> std::io::Result<()> {
        writeln!(out, "Stream {name}:")?;
        let s = contents.split(|&v| v == 0).map(String::from_utf8_lossy).collect::<Vec<_>>().join("\\0\n");
        write!(out, "{s}\n\n")
    }
    for &(stream, name) in &[
        (ST::LinuxCmdLine, "LinuxCmdLine"),
        (ST::LinuxEnviron, "LinuxEnviron"),
        (ST::LinuxLsbRelease, "LinuxLsbRelease"),
        (ST::LinuxProcStatus, "LinuxProcStatus"),
        (ST::LinuxCpuInfo, "LinuxCpuInfo"),
        (ST::LinuxMaps, "LinuxMaps"),
        (ST::MozLinuxLimits, "MozLinuxLimits"),
        (ST::MozSoftErrors, "MozSoftErrors"),
    ] {
        if let Ok(contents) = dump.get_raw_stream(stream as u32) {
            print_raw_stream(name, contents, output)?;
        }
    }
    Ok(())
}

/// The texts of the individual printers print_minidump_dump calls, each called on its own (name, status of the lookup, text):
/// what the tool's --dump output is cut into, so that WHICH printers ran in WHICH order can be compared with the model.
fn dump_parts<'a, T>(dump: &Minidump<'a, T>, brief: bool) -> Vec<(String, char, Vec<u8>)>
where
    T: Deref<Target = [u8]> + 'a,
{
    use minidump_common::format::MINIDUMP_STREAM_TYPE as ST;
    let mut parts: Vec<(String, char, Vec<u8>)> = vec![];
    let mut hdr = Vec::new();
    dump.print(&mut hdr).expect("header printer on a Vec");
    parts.push(("H".into(), 'P', hdr));
    parts.push(("L".into(), 'P', b"MinidumpCrashpadInfo cannot print invalid data".to_vec()));
    let system_info = dump.get_stream::<MinidumpSystemInfo>().ok();
    let misc_info = dump.get_stream::<MinidumpMiscInfo>().ok();
    let unified = dump
        .get_stream::<MinidumpMemory64List<'_>>()
        .ok()
        .map(UnifiedMemoryList::Memory64)
        .or_else(|| dump.get_stream::<MinidumpMemoryList<'_>>().ok().map(UnifiedMemoryList::Memory));
    macro_rules! typed {
        ($name:expr, $ty:ty, |$x:ident, $out:ident| $print:expr) => {{
            let (st, bytes) = match dump.get_stream::<$ty>() {
                Ok($x) => {
                    let mut buf: Vec<u8> = Vec::new();
                    {
                        let $out = &mut buf;
                        $print.expect("printer on a Vec");
                    }
                    ('P', buf)
                }
                Err(Error::StreamNotFound) => ('M', vec![]),
                Err(_) => ('B', vec![]),
            };
            parts.push((format!("S:{}", $name), st, bytes));
        }};
    }
    typed!("MinidumpSystemInfo", MinidumpSystemInfo, |x, o| x.print(o));
    typed!("MinidumpMemoryList", MinidumpMemoryList<'_>, |x, o| x.print(o, brief));
    typed!("MinidumpMemory64List", MinidumpMemory64List<'_>, |x, o| x.print(o, brief));
    typed!("MinidumpMiscInfo", MinidumpMiscInfo, |x, o| x.print(o));
    typed!("MinidumpThreadList", MinidumpThreadList<'_>, |x, o| x.print(o, unified.as_ref(), system_info.as_ref(), misc_info.as_ref(), brief));
    typed!("MinidumpModuleList", MinidumpModuleList, |x, o| x.print(o));
    typed!("MinidumpUnloadedModuleList", MinidumpUnloadedModuleList, |x, o| x.print(o));
    typed!("MinidumpHandleDataStream", MinidumpHandleDataStream, |x, o| x.print(o));
    typed!("MinidumpMemoryInfoList", MinidumpMemoryInfoList<'_>, |x, o| x.print(o));
    typed!("MinidumpException", MinidumpException, |x, o| x.print(o, system_info.as_ref(), misc_info.as_ref()));
    typed!("MinidumpAssertion", MinidumpAssertion, |x, o| x.print(o));
    typed!("MinidumpThreadNames", MinidumpThreadNames, |x, o| x.print(o));
    typed!("MinidumpBreakpadInfo", MinidumpBreakpadInfo, |x, o| x.print(o));
    typed!("MinidumpCrashpadInfo", MinidumpCrashpadInfo, |x, o| x.print(o));
    typed!("MinidumpMacCrashInfo", MinidumpMacCrashInfo, |x, o| x.print(o));
    typed!("MinidumpMacBootargs", MinidumpMacBootargs, |x, o| x.print(o));
    for (stream, name) in [
        (ST::LinuxCmdLine, "LinuxCmdLine"),
        (ST::LinuxEnviron, "LinuxEnviron"),
        (ST::LinuxLsbRelease, "LinuxLsbRelease"),
        (ST::LinuxProcStatus, "LinuxProcStatus"),
        (ST::LinuxCpuInfo, "LinuxCpuInfo"),
        (ST::LinuxMaps, "LinuxMaps"),
        (ST::MozLinuxLimits, "MozLinuxLimits"),
        (ST::MozSoftErrors, "MozSoftErrors"),
    ] {
        match dump.get_raw_stream(stream as u32) {
            Ok(contents) => {
                // (the text print_raw_stream writes)
                let body = contents.split(|&v| v == 0).map(String::from_utf8_lossy).collect::<Vec<_>>().join("\\0\n");
                parts.push((format!("R:{}", name), 'P', format!("Stream {}:\n{}\n\n", name, body).into_bytes()));
            }
            Err(_) => parts.push((format!("R:{}", name), 'M', vec![])),
        }
    }
    parts
}

/// (dst, dseq): the lookups' statuses and the primary output cut into the printers' texts (longest match first)
fn dump_cut(path: &Path, brief: bool, primary: &[u8]) -> (String, String) {
    let res = std::panic::catch_unwind(std::panic::AssertUnwindSafe(|| {
        let dump = match Minidump::read_path(path) {
            Ok(d) => d,
            Err(_) => return ("-".to_string(), "-".to_string()),
        };
        let parts = dump_parts(&dump, brief);
        let dst: Vec<String> = parts
            .iter()
            .filter(|(n, _, _)| n.contains(':'))
            .map(|(n, st, _)| format!("{}={}", &n[2..], match st { 'P' => 0, 'M' => 1, _ => 2 }))
            .collect();
        let mut pos = 0;
        let mut seq: Vec<String> = vec![];
        while pos < primary.len() {
            let mut best: Option<(usize, &str)> = None;
            for (n, _, b) in parts.iter() {
                if !b.is_empty() && primary[pos..].starts_with(b) && best.map_or(true, |(l, _)| b.len() > l) {
                    best = Some((b.len(), n.as_str()));
                }
            }
            match best {
                Some((l, n)) => {
                    seq.push(n.to_string());
                    pos += l;
                }
                None => {
                    seq.push(format!("?{}", primary.len() - pos));
                    break;
                }
            }
        }
        (dst.join(","), if seq.is_empty() { "0".to_string() } else { seq.join(",") })
    }));
    res.unwrap_or(("X".to_string(), "X".to_string()))
}

/// DS:<seed>: each stream kind of --dump absent / present / present but unreadable (3 bytes), drawn from the seed
fn synth_streams(seed: u64) -> Vec<u8> {
    use minidump_common::format::MINIDUMP_STREAM_TYPE as ST;
    let e = Endian::Little;
    let mut r = Rng(seed.wrapping_mul(0x9E3779B97F4A7C15) | 1);
    let mut d = synth::SynthMinidump::with_endian(e);
    let junk = |t: ST| synth::SimpleStream { stream_type: t as u32, section: Section::with_endian(e).append_repeated(0x5a, 3) };
    let context = synth::x86_context(e, 0xf00800, 0x1010);
    let stack = synth::Memory::with_section(Section::with_endian(e).append_repeated(0x41, 0x100), 0x1000);
    // 0 absent | 1 present | 2 unreadable
    let mut draw = |present_w: u64| -> u64 {
        let x = r.next() % 10;
        if x < present_w { 1 } else if x < present_w + 2 { 2 } else { 0 }
    };
    match draw(6) {
        1 => d = d.add_system_info(synth::SystemInfo::new(e)),
        2 => d = d.add_stream(junk(ST::SystemInfoStream)),
        _ => {}
    }
    match draw(5) {
        1 => d = d.add_thread(synth::Thread::new(e, 0x1234, &stack, &context)),
        2 => d = d.add_stream(junk(ST::ThreadListStream)),
        _ => {}
    }
    let name = synth::DumpString::new("c:\\app\\many.dll", e);
    let uname = synth::DumpString::new("gone.dll", e);
    let tname = synth::DumpString::new("worker", e);
    match draw(4) {
        1 => d = d.add_module(synth::Module::new(e, 0xf00000, 0x10000, &name, 0xb1054d2a, 0x34571371, None)),
        2 => d = d.add_stream(junk(ST::ModuleListStream)),
        _ => {}
    }
    match draw(3) {
        1 => d = d.add_unloaded_module(synth::UnloadedModule::new(e, 0xa00000, 0x1000, &uname, 0xb1054d2a, 0x34571371)),
        2 => d = d.add_stream(junk(ST::UnloadedModuleListStream)),
        _ => {}
    }
    let mem_choice = draw(5);
    let mem64_choice = draw(4);
    match draw(3) {
        1 => d = d.add_memory_info(synth::MemoryInfo::new(e, 0x1000, 0x1000, 4, 0x1000, 0x1000, 4, 0x20000)),
        2 => d = d.add_stream(junk(ST::MemoryInfoListStream)),
        _ => {}
    }
    match draw(3) {
        1 => {
            let mut ex = synth::Exception::new(e);
            ex.thread_id = 0x1234;
            ex.exception_record.exception_code = 0xC0000005;
            ex.exception_record.exception_address = 0xf00800;
            d = d.add_exception(ex);
        }
        2 => d = d.add_stream(junk(ST::ExceptionStream)),
        _ => {}
    }
    match draw(3) {
        1 => d = d.add_thread_name(synth::ThreadName::new(e, 0x1234, Some(&tname))),
        2 => d = d.add_stream(junk(ST::ThreadNamesStream)),
        _ => {}
    }
    match draw(3) {
        1 => d = d.add_crashpad_info(synth::CrashpadInfo::new(e).add_simple_annotation("k", "v")),
        2 => d = d.add_stream(junk(ST::CrashpadInfoStream)),
        _ => {}
    }
    match draw(3) {
        1 => d = d.add_stream(synth::MiscStream::new(e)),
        2 => d = d.add_stream(junk(ST::MiscInfoStream)),
        _ => {}
    }
    match draw(3) {
        1 => d = d.add_stream(synth::SimpleStream {
            stream_type: ST::BreakpadInfoStream as u32,
            section: Section::with_endian(e).D32(3).D32(0x1234).D32(0x1234),
        }),
        2 => d = d.add_stream(junk(ST::BreakpadInfoStream)),
        _ => {}
    }
    match draw(2) {
        1 => d = d.add_stream(synth::SimpleStream {
            stream_type: ST::AssertionInfoStream as u32,
            section: Section::with_endian(e).append_repeated(0, 776),
        }),
        2 => d = d.add_stream(junk(ST::AssertionInfoStream)),
        _ => {}
    }
    match draw(2) {
        1 => d = d.add_handle_descriptor(synth::HandleDescriptor::new(e, 0x77, None, None, 1, 2, 3, 4)),
        2 => d = d.add_stream(junk(ST::HandleDataStream)),
        _ => {}
    }
    match draw(2) {
        // a crash-info stream without records (header: stream type, record count 0, record start size, 20 empty locations)
        1 => d = d.add_stream(synth::SimpleStream {
            stream_type: ST::MozMacosCrashInfoStream as u32,
            section: Section::with_endian(e).D32(ST::MozMacosCrashInfoStream as u32).D32(0).D32(0).append_repeated(0, 160),
        }),
        2 => d = d.add_stream(junk(ST::MozMacosCrashInfoStream)),
        _ => {}
    }
    match draw(2) {
        // boot args whose string location is not a string (printed as empty)
        1 => d = d.add_stream(synth::SimpleStream {
            stream_type: ST::MozMacosBootargsStream as u32,
            section: Section::with_endian(e).D32(ST::MozMacosBootargsStream as u32).D64(0),
        }),
        2 => d = d.add_stream(junk(ST::MozMacosBootargsStream)),
        _ => {}
    }
    if draw(3) == 1 {
        d = d.add_stream(synth::SimpleStream {
            stream_type: ST::LinuxCmdLine as u32,
            section: Section::with_endian(e).append_bytes(b"/bin/app\0--flag\0"),
        });
    }
    if draw(3) == 1 {
        d = d.set_linux_environ(b"A=1\0B=2\0");
    }
    if draw(2) == 1 {
        d = d.set_linux_lsb_release(b"DISTRIB_ID=\"hello\"\n");
    }
    if draw(2) == 1 {
        d = d.set_linux_proc_status(b"Name:\tapp\nPid:\t77\n");
    }
    if draw(2) == 1 {
        d = d.set_linux_cpu_info(b"processor : 0\n\n");
    }
    if draw(2) == 1 {
        d = d.set_linux_maps(b"00400000-00401000 r-xp 00000000 00:00 1 /bin/app\n");
    }
    if draw(2) == 1 {
        d = d.set_linux_proc_limits(b"Limit  Soft Limit  Hard Limit  Units\nMax cpu time  unlimited  unlimited  seconds\n");
    }
    if draw(2) == 1 {
        d = d.set_soft_errors("[{\"a\":1}]");
    }
    // the two memory lists last (the stack must be cited by a list to be part of the file)
    let far = synth::Memory::with_section(Section::with_endian(e).append_repeated(0x64, 0x180), 0x7000_0000_1000);
    match mem_choice {
        1 => d = d.add_memory(stack),
        2 => d = d.add(stack).add_stream(junk(ST::MemoryListStream)),
        _ => d = d.add(stack),
    }
    match mem64_choice {
        1 => d = d.add_memory64(far),
        2 => d = d.add_stream(junk(ST::Memory64ListStream)),
        _ => {}
    }
    d.add(context).add(name).add(uname).add(tname).finish().expect("synth")
}

// ---------------------------------------------------------------------------------- inputs
fn synth_dump(k: u64) -> Vec<u8> {
    let e = Endian::Little;
    let context = synth::x86_context(e, 0xf00800, 0x1010);
    let stack = synth::Memory::with_section(Section::with_endian(e).append_repeated(0x41, 0x100), 0x1000);
    let thread = synth::Thread::new(e, 0x1234, &stack, &context);
    let system_info = synth::SystemInfo::new(e);
    let base = || {
        synth::SynthMinidump::with_endian(e)
    };
    let d = match k {
        // minimal: thread + system info + stack memory (dump != brief dump)
        0 => base().add_thread(thread).add_system_info(system_info).add(context).add_memory(stack),
        // no system info: processing fails, raw dump works
        1 => base().add_thread(thread).add(context).add_memory(stack),
        // no thread list: processing fails
        2 => base().add_system_info(system_info),
        // header only
        3 => base(),
        // exception + module + unloaded module + thread name + memory info
        4 => {
            let name = synth::DumpString::new("c:\\app\\many.dll", e);
            let uname = synth::DumpString::new("gone.dll", e);
            let tname = synth::DumpString::new("worker", e);
            let module = synth::Module::new(e, 0xf00000, 0x10000, &name, 0xb1054d2a, 0x34571371, None);
            let unloaded = synth::UnloadedModule::new(e, 0xa00000, 0x1000, &uname, 0xb1054d2a, 0x34571371);
            let mut ex = synth::Exception::new(e);
            ex.thread_id = 0x1234;
            ex.exception_record.exception_code = 0xC0000005;
            ex.exception_record.exception_address = 0xf00800;
            ex.exception_record.number_parameters = 2;
            ex.exception_record.exception_information[0] = 1;
            ex.exception_record.exception_information[1] = 0x45;
            base()
                .add_thread(thread)
                .add_system_info(system_info.set_platform_id(2))
                .add_exception(ex)
                .add_module(module)
                .add_unloaded_module(unloaded)
                .add_thread_name(synth::ThreadName::new(e, 0x1234, Some(&tname)))
                .add_memory_info(synth::MemoryInfo::new(e, 0x1000, 0x1000, 4, 0x1000, 0x1000, 4, 0x20000))
                .add(name)
                .add(uname)
                .add(tname)
                .add(context)
                .add_memory(stack)
        }
        // linux: amd64 + the raw procfs streams + soft errors
        5 => {
            let context = synth::amd64_context(e, 0x400800, 0x7ffc0000);
            let stack = synth::Memory::with_section(Section::with_endian(e).append_repeated(0, 0x200), 0x7ffc0000);
            let thread = synth::Thread::new(e, 77, &stack, &context);
            base()
                .add_thread(thread)
                .add_system_info(system_info.set_processor_architecture(9).set_platform_id(0x8201))
                .set_linux_maps(b"00400000-00401000 r-xp 00000000 00:00 1 /bin/app\n7ffc0000-7ffc1000 rw-p 00000000 00:00 0 [stack]\n")
                .set_linux_lsb_release(b"DISTRIB_ID=\"hello\"\nDISTRIB_RELEASE=\"1\"\n")
                .set_linux_proc_status(b"Name:\tapp\nPid:\t77\n")
                .set_linux_cpu_info(b"processor : 0\nmodel name : x\n\n")
                .set_linux_environ(b"A=1\0B=2\0")
                .set_soft_errors("[{\"a\":1}]")
                .add(context)
                .add_memory(stack)
        }
        // BOTH a MemoryList and a Memory64List: --dump prints the 64-bit list as the unified one and then the plain list
        7 => {
            let far = synth::Memory::with_section(Section::with_endian(e).append_repeated(0x64, 0x180), 0x7000_0000_1000);
            let near = synth::Memory::with_section(Section::with_endian(e).append_repeated(0x32, 0x60), 0x2000);
            base().add_thread(thread).add_system_info(system_info).add(context).add_memory(stack).add_memory(near).add_memory64(far)
        }
        // arm64 + crashpad info + handle
        _ => {
            let context = synth::arm64_context(e, 0x400800, 0x10000);
            let stack = synth::Memory::with_section(Section::with_endian(e).append_repeated(7, 0x80), 0x10000);
            let thread = synth::Thread::new(e, 5, &stack, &context);
            let crashpad = synth::CrashpadInfo::new(e).add_simple_annotation("k", "v");
            base()
                .add_thread(thread)
                .add_system_info(system_info.set_processor_architecture(0x8003).set_platform_id(0x8101))
                .add_crashpad_info(crashpad)
                .add(context)
                .add_memory(stack)
        }
    };
    d.finish().expect("synth")
}

fn input_bytes(spec: &str) -> Option<Vec<u8>> {
    let parts: Vec<&str> = spec.split(':').collect();
    let read = |n: &str| std::fs::read(testdata().join(n)).expect("testdata file");
    match parts[0] {
        "F" => Some(read(parts[1])),
        "M" | "MS" => {
            let mut b = if parts[0] == "M" { read(parts[1]) } else { synth_dump(parts[1].parse().unwrap()) };
            let mut r = Rng(parts[2].parse::<u64>().unwrap().wrapping_mul(0x9E3779B97F4A7C15) | 1);
            let n: usize = parts[3].parse().unwrap();
            for _ in 0..n {
                if b.is_empty() {
                    break;
                }
                // most mutations land in the header, the directory and the stream headers
                let pos = if r.next() % 3 == 0 { (r.next() as usize) % b.len() } else { (r.next() as usize) % b.len().min(2048) };
                b[pos] = match r.next() % 4 {
                    0 => 0,
                    1 => 0xff,
                    2 => b[pos] ^ (1 << (r.next() % 8)),
                    _ => r.next() as u8,
                };
            }
            Some(b)
        }
        "T" => {
            let b = read(parts[1]);
            let l: usize = parts[2].parse().unwrap();
            Some(b[..l.min(b.len())].to_vec())
        }
        "S" => Some(synth_dump(parts[1].parse().unwrap())),
        "DS" => Some(synth_streams(parts[1].parse().unwrap())),
        "X" => match parts[1] {
            "empty" => Some(vec![]),
            "text" => Some(b"this is not a minidump\n".to_vec()),
            _ => None,
        },
        x => panic!("input kind {}", x),
    }
}

// ---------------------------------------------------------------------------------- in-process library
#[derive(Clone, Default)]
struct LibOut {
    class: String,                       // R read error, P process error, O ok, X panic
    cpu: String,                         // x86 | amd64 | arm64 | other | - (no system info)
    renderings: Vec<(String, Vec<u8>)>,  // name -> bytes
    diag: String,                        // the message main.rs logs for this library failure ("" if none): `<name> - Error reading|processing dump: <err>`
}

/// where the in-process run takes symbols from (mirrors main.rs: URLs => http supplier, else paths => simple supplier)
#[derive(Clone)]
struct SymSrc {
    dirs: Vec<PathBuf>,
    urls: Vec<String>,
    cache: PathBuf,
    tmp: PathBuf,
    timeout: u64, // seconds: what --symbols-download-timeout-secs says (default 1000)
}

fn lib_run(path: &Path, sym: &SymSrc, feat: u64, rfa_flag: bool, evil: bool) -> LibOut {
    let sym_dirs = &sym.dirs;
    let mut out = LibOut::default();
    let dump = match Minidump::read_path(path) {
        Ok(d) => d,
        Err(e) => {
            out.class = "R".into();
            out.diag = format!("{} - Error reading dump: {}", e.name(), e);
            return out;
        }
    };
    out.cpu = match dump.get_stream::<MinidumpSystemInfo>() {
        Ok(si) => match si.cpu {
            minidump::system_info::Cpu::X86 => "x86",
            minidump::system_info::Cpu::X86_64 => "amd64",
            minidump::system_info::Cpu::Arm64 => "arm64",
            _ => "other",
        },
        Err(_) => "-",
    }
    .to_string();
    for (name, brief) in [("D", false), ("DB", true)] {
        let mut v = Vec::new();
        print_minidump_dump(&dump, &mut v, brief).expect("dump printer on a Vec");
        out.renderings.push((name.into(), v));
    }
    let rt = tokio::runtime::Builder::new_current_thread().enable_all().build().unwrap();
    out.class = "O".into();
    let evil_path = testdata().join("evil.json");
    for rec in [false, true] {
        // the documented option table: the preset named by --features, overloaded by the explicit flags
        let mut options = match feat {
            1 => ProcessorOptions::stable_all(),
            2 => ProcessorOptions::unstable_all(),
            _ => ProcessorOptions::stable_basic(),
        };
        let _ = rfa_flag;
        options.recover_function_args = rec;
        if evil {
            options.evil_json = Some(&evil_path);
        }
        let mut provider = MultiSymbolProvider::new();
        if !sym.urls.is_empty() {
            // a private cache per processing run, like the fresh one the tool gets for every case
            let sub = if rec { "1" } else { "0" };
            provider.add(Box::new(Symbolizer::new(http_symbol_supplier(
                sym_dirs.to_vec(),
                sym.urls.clone(),
                sym.cache.join(sub),
                sym.tmp.clone(),
                Duration::from_secs(sym.timeout),
            ))));
        } else if !sym_dirs.is_empty() {
            provider.add(Box::new(Symbolizer::new(simple_symbol_supplier(sym_dirs.to_vec()))));
        }
        match rt.block_on(minidump_processor::process_minidump_with_options(&dump, &provider, options)) {
            Ok(state) => {
                let s = if rec { "1" } else { "0" };
                let mut v = Vec::new();
                state.print(&mut v).expect("print");
                out.renderings.push((format!("H{}", s), v));
                let mut v = Vec::new();
                state.print_brief(&mut v).expect("print_brief");
                out.renderings.push((format!("HB{}", s), v));
                let mut v = Vec::new();
                state.print_json(&mut v, false).expect("print_json");
                out.renderings.push((format!("J{}", s), v));
                let mut v = Vec::new();
                state.print_json(&mut v, true).expect("print_json pretty");
                out.renderings.push((format!("JP{}", s), v));
            }
            Err(e) => {
                out.class = "P".into();
                out.diag = format!("{} - Error processing dump: {}", e.name(), e);
                break;
            }
        }
    }
    out
}

// ---------------------------------------------------------------------------------- the tool
struct ToolOut {
    exit: String,
    stdout: Option<Vec<u8>>,
    stderr: Vec<u8>,
    fifo_bytes: Option<Vec<u8>>,
}

struct Sinks<'a> {
    stdout_cls: &'a str,
    fifo: Option<(PathBuf, usize)>, // --output-file is a FIFO whose reader leaves after N bytes
    lim: u64,
    as_nobody: bool,
}

fn run_tool(tool: &str, args: &[String], cwd: &Path, sk: &Sinks) -> ToolOut {
    let mut cmd = Command::new(tool);
    cmd.args(args).current_dir(cwd).stdin(Stdio::null()).stderr(Stdio::piped());
    cmd.env("TMPDIR", cwd).env_remove("RUST_BACKTRACE").env_remove("RUST_LOG").env_remove("NO_COLOR");
    let mut pipe_after: Option<usize> = None;
    match sk.stdout_cls {
        "u" => {
            cmd.stdout(std::fs::OpenOptions::new().write(true).open("/dev/full").expect("/dev/full"));
        }
        "p" => unsafe {
            let mut fds = [0i32; 2];
            assert_eq!(libc::pipe2(fds.as_mut_ptr(), libc::O_CLOEXEC), 0);
            libc::close(fds[0]);
            cmd.stdout(Stdio::from_raw_fd(fds[1]));
        },
        x if x.starts_with('p') => {
            pipe_after = Some(x[1..].parse().expect("p<N>"));
            cmd.stdout(Stdio::piped());
        }
        _ => {
            cmd.stdout(Stdio::piped());
        }
    }
    let lim = sk.lim;
    let as_nobody = sk.as_nobody;
    if lim > 0 || as_nobody {
        unsafe {
            cmd.pre_exec(move || {
                if lim > 0 {
                    let rl = libc::rlimit { rlim_cur: lim, rlim_max: lim };
                    libc::setrlimit(libc::RLIMIT_FSIZE, &rl);
                    libc::signal(libc::SIGXFSZ, libc::SIG_IGN);
                }
                Ok(())
            });
        }
        if as_nobody {
            cmd.uid(65534).gid(65534);
        }
    }
    // FIFO reader: opened before the tool starts (non-blocking), leaves after N bytes or when the tool is gone
    let done = Arc::new(AtomicBool::new(false));
    let fifo_thread = sk.fifo.clone().map(|(path, n)| {
        let c = std::ffi::CString::new(path.to_str().unwrap()).unwrap();
        unsafe {
            libc::mkfifo(c.as_ptr(), 0o666);
            libc::chmod(c.as_ptr(), 0o666);
        }
        let fd = unsafe { libc::open(c.as_ptr(), libc::O_RDONLY | libc::O_NONBLOCK | libc::O_CLOEXEC) };
        assert!(fd >= 0, "open fifo");
        let done = done.clone();
        std::thread::spawn(move || {
            let mut got: Vec<u8> = Vec::new();
            let mut buf = [0u8; 4096];
            let mut idle_after_done = 0;
            loop {
                let want = (n - got.len()).min(buf.len());
                let r = unsafe { libc::read(fd, buf.as_mut_ptr() as *mut libc::c_void, want) };
                if r > 0 {
                    got.extend_from_slice(&buf[..r as usize]);
                    if got.len() >= n {
                        break;
                    }
                } else {
                    if done.load(Ordering::SeqCst) {
                        idle_after_done += 1;
                        if idle_after_done > 2 {
                            break;
                        }
                    }
                    std::thread::sleep(Duration::from_millis(1));
                }
            }
            unsafe { libc::close(fd) };
            got
        })
    });
    let mut child = cmd.spawn().expect("spawn minidump-stackwalk");
    let so = child.stdout.take();
    let se = child.stderr.take().unwrap();
    let t_out = std::thread::spawn(move || {
        so.map(|mut s| {
            let mut v = Vec::new();
            match pipe_after {
                None => {
                    let _ = s.read_to_end(&mut v);
                }
                Some(n) => {
                    let mut buf = [0u8; 4096];
                    while v.len() < n {
                        let want = (n - v.len()).min(buf.len());
                        match s.read(&mut buf[..want]) {
                            Ok(0) | Err(_) => break,
                            Ok(k) => v.extend_from_slice(&buf[..k]),
                        }
                    }
                    drop(s); // the reader goes away
                }
            }
            v
        })
    });
    let t_err = std::thread::spawn(move || {
        let mut v = Vec::new();
        let mut se = se;
        let _ = se.read_to_end(&mut v);
        v
    });
    let start = Instant::now();
    let status = loop {
        match child.try_wait().expect("wait") {
            Some(s) => break Some(s),
            None => {
                if start.elapsed() > Duration::from_secs(20) {
                    let _ = child.kill();
                    let _ = child.wait();
                    break None;
                }
                std::thread::sleep(Duration::from_millis(2));
            }
        }
    };
    done.store(true, Ordering::SeqCst);
    let stdout = t_out.join().unwrap();
    let stderr = t_err.join().unwrap();
    let fifo_bytes = fifo_thread.map(|t| t.join().unwrap());
    let exit = match status {
        None => "timeout".to_string(),
        Some(s) => {
            use std::os::unix::process::ExitStatusExt;
            match (s.code(), s.signal()) {
                (Some(c), _) => c.to_string(),
                (None, Some(sig)) => format!("sig:{}", sig),
                _ => "?".into(),
            }
        }
    };
    ToolOut { exit, stdout, stderr, fifo_bytes }
}

// ---------------------------------------------------------------------------------- loopback symbol server
/// GET /ok/<path> -> testdata/symbols/<path> (404 if absent); /nf/.. -> 404; /gb/.. -> 200 with a body that is no symbol file
fn start_symbol_server(alt_root: PathBuf) -> u16 {
    let mut tries = 0;
    let listener = loop {
        match std::net::TcpListener::bind("127.0.0.1:0") {
            Ok(l) => break l,
            Err(e) => {
                tries += 1;
                if tries > 50 {
                    panic!("cannot bind a loopback port: {}", e);
                }
                std::thread::sleep(Duration::from_millis(100));
            }
        }
    };
    let port = listener.local_addr().unwrap().port();
    let root = testdata().join("symbols");
    std::thread::spawn(move || {
        for conn in listener.incoming() {
            let mut conn = match conn {
                Ok(c) => c,
                Err(_) => continue,
            };
            let root = root.clone();
            let alt_root = alt_root.clone();
            std::thread::spawn(move || {
                let _ = conn.set_read_timeout(Some(Duration::from_secs(5)));
                let mut req = Vec::new();
                let mut buf = [0u8; 2048];
                while !req.windows(4).any(|w| w == b"\r\n\r\n") && req.len() < 65536 {
                    match conn.read(&mut buf) {
                        Ok(0) | Err(_) => break,
                        Ok(k) => req.extend_from_slice(&buf[..k]),
                    }
                }
                let line = String::from_utf8_lossy(&req).lines().next().unwrap_or("").to_string();
                let path = line.split(' ').nth(1).unwrap_or("/").split('?').next().unwrap_or("/").to_string();
                // /slow/ and /wait/: the symbol file of test_app is served like /ok/ but only after 1.5 s / 8 s (every other
                // file: 404 at once) - a download that the default timeout of 1000 s must wait for, and one that
                // `--symbols-download-timeout-secs 1` must give up on
                let mut path = path;
                for (prefix, ms) in [("/slow/", 1500u64), ("/wait/", 8000u64)] {
                    if let Some(rest) = path.strip_prefix(prefix) {
                        if rest.ends_with("test_app.sym") {
                            std::thread::sleep(Duration::from_millis(ms));
                            path = format!("/ok/{}", rest);
                        } else {
                            path = format!("/nf/{}", rest);
                        }
                        break;
                    }
                }
                let served = path.strip_prefix("/ok/").map(|r| (r, &root)).or_else(|| path.strip_prefix("/alt/").map(|r| (r, &alt_root)));
                let (code, body): (u32, Vec<u8>) = if let Some((rest, root)) = served {
                    let rest = rest.replace("%2F", "/");
                    if rest.contains("..") {
                        (404, b"no".to_vec())
                    } else {
                        match std::fs::read(root.join(rest)) {
                            Ok(b) => (200, b),
                            Err(_) => (404, b"not found".to_vec()),
                        }
                    }
                } else if path.starts_with("/gb/") {
                    (200, b"<html>this is not a symbol file</html>\n\x00\xff\xfe garbage\n".to_vec())
                } else {
                    (404, b"not found".to_vec())
                };
                let head = format!(
                    "HTTP/1.1 {} {}\r\nContent-Length: {}\r\nContent-Type: application/octet-stream\r\nConnection: close\r\n\r\n",
                    code,
                    if code == 200 { "OK" } else { "Not Found" },
                    body.len()
                );
                let _ = conn.write_all(head.as_bytes());
                let _ = conn.write_all(&body);
                let _ = conn.flush();
            });
        }
    });
    port
}

struct State {
    tool: String,
    tmp: tempfile::TempDir,
    symargs: PathBuf,
    symroots: PathBuf,
    port: u16,
    cache: HashMap<String, LibOut>,
    inputs: HashMap<String, PathBuf>,
    n: u64,
}

fn make_symargs(dir: &Path) -> PathBuf {
    // testdata/symbols with argument lists added to two function names of test_app.sym, so that
    // recover_function_args changes the report for testdata/test.dmp
    let root = dir.join("symargs");
    let rel = "test_app.pdb/5A9832E5287241C1838ED98914E9B7FF1";
    std::fs::create_dir_all(root.join(rel)).unwrap();
    let src = std::fs::read_to_string(testdata().join("symbols").join(rel).join("test_app.sym")).unwrap();
    let mut out = String::with_capacity(src.len() + 64);
    for line in src.lines() {
        if line.starts_with("FUNC ") && line.ends_with(" main") {
            out.push_str(line);
            out.push_str("(int, char**)");
        } else if line.starts_with("FUNC ") && line.ends_with("::CrashFunction") {
            out.push_str(line);
            out.push_str("(int)");
        } else {
            out.push_str(line);
        }
        out.push('\n');
    }
    std::fs::write(root.join(rel).join("test_app.sym"), out).unwrap();
    root
}

/// Symbol roots that all describe test_app.pdb of testdata/test.dmp but DIFFERENTLY (every function name carries the
/// root's suffix), so that the report tells which root the symbols were taken from.  Their names sort as
/// alpha < empty < file.sym < mid < nonexistent < zeta.
fn make_symroots(dir: &Path) -> PathBuf {
    let root = dir.join("symroots");
    let rel = "test_app.pdb/5A9832E5287241C1838ED98914E9B7FF1";
    let src = std::fs::read_to_string(testdata().join("symbols").join(rel).join("test_app.sym")).unwrap();
    let variant = |suffix: &str| -> String {
        let mut out = String::with_capacity(src.len() + 4096);
        for line in src.lines() {
            out.push_str(line);
            if line.starts_with("FUNC ") || line.starts_with("PUBLIC ") {
                out.push_str(suffix);
            }
            out.push('\n');
        }
        out
    };
    for (name, suffix) in [("alpha", "_a"), ("mid", "_m"), ("zeta", "_z")] {
        std::fs::create_dir_all(root.join(name).join(rel)).unwrap();
        std::fs::write(root.join(name).join(rel).join("test_app.sym"), variant(suffix)).unwrap();
    }
    std::fs::create_dir_all(root.join("empty")).unwrap();
    std::fs::write(root.join("file.sym"), variant("_f")).unwrap();
    root
}

#[allow(clippy::too_many_arguments)]
fn lib_get(st: &mut State, input: &str, in_path: &Path, src: &SymSrc, feat: u64, rfa: bool, evil: bool, cacheable: bool) -> LibOut {
    let key = format!("{} {:?} {:?} {} {}", input, src.dirs, src.urls, feat, evil);
    if cacheable {
        if let Some(l) = st.cache.get(&key) {
            return l.clone();
        }
    }
    let l = match std::panic::catch_unwind(std::panic::AssertUnwindSafe(|| lib_run(in_path, src, feat, rfa, evil))) {
        Ok(l) => l,
        Err(_) => LibOut { class: "X".into(), cpu: "-".into(), renderings: vec![], diag: String::new() },
    };
    if st.cache.len() > 64 {
        st.cache.clear();
    }
    if cacheable {
        st.cache.insert(key, l.clone());
    }
    l
}

fn has_pre_cls(cls: &str) -> bool {
    (cls.starts_with('x') && cls != "xL") || cls.starts_with('q')
}

fn sink_desc(bytes: &[u8], lib: &LibOut) -> String {
    let mut names: Vec<String> = lib.renderings.iter().filter(|(_, b)| b.as_slice() == bytes).map(|(n, _)| n.clone()).collect();
    if names.is_empty() && !bytes.is_empty() {
        names = lib
            .renderings
            .iter()
            .filter(|(_, b)| b.len() > bytes.len() && &b[..bytes.len()] == bytes)
            .map(|(n, _)| format!("{}<", n))
            .collect();
    }
    if names.is_empty() && !bytes.is_empty() {
        // a whole rendering followed (X>) or preceded (>X) by bytes that do not belong to it: what a sink that is not
        // truncated / is appended to holds after the run
        for (n, b) in lib.renderings.iter() {
            if !b.is_empty() && b.len() < bytes.len() {
                if &bytes[..b.len()] == b.as_slice() {
                    names.push(format!("{}>", n));
                } else if &bytes[bytes.len() - b.len()..] == b.as_slice() {
                    names.push(format!(">{}", n));
                }
            }
        }
    }
    if names.is_empty() {
        names.push("none".into());
    }
    format!("{}:{}:{}", bytes.len(), fnv(bytes), names.join("+"))
}

/// what a diagnostic channel (standard error, the --log-file) holds, against the line main.rs logs for the library's failure:
/// E empty | L exactly `ERROR <that message>` | L+ further lines and then that line | 1 one other `ERROR ..` line (main's own
/// rejections) | C one `Error: ..` line (main's io error) | U clap's `error: ..` usage message | ? anything else
fn diag_class(bytes: &[u8], lib: &LibOut) -> &'static str {
    let mut text = String::new();
    let raw = String::from_utf8_lossy(bytes);
    let mut it = raw.chars().peekable();
    while let Some(ch) = it.next() {
        if ch == '\u{1b}' && it.peek() == Some(&'[') {
            for c2 in it.by_ref() {
                if c2.is_ascii_alphabetic() {
                    break;
                }
            }
        } else {
            text.push(ch);
        }
    }
    if text.is_empty() {
        return "E";
    }
    let want = format!("ERROR {}\n", lib.diag);
    if !lib.diag.is_empty() && text == want {
        return "L";
    }
    if !lib.diag.is_empty() && text.ends_with(&want) {
        return "L+";
    }
    let one_line = text.ends_with('\n') && text.matches('\n').count() == 1;
    if one_line && text.starts_with("ERROR ") {
        return "1";
    }
    if one_line && text.starts_with("Error: ") {
        return "C";
    }
    if text.starts_with("error: ") {
        return "U";
    }
    "?"
}

fn file_desc(cls: &str, p: &Path, lib: &LibOut) -> String {
    match cls {
        "-" => "-".into(),
        "u" | "d" | "r" | "xL" => "n/a".into(),
        _ => match std::fs::read(p) {
            Ok(b) => sink_desc(&b, lib),
            Err(_) => "-".into(),
        },
    }
}

fn run(st: &mut State, line: &str) -> String {
    let mut t = Toks::new(line);
    let input = t.str();
    let sym = t.str();
    let modes = t.str();
    let brief = t.u64() == 1;
    let pretty = t.u64() == 1;
    let feat = t.u64();
    let rfa = t.u64() == 1;
    let out_cls = t.str();
    let cy_cls = t.str();
    let log_cls = t.str();
    let verbose = t.str();
    let stdout_cls = t.str();
    let evil = t.u64() == 1;
    let noflags = t.u64();
    let lim: u64 = t.opt().map(|x| x.parse().expect("lim")).unwrap_or(0);
    let ldi = t.opt().map(|x| x == "1").unwrap_or(false);
    let raw_argv: Option<Vec<String>> = t.opt().filter(|x| x.starts_with('A')).map(|x| {
        let body = &x[x.find(':').expect("A<tag>:") + 1..];
        if body == "!" {
            return vec![];
        }
        body.split(',')
            .map(|tok| {
                if tok == "%_" {
                    return String::new();
                }
                let b = tok.as_bytes();
                let mut out: Vec<u8> = vec![];
                let mut i = 0;
                while i < b.len() {
                    if b[i] == b'%' && i + 2 < b.len() {
                        out.push(u8::from_str_radix(&tok[i + 1..i + 3], 16).expect("percent escape"));
                        i += 3;
                    } else {
                        out.push(b[i]);
                        i += 1;
                    }
                }
                String::from_utf8(out).expect("utf-8 argv token")
            })
            .collect()
    });
    st.n += 1;
    let tmp = st.tmp.path().to_path_buf();

    // the input file
    let in_path = match st.inputs.get(input) {
        Some(p) => p.clone(),
        None => {
            let p = tmp.join(format!("in{}.dmp", st.inputs.len()));
            match input_bytes(input) {
                Some(b) => std::fs::write(&p, b).unwrap(),
                None => {
                    if input == "X:dir" {
                        std::fs::create_dir_all(&p).unwrap();
                    } // X:missing: nothing
                }
            }
            st.inputs.insert(input.to_string(), p.clone());
            p
        }
    };

    // paths
    let casedir = tmp.join(format!("c{}", st.n));
    std::fs::create_dir_all(&casedir).unwrap();
    let root = unsafe { libc::geteuid() } == 0;
    let as_nobody = root && [out_cls, cy_cls, log_cls].contains(&"r");
    if as_nobody {
        use std::os::unix::fs::PermissionsExt;
        std::fs::set_permissions(&casedir, std::fs::Permissions::from_mode(0o777)).unwrap();
    }
    let mk = |cls: &str, name: &str| -> PathBuf {
        match cls {
            "b" => casedir.join("missing-dir").join(name),
            "u" => PathBuf::from("/dev/full"),
            "d" => {
                let p = casedir.join(format!("{}.d", name));
                std::fs::create_dir_all(&p).unwrap();
                p
            }
            "r" => {
                use std::os::unix::fs::PermissionsExt;
                let p = casedir.join(format!("{}.ro", name));
                std::fs::write(&p, b"old").unwrap();
                std::fs::set_permissions(&p, std::fs::Permissions::from_mode(0o444)).unwrap();
                p
            }
            _ => casedir.join(name),
        }
    };
    let fifo = if out_cls.starts_with('f') { Some((casedir.join("out.txt"), out_cls[1..].parse::<usize>().expect("f<N>").max(1))) } else { None };
    let out_path = mk(out_cls, "out.txt");
    let cy_path = mk(cy_cls, "cyborg.json");
    let log_path = mk(log_cls, "log.txt");
    let symbols = testdata().join("symbols");
    let s = |p: &Path| p.to_str().unwrap().to_string();

    // ---- symbol sources: arguments in front of / behind the minidump, and what the library is given in-process
    let mut pre_args: Vec<String> = vec![];
    let mut post_args: Vec<String> = vec![];
    let mut src = SymSrc { dirs: vec![], urls: vec![], cache: casedir.join("lib-cache"), tmp: casedir.join("lib-tmp"), timeout: 1000 };
    let mut variants: Vec<(String, Vec<PathBuf>)> = vec![]; // further in-process runs: (suffix, roots)
    let mut tool_cache_tmp: Option<(PathBuf, Option<PathBuf>)> = None;
    let mut url_of = |st: &mut State, mode: &str| -> String {
        if st.port == 0 {
            st.port = start_symbol_server(st.symargs.clone()); // started on first use
        }
        format!("http://127.0.0.1:{}/{}/", st.port, mode)
    };
    if let Some(rest) = sym.strip_prefix('U') {
        let mode = match (&rest[..1], &rest[1..]) {
            ("2", "s") => "slow",
            ("2", "w") => "wait",
            ("2", _) => "ok",
            ("4", _) => "nf",
            _ => "gb",
        };
        if &rest[1..] == "w" {
            pre_args.push("--symbols-download-timeout-secs".into());
            pre_args.push("1".into());
            src.timeout = 1;
        }
        let url = url_of(st, mode);
        pre_args.push("--symbols-url".into());
        pre_args.push(url.clone());
        src.urls.push(url);
        // unusable = a path below a regular file
        std::fs::write(casedir.join("plain-file"), b"x").unwrap();
        let bad = casedir.join("plain-file").join("sub");
        if &rest[1..] == "d" {
            // no --symbols-cache / --symbols-tmp: the documented defaults, $TMPDIR/rust-minidump-cache and $TMPDIR
            for d in [&src.cache, &src.tmp] {
                let _ = std::fs::create_dir_all(d);
            }
            tool_cache_tmp = Some((casedir.join("rust-minidump-cache"), None));
        } else {
            let (tc, tt, lc, lt) = match &rest[1..] {
                "c" => (bad.clone(), casedir.join("tool-tmp"), bad.clone(), casedir.join("lib-tmp")),
                "t" => (casedir.join("tool-cache"), bad.clone(), casedir.join("lib-cache"), bad.clone()),
                _ => (casedir.join("tool-cache"), casedir.join("tool-tmp"), casedir.join("lib-cache"), casedir.join("lib-tmp")),
            };
            for d in [&tc, &tt, &lc, &lt] {
                let _ = std::fs::create_dir_all(d);
            }
            pre_args.push("--symbols-cache".into());
            pre_args.push(s(&tc));
            pre_args.push("--symbols-tmp".into());
            pre_args.push(s(&tt));
            tool_cache_tmp = Some((tc, Some(tt)));
            src.cache = lc;
            src.tmp = lt;
        }
    } else if let Some(items) = sym.strip_prefix('M') {
        let mut after = false;
        let mut flags: Vec<PathBuf> = vec![];
        let mut positionals: Vec<PathBuf> = vec![];
        let mut letters: Vec<(char, PathBuf)> = vec![];
        for ch in items.chars() {
            if ch == '.' {
                after = true;
                continue;
            }
            if let Some(d) = ch.to_digit(10) {
                let url = url_of(st, match d { 2 => "ok", 4 => "nf", 6 => "gb", _ => "alt" });
                let tgt = if after { &mut post_args } else { &mut pre_args };
                tgt.push("--symbols-url".into());
                tgt.push(url.clone());
                src.urls.push(url);
                continue;
            }
            let low = ch.to_ascii_lowercase();
            let root = match low {
                'a' => st.symroots.join("alpha"),
                'm' => st.symroots.join("mid"),
                'z' => st.symroots.join("zeta"),
                'f' => st.symroots.join("file.sym"),
                'e' => st.symroots.join("empty"),
                'x' => st.symroots.join("nonexistent"),
                'o' => symbols.clone(),
                'g' => st.symargs.clone(),
                c => panic!("symbol root {}", c),
            };
            if ch.is_ascii_uppercase() {
                let tgt = if after { &mut post_args } else { &mut pre_args };
                if (flags.len() + positionals.len()) % 2 == 0 {
                    tgt.push("--symbols-path".into());
                    tgt.push(s(&root));
                } else {
                    tgt.push(format!("--symbols-path={}", s(&root)));
                }
                flags.push(root.clone());
            } else {
                assert!(after, "a positional symbol path in front of the minidump");
                post_args.push(s(&root));
                positionals.push(root.clone());
            }
            src.dirs.push(root.clone());
            if !letters.iter().any(|(c, _)| *c == low) {
                letters.push((low, root));
            }
        }
        if !src.urls.is_empty() {
            let (tc, tt) = (casedir.join("tool-cache"), casedir.join("tool-tmp"));
            for d in [&tc, &tt, &src.cache, &src.tmp] {
                let _ = std::fs::create_dir_all(d);
            }
            pre_args.push("--symbols-cache".into());
            pre_args.push(s(&tc));
            pre_args.push("--symbols-tmp".into());
            pre_args.push(s(&tt));
            tool_cache_tmp = Some((tc, Some(tt)));
        } else {
            let mut ff = flags.clone();
            ff.extend(positionals.iter().cloned());
            if ff != src.dirs {
                variants.push(("flagsfirst".into(), ff));
            }
            for (c, root) in &letters {
                variants.push((c.to_string(), vec![root.clone()]));
            }
        }
    }
    match sym {
        "s" => {
            pre_args.push("--symbols-path".into());
            pre_args.push(s(&symbols));
            src.dirs.push(symbols.clone());
        }
        "b" => {
            pre_args.push(format!("--symbols-path={}", s(&st.symargs)));
            src.dirs.push(st.symargs.clone());
        }
        _ => {}
    }
    match sym {
        "p" | "b" => {
            post_args.push(s(&symbols));
            src.dirs.push(symbols.clone());
        }
        "a" => {
            post_args.push(s(&st.symargs));
            src.dirs.push(st.symargs.clone());
        }
        _ => {}
    }

    // ---- the command line, as a function of the three sink paths (the reference run for the log file uses fresh ones)
    let build_args = |out_p: &Path, cy_p: &Path, log_p: &Path| -> Vec<String> {
        if let Some(raw) = &raw_argv {
            return raw
                .iter()
                .map(|tok| {
                    tok.replace("@D", &s(&in_path)).replace("@O", &s(out_p)).replace("@C", &s(cy_p)).replace("@L", &s(log_p)).replace("@S", &s(&symbols))
                })
                .collect();
        }
        let mut args: Vec<String> = vec![];
        for m in modes.chars() {
            match m {
                'h' => args.push("--human".into()),
                'j' => args.push("--json".into()),
                'D' => args.push("--dump".into()),
                'm' => args.push("--help-markdown".into()),
                'c' => {
                    args.push("--cyborg".into());
                    args.push(s(cy_p));
                }
                '-' => {}
                x => panic!("mode {}", x),
            }
        }
        if brief {
            args.push("--brief".into());
        }
        if pretty {
            args.push("--pretty".into());
        }
        match feat {
            0 => args.push("--features=stable-basic".into()),
            1 => {
                args.push("--features".into());
                args.push("stable-all".into());
            }
            2 => args.push("--features=unstable-all".into()),
            _ => {}
        }
        if rfa {
            args.push("--recover-function-args".into());
        }
        if out_cls != "-" {
            args.push("--output-file".into());
            args.push(s(out_p));
        }
        if log_cls != "-" {
            args.push("--log-file".into());
            args.push(s(log_p));
        }
        if verbose != "e" {
            args.push(format!("--verbose={}", verbose));
        }
        if evil {
            args.push("--evil-json".into());
            args.push(s(&testdata().join("evil.json")));
        }
        if noflags & 1 != 0 {
            args.push("--no-color".into());
        }
        if noflags & 2 != 0 {
            args.push("--no-interactive".into());
        }
        if ldi {
            args.push("--use-local-debuginfo".into());
        }
        args.extend(pre_args.iter().cloned());
        args.push(s(&in_path));
        args.extend(post_args.iter().cloned());
        args
    };
    let args = build_args(&out_path, &cy_path, &log_path);
    let plain = Sinks { stdout_cls: "o", fifo: None, lim: 0, as_nobody: false };

    // ---- the state of the sink paths BEFORE the run
    let stale_fill = |n: usize| -> Vec<u8> { b"STALE-TAIL-OF-AN-OLDER-FILE-0123456789\n".iter().cycle().take(n).cloned().collect() };
    let sinks = [(out_cls, &out_path, "out"), (cy_cls, &cy_path, "cy"), (log_cls, &log_path, "log")];
    if sinks.iter().any(|(c, _, _)| *c == "xq") {
        // the same command once before; what it left is then overwritten in place, byte count unchanged
        let _ = run_tool(&st.tool, &args, &casedir, &plain);
        for (c, p, _) in sinks.iter() {
            if *c == "xq" {
                if let Ok(m) = std::fs::metadata(p) {
                    std::fs::write(p, stale_fill(m.len() as usize)).unwrap();
                }
            }
        }
    }
    for (cls, path, which) in sinks.iter() {
        let target = casedir.join(format!("{}.target", which));
        match *cls {
            "xe" => std::fs::write(path, b"").unwrap(),
            "xs" => std::fs::write(path, stale_fill(23)).unwrap(),
            "xl" => std::fs::write(path, stale_fill(300_000)).unwrap(),
            "xk" => {
                std::fs::write(&target, stale_fill(300_000)).unwrap();
                std::os::unix::fs::symlink(&target, path).unwrap();
            }
            "xK" => std::os::unix::fs::symlink(&target, path).unwrap(),
            "xL" => std::os::unix::fs::symlink(path.file_name().unwrap(), path).unwrap(),
            c if c.starts_with('q') => {
                for letter in c[1..].chars() {
                    let mut a: Vec<String> = vec![];
                    let mut with_input = true;
                    match (*which, letter) {
                        ("out", 'h') => a.push("--human".into()),
                        ("out", 'b') => a.extend(["--human".to_string(), "--brief".into()]),
                        ("out", 'j') => a.push("--json".into()),
                        ("out", 'J') => a.extend(["--json".to_string(), "--pretty".into()]),
                        ("out", 'D') => a.push("--dump".into()),
                        ("out", 'd') => a.extend(["--dump".to_string(), "--brief".into()]),
                        ("cy", 'c') => a.extend(["--cyborg".to_string(), s(path)]),
                        ("cy", 'C') => a.extend(["--cyborg".to_string(), s(path), "--pretty".into()]),
                        ("log", 'T') => a.extend(["--verbose=trace".to_string(), "--log-file".into(), s(path)]),
                        ("log", 'E') => {
                            a.extend(["--log-file".to_string(), s(path), s(&casedir.join("no-such.dmp"))]);
                            with_input = false;
                        }
                        (w, l) => panic!("previous run {} on {}", l, w),
                    }
                    if *which == "out" {
                        a.push("--output-file".into());
                        a.push(s(path));
                    }
                    if with_input {
                        // the same symbol sources (not the URLs: their cache directories are per run)
                        a.extend(pre_args.iter().filter(|_| src.urls.is_empty()).cloned());
                        a.push(s(&in_path));
                        a.extend(post_args.iter().cloned());
                    }
                    let _ = run_tool(&st.tool, &a, &casedir, &plain);
                }
            }
            _ => {}
        }
    }
    if as_nobody {
        // the tool runs as uid 65534 in this case: what the harness (root) put there must stay writable for it
        use std::os::unix::fs::PermissionsExt;
        for (cls, path, which) in sinks.iter() {
            if has_pre_cls(cls) {
                let _ = std::fs::set_permissions(path, std::fs::Permissions::from_mode(0o666));
                let _ = std::fs::set_permissions(casedir.join(format!("{}.target", which)), std::fs::Permissions::from_mode(0o666));
            }
        }
    }
    let pre_len = |p: &Path, cls: &str| -> String {
        if cls == "-" || cls.starts_with('f') {
            return "-".into();
        }
        std::fs::metadata(p).map(|m| if m.is_file() { m.len().to_string() } else { "-".to_string() }).unwrap_or("-".into())
    };
    let pre_desc = format!("{}/{}/{}", pre_len(&out_path, out_cls), pre_len(&cy_path, cy_cls), pre_len(&log_path, log_cls));
    let has_pre = has_pre_cls;
    let before: Vec<Option<Vec<u8>>> = sinks.iter().map(|(c, p, _)| if has_pre(c) { std::fs::read(p).ok() } else { None }).collect();

    // (a) the tool first: if it dies the same input is not fed to the library in this process
    let tool = run_tool(&st.tool, &args, &casedir, &Sinks { stdout_cls, fifo: fifo.clone(), lim, as_nobody });
    let died = tool.exit.starts_with("sig") || tool.exit == "timeout";

    // the log file against the log of the same command on fresh paths
    let mut logref = "-".to_string();
    // (not with a FIFO as the output file: the reference run would have no reader and block in File::create)
    if (log_cls.starts_with('x') || log_cls.starts_with('q')) && log_cls != "xL" && !died && fifo.is_none() {
        let fresh = |cls: &str, p: &PathBuf, name: &str| -> PathBuf {
            if cls == "g" || cls.starts_with('x') || cls.starts_with('q') { casedir.join(name) } else { p.clone() }
        };
        let ref_log = casedir.join("log.ref.txt");
        let ref_args = build_args(&fresh(out_cls, &out_path, "out.ref.txt"), &fresh(cy_cls, &cy_path, "cyborg.ref.json"), &ref_log);
        let _ = run_tool(&st.tool, &ref_args, &casedir, &Sinks { stdout_cls, fifo: None, lim, as_nobody });
        let name_free = |b: Vec<u8>| -> Vec<u8> { String::from_utf8_lossy(&b).replace(".ref.", ".").into_bytes() };
        let got = std::fs::read(&log_path).ok().map(name_free);
        let want = std::fs::read(&ref_log).ok().map(name_free);
        logref = if got == want { "same".into() } else { "diff".into() };
    }
    // pre-state bytes that survived the run; sinks that are byte for byte what they were before the run
    let mut stale: Vec<&str> = vec![];
    let mut kept: Vec<&str> = vec![];
    for (i, (cls, path, which)) in sinks.iter().enumerate() {
        if has_pre(cls) {
            if let Ok(b) = std::fs::read(path) {
                if before[i].as_ref() == Some(&b) {
                    kept.push(which);
                } else if b.windows(11).any(|w| w == b"STALE-TAIL-") {
                    stale.push(which);
                }
            }
        }
    }

    // (b) the library, in-process
    let cacheable = src.urls.is_empty();
    let mut lib = if died {
        LibOut { class: "?".into(), cpu: "-".into(), renderings: vec![], diag: String::new() }
    } else {
        lib_get(st, input, &in_path, &src, feat, rfa, evil, cacheable)
    };
    if lib.class == "O" {
        for (suffix, roots) in variants.iter() {
            let v = SymSrc { dirs: roots.clone(), urls: vec![], cache: src.cache.clone(), tmp: src.tmp.clone(), timeout: 1000 };
            let l2 = lib_get(st, input, &in_path, &v, feat, rfa, evil, true);
            for (n, b) in l2.renderings {
                if n != "D" && n != "DB" {
                    lib.renderings.push((format!("{}@{}", n, suffix), b));
                }
            }
        }
    }
    let count_files = |p: &Path| -> usize {
        fn walk(p: &Path, n: &mut usize) {
            if let Ok(rd) = std::fs::read_dir(p) {
                for e in rd.flatten() {
                    let q = e.path();
                    if q.is_dir() {
                        walk(&q, n);
                    } else {
                        *n += 1;
                    }
                }
            }
        }
        let mut n = 0;
        walk(p, &mut n);
        n
    };
    let symc = match &tool_cache_tmp {
        Some((tc, tt)) if !died => format!(
            "{}/{}/{}/{}",
            count_files(tc),
            tt.as_ref().map(|t| count_files(t).to_string()).unwrap_or("x".into()),
            count_files(&src.cache.join("0")),
            count_files(&src.tmp)
        ),
        _ => "-".to_string(),
    };

    let stdout_desc = match &tool.stdout {
        Some(b) if stdout_cls == "o" || (stdout_cls.len() > 1 && stdout_cls.starts_with('p')) => sink_desc(b, &lib),
        _ => "n/a".into(),
    };
    let out_desc = match &tool.fifo_bytes {
        Some(b) => sink_desc(b, &lib),
        None => file_desc(out_cls, &out_path, &lib),
    };
    let cy_desc = if modes.contains('c') { file_desc(cy_cls, &cy_path, &lib) } else { "-".into() };
    let log_desc = match log_cls {
        "-" => "-".to_string(),
        "u" | "d" | "r" | "xL" => "n/a".into(),
        _ => std::fs::metadata(&log_path).map(|m| m.len().to_string()).unwrap_or("-".into()),
    };
    let logc = match log_cls {
        "-" | "u" | "d" | "r" | "xL" => "-",
        _ => match std::fs::read(&log_path) {
            Ok(b) => diag_class(&b, &lib),
            Err(_) => "-",
        },
    };
    let errc = if died { "-" } else { diag_class(&tool.stderr, &lib) };
    let exp: Vec<String> = lib.renderings.iter().map(|(n, b)| format!("{}:{}:{}", n, b.len(), fnv(b))).collect();
    // --dump: the primary output cut into the texts of the individual printers
    let (dst, dseq) = if modes.contains('D') && raw_argv.is_none() && !died && (lib.class == "O" || lib.class == "P") {
        let primary: Option<Vec<u8>> = if out_cls == "-" {
            if stdout_cls == "o" || (stdout_cls.len() > 1 && stdout_cls.starts_with('p')) { tool.stdout.clone() } else { None }
        } else if out_cls == "g" || has_pre_cls(out_cls) {
            std::fs::read(&out_path).ok()
        } else {
            None
        };
        match primary {
            Some(b) => dump_cut(&in_path, brief, &b),
            None => ("-".to_string(), "-".to_string()),
        }
    } else {
        ("-".to_string(), "-".to_string())
    };
    let _ = std::fs::remove_dir_all(&casedir);
    format!(
        "lib={} cpu={} exit={} stdout={} out={} cy={} log={} stderr={} pre={} kept={} logref={} stale={} symc={} logc={} errc={} dst={} dseq={} exp={}",
        lib.class,
        if lib.cpu.is_empty() { "-" } else { lib.cpu.as_str() },
        tool.exit,
        stdout_desc,
        out_desc,
        cy_desc,
        log_desc,
        tool.stderr.len(),
        pre_desc,
        if kept.is_empty() { "-".to_string() } else { kept.join("+") },
        logref,
        if stale.is_empty() { "-".to_string() } else { stale.join("+") },
        symc,
        logc,
        errc,
        dst,
        dseq,
        if exp.is_empty() { "-".to_string() } else { exp.join(",") }
    )
}

fn main() {
    let tool = std::env::args().nth(1).expect("usage: c20 <path to minidump-stackwalk>");
    let base = PathBuf::from("/verif/.cache/c20-tmp");
    std::fs::create_dir_all(&base).unwrap();
    let tmp = tempfile::Builder::new().prefix("h").tempdir_in(&base).unwrap();
    {
        use std::os::unix::fs::PermissionsExt;
        let _ = std::fs::set_permissions(tmp.path(), std::fs::Permissions::from_mode(0o755));
    }
    let symargs = make_symargs(tmp.path());
    let symroots = make_symroots(tmp.path());
    let port = 0;
    let mut st = State { tool, tmp, symargs, symroots, port, cache: HashMap::new(), inputs: HashMap::new(), n: 0 };
    for_each_case(|line| run(&mut st, line));
}
