//! C01 correspondence + search harness: offers a byte string to the real reader and walks
//! everything the crate exposes over it.
//!   H <hex>                       the bytes themselves
//!   F <name> <off:val,...|->      /repo/testdata/<name> with u32 (LE) values patched in
//!   SIZES                         in-memory element sizes of every with_capacity site (tie to Model.v)
//! `c01 --gen` prints valid base dumps built with minidump-synth (name + hex), used by the generator.
//! Answer: `R=..;SI=..;TL=..;...;pk=<peak single allocation>;live=<peak live bytes>;ms=<CPU time of the process>`.
//! Every step runs under its own catch_unwind (`!P(<msg>)` marks a panic); a counting global
//! allocator records the largest single request and the peak of live bytes per case; a watchdog
//! thread kills the process when one case burns more than CASE_LIMIT_MS of CPU time (the runner then names
//! the first unanswered case as the culprit). All times are CPU times of this process (CLOCK_PROCESS_CPUTIME_ID):
//! a reader that hangs spins, it never sleeps, and a wall clock turns a loaded machine into false alarms.
use minidump::format as md;
use minidump::system_info::{Cpu, Os};
use minidump::*;
use std::alloc::{GlobalAlloc, Layout, System};
use std::io::Write;
use std::panic::{catch_unwind, AssertUnwindSafe};
use std::sync::atomic::{AtomicU64, AtomicUsize, Ordering::Relaxed};
use vharness::*;

// ------------------------------------------------------------------ counting allocator
struct Counting;
static PEAK_SINGLE: AtomicUsize = AtomicUsize::new(0);
static LIVE: AtomicUsize = AtomicUsize::new(0);
static PEAK_LIVE: AtomicUsize = AtomicUsize::new(0);

#[inline]
fn note(size: usize) {
    PEAK_SINGLE.fetch_max(size, Relaxed);
    let l = LIVE.fetch_add(size, Relaxed) + size;
    PEAK_LIVE.fetch_max(l, Relaxed);
}
unsafe impl GlobalAlloc for Counting {
    unsafe fn alloc(&self, l: Layout) -> *mut u8 {
        note(l.size());
        System.alloc(l)
    }
    unsafe fn alloc_zeroed(&self, l: Layout) -> *mut u8 {
        note(l.size());
        System.alloc_zeroed(l)
    }
    unsafe fn dealloc(&self, p: *mut u8, l: Layout) {
        LIVE.fetch_sub(l.size(), Relaxed);
        System.dealloc(p, l)
    }
    unsafe fn realloc(&self, p: *mut u8, l: Layout, new: usize) -> *mut u8 {
        LIVE.fetch_sub(l.size(), Relaxed);
        note(new);
        System.realloc(p, l, new)
    }
}
#[global_allocator]
static A: Counting = Counting;

// ------------------------------------------------------------------ watchdog
const CASE_LIMIT_MS: u64 = 20_000;
static CASE_START_MS: AtomicU64 = AtomicU64::new(0); // 0 = idle
fn now_ms(_t0: std::time::Instant) -> u64 {
    let mut ts = libc::timespec { tv_sec: 0, tv_nsec: 0 };
    unsafe { libc::clock_gettime(libc::CLOCK_PROCESS_CPUTIME_ID, &mut ts) };
    ts.tv_sec as u64 * 1000 + ts.tv_nsec as u64 / 1_000_000 + 1
}

// ------------------------------------------------------------------ helpers
struct Sink(u64);
impl Write for Sink {
    fn write(&mut self, b: &[u8]) -> std::io::Result<usize> {
        self.0 += b.len() as u64;
        Ok(b.len())
    }
    fn flush(&mut self) -> std::io::Result<()> {
        Ok(())
    }
}

/// Reads what MinidumpThread::print writes, line by line, without keeping it: after the line `Stack` every line
/// `    0x<offset>: 0x<value>` is one stack word (its width = the hex digits of the value / 2); `No stack` otherwise.
#[derive(Default)]
struct WordSink {
    line: Vec<u8>,
    in_stack: bool,
    no_stack: bool,
    words: u64,
    width: u64,
}
impl WordSink {
    fn end_line(&mut self) {
        let l = std::mem::take(&mut self.line);
        if l == b"Stack" {
            self.in_stack = true;
        } else if l == b"No stack" {
            self.no_stack = true;
        } else if self.in_stack && l.starts_with(b"    0x") {
            if let Some(p) = l.windows(4).position(|w| w == b": 0x") {
                self.words += 1;
                self.width = ((l.len() - p - 4) / 2) as u64;
            }
        }
        self.line = l;
        self.line.clear();
    }
    fn answer(&self) -> String {
        if self.no_stack || !self.in_stack {
            "-1".to_string()
        } else {
            // a stack shorter than one word prints no line: the width is then the model's to say; 0 marks "no word seen"
            (16 * self.words + self.width).to_string()
        }
    }
}
impl Write for WordSink {
    fn write(&mut self, b: &[u8]) -> std::io::Result<usize> {
        for &c in b {
            if c == b'\n' {
                self.end_line();
            } else if self.line.len() < 96 {
                self.line.push(c);
            }
        }
        Ok(b.len())
    }
    fn flush(&mut self) -> std::io::Result<()> {
        Ok(())
    }
}

fn guard<F: FnOnce() -> String>(f: F) -> String {
    match catch_unwind(AssertUnwindSafe(f)) {
        Ok(s) => s,
        Err(e) => {
            let msg = if let Some(s) = e.downcast_ref::<&str>() {
                s.to_string()
            } else if let Some(s) = e.downcast_ref::<String>() {
                s.clone()
            } else {
                "?".to_string()
            };
            format!("!P({})", msg.replace(['\n', ';', '='], " "))
        }
    }
}

const OSES: [Os; 9] = [Os::Windows, Os::MacOs, Os::Ios, Os::Linux, Os::Solaris, Os::Android, Os::Ps3, Os::NaCl, Os::Unknown(7)];
const CPUS: [Cpu; 10] = [Cpu::X86, Cpu::X86_64, Cpu::Ppc, Cpu::Ppc64, Cpu::Sparc, Cpu::Arm, Cpu::Arm64, Cpu::Mips, Cpu::Mips64, Cpu::Unknown(9)];

fn ctx_kind(c: &MinidumpContext) -> &'static str {
    match c.raw {
        MinidumpRawContext::X86(_) => "x86",
        MinidumpRawContext::Ppc(_) => "ppc",
        MinidumpRawContext::Ppc64(_) => "ppc64",
        MinidumpRawContext::Amd64(_) => "amd64",
        MinidumpRawContext::Sparc(_) => "sparc",
        MinidumpRawContext::Arm(_) => "arm",
        MinidumpRawContext::Arm64(_) => "arm64",
        MinidumpRawContext::OldArm64(_) => "arm64old",
        MinidumpRawContext::Mips(_) => "mips",
    }
}

/// exercise a context: every accessor and the printer
fn poke_context(c: &MinidumpContext, out: &mut Sink) {
    let _ = c.get_instruction_pointer();
    let _ = c.get_stack_pointer();
    let _ = c.register_size();
    for (r, _) in c.registers() {
        let _ = c.get_register(r);
        let _ = c.format_register(r);
    }
    let _ = c.valid_registers().count();
    c.print(out).unwrap();
}

fn err_name(e: &Error) -> String {
    format!("err:{}", e.name())
}

fn probe_addrs(base: u64, size: u64) -> [u64; 6] {
    [base, base.wrapping_add(size).wrapping_sub(1), base.wrapping_add(size), base.wrapping_sub(1), base.wrapping_add(size / 2), base.wrapping_add(size).wrapping_sub(8)]
}

fn walk(bytes: &[u8]) -> String {
    let mut f: Vec<String> = vec![];
    let mut out = Sink(0);
    let dump = match catch_unwind(AssertUnwindSafe(|| Minidump::read(bytes))) {
        Ok(Ok(d)) => d,
        Ok(Err(e)) => return format!("R={}", err_name(&e)),
        Err(_) => return "R=!P(Minidump::read)".to_string(),
    };
    f.push(format!("R=ok:{}", dump.all_streams().count()));
    f.push(format!("HP={}", guard(|| {
        dump.print(&mut out).unwrap();
        let u = dump.unknown_streams().count();
        let i = dump.unimplemented_streams().count();
        let mut raw = 0;
        let types: Vec<u32> = dump.all_streams().map(|d| d.stream_type).collect();
        for t in types {
            if dump.get_raw_stream(t).is_ok() {
                raw += 1;
            }
        }
        for t in [0u32, 3, 4, 5, 6, 7, 9, 12, 14, 15, 16, 17, 24, 0x47670001, 0x47670003, 0x4767000a, 0x4d7a0001, 0xffffffff] {
            let _ = dump.get_raw_stream(t);
        }
        format!("ok:{}/{}/{}", u, i, raw)
    })));

    let sys = match catch_unwind(AssertUnwindSafe(|| dump.get_stream::<MinidumpSystemInfo>())) {
        Ok(r) => r,
        Err(_) => Err(Error::IoError),
    };
    f.push(format!("SI={}", guard(|| match &sys {
        Ok(s) => {
            s.print(&mut out).unwrap();
            let _ = s.csd_version();
            let _ = s.cpu_info();
            let _ = s.os_parts();
            format!("ok:{}", s.raw.processor_architecture)
        }
        Err(e) => err_name(e),
    })));
    f.push(format!("SIS={}", guard(|| match &sys {
        Ok(s) => format!("ok:{}:{}", s.csd_version().is_some() as u8, s.cpu_info().is_some() as u8),
        Err(e) => err_name(e),
    })));
    let sys = sys.ok();
    let misc = catch_unwind(AssertUnwindSafe(|| dump.get_stream::<MinidumpMiscInfo>())).unwrap_or(Err(Error::IoError));
    f.push(format!("MS={}", guard(|| match &misc {
        Ok(m) => {
            let ver = match m.raw {
                RawMiscInfo::MiscInfo(_) => 1,
                RawMiscInfo::MiscInfo2(_) => 2,
                RawMiscInfo::MiscInfo3(_) => 3,
                RawMiscInfo::MiscInfo4(_) => 4,
                RawMiscInfo::MiscInfo5(_) => 5,
            };
            let nfeat = m.raw.xstate_data().map(|x| x.iter().count() as i64).unwrap_or(-1);
            let _ = m.process_create_time();
            format!("ok:{}:{}", ver, nfeat)
        }
        Err(e) => err_name(e),
    })));
    f.push(format!("MSP={}", guard(|| match &misc {
        Ok(m) => {
            m.print(&mut out).unwrap();
            "ok".to_string()
        }
        Err(_) => "-".to_string(),
    })));
    let misc = misc.ok();
    let mem = catch_unwind(AssertUnwindSafe(|| dump.get_memory())).unwrap_or(None);
    let empty_mem = UnifiedMemoryList::default();
    let memref = mem.as_ref().unwrap_or(&empty_mem);

    // ---- thread list
    f.push(format!("TL={}", guard(|| match dump.get_stream::<MinidumpThreadList>() {
        Ok(tl) => {
            let mut nctx = 0;
            let mut nstack = 0;
            for t in tl.threads.iter().take(4096) {
                if let Some(s) = &sys {
                    if let Some(c) = t.context(s, misc.as_ref()) {
                        nctx += 1;
                        let _ = ctx_kind(&c);
                    }
                    let _ = t.last_error(s.cpu, memref);
                }
                for c in CPUS {
                    let _ = t.last_error(c, memref);
                }
                if t.stack_memory(&empty_mem).is_some() {
                    nstack += 1;
                }
                let _ = t.stack_memory(memref);
                let _ = tl.get_thread(t.raw.thread_id);
            }
            format!("ok:{}:{}:{}", tl.threads.len(), nctx, nstack)
        }
        Err(e) => err_name(&e),
    })));
    // printing is a separate step so that a printer panic does not hide the parse result
    f.push(format!("TLP={}", guard(|| match dump.get_stream::<MinidumpThreadList>() {
        Ok(tl) => {
            tl.print(&mut out, mem.as_ref(), sys.as_ref(), misc.as_ref(), false).unwrap();
            tl.print(&mut out, None, None, None, true).unwrap();
            "ok".into()
        }
        Err(_) => "-".into(),
    })));
    // contexts of every thread: accessors + printer, one guard per CPU kind found
    f.push(format!("TC={}", guard(|| {
        let mut kinds: Vec<&'static str> = vec![];
        if let (Ok(tl), Some(s)) = (dump.get_stream::<MinidumpThreadList>(), &sys) {
            for t in tl.threads.iter().take(256) {
                if let Some(c) = t.context(s, misc.as_ref()) {
                    let k = ctx_kind(&c);
                    if !kinds.contains(&k) {
                        kinds.push(k);
                    }
                    poke_context(&c, &mut out);
                }
            }
        }
        format!("ok:{}", kinds.join("+"))
    })));

    // ---- modules
    f.push(format!("ML={}", guard(|| match dump.get_stream::<MinidumpModuleList>() {
        Ok(ml) => {
            let n = ml.iter().count();
            for m in ml.iter().take(4096) {
                let _ = (m.base_address(), m.size(), m.code_file(), m.code_identifier(), m.debug_file(), m.debug_identifier(), m.version());
                for a in probe_addrs(m.base_address(), m.size()) {
                    let _ = ml.module_at_address(a);
                }
            }
            let _ = ml.main_module();
            let _ = ml.by_addr().count();
            format!("ok:{}", n)
        }
        Err(e) => err_name(&e),
    })));
    f.push(format!("MLP={}", guard(|| match dump.get_stream::<MinidumpModuleList>() {
        Ok(ml) => {
            ml.print(&mut out).unwrap();
            "ok".into()
        }
        Err(_) => "-".into(),
    })));
    f.push(format!("UM={}", guard(|| match dump.get_stream::<MinidumpUnloadedModuleList>() {
        Ok(ml) => {
            let n = ml.iter().count();
            for m in ml.iter().take(4096) {
                let _ = (m.base_address(), m.size(), m.code_file(), m.code_identifier(), m.debug_file(), m.debug_identifier(), m.version());
                for a in probe_addrs(m.base_address(), m.size()) {
                    let _ = ml.modules_at_address(a).count();
                }
            }
            let _ = ml.by_addr().count();
            ml.print(&mut out).unwrap();
            format!("ok:{}", n)
        }
        Err(e) => err_name(&e),
    })));

    // ---- memory
    let mut ma = String::new();
    f.push(format!("MEM={}", guard(|| match dump.get_stream::<MinidumpMemoryList>() {
        Ok(l) => {
            let n = l.iter().count();
            for (i, r) in l.iter().take(4096).enumerate() {
                for a in probe_addrs(r.base_address, r.size) {
                    let x: Option<u64> = r.get_memory_at_address(a);
                    let y: Option<u8> = r.get_memory_at_address(a);
                    if i < 8 {
                        ma.push(if x.is_some() { '1' } else { '0' });
                        ma.push(if y.is_some() { '1' } else { '0' });
                    }
                    let _ = l.memory_at_address(a);
                }
                let _ = r.memory_range();
            }
            let _ = l.by_addr().count();
            format!("ok:{}", n)
        }
        Err(e) => err_name(&e),
    })));
    if f.last().map(|x| x.starts_with("MEM=ok")).unwrap_or(false) {
        f.push(format!("MA=ok:{}", ma));
    } else {
        let last = f.last().unwrap()[4..].to_string();
        f.push(format!("MA={}", last));
    }
    f.push(format!("M64={}", guard(|| match dump.get_stream::<MinidumpMemory64List>() {
        Ok(l) => {
            let n = l.iter().count();
            for r in l.iter().take(4096) {
                for a in probe_addrs(r.base_address, r.size) {
                    let _: Option<u64> = r.get_memory_at_address(a);
                    let _: Option<u32> = r.get_memory_at_address(a);
                    let _ = l.memory_at_address(a);
                }
                let _ = r.memory_range();
            }
            let _ = l.by_addr().count();
            format!("ok:{}", n)
        }
        Err(e) => err_name(&e),
    })));
    f.push(format!("MP={}", guard(|| {
        if let Ok(l) = dump.get_stream::<MinidumpMemoryList>() {
            l.print(&mut out, false).unwrap();
            l.print(&mut out, true).unwrap();
        }
        if let Ok(l) = dump.get_stream::<MinidumpMemory64List>() {
            l.print(&mut out, false).unwrap();
        }
        let mut n = 0;
        for r in memref.iter().take(4096) {
            n += 1;
            for a in probe_addrs(r.base_address(), r.size()) {
                let _: Option<u16> = r.get_memory_at_address(a);
                let _ = memref.memory_at_address(a);
            }
            let _ = (r.bytes().len(), r.memory_range());
        }
        let _ = memref.by_addr().count();
        memref.print(&mut out, true).unwrap();
        format!("ok:{}", n)
    })));
    f.push(format!("MI={}", guard(|| match dump.get_stream::<MinidumpMemoryInfoList>() {
        Ok(l) => {
            let n = l.iter().count();
            for r in l.iter().take(4096) {
                for a in probe_addrs(r.raw.base_address, r.raw.region_size) {
                    let _ = l.memory_info_at_address(a);
                }
                let _ = (r.memory_range(), r.is_readable(), r.is_writable(), r.is_executable());
            }
            let _ = l.by_addr().count();
            l.print(&mut out).unwrap();
            format!("ok:{}", n)
        }
        Err(e) => err_name(&e),
    })));
    f.push(format!("LM={}", guard(|| match dump.get_stream::<MinidumpLinuxMaps>() {
        Ok(l) => {
            let n = l.iter().count();
            for r in l.iter().take(4096) {
                let _ = (r.memory_range(), r.is_readable(), r.is_writable(), r.is_executable());
                let _ = l.memory_info_at_address(r.map.address.0);
                let _ = l.memory_info_at_address(r.map.address.1);
            }
            let _ = (l.by_addr().count(), l.memory_map_count());
            l.print(&mut out).unwrap();
            let u = UnifiedMemoryInfoList::new(dump.get_stream::<MinidumpMemoryInfoList>().ok(), Some(l));
            if let Some(u) = u {
                let _ = (u.iter().count(), u.by_addr().count(), u.memory_info_at_address(0x1000));
                u.print(&mut out).unwrap();
            }
            format!("ok:{}", n)
        }
        Err(e) => err_name(&e),
    })));
    f.push(format!("TI={}", guard(|| match dump.get_stream::<MinidumpThreadInfoList>() {
        Ok(l) => {
            for t in l.thread_infos.iter().take(4096) {
                let _ = l.get_thread_info(t.raw.thread_id);
            }
            l.print(&mut out).unwrap();
            format!("ok:{}", l.thread_infos.len())
        }
        Err(e) => err_name(&e),
    })));
    f.push(format!("TN={}", guard(|| match dump.get_stream::<MinidumpThreadNames>() {
        Ok(l) => {
            let mut v: Vec<u8> = vec![];
            l.print(&mut v).unwrap();
            let s = String::from_utf8_lossy(&v);
            let n = s.split("thread_count = ").nth(1).and_then(|r| r.split('\n').next()).unwrap_or("?").to_string();
            for id in [0u32, 1, 2, 0xffffffff] {
                let _ = l.get_name(id);
            }
            format!("ok:{}", n)
        }
        Err(e) => err_name(&e),
    })));
    f.push(format!("HD={}", guard(|| match dump.get_stream::<MinidumpHandleDataStream>() {
        Ok(l) => {
            let infos: usize = l.iter().map(|h| h.object_infos.len()).sum();
            for h in l.iter().take(4096) {
                let _ = (h.raw.handle(), h.raw.type_name_rva(), h.raw.object_name_rva(), h.raw.attributes(), h.raw.granted_access(), h.raw.handle_count(), h.raw.pointer_count(), h.raw.object_info_rva());
            }
            format!("ok:{}:{}", l.handles.len(), infos)
        }
        Err(e) => err_name(&e),
    })));
    f.push(format!("HDP={}", guard(|| match dump.get_stream::<MinidumpHandleDataStream>() {
        Ok(l) => {
            l.print(&mut out).unwrap();
            "ok".into()
        }
        Err(_) => "-".into(),
    })));

    // ---- exception
    f.push(format!("EX={}", guard(|| match dump.get_stream::<MinidumpException>() {
        Ok(e) => {
            for os in OSES {
                for cpu in CPUS {
                    let r = e.get_crash_reason(os, cpu);
                    let _ = r.to_string();
                    let _ = e.get_crash_address(os, cpu);
                }
            }
            let _ = e.get_crashing_thread_id();
            let mut k = "none";
            if let Some(s) = &sys {
                let _ = e.get_crash_reason(s.os, s.cpu).to_string();
                if let Some(c) = e.context(s, misc.as_ref()) {
                    k = ctx_kind(&c);
                }
            }
            format!("ok:{}:{}", e.raw.exception_record.number_parameters, k)
        }
        Err(e) => err_name(&e),
    })));
    f.push(format!("EXP={}", guard(|| match dump.get_stream::<MinidumpException>() {
        Ok(e) => {
            e.print(&mut out, None, None).unwrap();
            "ok".into()
        }
        Err(_) => "-".into(),
    })));
    f.push(format!("EXC={}", guard(|| match dump.get_stream::<MinidumpException>() {
        Ok(e) => {
            e.print(&mut out, sys.as_ref(), misc.as_ref()).unwrap();
            if let Some(s) = &sys {
                if let Some(c) = e.context(s, misc.as_ref()) {
                    poke_context(&c, &mut out);
                }
            }
            "ok".into()
        }
        Err(_) => "-".into(),
    })));

    // ---- the rest: parse + print
    macro_rules! simple {
        ($tag:literal, $ty:ty, |$v:ident| $body:block) => {
            f.push(format!(concat!($tag, "={}"), guard(|| match dump.get_stream::<$ty>() {
                Ok($v) => $body,
                Err(e) => err_name(&e),
            })));
        };
    }
    simple!("BP", MinidumpBreakpadInfo, |v| {
        v.print(&mut out).unwrap();
        format!("ok:{}:{}", v.dump_thread_id.is_some() as u8, v.requesting_thread_id.is_some() as u8)
    });
    simple!("CP", MinidumpCrashpadInfo, |v| {
        v.print(&mut out).unwrap();
        let inner: usize = v.module_list.iter().map(|m| m.list_annotations.len() + m.simple_annotations.len() + m.annotation_objects.len()).sum();
        format!("ok:{}:{}:{}", v.simple_annotations.len(), v.module_list.len(), inner)
    });
    simple!("AS", MinidumpAssertion, |v| {
        v.print(&mut out).unwrap();
        format!("ok:{}:{}:{}", v.expression().is_some() as u8, v.function().is_some() as u8, v.file().is_some() as u8)
    });
    simple!("MC", MinidumpMacCrashInfo, |v| {
        v.print(&mut out).unwrap();
        format!("ok:{}", v.raw.len())
    });
    simple!("MB", MinidumpMacBootargs, |v| {
        v.print(&mut out).unwrap();
        format!("ok:{}", v.bootargs.is_some() as u8)
    });
    simple!("LC", MinidumpLinuxCpuInfo, |v| {
        let _ = v.raw_bytes().len();
        format!("ok:{}:{}", v.iter().count(), v.iter().map(|(k, x)| k.as_bytes().len() + x.as_bytes().len()).sum::<usize>())
    });
    simple!("LS", MinidumpLinuxProcStatus, |v| {
        let _ = v.raw_bytes().len();
        format!("ok:{}:{}", v.iter().count(), v.iter().map(|(k, x)| k.as_bytes().len() + x.as_bytes().len()).sum::<usize>())
    });
    simple!("LR", MinidumpLinuxLsbRelease, |v| {
        let _ = v.raw_bytes().len();
        format!("ok:{}:{}", v.iter().count(), v.iter().map(|(k, x)| k.as_bytes().len() + x.as_bytes().len()).sum::<usize>())
    });
    simple!("LE", MinidumpLinuxEnviron, |v| {
        let _ = v.raw_bytes().len();
        format!("ok:{}:{}", v.iter().count(), v.iter().map(|(k, x)| k.as_bytes().len() + x.as_bytes().len()).sum::<usize>())
    });
    simple!("LL", MinidumpLinuxProcLimits, |v| {
        let _ = v.raw_bytes().len();
        format!("ok:{}", v.iter().count())
    });
    simple!("SE", MinidumpSoftErrors, |v| { format!("ok:{}", v.as_ref().len()) });

    // ---- round 4: queries tied to C01/QModel.v (memory_range, get_crash_address, last_error address arithmetic)
    let bits = |it: &mut dyn Iterator<Item = bool>| it.map(|b| if b { '1' } else { '0' }).collect::<String>();
    simple!("RM", MinidumpMemoryList, |l| { format!("ok:{}", bits(&mut l.iter().take(8).map(|r| r.memory_range().is_some()))) });
    simple!("RI", MinidumpMemoryInfoList, |l| { format!("ok:{}", bits(&mut l.iter().take(8).map(|r| r.memory_range().is_some()))) });
    simple!("CA", MinidumpException, |e| {
        format!(
            "ok:{}:{}:{}:{}",
            e.get_crash_address(Os::Windows, Cpu::X86),
            e.get_crash_address(Os::Windows, Cpu::X86_64),
            e.get_crash_address(Os::Linux, Cpu::X86),
            e.get_crash_address(Os::Linux, Cpu::X86_64)
        )
    });
    simple!("TE", MinidumpThreadList, |tl| {
        let probe = [1u8, 0, 0, 0];
        let mut v = vec![];
        for t in tl.threads.iter().take(4) {
            for (w, cpu) in [(4u64, Cpu::X86), (8u64, Cpu::X86_64)] {
                let base = t.raw.teb.wrapping_add(13 * w);
                let desc = md::MINIDUMP_MEMORY_DESCRIPTOR { start_of_memory_range: base, memory: md::MINIDUMP_LOCATION_DESCRIPTOR { data_size: 4, rva: 0 } };
                let region = MinidumpMemory { desc, base_address: base, size: 4, bytes: &probe, endian: scroll::LE };
                let list = UnifiedMemoryList::Memory(MinidumpMemoryList::from_regions(vec![region]));
                v.push(t.last_error(cpu, &list).is_some());
            }
        }
        format!("ok:{}", bits(&mut v.into_iter()))
    });
    // ---- round 5: lookups tied to C01/LModel.v — by_addr().count(), then the POSITION (in list order) of the element each
    // address lookup returns, at the six probe addresses of the first eight elements; get_thread by id
    fn pos<T>(all: &[&T], found: Option<&T>) -> String {
        match found {
            None => "-1".to_string(),
            Some(x) => all.iter().position(|y| std::ptr::eq(*y, x)).map(|i| i.to_string()).unwrap_or_else(|| "?".to_string()),
        }
    }
    simple!("AM", MinidumpMemoryList, |l| {
        let all: Vec<&MinidumpMemory> = l.iter().collect();
        let mut v = vec![l.by_addr().count().to_string()];
        for r in all.iter().take(8) {
            for a in probe_addrs(r.base_address, r.size) {
                v.push(pos(&all, l.memory_at_address(a)));
            }
        }
        format!("ok:{}", v.join(":"))
    });
    simple!("AL", MinidumpModuleList, |l| {
        let all: Vec<&MinidumpModule> = l.iter().collect();
        let mut v = vec![l.by_addr().count().to_string()];
        for m in all.iter().take(8) {
            for a in probe_addrs(m.raw.base_of_image, m.raw.size_of_image as u64) {
                v.push(pos(&all, l.module_at_address(a)));
            }
        }
        format!("ok:{}", v.join(":"))
    });
    simple!("AI", MinidumpMemoryInfoList, |l| {
        let all: Vec<&MinidumpMemoryInfo> = l.iter().collect();
        let mut v = vec![l.by_addr().count().to_string()];
        for r in all.iter().take(8) {
            for a in probe_addrs(r.raw.base_address, r.raw.region_size) {
                v.push(pos(&all, l.memory_info_at_address(a)));
            }
        }
        format!("ok:{}", v.join(":"))
    });
    simple!("A6", MinidumpMemory64List, |l| {
        let all: Vec<&MinidumpMemory64> = l.iter().collect();
        let mut v = vec![l.by_addr().count().to_string()];
        for r in all.iter().take(8) {
            for a in probe_addrs(r.base_address, r.size) {
                v.push(pos(&all, l.memory_at_address(a)));
            }
        }
        format!("ok:{}", v.join(":"))
    });
    simple!("TG", MinidumpThreadList, |tl| {
        let all: Vec<&MinidumpThread> = tl.threads.iter().collect();
        let v: Vec<String> = all.iter().take(8).map(|t| pos(&all, tl.get_thread(t.raw.thread_id))).collect();
        if v.is_empty() { "ok".to_string() } else { format!("ok:{}", v.join(":")) }
    });
    // ---- round 5: get_memory + stack_memory tied to C01/SModel.v: which list get_memory offers (2 = Memory64, 1 = memory list, 0 = none), then per
    // thread (first eight) where its stack comes from: -2 = read at parse time, i = region i of that list found at start_of_memory_range, -1 = none
    f.push(format!("TS={}", guard(|| match dump.get_stream::<MinidumpThreadList>() {
        Ok(tl) => {
            let kind = match &mem {
                Some(UnifiedMemoryList::Memory64(_)) => 2,
                Some(UnifiedMemoryList::Memory(_)) => 1,
                None => 0,
            };
            let regions: Vec<UnifiedMemory> = memref.iter().collect();
            let same = |a: &UnifiedMemory, b: &UnifiedMemory| match (a, b) {
                (UnifiedMemory::Memory(x), UnifiedMemory::Memory(y)) => std::ptr::eq(*x, *y),
                (UnifiedMemory::Memory64(x), UnifiedMemory::Memory64(y)) => std::ptr::eq(*x, *y),
                _ => false,
            };
            let mut v = vec![kind.to_string()];
            for t in tl.threads.iter().take(8) {
                v.push(if t.stack_memory(&empty_mem).is_some() {
                    "-2".to_string()
                } else {
                    match t.stack_memory(memref) {
                        None => "-1".to_string(),
                        Some(m) => regions.iter().position(|r| same(r, &m)).map(|i| i.to_string()).unwrap_or_else(|| "?".to_string()),
                    }
                });
            }
            format!("ok:{}", v.join(":"))
        }
        Err(e) => err_name(&e),
    })));
    simple!("TIG", MinidumpThreadInfoList, |l| {
        let all: Vec<&MinidumpThreadInfo> = l.thread_infos.iter().collect();
        let v: Vec<String> = all.iter().take(8).map(|t| pos(&all, l.get_thread_info(t.raw.thread_id))).collect();
        if v.is_empty() { "ok".to_string() } else { format!("ok:{}", v.join(":")) }
    });
    // ---- round 5, second pass: the stack words MinidumpThread::print writes (non-brief, with the memory get_memory offers and the dump's system
    // info), tied to C01/PModel.v: per thread (first eight) -1 = "No stack", else 16 * words + bytes per word
    f.push(format!("TSW={}", guard(|| match dump.get_stream::<MinidumpThreadList>() {
        Ok(tl) => {
            let mut v: Vec<String> = vec![];
            for t in tl.threads.iter().take(8) {
                let mut w = WordSink::default();
                t.print(&mut w, Some(memref), sys.as_ref(), misc.as_ref(), false).unwrap();
                v.push(w.answer());
            }
            if v.is_empty() { "ok".to_string() } else { format!("ok:{}", v.join(":")) }
        }
        Err(e) => err_name(&e),
    })));
    f.join(";")
}

fn load(line: &str) -> Vec<u8> {
    let mut t = Toks::new(line);
    match t.str() {
        "H" => unhex(t.str()),
        "F" => {
            let name = t.str();
            assert!(!name.contains('/'));
            let mut b = std::fs::read(format!("/repo/testdata/{}", name)).expect("testdata");
            let p = t.str();
            if p != "-" {
                for kv in p.split(',') {
                    let (o, v) = kv.split_once(':').expect("patch");
                    let o: usize = o.parse().expect("off");
                    let v: u32 = v.parse().expect("val");
                    if o + 4 <= b.len() {
                        b[o..o + 4].copy_from_slice(&v.to_le_bytes());
                    }
                }
            }
            b
        }
        x => panic!("kind {}", x),
    }
}

fn sizes() -> String {
    use std::mem::size_of as s;
    format!(
        "SIZES thread_raw={} module_raw={} memdesc_raw={} memdesc64_raw={} meminfo_raw={} threadinfo_raw={} unloaded_raw={} threadname_raw={} \
         thread={} module={} memory={} memory64={} threadinfo={} unloaded={} handle={} string={} module_crashpad={} range_entry={}",
        s::<md::MINIDUMP_THREAD>(),
        s::<md::MINIDUMP_MODULE>(),
        s::<md::MINIDUMP_MEMORY_DESCRIPTOR>(),
        s::<md::MINIDUMP_MEMORY_DESCRIPTOR64>(),
        s::<md::MINIDUMP_MEMORY_INFO>(),
        s::<md::MINIDUMP_THREAD_INFO>(),
        s::<md::MINIDUMP_UNLOADED_MODULE>(),
        s::<md::MINIDUMP_THREAD_NAME>(),
        s::<MinidumpThread>(),
        s::<MinidumpModule>(),
        s::<MinidumpMemory>(),
        s::<MinidumpMemory64>(),
        s::<MinidumpThreadInfo>(),
        s::<MinidumpUnloadedModule>(),
        s::<MinidumpHandleDescriptor>(),
        s::<String>(),
        s::<MinidumpModuleCrashpadInfo>(),
        s::<(range_map::Range<u64>, usize)>(),
    )
}

fn run(line: &str, t0: std::time::Instant) -> String {
    if line == "SIZES" {
        return sizes();
    }
    let bytes = load(line);
    let base_live = LIVE.load(Relaxed);
    PEAK_SINGLE.store(0, Relaxed);
    PEAK_LIVE.store(base_live, Relaxed);
    let start = now_ms(t0);
    CASE_START_MS.store(start, Relaxed);
    let body = walk(&bytes);
    CASE_START_MS.store(0, Relaxed);
    let pk = PEAK_SINGLE.load(Relaxed);
    let live = PEAK_LIVE.load(Relaxed).saturating_sub(base_live);
    format!("{};len={};pk={};live={};ms={}", body, bytes.len(), pk, live, now_ms(t0) - start)
}

// ------------------------------------------------------------------ --gen: valid base dumps
fn gen() {
    use minidump_synth::*;
    use test_assembler::{Endian as TE, Section};
    for (name, e) in [("le", TE::Little), ("be", TE::Big)] {
        let ctx = amd64_context(e, 0x1234_5678_9abc_def0, 0x7fff_0000_1000);
        let stack = Memory::with_section(Section::with_endian(e).append_repeated(0x5a, 64), 0x7fff_0000_1000);
        let thread = Thread::new(e, 0x1111, &stack, &ctx);
        let tname_s = DumpString::new("worker", e);
        let tname = ThreadName::new(e, 0x1111, Some(&tname_s));
        let mname = DumpString::new("c:\\app\\main.exe", e);
        let cv = Section::with_endian(e)
            .D32(md::CvSignature::Pdb70 as u32)
            .D32(0xabcd1234)
            .D16(0xf00d)
            .D16(0xbeef)
            .append_bytes(b"\x01\x02\x03\x04\x05\x06\x07\x08")
            .D32(1)
            .append_bytes(b"main.pdb\0");
        let module = Module::new(e, 0x400000, 0x10000, &mname, 0x5000_0000, 0, None).cv_record(&cv);
        let uname = DumpString::new("gone.dll", e);
        let unloaded = UnloadedModule::new(e, 0x7000_0000, 0x2000, &uname, 0x5000_0001, 7);
        let mem2 = Memory::with_section(Section::with_endian(e).append_repeated(0x11, 32), 0x8000_0000);
        let minfo = MemoryInfo::new(e, 0x400000, 0x400000, 0x20, 0x10000, 0x1000, 0x20, 0x1000000);
        let htype = DumpString::new("File", e);
        let hobj = DumpString::new("\\Device\\X", e);
        let handle = HandleDescriptor::new(e, 4, Some(&htype), Some(&hobj), 1, 2, 3, 4);
        let mut ex = Exception::new(e);
        ex.thread_id = 0x1111;
        ex.exception_record.exception_code = 0xC0000005;
        ex.exception_record.exception_address = 0x401000;
        ex.exception_record.number_parameters = 2;
        ex.exception_record.exception_information[1] = 0x10;
        let sysinfo = SystemInfo::new(e).set_processor_architecture(9).set_platform_id(2);
        let mut misc = MiscStream::new(e);
        misc.process_id = Some(4242);
        let crashpad = CrashpadInfo::new(e)
            .add_simple_annotation("k", "v")
            .add_module(ModuleCrashpadInfo::new(0, e).add_list_annotation("la").add_simple_annotation("a", "b"));
        let d = SynthMinidump::with_endian(e)
            .add(ctx)
            .add(cv)
            .add(mname)
            .add(uname)
            .add(tname_s)
            .add(htype)
            .add(hobj)
            .add_thread(thread)
            .add_thread_name(tname)
            .add_module(module)
            .add_unloaded_module(unloaded)
            .add_memory(stack)
            .add_memory(mem2)
            .add_memory_info(minfo)
            .add_handle_descriptor(handle)
            .add_exception(ex)
            .add_system_info(sysinfo)
            .add_stream(misc)
            .add_crashpad_info(crashpad)
            .set_linux_maps(b"00400000-00410000 r-xp 00000000 08:01 42 /bin/x\n")
            .set_linux_cpu_info(b"processor : 0\nmodel name : x\n")
            .set_linux_proc_status(b"Name:\tx\nPid:\t1\n")
            .set_linux_lsb_release(b"DISTRIB_ID=\"X\"\n")
            .set_linux_environ(b"A=B\0C=D\0")
            .set_linux_proc_limits(b"Limit Soft Limit Hard Limit Units\nMax cpu time unlimited unlimited seconds\n")
            .set_soft_errors("[]");
        let bytes = d.finish().expect("synth");
        println!("{} {}", name, hex(&bytes));
    }
}

fn main() {
    if std::env::args().nth(1).as_deref() == Some("--gen") {
        gen();
        return;
    }
    if std::env::args().nth(1).as_deref() == Some("--ctxsizes") {
        use scroll::ctx::SizeWith;
        let e = scroll::LE;
        println!(
            "x86={} amd64={} ppc={} ppc64={} sparc={} arm={} arm64={} arm64old={} mips={}",
            md::CONTEXT_X86::size_with(&e),
            md::CONTEXT_AMD64::size_with(&e),
            md::CONTEXT_PPC::size_with(&e),
            md::CONTEXT_PPC64::size_with(&e),
            md::CONTEXT_SPARC::size_with(&e),
            md::CONTEXT_ARM::size_with(&e),
            md::CONTEXT_ARM64::size_with(&e),
            md::CONTEXT_ARM64_OLD::size_with(&e),
            md::CONTEXT_MIPS::size_with(&e)
        );
        return;
    }
    let t0 = std::time::Instant::now();
    std::thread::spawn(move || loop {
        std::thread::sleep(std::time::Duration::from_millis(250));
        let s = CASE_START_MS.load(Relaxed);
        if s != 0 && now_ms(t0) > s + CASE_LIMIT_MS {
            eprintln!("c01: case exceeded {} ms of CPU time (hang)", CASE_LIMIT_MS);
            unsafe { libc::_exit(3) };
        }
    });
    for_each_case(|l| run(l, t0));
}
