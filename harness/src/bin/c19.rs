//! C19 correspondence harness.
//!  T <addr> <reg|-1> <br 0|1|2> <ctx: - | A v*17> <kind 0|1> <n> (a b p)*n <op 0..3>
//!      direct call of bitflip::try_bit_flips (guarded hook verif_hooks)
//!  P <cpu 0 x86|1 amd64|2 arm64> <os 0 windows|1 linux> <code> <nparams> <info0> <info1> <excaddr>
//!    <ctx: - | A v*17> <instr hex|-> <kind> <n> (a b p)*n
//!      whole process_minidump on a synthesized dump
//!  Q <arch: processor_architecture> <os> <code> <exception_flags> <nparams> <info0> <info1> <excaddr>
//!    <ctx> <bytes at rip hex|-> <stack bytes at rsp hex|-> <decoded: D lea memsize implicit ipk ipv n (base index scale disp)*n | U | ->
//!    <kind> <n> (a b p)*n
//!      whole process_minidump; answer = adjusted#flips#accesses#ipupdate (adjusted = none | nc:<addr> | null:<offset>;
//!      accesses = -2 no analysis | -1 undetermined | addr:nullflag,...; ipupdate = -2 | -1 | 0 none | 1:addr:nullflag)
//! answer: [prefix#]flip,flip,...   flip = addr:reg:nc:null:low:nearby:poison:confbits
use minidump::format as md;
use minidump::*;
use minidump_processor::verif_hooks::{try_bit_flips, BitRange};
use minidump_processor::memory_operation::MemoryOperation;
use minidump_processor::{AdjustedAddress, PossibleBitFlip};
use minidump_synth::*;
use test_assembler::{Section, Label, LabelMaker};
use test_assembler::Endian as TEndian;
use vharness::*;

const AMD64_REGS: [&str; 17] = [
    "rax", "rdx", "rcx", "rbx", "rsi", "rdi", "rbp", "rsp", "r8", "r9", "r10", "r11", "r12", "r13", "r14", "r15", "rip",
];

fn fmt_flips(v: &[PossibleBitFlip]) -> String {
    v.iter()
        .map(|f| {
            let reg = f
                .source_register
                .map(|r| AMD64_REGS.iter().position(|x| *x == r).map(|i| i as i64).unwrap_or(99))
                .unwrap_or(-1);
            format!(
                "{}:{}:{}:{}:{}:{}:{}:{}",
                f.address.0,
                reg,
                f.details.was_non_canonical as u8,
                f.details.is_null as u8,
                f.details.was_low as u8,
                f.details.nearby_registers,
                f.details.poison_registers as u8,
                f.confidence.map(|c| c.to_bits() as i64).unwrap_or(-1)
            )
        })
        .collect::<Vec<_>>()
        .join(",")
}

fn meminfo_bytes(regs: &[(u64, u64, u64)]) -> Vec<u8> {
    let mut bytes: Vec<u8> = vec![];
    bytes.extend_from_slice(&16u32.to_le_bytes());
    bytes.extend_from_slice(&48u32.to_le_bytes());
    bytes.extend_from_slice(&(regs.len() as u64).to_le_bytes());
    for &(b, s, p) in regs {
        bytes.extend_from_slice(&b.to_le_bytes());
        bytes.extend_from_slice(&b.to_le_bytes());
        bytes.extend_from_slice(&0u32.to_le_bytes());
        bytes.extend_from_slice(&0u32.to_le_bytes());
        bytes.extend_from_slice(&s.to_le_bytes());
        bytes.extend_from_slice(&0u32.to_le_bytes());
        bytes.extend_from_slice(&(p as u32).to_le_bytes());
        bytes.extend_from_slice(&0u32.to_le_bytes());
        bytes.extend_from_slice(&0u32.to_le_bytes());
    }
    bytes
}

fn maps_text(regs: &[(u64, u64, u64)]) -> String {
    let mut text = String::new();
    for (i, &(lo, hi, p)) in regs.iter().enumerate() {
        text.push_str(&format!(
            "{:x}-{:x} {}{}{}p 00000000 00:00 {} /m{}\n",
            lo,
            hi,
            if p & 4 != 0 { 'r' } else { '-' },
            if p & 2 != 0 { 'w' } else { '-' },
            if p & 1 != 0 { 'x' } else { '-' },
            i,
            i
        ));
    }
    text
}

fn amd64_ctx(vals: &[u64]) -> md::CONTEXT_AMD64 {
    use minidump::CpuContext;
    let mut c: md::CONTEXT_AMD64 = unsafe { std::mem::zeroed() };
    c.context_flags = 0x10001f;
    for (i, r) in AMD64_REGS.iter().enumerate() {
        c.set_register(r, vals[i]).unwrap();
    }
    c
}

fn amd64_ctx_section(vals: &[u64]) -> Section {
    let g = |n: &str| vals[AMD64_REGS.iter().position(|x| *x == n).unwrap()];
    let mut s = Section::with_endian(TEndian::Little)
        .append_repeated(0, 8 * 6)
        .D32(0x10001f)
        .D32(0)
        .append_repeated(0, 2 * 6)
        .D32(0)
        .append_repeated(0, 8 * 6);
    for n in ["rax", "rcx", "rdx", "rbx", "rsp", "rbp", "rsi", "rdi", "r8", "r9", "r10", "r11", "r12", "r13", "r14", "r15", "rip"] {
        s = s.D64(g(n));
    }
    s.append_repeated(0, 512).append_repeated(0, 16 * 26).append_repeated(0, 8 * 6)
}

/// raw CONTEXT_PPC64: flags, srr0, srr1, gpr[32], cr, xer, lr, ctr, vrsave, float_save (264 bytes), vector_save (576 bytes)
fn ppc64_ctx_section(vals: &[u64]) -> Section {
    let mut s = Section::with_endian(TEndian::Little).D64(0x0100_0001);
    for v in vals.iter().take(39) {
        s = s.D64(*v);
    }
    s.append_repeated(0, 264).append_repeated(0, 576)
}

/// raw context of a 32-bit architecture (all registers 0 except pc / sp), as the bytes the exception stream points at:
/// CONTEXT_MIPS / CONTEXT_SPARC (u64 register fields although the platforms are 32-bit), CONTEXT_PPC, CONTEXT_ARM
fn native32_ctx_section(arch: u16, pc: u64, sp: u64) -> Option<Section> {
    use scroll::ctx::SizeWith;
    use scroll::Pwrite;
    fn ser<T: scroll::ctx::TryIntoCtx<scroll::Endian, Error = scroll::Error> + SizeWith<scroll::Endian>>(c: T) -> Section {
        let mut buf = vec![0u8; T::size_with(&scroll::LE)];
        buf.pwrite_with(c, 0, scroll::LE).expect("serialize context");
        Section::with_endian(TEndian::Little).append_bytes(&buf)
    }
    match arch {
        1 => {
            let mut c: md::CONTEXT_MIPS = unsafe { std::mem::zeroed() };
            c.context_flags = 0x40007;
            c.iregs[29] = sp;
            c.epc = pc;
            Some(ser(c))
        }
        0x8001 => {
            let mut c: md::CONTEXT_SPARC = unsafe { std::mem::zeroed() };
            c.context_flags = 0x1000_0007;
            c.g_r[14] = sp;
            c.pc = pc;
            Some(ser(c))
        }
        3 => {
            let mut c: md::CONTEXT_PPC = unsafe { std::mem::zeroed() };
            c.context_flags = 0x2000_0007;
            c.gpr[1] = sp as u32;
            c.srr0 = pc as u32;
            Some(ser(c))
        }
        5 => {
            let mut c: md::CONTEXT_ARM = unsafe { std::mem::zeroed() };
            c.context_flags = 0x4000_0007;
            c.iregs[13] = sp as u32;
            c.iregs[15] = pc as u32;
            Some(ser(c))
        }
        _ => None,
    }
}

fn parse_ctx(t: &mut Toks) -> Option<Vec<u64>> {
    match t.str() {
        "-" => None,
        // the raw context of the dump's own (32-bit) architecture: pc sp — Q cases only
        "N" => Some((0..2).map(|_| t.u64()).collect()),
        "A" => Some((0..17).map(|_| t.u64()).collect()),
        // x86 context (register_size 4): eip esp ebp ebx esi edi eax ecx edx eflags — T cases only
        "X" => Some((0..10).map(|_| t.u64()).collect()),
        // arm64 context (33 registers x0..x28 fp lr sp pc) — T cases only
        "R" => Some((0..33).map(|_| t.u64()).collect()),
        // ppc64 context (Q cases): srr0 srr1 r0..r31 cr xer lr ctr vrsave
        "W" => Some((0..39).map(|_| t.u64()).collect()),
        // amd64 context in which only the registers of the bit mask are valid: 18 values = mask, then the 17 registers
        "V" => Some((0..18).map(|_| t.u64()).collect()),
        x => panic!("ctx {}", x),
    }
}

const ARM64_REGS: [&str; 33] = [
    "x0", "x1", "x2", "x3", "x4", "x5", "x6", "x7", "x8", "x9", "x10", "x11", "x12", "x13", "x14", "x15", "x16", "x17", "x18",
    "x19", "x20", "x21", "x22", "x23", "x24", "x25", "x26", "x27", "x28", "fp", "lr", "sp", "pc",
];

fn arm64_ctx(vals: &[u64]) -> md::CONTEXT_ARM64 {
    use minidump::CpuContext;
    let mut c: md::CONTEXT_ARM64 = unsafe { std::mem::zeroed() };
    for (i, r) in ARM64_REGS.iter().enumerate() {
        c.set_register(r, vals[i]).unwrap();
    }
    c
}

const X86_REGS: [&str; 10] = ["eip", "esp", "ebp", "ebx", "esi", "edi", "eax", "ecx", "edx", "eflags"];

fn x86_ctx(vals: &[u64]) -> md::CONTEXT_X86 {
    use minidump::CpuContext;
    let mut c: md::CONTEXT_X86 = unsafe { std::mem::zeroed() };
    c.context_flags = 0x1003f;
    for (i, r) in X86_REGS.iter().enumerate() {
        c.set_register(r, vals[i] as u32).unwrap();
    }
    c
}

fn parse_regions(t: &mut Toks) -> (u64, Vec<(u64, u64, u64)>) {
    let kind = t.u64();
    let n = t.usize();
    (kind, (0..n).map(|_| (t.u64(), t.u64(), t.u64())).collect())
}

/// synthesize a dump and run process_minidump on it: (crash address, adjusted address, reason, flips)
#[allow(clippy::too_many_arguments)]
fn run_dump(
    arch: u16,
    os: u64,
    code: u32,
    flags: u32,
    nparams: u32,
    info0: u64,
    info1: u64,
    excaddr: u64,
    ctxv: Option<Vec<u64>>,
    instr: &[u8],
    stack_bytes: &[u8],
    kind: u64,
    regs: &[(u64, u64, u64)],
) -> (u64, String, String, String, String) {
    let e = TEndian::Little;
    let vals = ctxv.clone().unwrap_or(vec![0; 17]);
    let native = vals.len() == 2;
    let rip = if native { vals[0] } else { vals[16] };
    let rsp = if native { vals[1] } else { vals[7] };
    let native_ctx = if native { native32_ctx_section(arch, rip, rsp) } else { None };
    let context = if let Some(c) = native_ctx {
        c
    } else if arch == md::ProcessorArchitecture::PROCESSOR_ARCHITECTURE_PPC64 as u16 && vals.len() == 39 {
        ppc64_ctx_section(&vals)
    } else if arch == md::ProcessorArchitecture::PROCESSOR_ARCHITECTURE_AMD64 as u16 {
        amd64_ctx_section(&vals)
    } else if arch == md::ProcessorArchitecture::PROCESSOR_ARCHITECTURE_ARM64 as u16 {
        arm64_context(e, rip, rsp)
    } else {
        x86_context(e, rip as u32, rsp as u32)
    };
    let stack = if stack_bytes.is_empty() {
        Memory::with_section(Section::with_endian(e), 0)
    } else {
        Memory::with_section(Section::with_endian(e).append_bytes(stack_bytes), rsp)
    };
    let thread = Thread::new(e, 1, &stack, &context);
    let system_info = SystemInfo::new(e)
        .set_processor_architecture(arch)
        .set_platform_id(match os {
            0 => 2,      // Windows (VER_PLATFORM_WIN32_WINDOWS)
            1 => 0x8201, // Linux
            2 => 0x8101, // macOS
            3 => 0x8202, // Solaris: an OS the GPF test does not know
            4 => 0x8203, // Android: Linux-style reasons, but not Os::Linux
            5 => 0x8102, // iOS: mac-style reasons, but not Os::MacOs
            6 => 3,      // Windows NT
            _ => 0x8202,
        });
    let ctx_label = context.file_offset();
    let ctx_size = context.file_size();
    let mut dump = SynthMinidump::with_endian(e).add(context);
    let mut ex = Exception::new(e);
    ex.thread_id = 1;
    ex.exception_record.exception_code = code;
    ex.exception_record.exception_flags = flags;
    ex.exception_record.exception_address = excaddr;
    ex.exception_record.number_parameters = nparams;
    ex.exception_record.exception_information[0] = info0;
    ex.exception_record.exception_information[1] = info1;
    if ctxv.is_some() {
        ex.thread_context = (ctx_size.value().unwrap() as u32, ctx_label.value().unwrap() as u32);
    }
    dump = dump.add_thread(thread).add_exception(ex).add_system_info(system_info).add_memory(stack);
    if !instr.is_empty() {
        dump = dump.add_memory(Memory::with_section(Section::with_endian(e).append_bytes(instr), rip));
    }
    if kind == 0 {
        for &(b, s, p) in regs {
            dump = dump.add_memory_info(MemoryInfo::new(e, b, b, 0, s, 0, p as u32, 0));
        }
    } else {
        dump = dump.set_linux_maps(maps_text(regs).as_bytes());
    }
    let bytes = dump.finish().unwrap();
    let md = Minidump::read(bytes).expect("read");
    let rt = tokio::runtime::Builder::new_current_thread().build().unwrap();
    let provider = minidump_unwind::Symbolizer::new(minidump_unwind::simple_symbol_supplier(vec![]));
    let state = rt.block_on(minidump_processor::process_minidump(&md, &provider)).expect("process");
    let ei = state.exception_info.expect("exception info");
    let adj = match &ei.adjusted_address {
        None => "none".to_string(),
        Some(AdjustedAddress::NonCanonical(a)) => format!("nc:{}", a.0),
        Some(AdjustedAddress::NullPointerWithOffset(o)) => format!("null:{}", o.0),
    };
    // the instruction analysis as the processed state shows it: accesses (address:null flag) and the
    // instruction-pointer update (its type lives in a private module: read it off the Debug form)
    let acc = if ei.instruction_str.is_none() {
        "-2".to_string()
    } else {
        match &ei.memory_access_list {
            None => "-1".to_string(),
            Some(l) => l
                .accesses
                .iter()
                .map(|a| format!("{}:{}", a.address_info.address, a.address_info.is_likely_null_pointer_dereference as u8))
                .collect::<Vec<_>>()
                .join(","),
        }
    };
    let ipd = format!("{:?}", ei.instruction_pointer_update);
    let ip = if ei.instruction_str.is_none() {
        "-2".to_string()
    } else if ipd == "None" {
        "-1".to_string()
    } else if ipd == "Some(NoUpdate)" {
        "0".to_string()
    } else {
        let num = |key: &str| -> String {
            let i = ipd.find(key).unwrap_or_else(|| panic!("ip update debug form: {}", ipd)) + key.len();
            ipd[i..].chars().take_while(|c| c.is_ascii_alphanumeric()).collect()
        };
        format!("1:{}:{}", num("address: "), if num("is_likely_null_pointer_dereference: ") == "true" { 1 } else { 0 })
    };
    (ei.address.0, adj, format!("{}", ei.reason), fmt_flips(&ei.possible_bit_flips), format!("{}#{}", acc, ip))
}

fn run(line: &str) -> String {
    let mut t = Toks::new(line);
    match t.str() {
        "T" => {
            let a = t.u64();
            let reg = t.i64();
            let br = match t.u64() {
                0 => BitRange::Amd64Canononical,
                1 => BitRange::Amd64NonCanonical,
                _ => BitRange::All,
            };
            let ctxv = parse_ctx(&mut t);
            let (kind, regs) = parse_regions(&mut t);
            let op = match t.u64() {
                1 => MemoryOperation::Read,
                2 => MemoryOperation::Write,
                3 => MemoryOperation::Execute,
                _ => MemoryOperation::Undetermined,
            };
            let ctx = ctxv.map(|v| match v.len() {
                10 => MinidumpContext { raw: MinidumpRawContext::X86(x86_ctx(&v)), valid: MinidumpContextValidity::All },
                33 => MinidumpContext { raw: MinidumpRawContext::Arm64(arm64_ctx(&v)), valid: MinidumpContextValidity::All },
                18 => MinidumpContext {
                    raw: MinidumpRawContext::Amd64(amd64_ctx(&v[1..])),
                    valid: MinidumpContextValidity::Some(
                        AMD64_REGS.iter().enumerate().filter(|(i, _)| v[0] >> i & 1 == 1).map(|(_, r)| *r).collect(),
                    ),
                },
                _ => MinidumpContext { raw: MinidumpRawContext::Amd64(amd64_ctx(&v)), valid: MinidumpContextValidity::All },
            });
            let info_bytes = meminfo_bytes(&regs);
            let maps = maps_text(&regs);
            let list = if kind == 0 {
                UnifiedMemoryInfoList::Info(MinidumpMemoryInfoList::read(&info_bytes, &info_bytes, scroll::LE, None).expect("meminfo"))
            } else {
                UnifiedMemoryInfoList::Maps(MinidumpLinuxMaps::read(maps.as_bytes(), maps.as_bytes(), scroll::LE, None).expect("maps"))
            };
            let src = if reg < 0 { None } else { Some(AMD64_REGS[reg as usize]) };
            let flips = try_bit_flips(a, src, br, ctx.as_ref(), &list, op);
            fmt_flips(&flips)
        }
        "P" => {
            let cpu = t.u64();
            let os = t.u64();
            let code = t.u64() as u32;
            let nparams = t.u64() as u32;
            let info0 = t.u64();
            let info1 = t.u64();
            let excaddr = t.u64();
            let ctxv = parse_ctx(&mut t);
            let instr = unhex(t.str());
            let (kind, regs) = parse_regions(&mut t);
            let arch = match cpu {
                0 => md::ProcessorArchitecture::PROCESSOR_ARCHITECTURE_INTEL as u16,
                1 => md::ProcessorArchitecture::PROCESSOR_ARCHITECTURE_AMD64 as u16,
                _ => md::ProcessorArchitecture::PROCESSOR_ARCHITECTURE_ARM64 as u16,
            };
            let (address, adj, reason, flips, _analysis) = run_dump(arch, os, code, 0, nparams, info0, info1, excaddr, ctxv, &instr, &[], kind, &regs);
            format!("{}/{}/{}#{}", address, adj, reason, flips)
        }
        "Q" => {
            let arch = t.u64() as u16;
            let os = t.u64();
            let code = t.u64() as u32;
            let flags = t.u64() as u32;
            let nparams = t.u64() as u32;
            let info0 = t.u64();
            let info1 = t.u64();
            let excaddr = t.u64();
            let ctxv = parse_ctx(&mut t);
            let instr = unhex(t.str());
            let stack_bytes = unhex(t.str());
            // the decoded form is for the model only: D <lea> <memsize> <implicit> <ipk> <ipv> <n> (b i s d)*n | U | -
            match t.str() {
                "D" => {
                    for _ in 0..5 {
                        t.str();
                    }
                    let n = t.usize();
                    for _ in 0..4 * n {
                        t.str();
                    }
                }
                "U" | "-" => {}
                x => panic!("dec {}", x),
            }
            let (kind, regs) = parse_regions(&mut t);
            let (_address, adj, _reason, flips, analysis) =
                run_dump(arch, os, code, flags, nparams, info0, info1, excaddr, ctxv, &instr, &stack_bytes, kind, &regs);
            return format!("{}#{}#{}", adj, flips, analysis);
            #[allow(unreachable_code)]
            format!("{}#{}", adj, flips)
        }
        x => panic!("kind {}", x),
    }
}

fn main() {
    for_each_case(run);
}
