//! C15 correspondence harness: process a synthesized dump (the C14 generator, plus hostile names
//! and symbol files), call the real `ProcessState::print_json` (compact and pretty) and print
//!   F <facts of the ProcessState's public fields>\tV <view of the real JSON, compact>\tJ <hex compact bytes>\tP <hex pretty bytes>\tC <f32::to_bits of each bit flip's confidence>\tQ <hex pretty view>
//!
//! case: <C14 case> X TN <k> {hex}*k MN <m> {hex}*m UN <u> {hex}*u SYM <q> {modidx hex}*q
//!   TN thread names (N entry j uses TN[j % k]); MN / UN code_file of module / unloaded module i
//!   (default name when the list is shorter); hex = UTF-8 bytes, "-" = empty; the pair U+E123 U+E124
//!   in a name becomes a lone high surrogate + 'A' in the dump's UTF-16 (lossy decoding);
//!   SYM = breakpad symbol file text for module modidx.
//!   optional tail: INS <hex|-> REGS <0|16> {u64}* MINFO <k> {base size prot}*k CPUINFO <hex|-> LSB <hex|->
//!   INS = instruction bytes planted in a memory region at the exception's ip; REGS = amd64 registers of the
//!   exception context (rax rcx rdx rbx rsp rbp rsi rdi r8..r15); MINFO = memory-info entries; CPUINFO / LSB =
//!   text of the Linux cpuinfo / lsb-release streams; then LIMITS <hex|-> SOFT <hex|-> MAPS <hex|-> = text of the
//!   /proc/self/limits, soft-errors (JSON) and /proc/self/maps streams; then RAW <k> {addr hex}*k = further raw memory regions,
//!   HANDLES <n> {handle type-hex name-hex}*n = handle data stream, BOOTARGS <hex|-> = macOS boot-args stream.
//!   optional last section: ST <k> {directive}*k = overrides applied to the ProcessState after processing and before
//!   print_json / facts (hex = UTF-8 bytes, "-" = empty string or None as stated):
//!     assert <hex> | cert <hex name> <hex subject> | stat <hex name> <url hex|-> <loaded 0|1> <corrupt 0|1> <debug_file hex|-> <breakpad id|->
//!     | req <n|-> | trust <t> <f> <0..6> | lasterr <t> <u32> | mac <n> {<thread> <dialog_mode> <abort_cause> <module hex|-> <message hex|->
//!     <signature hex|-> <backtrace hex|-> <message2 hex|->}*n | limit <hex name> <e|u|n> <e|u|n> <hex unit|-> | pid <n|->
//!     | inl <t> <f> <hex function> <hex file|-> <line n|-> | nobootargs
//!   V = the whole parsed document re-rendered by serde_json::to_string minus the confidence of every
//!   crash_info.possible_bit_flips element (and minus the top-level member soft_errors when the state's value holds a
//!   float, which the model's JSON numbers do not have: fact `SOFT x`); Q = hex of the same value re-rendered by
//!   serde_json::to_string_pretty (equal to P whenever nothing was removed).
#[path = "c14.rs"]
#[allow(dead_code)]
mod c14;

use minidump::system_info::PointerWidth;
use minidump::*;
use serde_json::Value;
use std::collections::HashMap;
use vharness::*;

fn hexstr(s: &str) -> String {
    if s.is_empty() {
        return "s".into();
    }
    format!("s{}", s.chars().map(|c| format!("{:x}", c as u32)).collect::<Vec<_>>().join("."))
}
fn ostr(s: Option<&str>) -> String {
    s.map(hexstr).unwrap_or("-".into())
}
fn onum<T: std::fmt::Display>(v: Option<T>) -> String {
    v.map(|x| x.to_string()).unwrap_or("-".into())
}
fn utf8_arg(t: &str) -> String {
    String::from_utf8(unhex(t)).expect("utf8 in case")
}
fn lossy(name: &str) -> String {
    name.replace("\u{E123}\u{E124}", "\u{FFFD}A")
}

fn facts(state: &minidump_processor::ProcessState) -> String {
    let mut f: Vec<String> = vec![];
    f.push(format!(
        "W {}",
        match state.system_info.cpu.pointer_width() {
            PointerWidth::Bits32 => 0,
            PointerWidth::Bits64 => 1,
            PointerWidth::Unknown => 2,
        }
    ));
    f.push(format!("PID {}", onum(state.process_id)));
    f.push(format!("REQ {}", onum(state.requesting_thread)));
    match &state.exception_info {
        Some(ei) => {
            f.push(format!("CRASH {} {}", hexstr(&ei.reason.to_string()), ei.address.0));
            f.push(match &ei.adjusted_address {
                None => "ADJ -".to_string(),
                Some(minidump_processor::AdjustedAddress::NonCanonical(a)) => format!("ADJ nc {}", a.0),
                Some(minidump_processor::AdjustedAddress::NullPointerWithOffset(o)) => format!("ADJ null {}", o.0),
            });
            f.push(format!("INSTR {}", ostr(ei.instruction_str.as_deref())));
            let ty = |d: String| match d.as_str() {
                "Read" => 0,
                "Write" => 1,
                "ReadWrite" => 2,
                _ => 3,
            };
            match &ei.memory_access_list {
                None => f.push("ACC -".into()),
                Some(l) => {
                    f.push(format!("ACC {}", l.accesses.len()));
                    for a in &l.accesses {
                        f.push(format!(
                            "{} {} {} {}",
                            a.address_info.address,
                            onum(a.size),
                            a.address_info.is_likely_guard_page as u8,
                            ty(format!("{:?}", a.access_type))
                        ));
                    }
                }
            }
            f.push(match &ei.instruction_pointer_update {
                None => "IPU -".to_string(),
                Some(u) => {
                    let d = format!("{:?}", u);
                    if d.starts_with("NoUpdate") {
                        "IPU none".to_string()
                    } else {
                        // Update { address_info: MemoryAddressInfo { address: N, .., is_likely_guard_page: B } }
                        let after = |key: &str| d.split(key).nth(1).unwrap().to_string();
                        let addr: String = after(" address: ").chars().take_while(|c| c.is_ascii_digit()).collect();
                        let guard = after("is_likely_guard_page: ").starts_with("true");
                        format!("IPU upd {} {}", addr, guard as u8)
                    }
                }
            });
            f.push(format!("FLIPS {}", ei.possible_bit_flips.len()));
            for b in &ei.possible_bit_flips {
                f.push(format!(
                    "{} {} {} {} {} {} {}",
                    b.address.0,
                    ostr(b.source_register),
                    b.details.was_non_canonical as u8,
                    b.details.is_null as u8,
                    b.details.was_low as u8,
                    b.details.nearby_registers,
                    b.details.poison_registers as u8
                ));
            }
            f.push(format!("INC {}", ei.inconsistencies.len()));
            for i in &ei.inconsistencies {
                f.push(
                    match format!("{:?}", i).as_str() {
                        "IntDivByZeroNotPossible" => 0,
                        "PrivInstructionCrashWithoutPrivInstruction" => 1,
                        "NonCanonicalAddressFalselyReported" => 2,
                        "AccessViolationWhenAccessAllowed" => 3,
                        _ => 4,
                    }
                    .to_string(),
                );
            }
        }
        None => f.push("CRASH -".into()),
    }
    {
        use minidump::system_info::{Cpu, Os};
        let sys = &state.system_info;
        let (osi, osraw) = match sys.os {
            Os::Windows => (0, 0),
            Os::MacOs => (1, 0),
            Os::Ios => (2, 0),
            Os::Linux => (3, 0),
            Os::Solaris => (4, 0),
            Os::Android => (5, 0),
            Os::Ps3 => (6, 0),
            Os::NaCl => (7, 0),
            Os::Unknown(v) => (8, v),
        };
        let cpui = match sys.cpu {
            Cpu::X86 => 0,
            Cpu::X86_64 => 1,
            Cpu::Ppc => 2,
            Cpu::Ppc64 => 3,
            Cpu::Sparc => 4,
            Cpu::Arm => 5,
            Cpu::Arm64 => 6,
            Cpu::Mips => 7,
            Cpu::Mips64 => 8,
            _ => 9,
        };
        f.push(format!(
            "SYS {} {} {} {} {} {} {}",
            osi,
            osraw,
            ostr(sys.format_os_version().as_deref()),
            cpui,
            ostr(sys.cpu_info.as_deref()),
            sys.cpu_count,
            onum(sys.cpu_microcode_version)
        ));
        match &state.linux_standard_base {
            Some(l) => f.push(format!("LSB {} {} {} {}", hexstr(&l.id), hexstr(&l.release), hexstr(&l.codename), hexstr(&l.description))),
            None => f.push("LSB -".into()),
        }
        f.push(format!("MAPC {}", onum(state.linux_memory_map_count)));
    }
    f.push(format!("CERTS {}", state.cert_info.len()));
    // sorted by name: the F field stays the same from run to run (HashMap iteration order is per-process random)
    let mut certs: Vec<(&String, &String)> = state.cert_info.iter().collect();
    certs.sort();
    for (name, subject) in certs {
        f.push(format!("{} {}", hexstr(name), hexstr(subject)));
    }
    f.push(format!("STATS {}", state.symbol_stats.len()));
    let mut stats: Vec<(&String, &minidump_unwind::SymbolStats)> = state.symbol_stats.iter().collect();
    stats.sort_by(|a, b| a.0.cmp(b.0));
    for (name, st) in stats {
        f.push(format!(
            "{} {} {} {} {}",
            hexstr(name),
            ostr(st.symbol_url.as_deref()),
            st.loaded_symbols as u8,
            st.corrupt_symbols as u8,
            match &st.extra_debug_info {
                Some(info) => format!("X {} {}", hexstr(&info.debug_file), hexstr(&info.debug_identifier.breakpad().to_string())),
                None => "-".to_string(),
            }
        ));
    }
    f.push(format!("ASSERT {}", ostr(state.assertion.as_deref())));
    match &state.linux_proc_limits {
        None => f.push("LIMITS -".into()),
        Some(l) => {
            let lim = |x: &minidump_processor::Limit| match x {
                minidump_processor::Limit::Error => "e".to_string(),
                minidump_processor::Limit::Unlimited => "u".to_string(),
                minidump_processor::Limit::Limited(n) => n.to_string(),
            };
            f.push(format!("LIMITS {}", l.limits.len()));
            for (name, v) in &l.limits {
                f.push(format!("{} {} {} {}", hexstr(name), lim(&v.soft), lim(&v.hard), hexstr(&v.unit)));
            }
        }
    }
    match &state.mac_crash_info {
        None => f.push("MAC -".into()),
        Some(recs) => {
            f.push(format!("MAC {}", recs.len()));
            for r in recs {
                f.push(format!(
                    "{} {} {} {} {} {} {} {}",
                    onum(r.thread().copied()),
                    onum(r.dialog_mode().copied()),
                    onum(r.abort_cause().copied()),
                    ostr(r.module_path()),
                    ostr(r.message()),
                    ostr(r.signature_string()),
                    ostr(r.backtrace()),
                    ostr(r.message2())
                ));
            }
        }
    }
    f.push(format!("BOOT {}", ostr(state.mac_boot_args.as_ref().and_then(|b| b.bootargs.as_deref()))));
    match &state.handles {
        None => f.push("HANDLES -".into()),
        Some(hs) => {
            f.push(format!("HANDLES {}", hs.iter().count()));
            for h in hs.iter() {
                f.push(format!("{} {} {}", onum(h.raw.handle().copied()), ostr(h.type_name.as_deref()), ostr(h.object_name.as_deref())));
            }
        }
    }
    // soft_errors: the parsed MozSoftErrors stream, as the UTF-8 bytes of its compact rendering (x = it holds a float)
    f.push(match &state.soft_errors {
        None => "SOFT -".to_string(),
        Some(v) if has_float(v) => "SOFT x".to_string(),
        Some(v) => format!("SOFT h{}", hex(serde_json::to_string(v).unwrap().as_bytes())),
    });
    f.push(format!("TH {}", state.threads.len()));
    for t in &state.threads {
        f.push(format!(
            "{} {} {} NF {}",
            t.thread_id,
            ostr(t.thread_name.as_deref()),
            ostr(t.last_error_value.map(|e| e.to_string()).as_deref()),
            t.frames.len()
        ));
        for fr in &t.frames {
            f.push(fr.instruction.to_string());
            match &fr.module {
                Some(m) => f.push(format!("{} {}", hexstr(&m.name), m.raw.base_of_image)),
                None => f.push("-".into()),
            }
            f.push(ostr(fr.function_name.as_deref()));
            f.push(onum(fr.function_base));
            f.push(ostr(fr.source_file_name.as_deref()));
            f.push(onum(fr.source_line));
            f.push(
                match fr.trust {
                    minidump_unwind::FrameTrust::None => 0,
                    minidump_unwind::FrameTrust::Scan => 1,
                    minidump_unwind::FrameTrust::CfiScan => 2,
                    minidump_unwind::FrameTrust::FramePointer => 3,
                    minidump_unwind::FrameTrust::CallFrameInfo => 4,
                    minidump_unwind::FrameTrust::PreWalked => 5,
                    minidump_unwind::FrameTrust::Context => 6,
                }
                .to_string(),
            );
            f.push(format!("UNL {}", fr.unloaded_modules.len()));
            for (name, offs) in &fr.unloaded_modules {
                let mut toks = vec![hexstr(name), "K".to_string(), offs.len().to_string()];
                toks.extend(offs.iter().map(|o| o.to_string()));
                f.push(toks.join(" "));
            }
            f.push(format!("INL {}", fr.inlines.len()));
            for i in &fr.inlines {
                f.push(format!("{} {} {}", hexstr(&i.function_name), ostr(i.source_file_name.as_deref()), onum(i.source_line)));
            }
        }
    }
    // registers of the requesting thread's frame 0, sorted by name (serde_json's Map is a BTreeMap)
    let mut regs: Vec<(String, u64, usize)> = vec![];
    let mut ctx_kind: i32 = -1;
    if let Some(i) = state.requesting_thread {
        if let Some(fr) = state.threads.get(i).and_then(|t| t.frames.first()) {
            let ctx = &fr.context;
            // raw context kind, in the order of translate/c15_regs.py's REGISTER_TABLES
            ctx_kind = match ctx.raw {
                MinidumpRawContext::X86(_) => 0,
                MinidumpRawContext::Amd64(_) => 1,
                MinidumpRawContext::Arm(_) => 2,
                MinidumpRawContext::OldArm64(_) => 3,
                MinidumpRawContext::Arm64(_) => 4,
                MinidumpRawContext::Ppc(_) => 5,
                MinidumpRawContext::Ppc64(_) => 6,
                MinidumpRawContext::Mips(_) => 7,
                MinidumpRawContext::Sparc(_) => 8,
            };
            for &r in ctx.general_purpose_registers() {
                let valid = match &ctx.valid {
                    MinidumpContextValidity::All => true,
                    MinidumpContextValidity::Some(which) => which.contains(r),
                };
                if valid {
                    let digits = ctx.format_register(r).len() - 2;
                    regs.push((r.to_string(), ctx.get_register_always(r), digits));
                }
            }
        }
    }
    regs.sort();
    regs.dedup_by(|a, b| a.0 == b.0);
    f.push(format!("RK {}", ctx_kind));
    f.push(format!("REGS {}", regs.len()));
    for (n, v, d) in &regs {
        f.push(format!("{} {} {}", hexstr(n), v, d));
    }
    f.push(format!("MODS {}", state.modules.iter().count()));
    for m in state.modules.iter() {
        f.push(format!(
            "{} {} {} {} {} {} {}",
            m.raw.base_of_image,
            m.raw.size_of_image,
            hexstr(&m.code_file()),
            hexstr(&m.debug_file().unwrap_or_default()),
            hexstr(&m.debug_identifier().unwrap_or_default().breakpad().to_string()),
            hexstr(m.code_identifier().unwrap_or_default().as_str()),
            // modules[].version is computed by the model (MinidumpModule::version interpreted from its source) from the raw fields
            format!(
                "{} {} {} {} {} {}",
                m.raw.version_info.signature,
                m.raw.version_info.struct_version,
                m.raw.version_info.file_version_hi,
                m.raw.version_info.file_version_lo,
                m.raw.version_info.product_version_hi,
                m.raw.version_info.product_version_lo
            )
        ));
    }
    f.push(format!("UNLM {}", state.unloaded_modules.iter().count()));
    for m in state.unloaded_modules.iter() {
        f.push(format!(
            "{} {} {} {}",
            m.raw.base_of_image,
            m.raw.size_of_image,
            hexstr(&m.name),
            hexstr(m.code_identifier().unwrap_or_default().as_str())
        ));
    }
    f.join(" ")
}

fn has_float(v: &Value) -> bool {
    match v {
        Value::Number(n) => !(n.is_u64() || n.is_i64()),
        Value::Array(a) => a.iter().any(has_float),
        Value::Object(m) => m.values().any(has_float),
        _ => false,
    }
}

/// The whole parsed document minus the binary32 `confidence` of every reported bit flip (serde_json's float writer;
/// compared separately, field C) and minus `soft_errors` when the state's value holds a float (fact `SOFT x`).
fn view(v: &Value, drop_soft: bool) -> Value {
    let mut o = v.clone();
    if drop_soft {
        if let Some(m) = o.as_object_mut() {
            m.remove("soft_errors");
        }
    }
    if let Some(fl) = o.get_mut("crash_info").and_then(|ci| ci.get_mut("possible_bit_flips")).and_then(|x| x.as_array_mut()) {
        for b in fl {
            if let Some(m) = b.as_object_mut() {
                m.remove("confidence");
            }
        }
    }
    o
}

fn opt_utf8(t: &str) -> Option<String> {
    if t == "-" {
        None
    } else {
        Some(utf8_arg(t))
    }
}
fn opt_num<T: std::str::FromStr>(t: &str) -> Option<T> {
    if t == "-" {
        None
    } else {
        Some(t.parse::<T>().ok().expect("number in ST directive"))
    }
}

/// Apply the `ST` directives to the processed state.
fn apply_overrides(state: &mut minidump_processor::ProcessState, x: &mut Toks) {
    use minidump::format as md;
    use minidump_processor::{Limit, LinuxProcLimit, LinuxProcLimits};
    let k = x.usize();
    for _ in 0..k {
        let d = x.str();
        match d {
            "assert" => state.assertion = Some(utf8_arg(x.str())),
            "cert" => {
                let name = utf8_arg(x.str());
                let subject = utf8_arg(x.str());
                state.cert_info.insert(name, subject);
            }
            "stat" => {
                let name = utf8_arg(x.str());
                let symbol_url = opt_utf8(x.str());
                let loaded_symbols = x.str() == "1";
                let corrupt_symbols = x.str() == "1";
                let dfile = x.str();
                let did = x.str();
                let extra_debug_info = if dfile != "-" {
                    Some(breakpad_symbols::DebugInfoResult {
                        debug_file: utf8_arg(dfile),
                        debug_identifier: if did == "-" {
                            debugid::DebugId::default()
                        } else {
                            debugid::DebugId::from_breakpad(did).expect("breakpad debug id in stat directive")
                        },
                    })
                } else {
                    None
                };
                state.symbol_stats.insert(name, minidump_unwind::SymbolStats { symbol_url, loaded_symbols, corrupt_symbols, extra_debug_info });
            }
            "req" => state.requesting_thread = opt_num::<usize>(x.str()),
            // the VS_FIXEDFILEINFO of module i: signature, struct_version, file_version_hi / lo, product_version_hi / lo
            "ver" => {
                let i = x.usize();
                let vals: Vec<u32> = (0..6).map(|_| x.usize() as u32).collect();
                let mut v: Vec<MinidumpModule> = state.modules.iter().cloned().collect();
                if let Some(m) = v.get_mut(i) {
                    m.raw.version_info.signature = vals[0];
                    m.raw.version_info.struct_version = vals[1];
                    m.raw.version_info.file_version_hi = vals[2];
                    m.raw.version_info.file_version_lo = vals[3];
                    m.raw.version_info.product_version_hi = vals[4];
                    m.raw.version_info.product_version_lo = vals[5];
                    state.modules = MinidumpModuleList::from_modules(v);
                }
            }
            // frame 0 of thread t keeps only the general-purpose registers whose index (in general_purpose_registers() order) is set
            // in the mask: json_registers must list exactly the valid ones
            "valid" => {
                let (t, mask) = (x.usize(), x.usize());
                if let Some(fr) = state.threads.get_mut(t).and_then(|th| th.frames.get_mut(0)) {
                    let names: std::collections::HashSet<&'static str> = fr
                        .context
                        .general_purpose_registers()
                        .iter()
                        .enumerate()
                        .filter(|(i, _)| *i < 60 && (mask >> *i) & 1 == 1)
                        .map(|(_, r)| *r)
                        .collect();
                    fr.context.valid = MinidumpContextValidity::Some(names);
                }
            }
            "trust" => {
                let (t, fi, v) = (x.usize(), x.usize(), x.usize());
                use minidump_unwind::FrameTrust::*;
                let tr = match v {
                    0 => None,
                    1 => Scan,
                    2 => CfiScan,
                    3 => FramePointer,
                    4 => CallFrameInfo,
                    5 => PreWalked,
                    6 => Context,
                    _ => panic!("trust directive: value {} out of 0..6", v),
                };
                if let Some(fr) = state.threads.get_mut(t).and_then(|th| th.frames.get_mut(fi)) {
                    fr.trust = tr;
                }
            }
            "lasterr" => {
                let t = x.usize();
                let code = x.u64() as u32;
                if let Some(th) = state.threads.get_mut(t) {
                    th.last_error_value = Some(CrashReason::from_windows_error(code));
                }
            }
            "mac" => {
                let n = x.usize();
                let mut recs = vec![];
                for _ in 0..n {
                    let (thread, dialog_mode, abort_cause) = (x.u64(), x.u64(), x.u64());
                    let module_path = utf8_arg(x.str());
                    let message = utf8_arg(x.str());
                    let signature_string = utf8_arg(x.str());
                    let backtrace = utf8_arg(x.str());
                    let message2 = utf8_arg(x.str());
                    recs.push(RawMacCrashInfo::V5(
                        md::MINIDUMP_MAC_CRASH_INFO_RECORD_5 {
                            stream_type: md::MINIDUMP_STREAM_TYPE::MozMacosCrashInfoStream as u64,
                            version: 5,
                            thread,
                            dialog_mode,
                            abort_cause,
                        },
                        md::MINIDUMP_MAC_CRASH_INFO_RECORD_STRINGS_5 { module_path, message, signature_string, backtrace, message2 },
                    ));
                }
                state.mac_crash_info = Some(recs);
            }
            "limit" => {
                let name = utf8_arg(x.str());
                let lim = |t: &str| match t {
                    "e" => Limit::Error,
                    "u" => Limit::Unlimited,
                    n => Limit::Limited(n.parse::<u64>().expect("limit value")),
                };
                let soft = lim(x.str());
                let hard = lim(x.str());
                let unit = utf8_arg(x.str());
                state
                    .linux_proc_limits
                    .get_or_insert_with(|| LinuxProcLimits { limits: HashMap::new() })
                    .limits
                    .insert(name, LinuxProcLimit { soft, hard, unit });
            }
            "pid" => state.process_id = opt_num::<u32>(x.str()),
            "inl" => {
                let (t, fi) = (x.usize(), x.usize());
                let function_name = utf8_arg(x.str());
                let source_file_name = opt_utf8(x.str());
                let source_line = opt_num::<u32>(x.str());
                if let Some(fr) = state.threads.get_mut(t).and_then(|th| th.frames.get_mut(fi)) {
                    fr.inlines.push(minidump_unwind::InlineFrame { function_name, source_file_name, source_line });
                }
            }
            // deep thread: thread t gets exactly n frames (cheap synthetic frames: the last frame repeated; fewer: truncated; a thread
            // without frames stays empty) - the walker has no frame limit, so runaway recursion gives such states
            "deep" => {
                let (t, n) = (x.usize(), x.usize());
                if let Some(th) = state.threads.get_mut(t) {
                    if n < th.frames.len() {
                        th.frames.truncate(n);
                    } else if let Some(last) = th.frames.last().cloned() {
                        while th.frames.len() < n {
                            th.frames.push(last.clone());
                        }
                    }
                }
            }
            "nobootargs" => {
                if let Some(b) = state.mac_boot_args.as_mut() {
                    b.bootargs = None;
                }
            }
            other => panic!("unknown ST directive {:?}", other),
        }
    }
    if let Some(extra) = x.opt() {
        panic!("trailing token {:?} after the ST section", extra);
    }
}

fn run(line: &str) -> String {
    let (base, ext) = line.split_once(" X ").expect("X section");
    // the token ST cannot occur elsewhere in the X section (keywords, numbers and lower-case hex only)
    let (ext, st_section) = match ext.split_once(" ST ") {
        Some((a, b)) => (a, Some(b)),
        None => (ext, None),
    };
    let mut t = Toks::new(base);
    let mut c = c14::parse_case(&mut t);
    let mut x = Toks::new(ext);
    c14::expect_tok(&mut x, "TN");
    let k = x.usize();
    let tn: Vec<String> = (0..k).map(|_| utf8_arg(x.str())).collect();
    c14::expect_tok(&mut x, "MN");
    let m = x.usize();
    let mn: Vec<String> = (0..m).map(|_| utf8_arg(x.str())).collect();
    c14::expect_tok(&mut x, "UN");
    let u = x.usize();
    let un: Vec<String> = (0..u).map(|_| utf8_arg(x.str())).collect();
    c14::expect_tok(&mut x, "SYM");
    let q = x.usize();
    let syms: Vec<(usize, String)> = (0..q).map(|_| (x.usize(), utf8_arg(x.str()))).collect();
    if let Some(tok) = x.opt() {
        assert!(tok == "INS");
        let ins = unhex(x.str());
        c14::expect_tok(&mut x, "REGS");
        let nr = x.usize();
        let regs: Vec<u64> = (0..nr).map(|_| x.u64()).collect();
        c14::expect_tok(&mut x, "MINFO");
        let nm = x.usize();
        for _ in 0..nm {
            c.mem_infos.push((x.u64(), x.u64(), x.u64() as u32));
        }
        c14::expect_tok(&mut x, "CPUINFO");
        let cpuinfo = unhex(x.str());
        c14::expect_tok(&mut x, "LSB");
        let lsb = unhex(x.str());
        if nr == 16 {
            c.exc_regs = Some(regs);
        }
        if let (Some(e), false) = (&c.exc, ins.is_empty()) {
            c.raw_mems.push((e.ip, ins));
        }
        c.cpuinfo = cpuinfo;
        c.lsb = lsb;
        if let Some(tok) = x.opt() {
            assert!(tok == "LIMITS");
            c.limits = unhex(x.str());
            c14::expect_tok(&mut x, "SOFT");
            c.soft = unhex(x.str());
            c14::expect_tok(&mut x, "MAPS");
            c.maps = unhex(x.str());
            if let Some(tok) = x.opt() {
                assert!(tok == "RAW");
                let k = x.usize();
                for _ in 0..k {
                    let addr = x.u64();
                    c.raw_mems.push((addr, unhex(x.str())));
                }
                c14::expect_tok(&mut x, "HANDLES");
                let nh = x.usize();
                for _ in 0..nh {
                    c.handles.push((x.u64(), utf8_arg(x.str()), utf8_arg(x.str())));
                }
                c14::expect_tok(&mut x, "BOOTARGS");
                let t = x.str();
                if t != "-" {
                    c.bootargs = Some(utf8_arg(t));
                }
            }
        }
    }
    if !tn.is_empty() {
        for (j, n) in c.names.iter_mut().enumerate() {
            n.2 = tn[j % tn.len()].clone();
        }
    }
    for (i, md) in c.modules.iter_mut().enumerate() {
        if i < mn.len() {
            md.2 = mn[i].clone();
        }
    }
    for (i, md) in c.unloaded.iter_mut().enumerate() {
        if i < un.len() {
            md.2 = un[i].clone();
        }
    }
    let mut symbols: HashMap<String, String> = HashMap::new();
    for (i, text) in syms {
        if i < c.modules.len() {
            symbols.insert(lossy(&c.modules[i].2), text);
        }
    }
    let mut bytes = c14::build_dump(&c);
    // lossy UTF-16: the marker pair becomes a lone high surrogate followed by 'A'
    let marker = [0x23u8, 0xE1, 0x24, 0xE1];
    let mut i = 0;
    while i + 4 <= bytes.len() {
        if bytes[i..i + 4] == marker {
            bytes[i..i + 4].copy_from_slice(&[0x00, 0xD8, 0x41, 0x00]);
            i += 4;
        } else {
            i += 1;
        }
    }
    let mut state = c14::process(bytes, symbols);
    if let Some(st) = st_section {
        apply_overrides(&mut state, &mut Toks::new(st));
    }
    let mut compact: Vec<u8> = vec![];
    state.print_json(&mut compact, false).expect("print_json compact");
    let mut pretty: Vec<u8> = vec![];
    state.print_json(&mut pretty, true).expect("print_json pretty");
    let v: Value = serde_json::from_slice(&compact).expect("serde_json parses compact output");
    let vv = view(&v, state.soft_errors.as_ref().is_some_and(has_float));
    let vw = serde_json::to_string(&vv).unwrap();
    let vq = serde_json::to_string_pretty(&vv).unwrap();
    let conf = state
        .exception_info
        .as_ref()
        .map(|ei| ei.possible_bit_flips.iter().map(|b| b.confidence.map(|c| c.to_bits().to_string()).unwrap_or("-".into())).collect::<Vec<_>>().join(","))
        .unwrap_or_default();
    format!("F {}\tV {}\tJ {}\tP {}\tC {}\tQ {}", facts(&state), vw, hex(&compact), hex(&pretty), conf, hex(vq.as_bytes()))
}

fn main() {
    for_each_case(run);
}
