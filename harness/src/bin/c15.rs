//! C15 correspondence harness: process a synthesized dump (the C14 generator, plus hostile names
//! and symbol files), call the real `ProcessState::print_json` (compact and pretty) and print
//!   F <facts of the ProcessState's public fields>\tV <modelled view of the real JSON, compact>\tJ <hex compact bytes>\tP <hex pretty bytes>\tC <f32::to_bits of each bit flip's confidence>
//!
//! case: <C14 case> X TN <k> {hex}*k MN <m> {hex}*m UN <u> {hex}*u SYM <q> {modidx hex}*q
//!   TN thread names (N entry j uses TN[j % k]); MN / UN code_file of module / unloaded module i
//!   (default name when the list is shorter); hex = UTF-8 bytes, "-" = empty; the pair U+E123 U+E124
//!   in a name becomes a lone high surrogate + 'A' in the dump's UTF-16 (lossy decoding);
//!   SYM = breakpad symbol file text for module modidx.
//!   optional tail: INS <hex|-> REGS <0|16> {u64}* MINFO <k> {base size prot}*k CPUINFO <hex|-> LSB <hex|->
//!   INS = instruction bytes planted in a memory region at the exception's ip; REGS = amd64 registers of the
//!   exception context (rax rcx rdx rbx rsp rbp rsi rdi r8..r15); MINFO = memory-info entries; CPUINFO / LSB =
//!   text of the Linux cpuinfo / lsb-release streams; then LIMITS <hex|-> SOFT <hex|-> MAPS <hex|-> = text of the
//!   /proc/self/limits, soft-errors (JSON) and /proc/self/maps streams; then RAW <k> {addr hex}*k = further raw memory regions,
//!   HANDLES <n> {handle type-hex name-hex}*n = handle data stream, BOOTARGS <hex|-> = macOS boot-args stream.
#[path = "c14.rs"]
#[allow(dead_code)]
mod c14;

use minidump::system_info::PointerWidth;
use minidump::*;
use serde_json::{json, Map, Value};
use std::collections::HashMap;
use vharness::*;

fn hexstr(s: &str) -> String {
    if s.is_empty() {
        return "s".into();
    }
    format!("s{}", s.chars().map(|c| format!("{:x}", c as u32)).collect::<Vec<_>>().join("."))
}
fn ostr(s: Option<&str>) -> String {
    s.map(hexstr).unwrap_or("-".into())
}
fn onum<T: std::fmt::Display>(v: Option<T>) -> String {
    v.map(|x| x.to_string()).unwrap_or("-".into())
}
fn basename(f: &str) -> &str {
    match f.rfind(['/', '\\']) {
        None => f,
        Some(i) => &f[(i + 1)..],
    }
}

fn utf8_arg(t: &str) -> String {
    String::from_utf8(unhex(t)).expect("utf8 in case")
}
fn lossy(name: &str) -> String {
    name.replace("\u{E123}\u{E124}", "\u{FFFD}A")
}

fn facts(state: &minidump_processor::ProcessState) -> String {
    let mut f: Vec<String> = vec![];
    f.push(format!(
        "W {}",
        match state.system_info.cpu.pointer_width() {
            PointerWidth::Bits32 => 0,
            PointerWidth::Bits64 => 1,
            PointerWidth::Unknown => 2,
        }
    ));
    f.push(format!("PID {}", onum(state.process_id)));
    f.push(format!("REQ {}", onum(state.requesting_thread)));
    match &state.exception_info {
        Some(ei) => {
            f.push(format!("CRASH {} {}", hexstr(&ei.reason.to_string()), ei.address.0));
            f.push(match &ei.adjusted_address {
                None => "ADJ -".to_string(),
                Some(minidump_processor::AdjustedAddress::NonCanonical(a)) => format!("ADJ nc {}", a.0),
                Some(minidump_processor::AdjustedAddress::NullPointerWithOffset(o)) => format!("ADJ null {}", o.0),
            });
            f.push(format!("INSTR {}", ostr(ei.instruction_str.as_deref())));
            let ty = |d: String| match d.as_str() {
                "Read" => 0,
                "Write" => 1,
                "ReadWrite" => 2,
                _ => 3,
            };
            match &ei.memory_access_list {
                None => f.push("ACC -".into()),
                Some(l) => {
                    f.push(format!("ACC {}", l.accesses.len()));
                    for a in &l.accesses {
                        f.push(format!(
                            "{} {} {} {}",
                            a.address_info.address,
                            onum(a.size),
                            a.address_info.is_likely_guard_page as u8,
                            ty(format!("{:?}", a.access_type))
                        ));
                    }
                }
            }
            f.push(match &ei.instruction_pointer_update {
                None => "IPU -".to_string(),
                Some(u) => {
                    let d = format!("{:?}", u);
                    if d.starts_with("NoUpdate") {
                        "IPU none".to_string()
                    } else {
                        // Update { address_info: MemoryAddressInfo { address: N, .., is_likely_guard_page: B } }
                        let after = |key: &str| d.split(key).nth(1).unwrap().to_string();
                        let addr: String = after(" address: ").chars().take_while(|c| c.is_ascii_digit()).collect();
                        let guard = after("is_likely_guard_page: ").starts_with("true");
                        format!("IPU upd {} {}", addr, guard as u8)
                    }
                }
            });
            f.push(format!("FLIPS {}", ei.possible_bit_flips.len()));
            for b in &ei.possible_bit_flips {
                f.push(format!(
                    "{} {} {} {} {} {} {}",
                    b.address.0,
                    ostr(b.source_register),
                    b.details.was_non_canonical as u8,
                    b.details.is_null as u8,
                    b.details.was_low as u8,
                    b.details.nearby_registers,
                    b.details.poison_registers as u8
                ));
            }
            f.push(format!("INC {}", ei.inconsistencies.len()));
            for i in &ei.inconsistencies {
                f.push(
                    match format!("{:?}", i).as_str() {
                        "IntDivByZeroNotPossible" => 0,
                        "PrivInstructionCrashWithoutPrivInstruction" => 1,
                        "NonCanonicalAddressFalselyReported" => 2,
                        "AccessViolationWhenAccessAllowed" => 3,
                        _ => 4,
                    }
                    .to_string(),
                );
            }
        }
        None => f.push("CRASH -".into()),
    }
    {
        use minidump::system_info::{Cpu, Os};
        let sys = &state.system_info;
        let (osi, osraw) = match sys.os {
            Os::Windows => (0, 0),
            Os::MacOs => (1, 0),
            Os::Ios => (2, 0),
            Os::Linux => (3, 0),
            Os::Solaris => (4, 0),
            Os::Android => (5, 0),
            Os::Ps3 => (6, 0),
            Os::NaCl => (7, 0),
            Os::Unknown(v) => (8, v),
        };
        let cpui = match sys.cpu {
            Cpu::X86 => 0,
            Cpu::X86_64 => 1,
            Cpu::Ppc => 2,
            Cpu::Ppc64 => 3,
            Cpu::Sparc => 4,
            Cpu::Arm => 5,
            Cpu::Arm64 => 6,
            Cpu::Mips => 7,
            Cpu::Mips64 => 8,
            _ => 9,
        };
        f.push(format!(
            "SYS {} {} {} {} {} {} {}",
            osi,
            osraw,
            ostr(sys.format_os_version().as_deref()),
            cpui,
            ostr(sys.cpu_info.as_deref()),
            sys.cpu_count,
            onum(sys.cpu_microcode_version)
        ));
        match &state.linux_standard_base {
            Some(l) => f.push(format!("LSB {} {} {} {}", hexstr(&l.id), hexstr(&l.release), hexstr(&l.codename), hexstr(&l.description))),
            None => f.push("LSB -".into()),
        }
        f.push(format!("MAPC {}", onum(state.linux_memory_map_count)));
        f.push(format!("CERT {}", (!state.cert_info.is_empty()) as u8));
    }
    f.push(format!("TH {}", state.threads.len()));
    for t in &state.threads {
        f.push(format!("{} {} NF {}", t.thread_id, ostr(t.thread_name.as_deref()), t.frames.len()));
        for fr in &t.frames {
            f.push(fr.instruction.to_string());
            match &fr.module {
                Some(m) => f.push(format!("{} {}", hexstr(basename(&m.name)), m.raw.base_of_image)),
                None => f.push("-".into()),
            }
            f.push(ostr(fr.function_name.as_deref()));
            f.push(onum(fr.function_base));
            f.push(ostr(fr.source_file_name.as_deref()));
            f.push(onum(fr.source_line));
            f.push(
                match fr.trust {
                    minidump_unwind::FrameTrust::None => 0,
                    minidump_unwind::FrameTrust::Scan => 1,
                    minidump_unwind::FrameTrust::CfiScan => 2,
                    minidump_unwind::FrameTrust::FramePointer => 3,
                    minidump_unwind::FrameTrust::CallFrameInfo => 4,
                    minidump_unwind::FrameTrust::PreWalked => 5,
                    minidump_unwind::FrameTrust::Context => 6,
                }
                .to_string(),
            );
            f.push(format!("UNL {}", fr.unloaded_modules.len()));
            for (name, offs) in &fr.unloaded_modules {
                f.push(format!("{} K {} {}", hexstr(name), offs.len(), offs.iter().map(|o| o.to_string()).collect::<Vec<_>>().join(" ")));
            }
        }
    }
    // registers of the requesting thread's frame 0, sorted by name (serde_json's Map is a BTreeMap)
    let mut regs: Vec<(String, u64, usize)> = vec![];
    if let Some(i) = state.requesting_thread {
        if let Some(fr) = state.threads[i].frames.first() {
            let ctx = &fr.context;
            for &r in ctx.general_purpose_registers() {
                let valid = match &ctx.valid {
                    MinidumpContextValidity::All => true,
                    MinidumpContextValidity::Some(which) => which.contains(r),
                };
                if valid {
                    let digits = ctx.format_register(r).len() - 2;
                    regs.push((r.to_string(), ctx.get_register_always(r), digits));
                }
            }
        }
    }
    regs.sort();
    regs.dedup_by(|a, b| a.0 == b.0);
    f.push(format!("REGS {}", regs.len()));
    for (n, v, d) in &regs {
        f.push(format!("{} {} {}", hexstr(n), v, d));
    }
    f.push(format!("MODS {}", state.modules.iter().count()));
    for m in state.modules.iter() {
        let full = m.code_file();
        f.push(format!("{} {} {}", m.raw.base_of_image, m.raw.size_of_image, hexstr(basename(&full))));
    }
    f.push(format!("UNLM {}", state.unloaded_modules.iter().count()));
    for m in state.unloaded_modules.iter() {
        f.push(format!("{} {} {}", m.raw.base_of_image, m.raw.size_of_image, hexstr(&m.name)));
    }
    f.join(" ")
}

fn pick(v: &Value, keys: &[&str]) -> Value {
    let mut m = Map::new();
    for k in keys {
        m.insert(k.to_string(), v.get(*k).cloned().unwrap_or(json!("<absent>")));
    }
    Value::Object(m)
}

const FRAME_KEYS: [&str; 11] = [
    "file", "frame", "function", "function_offset", "line", "missing_symbols", "module", "module_offset", "offset", "trust",
    "unloaded_modules",
];

fn view_frame(f: &Value, with_registers: bool) -> Value {
    let mut o = pick(f, &FRAME_KEYS);
    if with_registers {
        o.as_object_mut().unwrap().insert("registers".into(), f.get("registers").cloned().unwrap_or(json!("<absent>")));
    }
    o
}
fn view_thread(t: &Value, copy: bool) -> Value {
    let mut o = pick(t, &["frame_count", "thread_id", "thread_name"]);
    let frames: Vec<Value> = t
        .get("frames")
        .and_then(|f| f.as_array())
        .map(|a| a.iter().enumerate().map(|(i, f)| view_frame(f, copy && i == 0)).collect())
        .unwrap_or_default();
    o.as_object_mut().unwrap().insert("frames".into(), Value::Array(frames));
    if copy {
        o.as_object_mut().unwrap().insert("threads_index".into(), t.get("threads_index").cloned().unwrap_or(json!("<absent>")));
    }
    o
}
fn view_module(m: &Value) -> Value {
    pick(m, &["base_addr", "end_addr", "filename"])
}

/// The fields the model covers, rebuilt from the parsed real output.
fn view(v: &Value) -> Value {
    let mut o = Map::new();
    let mut ci = v.get("crash_info").cloned().unwrap_or(Value::Null);
    // the binary32 confidence is not modelled (serde_json's float writer)
    if let Some(fl) = ci.get_mut("possible_bit_flips").and_then(|x| x.as_array_mut()) {
        for b in fl {
            if let Some(m) = b.as_object_mut() {
                m.remove("confidence");
            }
        }
    }
    o.insert("crash_info".into(), ci);
    for k in ["linux_memory_map_count", "lsb_release", "main_module", "modules_contains_cert_info", "status", "system_info"] {
        o.insert(k.into(), v.get(k).cloned().unwrap_or(json!("<absent>")));
    }
    if let Some(ct) = v.get("crashing_thread") {
        o.insert("crashing_thread".into(), view_thread(ct, true));
    }
    let arr = |k: &str, f: &dyn Fn(&Value) -> Value| -> Value {
        Value::Array(v.get(k).and_then(|a| a.as_array()).map(|a| a.iter().map(|x| f(x)).collect()).unwrap_or_default())
    };
    o.insert("modules".into(), arr("modules", &view_module));
    o.insert("pid".into(), v.get("pid").cloned().unwrap_or(json!("<absent>")));
    o.insert("thread_count".into(), v.get("thread_count").cloned().unwrap_or(json!("<absent>")));
    o.insert("threads".into(), arr("threads", &|t| view_thread(t, false)));
    o.insert("unloaded_modules".into(), arr("unloaded_modules", &view_module));
    Value::Object(o)
}

fn run(line: &str) -> String {
    let (base, ext) = line.split_once(" X ").expect("X section");
    let mut t = Toks::new(base);
    let mut c = c14::parse_case(&mut t);
    let mut x = Toks::new(ext);
    c14::expect_tok(&mut x, "TN");
    let k = x.usize();
    let tn: Vec<String> = (0..k).map(|_| utf8_arg(x.str())).collect();
    c14::expect_tok(&mut x, "MN");
    let m = x.usize();
    let mn: Vec<String> = (0..m).map(|_| utf8_arg(x.str())).collect();
    c14::expect_tok(&mut x, "UN");
    let u = x.usize();
    let un: Vec<String> = (0..u).map(|_| utf8_arg(x.str())).collect();
    c14::expect_tok(&mut x, "SYM");
    let q = x.usize();
    let syms: Vec<(usize, String)> = (0..q).map(|_| (x.usize(), utf8_arg(x.str()))).collect();
    if let Some(tok) = x.opt() {
        assert!(tok == "INS");
        let ins = unhex(x.str());
        c14::expect_tok(&mut x, "REGS");
        let nr = x.usize();
        let regs: Vec<u64> = (0..nr).map(|_| x.u64()).collect();
        c14::expect_tok(&mut x, "MINFO");
        let nm = x.usize();
        for _ in 0..nm {
            c.mem_infos.push((x.u64(), x.u64(), x.u64() as u32));
        }
        c14::expect_tok(&mut x, "CPUINFO");
        let cpuinfo = unhex(x.str());
        c14::expect_tok(&mut x, "LSB");
        let lsb = unhex(x.str());
        if nr == 16 {
            c.exc_regs = Some(regs);
        }
        if let (Some(e), false) = (&c.exc, ins.is_empty()) {
            c.raw_mems.push((e.ip, ins));
        }
        c.cpuinfo = cpuinfo;
        c.lsb = lsb;
        if let Some(tok) = x.opt() {
            assert!(tok == "LIMITS");
            c.limits = unhex(x.str());
            c14::expect_tok(&mut x, "SOFT");
            c.soft = unhex(x.str());
            c14::expect_tok(&mut x, "MAPS");
            c.maps = unhex(x.str());
            if let Some(tok) = x.opt() {
                assert!(tok == "RAW");
                let k = x.usize();
                for _ in 0..k {
                    let addr = x.u64();
                    c.raw_mems.push((addr, unhex(x.str())));
                }
                c14::expect_tok(&mut x, "HANDLES");
                let nh = x.usize();
                for _ in 0..nh {
                    c.handles.push((x.u64(), utf8_arg(x.str()), utf8_arg(x.str())));
                }
                c14::expect_tok(&mut x, "BOOTARGS");
                let t = x.str();
                if t != "-" {
                    c.bootargs = Some(utf8_arg(t));
                }
            }
        }
    }
    if !tn.is_empty() {
        for (j, n) in c.names.iter_mut().enumerate() {
            n.2 = tn[j % tn.len()].clone();
        }
    }
    for (i, md) in c.modules.iter_mut().enumerate() {
        if i < mn.len() {
            md.2 = mn[i].clone();
        }
    }
    for (i, md) in c.unloaded.iter_mut().enumerate() {
        if i < un.len() {
            md.2 = un[i].clone();
        }
    }
    let mut symbols: HashMap<String, String> = HashMap::new();
    for (i, text) in syms {
        if i < c.modules.len() {
            symbols.insert(lossy(&c.modules[i].2), text);
        }
    }
    let mut bytes = c14::build_dump(&c);
    // lossy UTF-16: the marker pair becomes a lone high surrogate followed by 'A'
    let marker = [0x23u8, 0xE1, 0x24, 0xE1];
    let mut i = 0;
    while i + 4 <= bytes.len() {
        if bytes[i..i + 4] == marker {
            bytes[i..i + 4].copy_from_slice(&[0x00, 0xD8, 0x41, 0x00]);
            i += 4;
        } else {
            i += 1;
        }
    }
    let state = c14::process(bytes, symbols);
    let mut compact: Vec<u8> = vec![];
    state.print_json(&mut compact, false).expect("print_json compact");
    let mut pretty: Vec<u8> = vec![];
    state.print_json(&mut pretty, true).expect("print_json pretty");
    let v: Value = serde_json::from_slice(&compact).expect("serde_json parses compact output");
    let vw = serde_json::to_string(&view(&v)).unwrap();
    let conf = state
        .exception_info
        .as_ref()
        .map(|ei| ei.possible_bit_flips.iter().map(|b| b.confidence.map(|c| c.to_bits().to_string()).unwrap_or("-".into())).collect::<Vec<_>>().join(","))
        .unwrap_or_default();
    format!("F {}\tV {}\tJ {}\tP {}\tC {}", facts(&state), vw, hex(&compact), hex(&pretty), conf)
}

fn main() {
    for_each_case(run);
}
