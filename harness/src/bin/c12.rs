//! C12 correspondence harness: the real `breakpad_symbols::Symbolizer` with a scripted mock
//! `SymbolSupplier`, driven by a hand-rolled executor that polls the tasks' futures in
//! exactly the order the case dictates (no runtime, no threads).
//!
//! case (all tokens decimal):
//!   mode nt {nl {key kind}*nl}*nt nk {susp outc cf ci df di}*nk ns {t}*ns
//! mode 0: poll task ids in schedule order (polls of finished / unknown tasks are skipped),
//!         then round-robin rounds until every task finished.
//! mode 1: wake-driven executor: only tasks whose waker fired since their last poll are
//!         polled; each schedule entry picks among the currently woken tasks; if no task is
//!         woken while some are unfinished the run is reported as LOST (lost wake-up); the third
//!         answer field is the sequence of polled tasks.
//! lookup kind: 0 fill_symbol, 1 walk_frame, 2 get_symbol_at_address (only valid for keys with
//!         cf=0, ci=0, df>0, di>0; otherwise treated as 0)
//! outc: 0 Ok, 1 NotFound, 2 MissingDebugFileOrId, 3 LoadError, 4 ParseError
//! answer: OK|HUNG|LOST;log;midreq/midproc/middone;results;req/proc;stats;rounds
use async_trait::async_trait;
use breakpad_symbols::{
    FileError, FileKind, FrameWalker, LocateSymbolsResult, Module, SimpleFrame, SimpleModule,
    SymbolError, SymbolFile, SymbolSupplier, Symbolizer,
};
use debugid::{CodeId, DebugId};
use std::cell::RefCell;
use std::future::Future;
use std::path::PathBuf;
use std::pin::Pin;
use std::str::FromStr;
use std::sync::atomic::{AtomicBool, Ordering};
use std::sync::{Arc, Mutex};
use std::task::{Context, Poll, Wake, Waker};
use vharness::*;

const CODE_FILES: [Option<&str>; 5] = [
    None,
    Some("lib0.so"),
    Some("/x/lib0.so"),
    Some("lib1.so"),
    Some("c:\\y\\lib2.dll"),
];
const LEAVES: [&str; 4] = ["", "lib0.so", "lib1.so", "lib2.dll"];
const CODE_IDS: [Option<&str>; 3] = [None, Some("AA11"), Some("BB22")];
const DEBUG_FILES: [Option<&str>; 3] = [None, Some("a.pdb"), Some("b.pdb")];
const DEBUG_IDS: [Option<&str>; 3] = [
    None,
    Some("abcd1234-abcd-1234-abcd-abcd12345678-a"),
    Some("abcd1234-abcd-1234-abcd-abcd12345678-b"),
];

type KeyTuple = (String, Option<String>, Option<String>, Option<String>);

fn key_tuple(m: &(dyn Module + Sync)) -> KeyTuple {
    (
        m.code_file().to_string(),
        m.code_identifier().map(|s| s.to_string()),
        m.debug_file().map(|s| s.to_string()),
        m.debug_identifier().map(|s| s.to_string()),
    )
}

/// Returns Pending (after waking itself) the scripted number of times.
struct Suspend(u32);
impl Future for Suspend {
    type Output = ();
    fn poll(mut self: Pin<&mut Self>, cx: &mut Context<'_>) -> Poll<()> {
        if self.0 == 0 {
            Poll::Ready(())
        } else {
            self.0 -= 1;
            cx.waker().wake_by_ref();
            Poll::Pending
        }
    }
}

struct Mock {
    keys: Vec<KeyTuple>,
    scripts: Vec<(u32, u8)>,
    log: Arc<Mutex<Vec<String>>>,
}

fn sym_text(id: usize) -> String {
    format!(
        "MODULE Linux x86_64 000000000000000000000000000000000 mock\nFUNC 1000 10 0 sym_k{}\nSTACK CFI INIT 1000 10 .cfa: {} .ra: 7\n",
        id,
        100 + id
    )
}

#[async_trait]
impl SymbolSupplier for Mock {
    async fn locate_symbols(
        &self,
        module: &(dyn Module + Sync),
    ) -> Result<LocateSymbolsResult, SymbolError> {
        let kt = key_tuple(module);
        let id = self.keys.iter().position(|k| *k == kt);
        self.log.lock().unwrap().push(match id {
            Some(i) => i.to_string(),
            None => "?".to_string(),
        });
        let (susp, outc) = match id {
            Some(i) => self.scripts[i],
            None => (0, 1),
        };
        Suspend(susp).await;
        match outc {
            0 => Ok(LocateSymbolsResult {
                symbols: SymbolFile::from_bytes(sym_text(id.unwrap()).as_bytes())?,
                extra_debug_info: None,
            }),
            1 => Err(SymbolError::NotFound),
            2 => Err(SymbolError::MissingDebugFileOrId),
            3 => Err(SymbolError::LoadError(std::io::Error::new(
                std::io::ErrorKind::Other,
                "mock",
            ))),
            _ => {
                // a genuinely unparseable symbol file
                match SymbolFile::from_bytes(b"this is not a symbol file\n") {
                    Err(e) => Err(e),
                    Ok(_) => Err(SymbolError::ParseError("mock", 1)),
                }
            }
        }
    }
    async fn locate_file(
        &self,
        _module: &(dyn Module + Sync),
        _file_kind: FileKind,
    ) -> Result<PathBuf, FileError> {
        Err(FileError::NotFound)
    }
}

#[derive(Default)]
struct Walker {
    cfa: Option<u64>,
    ra: Option<u64>,
}
impl FrameWalker for Walker {
    fn get_instruction(&self) -> u64 {
        0x1004
    }
    fn has_grand_callee(&self) -> bool {
        false
    }
    fn get_grand_callee_parameter_size(&self) -> u32 {
        0
    }
    fn get_register_at_address(&self, _address: u64) -> Option<u64> {
        None
    }
    fn get_callee_register(&self, _name: &str) -> Option<u64> {
        None
    }
    fn set_caller_register(&mut self, _name: &str, _val: u64) -> Option<()> {
        Some(())
    }
    fn clear_caller_register(&mut self, _name: &str) {}
    fn set_cfa(&mut self, val: u64) -> Option<()> {
        self.cfa = Some(val);
        Some(())
    }
    fn set_ra(&mut self, val: u64) -> Option<()> {
        self.ra = Some(val);
        Some(())
    }
}

struct Flag(AtomicBool);
impl Wake for Flag {
    fn wake(self: Arc<Self>) {
        self.0.store(true, Ordering::SeqCst);
    }
    fn wake_by_ref(self: &Arc<Self>) {
        self.0.store(true, Ordering::SeqCst);
    }
}

fn name_to_class(name: Option<&str>) -> String {
    match name.and_then(|n| n.strip_prefix("sym_k")) {
        Some(id) => format!("S{}", id),
        None => "S?".to_string(),
    }
}

async fn run_task(
    sym: &Symbolizer,
    mods: &[SimpleModule],
    lookups: Vec<(usize, u8)>,
    out: &RefCell<Vec<String>>,
) {
    for (k, kind) in lookups {
        let m = &mods[k];
        let simple_ok = m.code_file.is_none()
            && m.code_identifier.is_none()
            && m.debug_file.is_some()
            && m.debug_id.is_some();
        let class = match kind {
            1 => {
                let mut w = Walker::default();
                match sym.walk_frame(m, &mut w).await {
                    Some(()) => match (w.cfa, w.ra) {
                        (Some(c), Some(7)) if c >= 100 => format!("S{}", c - 100),
                        _ => "S?".to_string(),
                    },
                    None => "E".to_string(),
                }
            }
            2 if simple_ok => {
                match sym
                    .get_symbol_at_address(m.debug_file.as_ref().unwrap(), m.debug_id.unwrap(), 0x1004)
                    .await
                {
                    Some(name) => name_to_class(Some(&name)),
                    None => "E".to_string(),
                }
            }
            _ => {
                let mut f = SimpleFrame::with_instruction(0x1004);
                match sym.fill_symbol(m, &mut f).await {
                    Ok(()) => name_to_class(f.function.as_deref()),
                    Err(_) => "E".to_string(),
                }
            }
        };
        out.borrow_mut().push(class);
    }
}

fn run(line: &str) -> String {
    let mut t = Toks::new(line);
    let mode = t.u64();
    let nt = t.usize();
    let tasks: Vec<Vec<(usize, u8)>> = (0..nt)
        .map(|_| {
            let nl = t.usize();
            (0..nl).map(|_| (t.usize(), t.u64() as u8)).collect()
        })
        .collect();
    let nk = t.usize();
    let mut mods: Vec<SimpleModule> = vec![];
    let mut keys: Vec<KeyTuple> = vec![];
    let mut scripts: Vec<(u32, u8)> = vec![];
    for _ in 0..nk {
        let susp = t.u64() as u32;
        let outc = t.u64() as u8;
        let (cf, ci, df, di) = (t.usize(), t.usize(), t.usize(), t.usize());
        let m = SimpleModule {
            code_file: CODE_FILES[cf].map(String::from),
            code_identifier: CODE_IDS[ci].map(|s| CodeId::new(s.to_string())),
            debug_file: DEBUG_FILES[df].map(String::from),
            debug_id: DEBUG_IDS[di].map(|s| DebugId::from_str(s).expect("debug id")),
            ..SimpleModule::default()
        };
        keys.push(key_tuple(&m));
        mods.push(m);
        scripts.push((susp, outc));
    }
    let ns = t.usize();
    let sched: Vec<usize> = (0..ns).map(|_| t.usize()).collect();

    let log = Arc::new(Mutex::new(Vec::<String>::new()));
    let symbolizer = Symbolizer::new(Mock { keys, scripts, log: log.clone() });
    let outs: Vec<RefCell<Vec<String>>> = (0..nt).map(|_| RefCell::new(vec![])).collect();
    let flags: Vec<Arc<Flag>> = (0..nt).map(|_| Arc::new(Flag(AtomicBool::new(true)))).collect();
    let wakers: Vec<Waker> = flags.iter().map(|f| Waker::from(f.clone())).collect();
    let mut status = "OK";
    let mut rounds = 0usize;
    let mid;
    {
        let mut futs: Vec<Option<Pin<Box<dyn Future<Output = ()> + '_>>>> = tasks
            .iter()
            .enumerate()
            .map(|(i, lk)| {
                let b: Pin<Box<dyn Future<Output = ()> + '_>> =
                    Box::pin(run_task(&symbolizer, &mods, lk.clone(), &outs[i]));
                Some(b)
            })
            .collect();
        let mut poll_task = |futs: &mut Vec<Option<Pin<Box<dyn Future<Output = ()> + '_>>>>, i: usize| {
            if i >= futs.len() {
                return;
            }
            if let Some(f) = futs[i].as_mut() {
                flags[i].0.store(false, Ordering::SeqCst);
                let mut cx = Context::from_waker(&wakers[i]);
                if f.as_mut().poll(&mut cx).is_ready() {
                    futs[i] = None;
                }
            }
        };
        if mode == 0 {
            for &i in &sched {
                poll_task(&mut futs, i);
            }
            let p = symbolizer.pending_stats();
            mid = format!(
                "{}/{}/{}",
                p.symbols_requested,
                p.symbols_processed,
                futs.iter().filter(|f| f.is_none()).count()
            );
            while futs.iter().any(|f| f.is_some()) {
                if rounds >= 10_000 {
                    status = "HUNG";
                    break;
                }
                rounds += 1;
                for i in 0..nt {
                    poll_task(&mut futs, i);
                }
            }
        } else {
            let mut trace: Vec<String> = vec![];
            let mut si = 0usize;
            let mut polls = 0usize;
            loop {
                if futs.iter().all(|f| f.is_none()) {
                    break;
                }
                let woken: Vec<usize> = (0..nt)
                    .filter(|&i| futs[i].is_some() && flags[i].0.load(Ordering::SeqCst))
                    .collect();
                if woken.is_empty() {
                    status = "LOST";
                    break;
                }
                if polls >= 100_000 {
                    status = "HUNG";
                    break;
                }
                let pick = if si < sched.len() { sched[si] } else { 0 };
                si += 1;
                polls += 1;
                trace.push(woken[pick % woken.len()].to_string());
                poll_task(&mut futs, woken[pick % woken.len()]);
            }
            mid = if trace.is_empty() { "-".to_string() } else { trace.join(".") };
        }
    }
    let p = symbolizer.pending_stats();
    let mut stats: Vec<(String, bool, bool)> = symbolizer
        .stats()
        .into_iter()
        .map(|(k, v)| {
            let id = match LEAVES.iter().position(|l| *l == k) {
                Some(i) => i.to_string(),
                None => format!("?{}", k),
            };
            (id, v.loaded_symbols, v.corrupt_symbols)
        })
        .collect();
    stats.sort();
    let dash = |s: String| if s.is_empty() { "-".to_string() } else { s };
    format!(
        "{};{};{};{};{}/{};{};{}",
        status,
        dash(log.lock().unwrap().join(".")),
        mid,
        outs.iter()
            .map(|o| dash(o.borrow().join(".")))
            .collect::<Vec<_>>()
            .join("|"),
        p.symbols_requested,
        p.symbols_processed,
        dash(
            stats
                .iter()
                .map(|(k, l, c)| format!("{}:{}:{}", k, *l as u8, *c as u8))
                .collect::<Vec<_>>()
                .join(",")
        ),
        rounds
    )
}

fn main() {
    for_each_case(run);
}
