//! C12 correspondence harness: the real `breakpad_symbols::Symbolizer` with a scripted mock
//! `SymbolSupplier`, driven by a hand-rolled executor that polls the tasks' futures in
//! exactly the order the case dictates (no runtime, no threads).
//!
//! case (all tokens decimal):
//!   mode nt {nl {key kind}*nl}*nt nk {susp outc cf ci df di}*nk ns {t}*ns
//! mode 0: poll task ids in schedule order (polls of finished / unknown tasks are skipped),
//!         then round-robin rounds until every task finished.
//! mode 1: wake-driven executor: only tasks whose waker fired since their last poll are
//!         polled; each schedule entry picks among the currently woken tasks; if no task is
//!         woken while some are unfinished the run is reported as LOST (lost wake-up); the third
//!         answer field is the sequence of polled tasks.
//! mode 2: concurrent `HttpSymbolSupplier::locate_file` calls against a loopback HTTP server inside a
//!         current-thread tokio runtime; lookup kind = FileKind (0 BreakpadSym, 1 Binary, 2 ExtraDebugInfo);
//!         per key: susp = the server yields that often before answering, outc = bit mask "the server has the
//!         file of kind i"; wake-driven (one child per parent poll, picks choose). Answer: log = file keys
//!         3*key+kind requested from the server (sorted), results S<file key whose cache path was returned> / E.
//! mode 3: mode 1 plus drops: a pick 100+u drops task u's future if it is waiting for a slot's lock
//!         (polled, pending, not inside the supplier); the trace records it as 100+u.
//! mode 4: the tasks are the children of one `futures_util::future::join_all` (shared waker); the root is
//!         polled only after its waker fired; last answer field = number of root polls.
//!         Round 4: a non-empty schedule lists group sizes: the root is join_all(groups.map(join_all)) — the nesting the
//!         processor uses; the poll order (and so the number of root polls) is the one of the flat join_all.
//! mode 5: REAL multi-threaded tokio runtime. schedule = [worker threads, style, start delay per task ...];
//!         style 0: every task is tokio::spawn'ed; 1: two spawned join_alls (even / odd tasks); 2: one spawned join_all;
//!         3: join_all polled by block_on itself. The supplier yields the OS thread whenever it suspends; an observer
//!         task samples pending_stats the whole time. Only schedule-independent observables are reported (sorted log).
//! mode 6: one join_all over all tasks polled by hand (root polled only after its waker fired); with more than 30
//!         children this is JoinAll::Big = FuturesUnordered (per-child wakers). Sorted log, schedule-independent fields.
//! mode 7: THROUGH THE PROCESSOR: a synthetic x86 minidump with one thread per task; the thread's frames (a frame-pointer
//!         chain) lie in the modules of the task's lookups, in order; `minidump_processor::process_minidump` walks all
//!         threads (its own join_all) through `&Symbolizer` as the SymbolProvider (minidump-unwind's glue). schedule =
//!         [exec, n]: exec 0 one process future polled by hand (root polled only when woken); 1 n concurrent process
//!         futures of the same dump on ONE symbolizer in a hand-polled join_all; 2 the same, spawned on a multi-threaded
//!         tokio runtime. Keys need a code file, debug file and debug id. results = per thread `key~class` per frame.
//! lookup kind (modes 0,1,3,4,5,6): 0 fill_symbol, 1 walk_frame, 2 get_symbol_at_address (only valid for keys with
//!         cf=0, ci=0, df>0, di>0; otherwise treated as 0), 3 get_file_path (forwarded to the supplier, must not touch
//!         slots or counters) followed by fill_symbol.
//! After every lookup the task itself reads pending_stats()/stats() and checks processed <= requested <= distinct keys,
//! monotonicity, processed >= distinct keys this task has finished, and that the module's leaf is in stats(); the first
//! failed check is the 8th answer field (`-` when none).
//! outc: 0 Ok, 1 NotFound, 2 MissingDebugFileOrId, 3 LoadError, 4 ParseError
//! answer: OK|HUNG|LOST;log;midreq/midproc/middone;results;req/proc;stats;rounds;obs
use async_trait::async_trait;
use breakpad_symbols::{
    FileError, FileKind, FrameWalker, HttpSymbolSupplier, LocateSymbolsResult, Module, SimpleFrame, SimpleModule,
    SymbolError, SymbolFile, SymbolSupplier, Symbolizer,
};
use debugid::{CodeId, DebugId};
use std::cell::RefCell;
use std::future::Future;
use std::path::PathBuf;
use std::pin::Pin;
use std::str::FromStr;
use std::sync::atomic::{AtomicBool, AtomicUsize, Ordering};
use std::sync::{Arc, Mutex};
use std::task::{Context, Poll, Wake, Waker};
use vharness::*;

#[path = "../dumpspec.rs"]
#[allow(dead_code)]
mod dumpspec;

const CODE_FILES: [Option<&str>; 7] = [
    None,
    Some("lib0.so"),
    Some("/x/lib0.so"),
    Some("lib1.so"),
    Some("c:\\y\\lib2.dll"),
    Some("LIB0.SO"),   // differs from 1 only in case
    Some("lib0.soaa"), // with code id "11": same concatenation as "lib0.so" + "aa11"
];
const LEAF_OF_CF: [usize; 7] = [0, 1, 1, 2, 3, 4, 5];
const LEAVES: [&str; 6] = ["", "lib0.so", "lib1.so", "lib2.dll", "LIB0.SO", "lib0.soaa"];
// round 5: code id 5 is the breakpad text of debug id 1 and debug file 4 is the text of code file 1 — identities that a key
// function with a fallback from one component to another (`code_id.or(debug_id)`, `debug_file.unwrap_or(code_file)`) merges
const CODE_IDS: [Option<&str>; 6] = [None, Some("AA11"), Some("BB22"), Some("11"), Some(""), Some("abcd1234abcd1234abcdabcd12345678a")];
const DEBUG_FILES: [Option<&str>; 5] = [None, Some("a.pdb"), Some("b.pdb"), Some("A.PDB"), Some("lib0.so")];
const DEBUG_IDS: [Option<&str>; 4] = [
    None,
    Some("abcd1234-abcd-1234-abcd-abcd12345678-a"),
    Some("abcd1234-abcd-1234-abcd-abcd12345678-b"),
    Some("abcd1234-abcd-1234-abcd-abcd12345679-a"), // another GUID, same age
];

type KeyTuple = (String, Option<String>, Option<String>, Option<String>);

fn key_tuple(m: &(dyn Module + Sync)) -> KeyTuple {
    (
        m.code_file().to_string(),
        m.code_identifier().map(|s| s.to_string()),
        m.debug_file().map(|s| s.to_string()),
        m.debug_identifier().map(|s| s.to_string()),
    )
}

/// Returns Pending (after waking itself) the scripted number of times.
struct Suspend(u32, bool);
impl Future for Suspend {
    type Output = ();
    fn poll(mut self: Pin<&mut Self>, cx: &mut Context<'_>) -> Poll<()> {
        if self.0 == 0 {
            Poll::Ready(())
        } else {
            self.0 -= 1;
            if self.1 {
                // multi-threaded runs: give the other workers a chance to run into the held slot
                std::thread::yield_now();
            }
            cx.waker().wake_by_ref();
            Poll::Pending
        }
    }
}

struct Mock {
    keys: Vec<KeyTuple>,
    scripts: Vec<(u32, u8)>,
    log: Arc<Mutex<Vec<String>>>,
    /// the task the executor is polling right now, and which tasks are inside locate_symbols
    current: Arc<AtomicUsize>,
    in_sup: Arc<Mutex<Vec<bool>>>,
    threaded: bool,
    file_calls: Arc<AtomicUsize>,
}

struct InSup(Arc<Mutex<Vec<bool>>>, usize);
impl Drop for InSup {
    fn drop(&mut self) {
        if let Some(b) = self.0.lock().unwrap().get_mut(self.1) {
            *b = false;
        }
    }
}

fn sym_text(id: usize) -> String {
    format!(
        "MODULE Linux x86_64 000000000000000000000000000000000 mock\nFUNC 1000 10 0 sym_k{}\nFUNC 2000 10 0 sym_k{}\nSTACK CFI INIT 1000 10 .cfa: {} .ra: 7\n",
        id,
        id,
        100 + id
    )
}

#[async_trait]
impl SymbolSupplier for Mock {
    async fn locate_symbols(
        &self,
        module: &(dyn Module + Sync),
    ) -> Result<LocateSymbolsResult, SymbolError> {
        let kt = key_tuple(module);
        let id = self.keys.iter().position(|k| *k == kt);
        self.log.lock().unwrap().push(match id {
            Some(i) => i.to_string(),
            None => "?".to_string(),
        });
        let (susp, outc) = match id {
            Some(i) => self.scripts[i],
            None => (0, 1),
        };
        let me = self.current.load(Ordering::SeqCst);
        if let Some(b) = self.in_sup.lock().unwrap().get_mut(me) {
            *b = true;
        }
        let _guard = InSup(self.in_sup.clone(), me);
        Suspend(susp, self.threaded).await;
        match outc {
            0 => Ok(LocateSymbolsResult {
                symbols: SymbolFile::from_bytes(sym_text(id.unwrap()).as_bytes())?,
                extra_debug_info: None,
            }),
            1 => Err(SymbolError::NotFound),
            2 => Err(SymbolError::MissingDebugFileOrId),
            3 => Err(SymbolError::LoadError(std::io::Error::new(
                std::io::ErrorKind::Other,
                "mock",
            ))),
            _ => {
                // a genuinely unparseable symbol file
                match SymbolFile::from_bytes(b"this is not a symbol file\n") {
                    Err(e) => Err(e),
                    Ok(_) => Err(SymbolError::ParseError("mock", 1)),
                }
            }
        }
    }
    async fn locate_file(
        &self,
        _module: &(dyn Module + Sync),
        _file_kind: FileKind,
    ) -> Result<PathBuf, FileError> {
        self.file_calls.fetch_add(1, Ordering::SeqCst);
        Err(FileError::NotFound)
    }
}

#[derive(Default)]
struct Walker {
    cfa: Option<u64>,
    ra: Option<u64>,
}
impl FrameWalker for Walker {
    fn get_instruction(&self) -> u64 {
        0x1004
    }
    fn has_grand_callee(&self) -> bool {
        false
    }
    fn get_grand_callee_parameter_size(&self) -> u32 {
        0
    }
    fn get_register_at_address(&self, _address: u64) -> Option<u64> {
        None
    }
    fn get_callee_register(&self, _name: &str) -> Option<u64> {
        None
    }
    fn set_caller_register(&mut self, _name: &str, _val: u64) -> Option<()> {
        Some(())
    }
    fn clear_caller_register(&mut self, _name: &str) {}
    fn set_cfa(&mut self, val: u64) -> Option<()> {
        self.cfa = Some(val);
        Some(())
    }
    fn set_ra(&mut self, val: u64) -> Option<()> {
        self.ra = Some(val);
        Some(())
    }
}

struct Flag(AtomicBool);
impl Wake for Flag {
    fn wake(self: Arc<Self>) {
        self.0.store(true, Ordering::SeqCst);
    }
    fn wake_by_ref(self: &Arc<Self>) {
        self.0.store(true, Ordering::SeqCst);
    }
}

fn name_to_class(name: Option<&str>) -> String {
    match name.and_then(|n| n.strip_prefix("sym_k")) {
        Some(id) => format!("S{}", id),
        None => "S?".to_string(),
    }
}

/// what a task checks by itself after each of its lookups (schedule-independent invariants of the counters)
struct Obs {
    nd: u64,
    leaf_of_key: Vec<String>,
    viol: Mutex<Option<String>>,
    threaded: bool,
    log: Arc<Mutex<Vec<String>>>,
    file_calls: Arc<AtomicUsize>,
    file_wanted: AtomicUsize,
}
impl Obs {
    fn fail(&self, msg: String) {
        let mut v = self.viol.lock().unwrap();
        if v.is_none() {
            *v = Some(msg.replace(';', ",").replace('|', "/").replace('\n', " "));
        }
    }
    fn report(&self) -> String {
        if self.file_calls.load(Ordering::SeqCst) != self.file_wanted.load(Ordering::SeqCst) {
            self.fail(format!(
                "get_file_path was called {} times but the supplier's locate_file ran {} times",
                self.file_wanted.load(Ordering::SeqCst),
                self.file_calls.load(Ordering::SeqCst)
            ));
        }
        self.viol.lock().unwrap().clone().unwrap_or_else(|| "-".to_string())
    }
}

trait Sink {
    fn push_class(&self, s: String);
}
impl Sink for RefCell<Vec<String>> {
    fn push_class(&self, s: String) {
        self.borrow_mut().push(s)
    }
}
impl Sink for Mutex<Vec<String>> {
    fn push_class(&self, s: String) {
        self.lock().unwrap().push(s)
    }
}

async fn run_task<S: Sink + ?Sized>(
    sym: &Symbolizer,
    mods: &[SimpleModule],
    lookups: Vec<(usize, u8)>,
    out: &S,
    obs: &Obs,
) {
    let mut finished: Vec<usize> = vec![];
    let mut last = (0u64, 0u64);
    // adaptive lookups (kind 10 + alt): what the task asks next depends on what its previous lookup returned
    let mut prev_ok = true;
    for (k, kind) in lookups {
        let (k, kind) = if kind >= 10 { (if prev_ok { k } else { (kind - 10) as usize }, 0u8) } else { (k, kind) };
        let m = &mods[k];
        let simple_ok = m.code_file.is_none()
            && m.code_identifier.is_none()
            && m.debug_file.is_some()
            && m.debug_id.is_some();
        if kind == 3 {
            let before = (sym.pending_stats(), obs.log.lock().unwrap().len());
            obs.file_wanted.fetch_add(1, Ordering::SeqCst);
            if sym.get_file_path(m, FileKind::BreakpadSym).await.is_ok() {
                obs.fail("get_file_path returned Ok although the supplier answered NotFound".to_string());
            }
            if !obs.threaded {
                let after = (sym.pending_stats(), obs.log.lock().unwrap().len());
                if before.0.symbols_requested != after.0.symbols_requested
                    || before.0.symbols_processed != after.0.symbols_processed
                    || before.1 != after.1
                {
                    obs.fail(format!("get_file_path changed the pending counters or asked for symbols (key {})", k));
                }
            }
        }
        let class = match kind {
            1 => {
                let mut w = Walker::default();
                match sym.walk_frame(m, &mut w).await {
                    Some(()) => match (w.cfa, w.ra) {
                        (Some(c), Some(7)) if c >= 100 => format!("S{}", c - 100),
                        _ => "S?".to_string(),
                    },
                    None => "E".to_string(),
                }
            }
            2 if simple_ok => {
                match sym
                    .get_symbol_at_address(m.debug_file.as_ref().unwrap(), m.debug_id.unwrap(), 0x1004)
                    .await
                {
                    Some(name) => name_to_class(Some(&name)),
                    None => "E".to_string(),
                }
            }
            _ => {
                let mut f = SimpleFrame::with_instruction(0x1004);
                match sym.fill_symbol(m, &mut f).await {
                    Ok(()) => name_to_class(f.function.as_deref()),
                    Err(_) => "E".to_string(),
                }
            }
        };
        if !finished.contains(&k) {
            finished.push(k);
        }
        let p = sym.pending_stats();
        let (rq, pr) = (p.symbols_requested, p.symbols_processed);
        if pr > rq || rq > obs.nd {
            obs.fail(format!(
                "after a lookup of key {}: requested={} processed={} with {} distinct modules in the whole run",
                k, rq, pr, obs.nd
            ));
        }
        if (pr as usize) < finished.len() {
            obs.fail(format!(
                "a task finished lookups of {} distinct modules but processed={} (requested={})",
                finished.len(),
                pr,
                rq
            ));
        }
        if rq < last.0 || pr < last.1 {
            obs.fail(format!("pending counters went backwards: {}/{} after {}/{}", rq, pr, last.0, last.1));
        }
        last = (rq, pr);
        if !sym.stats().contains_key(&obs.leaf_of_key[k]) {
            obs.fail(format!("lookup of key {} finished but stats() has no entry for its leaf name", k));
        }
        prev_ok = class != "E";
        out.push_class(class);
    }
}

/// wakes the scheduler future (and so the runtime) in addition to setting the child's bit
struct ChildWake {
    flag: AtomicBool,
    root: Arc<Mutex<Option<Waker>>>,
}
impl Wake for ChildWake {
    fn wake(self: Arc<Self>) {
        self.wake_by_ref()
    }
    fn wake_by_ref(self: &Arc<Self>) {
        self.flag.store(true, Ordering::SeqCst);
        if let Some(w) = self.root.lock().unwrap().as_ref() {
            w.wake_by_ref();
        }
    }
}

/// Polls one woken child per poll (chosen by the next pick), then yields to the runtime so that
/// the loopback server and the I/O driver make progress.
struct Sched<'a> {
    futs: Vec<Option<Pin<Box<dyn Future<Output = ()> + 'a>>>>,
    wakes: Vec<Arc<ChildWake>>,
    wakers: Vec<Waker>,
    root: Arc<Mutex<Option<Waker>>>,
    picks: Vec<usize>,
    si: usize,
}
impl<'a> Future for Sched<'a> {
    type Output = ();
    fn poll(mut self: Pin<&mut Self>, cx: &mut Context<'_>) -> Poll<()> {
        let this = &mut *self;
        *this.root.lock().unwrap() = Some(cx.waker().clone());
        if this.futs.iter().all(|f| f.is_none()) {
            return Poll::Ready(());
        }
        let woken: Vec<usize> = (0..this.futs.len())
            .filter(|&i| this.futs[i].is_some() && this.wakes[i].flag.load(Ordering::SeqCst))
            .collect();
        if woken.is_empty() {
            return Poll::Pending; // a child's waker will wake us
        }
        let pick = if this.si < this.picks.len() { this.picks[this.si] } else { 0 };
        this.si += 1;
        let i = woken[pick % woken.len()];
        this.wakes[i].flag.store(false, Ordering::SeqCst);
        let mut ccx = Context::from_waker(&this.wakers[i]);
        if this.futs[i].as_mut().unwrap().as_mut().poll(&mut ccx).is_ready() {
            this.futs[i] = None;
        }
        if this.futs.iter().all(|f| f.is_none()) {
            return Poll::Ready(());
        }
        if (0..this.futs.len()).any(|i| this.futs[i].is_some() && this.wakes[i].flag.load(Ordering::SeqCst)) {
            cx.waker().wake_by_ref();
        }
        Poll::Pending
    }
}

fn file_kind(k: u8) -> FileKind {
    match k {
        0 => FileKind::BreakpadSym,
        1 => FileKind::Binary,
        _ => FileKind::ExtraDebugInfo,
    }
}

fn run_files(tasks: &[Vec<(usize, u8)>], mods: &[SimpleModule], scripts: &[(u32, u8)], picks: &[usize]) -> String {
    use std::collections::HashMap;
    use tokio::io::{AsyncReadExt, AsyncWriteExt};
    // expected paths of every file key 3*key+kind (through the crate's own lookup())
    let mut server_path: HashMap<String, usize> = HashMap::new();
    let mut cache_path: HashMap<String, usize> = HashMap::new();
    let mut table: HashMap<String, (u32, bool)> = HashMap::new();
    for (k, m) in mods.iter().enumerate() {
        for kind in 0..3u8 {
            if let Some(l) = breakpad_symbols::lookup(m, file_kind(kind)) {
                let fk = 3 * k + kind as usize;
                server_path.entry(l.server_rel.clone()).or_insert(fk);
                cache_path.entry(l.cache_rel.clone()).or_insert(fk);
                table
                    .entry(l.server_rel.clone())
                    .or_insert((scripts[k].0, (scripts[k].1 >> kind) & 1 == 1));
            }
        }
    }
    let table = Arc::new(table);
    let reqlog = Arc::new(Mutex::new(Vec::<String>::new()));
    let rt = tokio::runtime::Builder::new_current_thread().enable_all().build().expect("runtime");
    let outs: Vec<RefCell<Vec<String>>> = (0..tasks.len()).map(|_| RefCell::new(vec![])).collect();
    let cache = tempfile::tempdir().expect("cache dir");
    let tmp = tempfile::tempdir().expect("tmp dir");
    let status = rt.block_on(async {
        let listener = tokio::net::TcpListener::bind("127.0.0.1:0").await.expect("bind loopback");
        let port = listener.local_addr().unwrap().port();
        let (tb, lg) = (table.clone(), reqlog.clone());
        let server = tokio::spawn(async move {
            loop {
                let (mut sock, _) = match listener.accept().await {
                    Ok(x) => x,
                    Err(_) => break,
                };
                let (tb, lg) = (tb.clone(), lg.clone());
                tokio::spawn(async move {
                    let mut buf = vec![];
                    let mut chunk = [0u8; 1024];
                    while !buf.windows(4).any(|w| w == b"\r\n\r\n") {
                        match sock.read(&mut chunk).await {
                            Ok(0) | Err(_) => return,
                            Ok(n) => buf.extend_from_slice(&chunk[..n]),
                        }
                    }
                    let head = String::from_utf8_lossy(&buf).to_string();
                    let target = head.split_whitespace().nth(1).unwrap_or("/").to_string();
                    let path = target.split('?').next().unwrap_or("").trim_start_matches('/').to_string();
                    lg.lock().unwrap().push(path.clone());
                    let (delay, found) = tb.get(&path).copied().unwrap_or((0, false));
                    for _ in 0..delay {
                        tokio::task::yield_now().await;
                    }
                    let resp = if found {
                        let body = format!("file {}", path);
                        format!("HTTP/1.1 200 OK\r\nContent-Length: {}\r\nConnection: close\r\n\r\n{}", body.len(), body)
                    } else {
                        "HTTP/1.1 404 Not Found\r\nContent-Length: 0\r\nConnection: close\r\n\r\n".to_string()
                    };
                    let _ = sock.write_all(resp.as_bytes()).await;
                    let _ = sock.shutdown().await;
                });
            }
        });
        let supplier = HttpSymbolSupplier::new(
            vec![format!("http://127.0.0.1:{}/", port)],
            cache.path().to_path_buf(),
            tmp.path().to_path_buf(),
            vec![],
            std::time::Duration::from_secs(10),
        );
        let root = Arc::new(Mutex::new(None));
        let wakes: Vec<Arc<ChildWake>> = (0..tasks.len())
            .map(|_| Arc::new(ChildWake { flag: AtomicBool::new(true), root: root.clone() }))
            .collect();
        let wakers: Vec<Waker> = wakes.iter().map(|w| Waker::from(w.clone())).collect();
        let cache_root = cache.path().to_path_buf();
        let futs: Vec<Option<Pin<Box<dyn Future<Output = ()> + '_>>>> = tasks
            .iter()
            .enumerate()
            .map(|(i, lk)| {
                let (sup, out, cp, cr) = (&supplier, &outs[i], &cache_path, &cache_root);
                let b: Pin<Box<dyn Future<Output = ()> + '_>> = Box::pin(async move {
                    for &(k, kind) in lk {
                        let class = match sup.locate_file(&mods[k], file_kind(kind)).await {
                            Ok(path) => {
                                let rel = path
                                    .strip_prefix(cr)
                                    .map(|p| p.to_string_lossy().replace('\\', "/"))
                                    .unwrap_or_default();
                                match cp.get(&rel) {
                                    Some(fk) => format!("S{}", fk),
                                    None => "S?".to_string(),
                                }
                            }
                            Err(_) => "E".to_string(),
                        };
                        out.borrow_mut().push(class);
                    }
                });
                Some(b)
            })
            .collect();
        let sched = Sched { futs, wakes, wakers, root, picks: picks.to_vec(), si: 0 };
        let limit = if LOST_SEEN.load(Ordering::SeqCst) { std::time::Duration::from_millis(500) } else { std::time::Duration::from_secs(8) };
        let st = match tokio::time::timeout(limit, sched).await {
            Ok(()) => "OK",
            Err(_) => {
                LOST_SEEN.store(true, Ordering::SeqCst);
                "LOST"
            }
        };
        server.abort();
        st
    });
    let mut ids: Vec<String> = vec![];
    let mut reqs: Vec<usize> = vec![];
    for p in reqlog.lock().unwrap().iter() {
        match server_path.get(p) {
            Some(fk) => reqs.push(*fk),
            None => ids.push(format!("?{}", p)),
        }
    }
    reqs.sort();
    ids.extend(reqs.iter().map(|x| x.to_string()));
    let dash = |s: String| if s.is_empty() { "-".to_string() } else { s };
    format!(
        "{};{};-;{};-;-;0;-",
        status,
        dash(ids.join(".")),
        outs.iter().map(|o| dash(o.borrow().join("."))).collect::<Vec<_>>().join("|")
    )
}

fn fmt_stats(symbolizer: &Symbolizer) -> String {
    let mut stats: Vec<(String, bool, bool)> = symbolizer
        .stats()
        .into_iter()
        .map(|(k, v)| {
            let id = match LEAVES.iter().position(|l| *l == k) {
                Some(i) => i.to_string(),
                None => format!("?{}", k),
            };
            (id, v.loaded_symbols, v.corrupt_symbols)
        })
        .collect();
    stats.sort();
    let s = stats
        .iter()
        .map(|(k, l, c)| format!("{}:{}:{}", k, *l as u8, *c as u8))
        .collect::<Vec<_>>()
        .join(",");
    if s.is_empty() {
        "-".to_string()
    } else {
        s
    }
}

/// Once a run on a real runtime has been reported LOST in this process the failing input exists; later runs wait only
/// briefly, so that a tree that loses wake-ups does not cost the full timeout for every remaining case.
static LOST_SEEN: AtomicBool = AtomicBool::new(false);
fn runtime_timeout() -> std::time::Duration {
    if LOST_SEEN.load(Ordering::SeqCst) {
        std::time::Duration::from_millis(300)
    } else {
        std::time::Duration::from_secs(12)
    }
}

/// mode 5: the real Symbolizer shared by tasks on a multi-threaded tokio runtime
fn run_threaded(
    symbolizer: Symbolizer,
    mods: Vec<SimpleModule>,
    tasks: Vec<Vec<(usize, u8)>>,
    sched: &[usize],
    log: Arc<Mutex<Vec<String>>>,
    obs: Arc<Obs>,
) -> String {
    let workers = sched.first().copied().unwrap_or(2).clamp(1, 8);
    let style = sched.get(1).copied().unwrap_or(0);
    let nt = tasks.len();
    let sym = Arc::new(symbolizer);
    let mods = Arc::new(mods);
    let outs: Vec<Arc<Mutex<Vec<String>>>> = (0..nt).map(|_| Arc::new(Mutex::new(vec![]))).collect();
    let rt = tokio::runtime::Builder::new_multi_thread()
        .worker_threads(workers)
        .enable_all()
        .build()
        .expect("runtime");
    let done = Arc::new(AtomicBool::new(false));
    let status = rt.block_on(async {
        // observer: samples the counters for the whole run
        let (osym, oobs, odone) = (sym.clone(), obs.clone(), done.clone());
        let observer = tokio::spawn(async move {
            let mut last = (0u64, 0u64);
            while !odone.load(Ordering::SeqCst) {
                let p = osym.pending_stats();
                let (rq, pr) = (p.symbols_requested, p.symbols_processed);
                if pr > rq || rq > oobs.nd {
                    oobs.fail(format!("observer saw requested={} processed={} with {} distinct modules", rq, pr, oobs.nd));
                }
                if rq < last.0 || pr < last.1 {
                    oobs.fail(format!("observer saw the counters go backwards: {}/{} after {}/{}", rq, pr, last.0, last.1));
                }
                last = (rq, pr);
                tokio::task::yield_now().await;
            }
        });
        let mk = |i: usize| {
            let (sym, mods, out, obs, lk) = (sym.clone(), mods.clone(), outs[i].clone(), obs.clone(), tasks[i].clone());
            let delay = sched.get(2 + i).copied().unwrap_or(0);
            async move {
                for _ in 0..delay {
                    tokio::task::yield_now().await; // a task that starts late
                }
                run_task(&sym, &mods, lk, &*out, &obs).await;
            }
        };
        let all = async {
            match style {
                0 => {
                    let hs: Vec<_> = (0..nt).map(|i| tokio::spawn(mk(i))).collect();
                    for h in futures_util::future::join_all(hs).await {
                        h.expect("task panicked");
                    }
                }
                1 => {
                    let ga: Vec<_> = (0..nt).filter(|i| i % 2 == 0).map(&mk).collect();
                    let gb: Vec<_> = (0..nt).filter(|i| i % 2 == 1).map(&mk).collect();
                    let ha = tokio::spawn(futures_util::future::join_all(ga));
                    let hb = tokio::spawn(futures_util::future::join_all(gb));
                    ha.await.expect("task panicked");
                    hb.await.expect("task panicked");
                }
                2 => {
                    let g: Vec<_> = (0..nt).map(&mk).collect();
                    tokio::spawn(futures_util::future::join_all(g)).await.expect("task panicked");
                }
                _ => {
                    let g: Vec<_> = (0..nt).map(&mk).collect();
                    futures_util::future::join_all(g).await;
                }
            }
        };
        let st = match tokio::time::timeout(runtime_timeout(), all).await {
            Ok(()) => "OK",
            Err(_) => {
                LOST_SEEN.store(true, Ordering::SeqCst);
                "LOST"
            }
        };
        done.store(true, Ordering::SeqCst);
        let _ = observer.await;
        st
    });
    rt.shutdown_background();
    log.lock().unwrap().sort_by_key(|e| e.parse::<usize>().unwrap_or(usize::MAX));
    let dash = |s: String| if s.is_empty() { "-".to_string() } else { s };
    let p = sym.pending_stats();
    format!(
        "{};{};-;{};{}/{};{};0;{}",
        status,
        dash(log.lock().unwrap().join(".")),
        outs.iter().map(|o| dash(o.lock().unwrap().join("."))).collect::<Vec<_>>().join("|"),
        p.symbols_requested,
        p.symbols_processed,
        fmt_stats(&sym),
        obs.report()
    )
}

/// mode 7: the real processor over a synthetic dump, one Symbolizer shared by all threads (and all processes)
fn run_processor(tasks: &[Vec<(usize, u8)>], idents: &[(usize, usize, usize, usize)], scripts: Vec<(u32, u8)>, sched: &[usize]) -> String {
    use dumpspec::{build_dump, ModSpec, Spec, ThreadSpec};
    let exec = sched.first().copied().unwrap_or(0);
    let nproc = if exec == 0 { 1 } else { sched.get(1).copied().unwrap_or(2).clamp(1, 4) };
    let base_of = |k: usize| 0x1000_0000u64 + (k as u64) * 0x10_0000;
    let mut spec = Spec { cpu: "x86".into(), os: "win".into(), ..Default::default() };
    for (i, &(cf, ci, df, di)) in idents.iter().enumerate() {
        spec.modules.push(ModSpec {
            base: base_of(i),
            size: 0x10000,
            name: CODE_FILES[cf].unwrap_or("anon").to_string(),
            sym: None,
            debug: if df > 0 && di > 0 { Some((DEBUG_FILES[df].unwrap().to_string(), (di * 16 + ci) as u32)) } else { None },
        });
    }
    for (t, lk) in tasks.iter().enumerate() {
        let stack_base = 0x7000_0000u64 + (t as u64) * 0x1000;
        let mut stack = vec![];
        for j in 0..lk.len() {
            let (next_ebp, next_ret) = if j + 1 < lk.len() {
                (stack_base + 8 * (j as u64 + 1), base_of(lk[j + 1].0) + 0x2004)
            } else {
                (0, 0)
            };
            stack.extend_from_slice(&(next_ebp as u32).to_le_bytes());
            stack.extend_from_slice(&(next_ret as u32).to_le_bytes());
        }
        let eip = lk.first().map(|&(k, _)| base_of(k) + 0x2004).unwrap_or(0);
        spec.threads.push(ThreadSpec {
            id: 100 + t as u32,
            stack_base,
            stack,
            regs: Some(vec![("eip".to_string(), eip), ("esp".to_string(), stack_base), ("ebp".to_string(), stack_base)]),
        });
    }
    let bytes = build_dump(&spec);
    let dump = Arc::new(minidump::Minidump::read(bytes).expect("synthetic dump"));
    let ml = dump.get_stream::<minidump::MinidumpModuleList>().expect("module list");
    let mut keys: Vec<KeyTuple> = vec![KeyTuple::default(); idents.len()];
    for m in ml.iter() {
        let k = ((m.base_address() - 0x1000_0000) / 0x10_0000) as usize;
        keys[k] = key_tuple(m);
    }
    for i in 0..keys.len() {
        for j in 0..i {
            assert!(keys[i] != keys[j], "mode 7 needs pairwise distinct module identities");
        }
    }
    let log = Arc::new(Mutex::new(Vec::<String>::new()));
    let sym = Arc::new(Symbolizer::new(Mock {
        keys,
        scripts,
        log: log.clone(),
        current: Arc::new(AtomicUsize::new(usize::MAX)),
        in_sup: Arc::new(Mutex::new(vec![])),
        threaded: exec == 2,
        file_calls: Arc::new(AtomicUsize::new(0)),
    }));
    let render = |st: &minidump_processor::ProcessState| -> String {
        st.threads
            .iter()
            .map(|cs| {
                let row: Vec<String> = cs
                    .frames
                    .iter()
                    .map(|f| {
                        let k = match &f.module {
                            Some(m) => (((m.base_address() - 0x1000_0000) / 0x10_0000) as usize).to_string(),
                            None => "?".to_string(),
                        };
                        let class = match f.function_name.as_deref().and_then(|n| n.strip_prefix("sym_k")) {
                            Some(id) => format!("S{}", id),
                            None => "E".to_string(),
                        };
                        format!("{}~{}", k, class)
                    })
                    .collect();
                if row.is_empty() { "-".to_string() } else { row.join(".") }
            })
            .collect::<Vec<_>>()
            .join("|")
    };
    // into_process_state copies symbol_provider.stats() into the ProcessState AFTER the join_all over the thread walks: the
    // leaf name of every module one of this processing's frames lies in must be there (C12/ProcProofs.v)
    let stats_obs = |st: &minidump_processor::ProcessState| -> Option<String> {
        for cs in &st.threads {
            for f in &cs.frames {
                if let Some(m) = &f.module {
                    let cf = m.code_file().to_string();
                    let leaf = cf.rsplit(|c| c == '/' || c == '\\').next().unwrap_or("").to_string();
                    if !st.symbol_stats.contains_key(&leaf) {
                        return Some(format!(
                            "ProcessState.symbol_stats has no entry for {} although a frame of this processing lies in that module",
                            leaf
                        ));
                    }
                }
            }
        }
        None
    };
    let mut status = "OK";
    let mut obs = "-".to_string();
    let mut rows: Vec<String> = vec![];
    if exec == 2 {
        let rt = tokio::runtime::Builder::new_multi_thread()
            .worker_threads(sched.get(2).copied().unwrap_or(4).clamp(2, 8))
            .enable_all()
            .build()
            .expect("runtime");
        let res = rt.block_on(async {
            let hs: Vec<_> = (0..nproc)
                .map(|_| {
                    let (d, s) = (dump.clone(), sym.clone());
                    tokio::spawn(async move { minidump_processor::process_minidump(&*d, &*s).await.map(|st| st.threads.len()).ok(); })
                })
                .collect();
            tokio::time::timeout(runtime_timeout(), futures_util::future::join_all(hs)).await
        });
        rt.shutdown_background();
        match res {
            Err(_) => {
                LOST_SEEN.store(true, Ordering::SeqCst);
                status = "LOST"
            }
            Ok(v) => {
                for r in v {
                    r.expect("process task panicked");
                }
            }
        }
        // the frames are rendered by one more (sequential) pass over the now fully cached symbolizer
        let st = futures_util::FutureExt::now_or_never(minidump_processor::process_minidump(&*dump, &*sym));
        match st {
            Some(Ok(st)) => {
                if let Some(o) = stats_obs(&st) {
                    obs = o;
                }
                rows.push(render(&st))
            }
            Some(Err(e)) => obs = format!("process_minidump failed: {:?}", e),
            None => obs = "a lookup suspended although every module had been located".to_string(),
        }
    } else {
        let root_flag = Arc::new(Flag(AtomicBool::new(true)));
        let root_waker = Waker::from(root_flag.clone());
        let futs: Vec<_> = (0..nproc).map(|_| minidump_processor::process_minidump(&*dump, &*sym)).collect();
        let mut root = Box::pin(futures_util::future::join_all(futs));
        let mut polls = 0usize;
        loop {
            if !root_flag.0.load(Ordering::SeqCst) {
                status = "LOST";
                break;
            }
            if polls >= 100_000 {
                status = "HUNG";
                break;
            }
            root_flag.0.store(false, Ordering::SeqCst);
            polls += 1;
            let mut cx = Context::from_waker(&root_waker);
            if let Poll::Ready(v) = root.as_mut().poll(&mut cx) {
                for r in v {
                    match r {
                        Ok(st) => {
                            if let Some(o) = stats_obs(&st) {
                                obs = o;
                            }
                            rows.push(render(&st))
                        }
                        Err(e) => obs = format!("process_minidump failed: {:?}", e),
                    }
                }
                break;
            }
        }
    }
    if rows.windows(2).any(|w| w[0] != w[1]) {
        obs = "two concurrent processings of the same dump on one symbolizer produced different frames".to_string();
    }
    log.lock().unwrap().sort_by_key(|e| e.parse::<usize>().unwrap_or(usize::MAX));
    let dash = |s: String| if s.is_empty() { "-".to_string() } else { s };
    let p = sym.pending_stats();
    format!(
        "{};{};-;{};{}/{};{};0;{}",
        status,
        dash(log.lock().unwrap().join(".")),
        rows.first().cloned().unwrap_or_else(|| "-".to_string()),
        p.symbols_requested,
        p.symbols_processed,
        fmt_stats(&sym),
        obs
    )
}

fn run(line: &str) -> String {
    let mut t = Toks::new(line);
    let mode = t.u64();
    let nt = t.usize();
    let tasks: Vec<Vec<(usize, u8)>> = (0..nt)
        .map(|_| {
            let nl = t.usize();
            (0..nl).map(|_| (t.usize(), t.u64() as u8)).collect()
        })
        .collect();
    let nk = t.usize();
    let mut mods: Vec<SimpleModule> = vec![];
    let mut keys: Vec<KeyTuple> = vec![];
    let mut scripts: Vec<(u32, u8)> = vec![];
    let mut cfs: Vec<usize> = vec![];
    let mut idents: Vec<(usize, usize, usize, usize)> = vec![];
    for _ in 0..nk {
        let susp = t.u64() as u32;
        let outc = t.u64() as u8;
        let (cf, ci, df, di) = (t.usize(), t.usize(), t.usize(), t.usize());
        cfs.push(cf);
        idents.push((cf, ci, df, di));
        let m = SimpleModule {
            code_file: CODE_FILES[cf].map(String::from),
            code_identifier: CODE_IDS[ci].map(|s| CodeId::new(s.to_string())),
            debug_file: DEBUG_FILES[df].map(String::from),
            debug_id: DEBUG_IDS[di].map(|s| DebugId::from_str(s).expect("debug id")),
            ..SimpleModule::default()
        };
        keys.push(key_tuple(&m));
        mods.push(m);
        scripts.push((susp, outc));
    }
    let ns = t.usize();
    let sched: Vec<usize> = (0..ns).map(|_| t.usize()).collect();
    if mode == 2 {
        return run_files(&tasks, &mods, &scripts, &sched);
    }
    if mode == 7 {
        return run_processor(&tasks, &idents, scripts, &sched);
    }

    let log = Arc::new(Mutex::new(Vec::<String>::new()));
    let current = Arc::new(AtomicUsize::new(usize::MAX));
    let in_sup = Arc::new(Mutex::new(vec![false; nt]));
    let file_calls = Arc::new(AtomicUsize::new(0));
    // the modules this run asks for (adaptive lookups unfolded along the supplier's scripted answers: only an upper
    // bound for the tasks' own checks of the counters)
    let mut distinct: Vec<usize> = vec![];
    for lk in &tasks {
        let mut prev_ok = true;
        for &(k, kind) in lk {
            let k = if kind >= 10 && !prev_ok { (kind - 10) as usize } else { k };
            prev_ok = scripts[k].1 == 0;
            if !distinct.contains(&k) {
                distinct.push(k);
            }
        }
    }
    let obs = Arc::new(Obs {
        nd: distinct.len() as u64,
        leaf_of_key: cfs.iter().map(|&cf| LEAVES[LEAF_OF_CF[cf]].to_string()).collect(),
        viol: Mutex::new(None),
        threaded: mode == 5,
        log: log.clone(),
        file_calls: file_calls.clone(),
        file_wanted: AtomicUsize::new(0),
    });
    let symbolizer = Symbolizer::new(Mock {
        keys,
        scripts,
        log: log.clone(),
        current: current.clone(),
        in_sup: in_sup.clone(),
        threaded: mode == 5,
        file_calls: file_calls.clone(),
    });
    if mode == 5 {
        return run_threaded(symbolizer, mods, tasks, &sched, log, obs);
    }
    let obs = &*obs;
    let outs: Vec<RefCell<Vec<String>>> = (0..nt).map(|_| RefCell::new(vec![])).collect();
    let flags: Vec<Arc<Flag>> = (0..nt).map(|_| Arc::new(Flag(AtomicBool::new(true)))).collect();
    let wakers: Vec<Waker> = flags.iter().map(|f| Waker::from(f.clone())).collect();
    let polled: Vec<AtomicBool> = (0..nt).map(|_| AtomicBool::new(false)).collect();
    let mut status = "OK";
    let mut rounds = 0usize;
    let mid;
    if mode == 4 || mode == 6 {
        // the children of one join_all share the root's waker (<= 30 children; above that join_all is a
        // FuturesUnordered with one waker per child — mode 6)
        let root_flag = Arc::new(Flag(AtomicBool::new(true)));
        let root_waker = Waker::from(root_flag.clone());
        let mut children: Vec<Pin<Box<dyn Future<Output = ()> + '_>>> = tasks
            .iter()
            .enumerate()
            .map(|(i, lk)| {
                let b: Pin<Box<dyn Future<Output = ()> + '_>> =
                    Box::pin(run_task(&symbolizer, &mods, lk.clone(), &outs[i], obs));
                b
            })
            .collect();
        let mut root: Pin<Box<dyn Future<Output = ()> + '_>> = if mode == 4 && !sched.is_empty() {
            // nested: join_all over groups, each group a join_all over consecutive children
            let mut groups = vec![];
            let mut it = children.drain(..);
            for &g in &sched {
                let grp: Vec<_> = it.by_ref().take(g).collect();
                if !grp.is_empty() {
                    groups.push(futures_util::future::join_all(grp));
                }
            }
            let rest: Vec<_> = it.collect();
            if !rest.is_empty() {
                groups.push(futures_util::future::join_all(rest));
            }
            Box::pin(async move {
                futures_util::future::join_all(groups).await;
            })
        } else {
            Box::pin(async move {
                futures_util::future::join_all(children).await;
            })
        };
        loop {
            if !root_flag.0.load(Ordering::SeqCst) {
                status = "LOST";
                break;
            }
            if rounds >= 100_000 {
                status = "HUNG";
                break;
            }
            root_flag.0.store(false, Ordering::SeqCst);
            rounds += 1;
            let mut cx = Context::from_waker(&root_waker);
            if root.as_mut().poll(&mut cx).is_ready() {
                break;
            }
        }
        if mode == 6 {
            rounds = 0;
            log.lock().unwrap().sort_by_key(|e| e.parse::<usize>().unwrap_or(usize::MAX));
        }
        mid = "-".to_string();
    } else {
        let mut futs: Vec<Option<Pin<Box<dyn Future<Output = ()> + '_>>>> = tasks
            .iter()
            .enumerate()
            .map(|(i, lk)| {
                let b: Pin<Box<dyn Future<Output = ()> + '_>> =
                    Box::pin(run_task(&symbolizer, &mods, lk.clone(), &outs[i], obs));
                Some(b)
            })
            .collect();
        let mut poll_task = |futs: &mut Vec<Option<Pin<Box<dyn Future<Output = ()> + '_>>>>, i: usize| {
            if i >= futs.len() {
                return;
            }
            if let Some(f) = futs[i].as_mut() {
                flags[i].0.store(false, Ordering::SeqCst);
                current.store(i, Ordering::SeqCst);
                polled[i].store(true, Ordering::SeqCst);
                let mut cx = Context::from_waker(&wakers[i]);
                if f.as_mut().poll(&mut cx).is_ready() {
                    futs[i] = None;
                }
            }
        };
        if mode == 0 {
            for &i in &sched {
                poll_task(&mut futs, i);
            }
            let p = symbolizer.pending_stats();
            mid = format!(
                "{}/{}/{}",
                p.symbols_requested,
                p.symbols_processed,
                futs.iter().filter(|f| f.is_none()).count()
            );
            while futs.iter().any(|f| f.is_some()) {
                if rounds >= 10_000 {
                    status = "HUNG";
                    break;
                }
                rounds += 1;
                for i in 0..nt {
                    poll_task(&mut futs, i);
                }
            }
        } else {
            let mut trace: Vec<String> = vec![];
            let mut si = 0usize;
            let mut polls = 0usize;
            loop {
                if mode == 3 && si < sched.len() && sched[si] >= 100 {
                    // drop a requester that is waiting for a slot's lock
                    let u = sched[si] - 100;
                    si += 1;
                    let waiting = u < nt
                        && futs[u].is_some()
                        && polled[u].load(Ordering::SeqCst)
                        && !in_sup.lock().unwrap()[u];
                    if waiting {
                        futs[u] = None; // runs MutexLockFuture::drop
                        trace.push((100 + u).to_string());
                    }
                    continue;
                }
                if futs.iter().all(|f| f.is_none()) {
                    break;
                }
                let woken: Vec<usize> = (0..nt)
                    .filter(|&i| futs[i].is_some() && flags[i].0.load(Ordering::SeqCst))
                    .collect();
                if woken.is_empty() {
                    status = "LOST";
                    break;
                }
                if polls >= 100_000 {
                    status = "HUNG";
                    break;
                }
                let pick = if si < sched.len() { sched[si] } else { 0 };
                si += 1;
                polls += 1;
                trace.push(woken[pick % woken.len()].to_string());
                poll_task(&mut futs, woken[pick % woken.len()]);
            }
            mid = if trace.is_empty() { "-".to_string() } else { trace.join(".") };
        }
    }
    let p = symbolizer.pending_stats();
    let mut stats: Vec<(String, bool, bool)> = symbolizer
        .stats()
        .into_iter()
        .map(|(k, v)| {
            let id = match LEAVES.iter().position(|l| *l == k) {
                Some(i) => i.to_string(),
                None => format!("?{}", k),
            };
            (id, v.loaded_symbols, v.corrupt_symbols)
        })
        .collect();
    stats.sort();
    let dash = |s: String| if s.is_empty() { "-".to_string() } else { s };
    format!(
        "{};{};{};{};{}/{};{};{};{}",
        status,
        dash(log.lock().unwrap().join(".")),
        mid,
        outs.iter()
            .map(|o| dash(o.borrow().join(".")))
            .collect::<Vec<_>>()
            .join("|"),
        p.symbols_requested,
        p.symbols_processed,
        dash(
            stats
                .iter()
                .map(|(k, l, c)| format!("{}:{}:{}", k, *l as u8, *c as u8))
                .collect::<Vec<_>>()
                .join(",")
        ),
        rounds,
        obs.report()
    )
}

fn main() {
    for_each_case(run);
}
