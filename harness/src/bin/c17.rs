//! C17 correspondence harness: builds a `SimpleModule` from the case's strings and ids and
//! prints every relative path the public lookup builders produce.
//!   <code_file> <debug_file> <debug id text> <code id text>
//! each token: N (absent), - (empty string) or the bytes in hex (valid UTF-8).
//! Ids go through the real constructors: `DebugId::from_breakpad`, `CodeId::new`.
//! Answer: eight fields joined by ';' (N = None, P = panicked, - = empty, else hex):
//!   breakpad_sym.cache_rel, .server_rel, code_info, extra_debuginfo.cache_rel, .server_rel,
//!   binary.cache_rel, .server_rel, moz_lookup(binary).server_rel
//! followed by implementation-only observations
//!   |L<0/1>   lookup(module, kind) equals the direct builder for all three kinds
//!   |J<flags> per field: '-' None, '1' if Path::new(ROOT).join(rel) starts_with(ROOT) and has
//!             no ParentDir component, '0' otherwise (a real std::path join on this platform)
//!   |I<hex>,<hex> the id texts as the real types render them (breakpad(), CodeId::as_ref)
//!   |P<obs>;..    per field `<components of ROOT.join(rel) after ROOT's>:<the same for its parent()>` (compared with the model)
use breakpad_symbols::{
    binary_lookup, breakpad_sym_lookup, code_info_breakpad_sym_lookup, extra_debuginfo_lookup,
    lookup, moz_lookup, FileKind, FileLookup, SimpleModule,
};
use debugid::{CodeId, DebugId};
use std::panic::{catch_unwind, AssertUnwindSafe};
use std::path::{Component, Path};
use vharness::*;

const ROOT: &str = "/verif-root/symbols";

fn tok(t: &str) -> Option<String> {
    if t == "N" {
        None
    } else {
        Some(String::from_utf8(unhex(t)).expect("case strings are valid UTF-8"))
    }
}

fn join_ok(rel: &str) -> bool {
    let root = Path::new(ROOT);
    let j = root.join(rel);
    j.starts_with(root) && !j.components().any(|c| matches!(c, Component::ParentDir))
}

fn same(a: &Option<FileLookup>, b: &Option<FileLookup>) -> bool {
    match (a, b) {
        (None, None) => true,
        (Some(x), Some(y)) => {
            x.cache_rel == y.cache_rel
                && x.server_rel == y.server_rel
                && x.debug_id == y.debug_id
                && x.debug_file == y.debug_file
        }
        _ => false,
    }
}

fn run(line: &str) -> String {
    let mut t = Toks::new(line);
    let cf = tok(t.str());
    let df = tok(t.str());
    let did = tok(t.str()).map(|s| DebugId::from_breakpad(&s).expect("debug id text parses"));
    let cid = tok(t.str()).map(CodeId::new);
    let m = SimpleModule::from_basic_info(df, did, cf, cid.clone());

    let bs = breakpad_sym_lookup(&m);
    let ci = code_info_breakpad_sym_lookup(&m);
    let ed = extra_debuginfo_lookup(&m);
    let bn = binary_lookup(&m);
    // moz_lookup has an unwrap: observe a panic as its own answer
    let moz: Option<Result<String, ()>> = bn.clone().map(|l| {
        catch_unwind(AssertUnwindSafe(|| moz_lookup(l).server_rel)).map_err(|_| ())
    });
    let consistent = same(&lookup(&m, FileKind::BreakpadSym), &bs)
        && same(&lookup(&m, FileKind::Binary), &bn)
        && same(&lookup(&m, FileKind::ExtraDebugInfo), &ed);

    let fields: Vec<Option<Result<String, ()>>> = vec![
        bs.as_ref().map(|l| Ok(l.cache_rel.clone())),
        bs.as_ref().map(|l| Ok(l.server_rel.clone())),
        ci.clone().map(Ok),
        ed.as_ref().map(|l| Ok(l.cache_rel.clone())),
        ed.as_ref().map(|l| Ok(l.server_rel.clone())),
        bn.as_ref().map(|l| Ok(l.cache_rel.clone())),
        bn.as_ref().map(|l| Ok(l.server_rel.clone())),
        moz,
    ];
    let mut out: Vec<String> = vec![];
    let mut flags = String::new();
    for f in &fields {
        match f {
            None => {
                out.push("N".into());
                flags.push('-');
            }
            Some(Err(())) => {
                out.push("P".into());
                flags.push('-');
            }
            Some(Ok(p)) => {
                out.push(hex(p.as_bytes()));
                flags.push(if join_ok(p) { '1' } else { '0' });
            }
        }
    }
    let id_txt = did.map(|d| d.breakpad().to_string()).unwrap_or_default();
    let cid_txt = cid.map(|c| c.as_ref().to_string()).unwrap_or_default();
    // Round 5: what std::path makes of ROOT.join(rel) and of its parent (create_dir_all's argument), as component
    // lists after ROOT's own components ("!" when ROOT's components are not in front / there is no parent)
    let comps_obs: Vec<String> = fields
        .iter()
        .map(|f| match f {
            Some(Ok(p)) => {
                let j = Path::new(ROOT).join(p);
                format!("{}:{}", comps_after_root(Some(&j)), comps_after_root(j.parent()))
            }
            _ => "N".to_string(),
        })
        .collect();
    format!(
        "{}|L{}|J{}|I{},{}|P{}",
        out.join(";"),
        if consistent { 1 } else { 0 },
        flags,
        hex(id_txt.as_bytes()),
        hex(cid_txt.as_bytes()),
        comps_obs.join(";")
    )
}

/// the components of `p` after those of ROOT, hex, comma separated ("-" for none); "!" if ROOT's components are
/// not the first ones (or p is None)
fn comps_after_root(p: Option<&Path>) -> String {
    let Some(p) = p else { return "!".into() };
    let root: Vec<Component> = Path::new(ROOT).components().collect();
    let all: Vec<Component> = p.components().collect();
    if all.len() < root.len() || all[..root.len()] != root[..] {
        return "!".into();
    }
    let rest: Vec<String> = all[root.len()..]
        .iter()
        .map(|c| {
            use std::os::unix::ffi::OsStrExt;
            hex(c.as_os_str().as_bytes())
        })
        .collect();
    if rest.is_empty() {
        "-".into()
    } else {
        rest.join(",")
    }
}

/// `c17 --url-probe`: end-to-end observation of the URLs the HTTP supplier really requests.
/// A loopback listener plays the symbol server (always 404) and records every request target.
/// Case `<code_file> <debug_file> <debug id text> <code id text>` (tokens as above): base URL
///   `http://127.0.0.1:<port>/root/`; three calls on a fresh supplier — locate_symbols,
///   locate_file(Binary), locate_file(ExtraDebugInfo).
///   Answer: `U|<server_rel of breakpad_sym_lookup: hex or N>|<sym reqs>|<binary reqs>|<extra reqs>`
/// Case `B <suffix hex>`: base URL `http://127.0.0.1:<port>/` + suffix (the server URL goes through
///   the same `url` parser), module `k.dll` / `a.pdb` / a fixed id, locate_symbols only.
///   Answer: `B|<reqs>`
/// Case `R <code_file> <code id> <Location>`: a module without debug file / id; the listener answers the first request (the
///   code-info lookup) with `302 Location: <Location>`; locate_symbols only.  Answer: `R|<reqs>`
/// Request targets are hex, comma separated, in arrival order.
fn url_probe() {
    use breakpad_symbols::{HttpSymbolSupplier, SymbolSupplier};
    use std::io::{Read, Write};
    use std::net::TcpListener;
    use std::sync::mpsc;
    use std::time::Duration;
    let listener = TcpListener::bind("127.0.0.1:0").expect("bind loopback");
    let port = listener.local_addr().unwrap().port();
    let (tx, rx) = mpsc::channel::<String>();
    // `R` cases: the Location the server answers the NEXT request with (302), once
    let redirect: std::sync::Arc<std::sync::Mutex<Option<String>>> = Default::default();
    let redirect_srv = redirect.clone();
    std::thread::spawn(move || {
        for s in listener.incoming() {
            if let Ok(mut s) = s {
                let mut buf = [0u8; 16384];
                let n = s.read(&mut buf).unwrap_or(0);
                let req = String::from_utf8_lossy(&buf[..n]).to_string();
                let target = req.lines().next().unwrap_or("").split(' ').nth(1).unwrap_or("").to_string();
                let _ = tx.send(target);
                let loc = if n > 0 { redirect_srv.lock().unwrap().take() } else { None };
                if let Some(loc) = loc {
                    let _ = s.write_all(
                        format!("HTTP/1.1 302 Found\r\nLocation: {}\r\nContent-Length: 0\r\nConnection: close\r\n\r\n", loc).as_bytes(),
                    );
                } else {
                    let _ = s.write_all(b"HTTP/1.1 404 Not Found\r\nContent-Length: 0\r\nConnection: close\r\n\r\n");
                }
            }
        }
    });
    let rt = tokio::runtime::Builder::new_current_thread().enable_all().build().expect("runtime");
    let dir = tempfile::tempdir().expect("tempdir");
    let drain = |rx: &mpsc::Receiver<String>| -> String {
        std::thread::sleep(Duration::from_millis(5));
        let mut reqs: Vec<String> = vec![];
        while let Ok(r) = rx.try_recv() {
            reqs.push(hex(r.as_bytes()));
        }
        reqs.join(",")
    };
    for_each_case(|line| {
        let mut t = Toks::new(line);
        let first = t.str();
        let mk = |base: String| {
            HttpSymbolSupplier::new(
                vec![base],
                dir.path().join("cache"),
                dir.path().join("tmp"),
                vec![],
                Duration::from_secs(8),
            )
        };
        if first == "B" {
            let suffix = tok(t.str()).expect("suffix");
            let m = SimpleModule::from_basic_info(
                Some("a.pdb".into()),
                Some(DebugId::from_breakpad("5A9832E5287241C1838ED98914E9B7FF1").unwrap()),
                Some("k.dll".into()),
                Some(CodeId::new("5a".into())),
            );
            let supplier = mk(format!("http://127.0.0.1:{}/{}", port, suffix));
            let _ = rt.block_on(supplier.locate_symbols(&m));
            return format!("B|{}", drain(&rx));
        }
        if first == "R" {
            // `R <code_file> <code id> <Location>`: no debug file / id; the code-info request is answered with a redirect
            let cf = tok(t.str());
            let cid = tok(t.str()).map(CodeId::new);
            let loc = tok(t.str()).expect("location");
            let m = SimpleModule::from_basic_info(None, None, cf, cid);
            *redirect.lock().unwrap() = Some(loc);
            let supplier = mk(format!("http://127.0.0.1:{}/root/", port));
            let _ = rt.block_on(supplier.locate_symbols(&m));
            *redirect.lock().unwrap() = None;
            return format!("R|{}", drain(&rx));
        }
        let cf = tok(first);
        let df = tok(t.str());
        let did = tok(t.str()).map(|s| DebugId::from_breakpad(&s).expect("debug id text parses"));
        let cid = tok(t.str()).map(CodeId::new);
        let m = SimpleModule::from_basic_info(df, did, cf, cid);
        let rel = breakpad_sym_lookup(&m).map(|l| l.server_rel);
        let supplier = mk(format!("http://127.0.0.1:{}/root/", port));
        let _ = rt.block_on(supplier.locate_symbols(&m));
        let r1 = drain(&rx);
        let _ = rt.block_on(supplier.locate_file(&m, FileKind::Binary));
        let r2 = drain(&rx);
        let _ = rt.block_on(supplier.locate_file(&m, FileKind::ExtraDebugInfo));
        let r3 = drain(&rx);
        format!(
            "U|{}|{}|{}|{}",
            rel.map(|r| hex(r.as_bytes())).unwrap_or_else(|| "N".into()),
            r1,
            r2,
            r3
        )
    });
}

/// `c17 --fs-probe`: end-to-end observation of the FILES the consumers touch.
/// Per case a fresh sandbox `<T>/root/{symbols,cache,tmp}`; the case's names may use `@T@` for `<T>`.
/// Decoy files (valid symbol files for the module's id) are placed where an escaping join would
/// land: for every string X a consumer could join (the whole debug/code file name and obvious
/// derivatives) at `symbols.join(X)` and `cache.join(X)` whenever that is inside `<T>` but outside
/// the roots, plus `<T>/outside/secret.bin`, `<T>/x`, `<T>/root/x`.  Then, with a loopback server that
/// answers every request 200 with a symbol file: `SimpleSymbolSupplier` (locate_symbols + locate_file
/// for the three kinds, over the symbols dir) and `HttpSymbolSupplier` (same four calls; local path =
/// symbols dir, cache, tmp).  Every returned path is canonicalized and must lie under symbols/ or
/// cache/; every file the run created must lie under cache/ or tmp/.
/// Answer: `F|ok|<n returned>|<n created>` or `F|ESC|<what>`.
fn fs_probe() {
    use breakpad_symbols::{HttpSymbolSupplier, SimpleSymbolSupplier, SymbolSupplier};
    use std::collections::BTreeSet;
    use std::io::{Read, Write};
    use std::net::TcpListener;
    use std::path::PathBuf;
    use std::time::Duration;
    let listener = TcpListener::bind("127.0.0.1:0").expect("bind loopback");
    let port = listener.local_addr().unwrap().port();
    std::thread::spawn(move || {
        for s in listener.incoming() {
            if let Ok(mut s) = s {
                let mut buf = [0u8; 16384];
                let _ = s.read(&mut buf);
                let body = b"MODULE Linux x86 5A9832E5287241C1838ED98914E9B7FF1 served\nFILE 0 a.c\n";
                let head = format!("HTTP/1.1 200 OK\r\nContent-Length: {}\r\nConnection: close\r\n\r\n", body.len());
                let _ = s.write_all(head.as_bytes());
                let _ = s.write_all(body);
            }
        }
    });
    let rt = tokio::runtime::Builder::new_current_thread().enable_all().build().expect("runtime");

    // files AND directories (create_dir_all is a sink of its own: it runs before, and even without, the file creation)
    fn walk(dir: &Path, out: &mut BTreeSet<PathBuf>) {
        if let Ok(rd) = std::fs::read_dir(dir) {
            for e in rd.flatten() {
                let p = e.path();
                if p.is_dir() && !p.is_symlink() {
                    out.insert(p.clone());
                    walk(&p, out);
                } else {
                    out.insert(p);
                }
            }
        }
    }
    // lexical normalisation (no file system access); None if it climbs above `/`
    fn normalize(p: &Path) -> Option<PathBuf> {
        let mut out = PathBuf::new();
        for c in p.components() {
            match c {
                Component::ParentDir => {
                    if !out.pop() {
                        return None;
                    }
                }
                Component::CurDir => {}
                other => out.push(other.as_os_str()),
            }
        }
        Some(out)
    }

    // Two passes per case: with decoy files wherever an escaping join would land (an escaping READ finds a file), and
    // in an empty sandbox (an escaping WRITE creates a file: persist_noclobber would refuse to replace a decoy).
    let one_pass = |line: &str, with_decoys: bool| -> String {
        let sandbox = tempfile::tempdir().expect("tempdir");
        let t = sandbox.path().canonicalize().expect("canonical sandbox");
        let subst = |s: Option<String>| s.map(|x| x.replace("@T@", t.to_str().unwrap()));
        let mut tk = Toks::new(line);
        let cf = subst(tok(tk.str()));
        let df = subst(tok(tk.str()));
        let did = tok(tk.str()).map(|s| DebugId::from_breakpad(&s).expect("debug id text parses"));
        let cid = tok(tk.str()).map(CodeId::new);
        let symbols = t.join("root/symbols");
        let cache = t.join("root/cache");
        let tmp = t.join("root/tmp");
        for d in [&symbols, &cache, &tmp] {
            std::fs::create_dir_all(d).expect("mkdir");
        }
        let id_txt = did.map(|d| d.breakpad().to_string()).unwrap_or_else(|| "000000000000000000000000000000000".into());
        let content = format!("MODULE Linux x86 {} decoy\nFILE 0 a.c\n", id_txt);
        // decoys
        let mut cands: Vec<String> = vec!["../../outside/secret.bin".into(), "../../x".into(), "../x".into()];
        if !with_decoys {
            cands.clear();
        }
        for name in [&cf, &df].into_iter().flatten().filter(|_| with_decoys) {
            if name.contains('\0') {
                continue;
            }
            cands.push(name.clone());
            cands.push(format!("{}.sym", name));
            if let Some(stem) = name.rsplit_once('.') {
                cands.push(format!("{}.sym", stem.0));
            }
        }
        for x in &cands {
            for root in [&symbols, &cache] {
                if let Some(p) = normalize(&root.join(x)) {
                    let inside_roots = p.starts_with(&symbols) || p.starts_with(&cache) || p.starts_with(&tmp);
                    if p.starts_with(&t) && p != t && !inside_roots && !p.exists() {
                        if let Some(parent) = p.parent() {
                            if std::fs::create_dir_all(parent).is_ok() && !p.is_dir() {
                                let _ = std::fs::write(&p, &content);
                            }
                        }
                    }
                }
            }
        }
        let mut before = BTreeSet::new();
        walk(&t, &mut before);

        let m = SimpleModule::from_basic_info(df, did, cf, cid);
        let simple = SimpleSymbolSupplier::new(vec![symbols.clone()]);
        let http = HttpSymbolSupplier::new(
            vec![format!("http://127.0.0.1:{}/root/", port)],
            cache.clone(),
            tmp.clone(),
            vec![symbols.clone()],
            Duration::from_secs(8),
        );
        let kinds = [FileKind::BreakpadSym, FileKind::Binary, FileKind::ExtraDebugInfo];
        let mut returned: Vec<(String, PathBuf)> = vec![];
        for k in kinds {
            if let Ok(p) = rt.block_on(simple.locate_file(&m, k)) {
                returned.push((format!("SimpleSymbolSupplier::locate_file({:?})", k), p));
            }
        }
        let _ = rt.block_on(simple.locate_symbols(&m));
        if !with_decoys {
            // second pass: locate_symbols FIRST, on an empty cache, so that fetch_symbol_file (and its create_cache_file /
            // commit_cache_file) really downloads and caches; in the first pass locate_file(BreakpadSym) has already
            // cached the symbol file through fetch_lookup and locate_symbols is answered from the cache
            let _ = rt.block_on(http.locate_symbols(&m));
        }
        let mut http_ret: Vec<Option<PathBuf>> = vec![];
        for k in kinds {
            if let Ok(p) = rt.block_on(http.locate_file(&m, k)) {
                http_ret.push(Some(p.clone()));
                returned.push((format!("HttpSymbolSupplier::locate_file({:?})", k), p));
            } else {
                http_ret.push(None);
            }
        }
        let _ = rt.block_on(http.locate_symbols(&m));

        for (who, p) in &returned {
            let c = p.canonicalize().unwrap_or_else(|_| normalize(p).unwrap_or_else(|| p.clone()));
            if !(c.starts_with(&symbols) || c.starts_with(&cache)) {
                let shown = c.strip_prefix(&t).map(|r| format!("<T>/{}", r.display())).unwrap_or_else(|_| c.display().to_string());
                return format!("F|ESC|{} returned {} which is outside the symbol and cache directories", who, shown);
            }
        }
        let mut after = BTreeSet::new();
        walk(&t, &mut after);
        let mut created = 0;
        for p in after.difference(&before) {
            if !p.is_dir() {
                created += 1;
            }
            if !(p.starts_with(&cache) || p.starts_with(&tmp)) {
                let shown = p.strip_prefix(&t).map(|r| format!("<T>/{}", r.display())).unwrap_or_else(|_| p.display().to_string());
                return format!("F|ESC|the run created {} outside the cache and tmp directories", shown);
            }
        }
        // Round 5: what exactly was returned / created, for comparison with the model's prediction
        // (the flow model says: fetch_lookup downloads to cache.join(lookup(module, kind).cache_rel), locate_file of the
        // simple supplier answers path.join(lookup(module, kind).cache_rel)).
        fn rel_text(p: &Path, root: &Path) -> String {
            let (ps, rs) = (p.to_string_lossy().into_owned(), format!("{}/", root.to_string_lossy()));
            match ps.strip_prefix(&rs) {
                Some(r) => hex(r.as_bytes()),
                None => format!("?{}", hex(ps.as_bytes())),
            }
        }
        let show = |v: &Vec<Option<PathBuf>>, root: &Path| -> String {
            v.iter().map(|o| o.as_ref().map_or("N".to_string(), |p| rel_text(p, root))).collect::<Vec<_>>().join(",")
        };
        let made: Vec<String> = after
            .difference(&before)
            .filter(|p| p.starts_with(&cache) && !p.is_dir())
            .map(|p| rel_text(p, &cache))
            .collect();
        // third phase: a symbol directory that HAS the files; the simple supplier must answer <dir>/<cache_rel>
        let mut simple_ret: Vec<Option<PathBuf>> = vec![];
        for k in kinds {
            if let Some(l) = lookup(&m, k) {
                let dest = symbols.join(&l.cache_rel);
                if !l.cache_rel.contains('\0') {
                    if let Some(n) = normalize(&dest) {
                        if n.starts_with(&symbols) && n != symbols && !n.exists() {
                            if let Some(parent) = n.parent() {
                                if std::fs::create_dir_all(parent).is_ok() {
                                    let _ = std::fs::write(&n, &content);
                                }
                            }
                        }
                    }
                }
            }
        }
        for k in kinds {
            simple_ret.push(rt.block_on(simple.locate_file(&m, k)).ok());
        }
        for p in simple_ret.iter().flatten() {
            let c = p.canonicalize().unwrap_or_else(|_| normalize(p).unwrap_or_else(|| p.clone()));
            if !c.starts_with(&symbols) {
                return format!("F|ESC|SimpleSymbolSupplier::locate_file (populated directory) returned {} which is outside the symbol directory", c.display());
            }
        }
        format!(
            "F|ok|{}|{}|R:{}|S:{}|C:{}",
            returned.len(),
            created,
            show(&http_ret, &cache),
            show(&simple_ret, &symbols),
            made.join(",")
        )
    };
    for_each_case(|line| {
        let first = one_pass(line, true);
        if first.starts_with("F|ESC") {
            return first;
        }
        let second = one_pass(line, false);
        if second.starts_with("F|ESC") {
            return second.replacen("F|ESC|", "F|ESC|(sandbox without decoys) ", 1);
        }
        // the files the second pass created under its cache (locate_symbols first: fetch_symbol_file's cache path)
        match second.rsplit_once("|C:") {
            Some((_, made2)) => format!("{}|D:{}", first, made2),
            None => first,
        }
    });
}

/// `c17 --url-join`: the real `Url::join` (url crate, as re-exported by reqwest and used by http.rs) on a RAW reference —
/// the scheme / authority / absolute-path branches that `join_rel` keeps lookup paths away from.
/// Case `J <base scheme hex> <base path hex> <reference hex>`: base `<scheme>://h.test<base path>`.
/// Answer `OK|<scheme hex>|<username hex>|<host hex>|<port or ->|<path hex>|<base path as parsed, hex>` or `ERR|<error>`.
fn url_join() {
    for_each_case(|line| {
        let mut t = Toks::new(line);
        let j = t.str();
        assert_eq!(j, "J", "case starts with J");
        let scheme = tok(t.str()).expect("scheme");
        let base_path = tok(t.str()).expect("base path");
        let reference = tok(t.str()).expect("reference");
        let base = reqwest::Url::parse(&format!("{}://h.test{}", scheme, base_path)).expect("base url parses");
        match base.join(&reference) {
            Ok(u) => format!(
                "OK|{}|{}|{}|{}|{}|{}",
                hex(u.scheme().as_bytes()),
                hex(u.username().as_bytes()),
                hex(u.host_str().unwrap_or("").as_bytes()),
                u.port().map(|p| p.to_string()).unwrap_or_else(|| "-".into()),
                hex(u.path().as_bytes()),
                hex(base.path().as_bytes())
            ),
            Err(e) => format!("ERR|{}", e),
        }
    });
}

fn main() {
    if std::env::args().any(|a| a == "--url-join") {
        url_join();
    } else if std::env::args().any(|a| a == "--url-probe") {
        url_probe();
    } else if std::env::args().any(|a| a == "--fs-probe") {
        fs_probe();
    } else {
        for_each_case(run);
    }
}
