//! C06 correspondence harness (STACK CFI).  '|'-separated case lines:
//!  A|W|lookup|initaddr|initsize|regs|membase|memhex|init_text|d1addr|d1text|...
//!     SymbolFile::from_bytes + walk_frame with the mock walker (word size W)
//!  B|arch|ctxregs|valid|stackbase|stackhex|initaddr|initsize|init_text|d1addr|d1text|...
//!     one walk_stack step through the real CfiStackWalker (arch = x86|amd64|arm64|arm64_old|arm|mips|mips64)
//!  M|W|lookup|regs|membase|memhex|REC|REC|...   REC = initaddr;initsize;init_text;d1addr;d1text;...
//!     several INIT records (disjoint ranges, any file order) in one symbol file, mock walker
//! answers: A, M: S|cfa=..|ra=..|regs=n=v,..|cleared=n,..   or N (walk failed) or E (file rejected)
//!          B: S|valid=..|regs=..  or N
#[path = "../cfi_common.rs"]
mod cfi_common;
use cfi_common::*;
use vharness::*;

fn cfi_text(f: &[&str]) -> String {
    // f = initaddr, initsize, init_text, (daddr, dtext)*
    let mut text = format!(
        "STACK CFI INIT {:x} {:x} {}\n",
        f[0].parse::<u64>().expect("initaddr"),
        f[1].parse::<u64>().expect("initsize"),
        f[2]
    );
    let mut i = 3;
    while i + 1 < f.len() {
        text.push_str(&format!("STACK CFI {:x} {}\n", f[i].parse::<u64>().expect("daddr"), f[i + 1]));
        i += 2;
    }
    text
}

fn run(line: &str) -> String {
    let f: Vec<&str> = line.split('|').collect();
    match f[0] {
        "A" => {
            let w: usize = f[1].parse().expect("W");
            let lookup: u64 = f[2].parse().expect("lookup");
            let text = format!("MODULE Linux x86 ABCD1234 m\n{}", cfi_text(&[f[3], f[4], f[8]].iter().chain(f[9..].iter()).cloned().collect::<Vec<_>>()));
            let mut mw = MockWalker {
                w,
                instruction: lookup,
                has_gc: false,
                gcps: 0,
                callee: parse_regs(f[5]).into_iter().collect(),
                membase: f[6].parse().expect("membase"),
                mem: unhex(f[7]),
                cfa: None,
                ra: None,
                caller: Default::default(),
                cleared: Default::default(),
            };
            mock_walk(&text, &mut mw)
        }
        "M" => {
            let w: usize = f[1].parse().expect("W");
            let lookup: u64 = f[2].parse().expect("lookup");
            let mut text = String::from("MODULE Linux x86 ABCD1234 m\n");
            for rec in &f[6..] {
                let g: Vec<&str> = rec.split(';').collect();
                text.push_str(&cfi_text(&g));
            }
            let mut mw = MockWalker {
                w,
                instruction: lookup,
                has_gc: false,
                gcps: 0,
                callee: parse_regs(f[3]).into_iter().collect(),
                membase: f[4].parse().expect("membase"),
                mem: unhex(f[5]),
                cfa: None,
                ra: None,
                caller: Default::default(),
                cleared: Default::default(),
            };
            mock_walk(&text, &mut mw)
        }
        "B" => {
            let regs = parse_regs(f[2]);
            let text = cfi_text(&f[6..]);
            real_walk(f[1], &regs, f[3], f[4].parse().expect("stackbase"), &unhex(f[5]), &text)
        }
        _ => panic!("bad kind"),
    }
}

fn main() {
    for_each_case(run);
}
