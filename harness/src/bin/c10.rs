//! C10 correspondence harness: SymbolFile::parse over a chunking reader with a recording
//! callback, plus the whole-slice parse of the same bytes (see ../symcase.rs for the protocol),
//! plus SymbolFile::parse_async over a scripted HTTP body.
//!
//! Case line:  <segment>* | <schedule token>* [ | <stream token>* ]
//!   stream token  <n> | <n>*<k>   the body yields a data frame of n bytes (k times); n = 0 is an EMPTY frame
//!                 E               the body yields an error here (response.chunk() fails); nothing after it is delivered
//!   After the script the rest of the input (if any) comes as one frame, then the body ends.  Sizes are clipped to what is left.
//!   Without the third section the frames are the schedule's sizes (at least 1 byte each), as in rounds 1-4.
//! Async answer (model part):  A=<OK|E<code>:<line>|E8:0 = the error of the body>;acb=<callback bytes>,<calls>;aev=<hash of callback lengths>,<n>;AT=<table>
//! oracle part: acbok=<callback bytes are a prefix of the input>;aeq=<async table == whole-slice table of the WHOLE input, or both errors>
//!              ;ad=<bytes the body delivered>;aerr=<1 if the body failed>;aw=<whole-slice parse of the delivered bytes>
#[path = "../symcase.rs"]
mod symcase;

use breakpad_symbols::{SymbolError, SymbolFile};
use std::cell::Cell;
use std::collections::VecDeque;
use symcase::{class, mix, render_table, Case};

#[derive(Clone, Copy)]
enum Ev {
    Data(usize),
    Fail,
}

struct ScriptBody {
    frames: VecDeque<Result<bytes::Bytes, ()>>,
}

impl http_body::Body for ScriptBody {
    type Data = bytes::Bytes;
    type Error = std::io::Error;
    fn poll_frame(
        mut self: std::pin::Pin<&mut Self>,
        _cx: &mut std::task::Context<'_>,
    ) -> std::task::Poll<Option<Result<http_body::Frame<bytes::Bytes>, Self::Error>>> {
        std::task::Poll::Ready(self.frames.pop_front().map(|f| match f {
            Ok(b) => Ok(http_body::Frame::data(b)),
            Err(()) => Err(std::io::Error::new(std::io::ErrorKind::ConnectionReset, "scripted body error")),
        }))
    }
}

thread_local! {
    static RT: tokio::runtime::Runtime =
        tokio::runtime::Builder::new_current_thread().enable_all().build().expect("runtime");
}

fn parse_script(s: &str) -> Vec<Ev> {
    let mut out = Vec::new();
    for t in s.split_ascii_whitespace() {
        if t == "E" {
            out.push(Ev::Fail);
            continue;
        }
        let (n, k) = match t.split_once('*') {
            Some((a, b)) => (a.parse::<usize>().expect("n"), b.parse::<usize>().expect("k")),
            None => (t.parse::<usize>().expect("n"), 1),
        };
        for _ in 0..k {
            out.push(Ev::Data(n));
        }
    }
    out
}

fn class_async(r: &Result<SymbolFile, SymbolError>) -> String {
    match r {
        Err(SymbolError::LoadError(_)) => "E8:0".to_string(),
        _ => class(r),
    }
}

fn run_stream(c: &Case, script: &[Ev]) -> (String, String) {
    let mut frames = VecDeque::new();
    let mut pos = 0usize;
    let mut failed = false;
    for ev in script {
        match *ev {
            Ev::Data(n) => {
                let n = n.min(c.data.len() - pos);
                frames.push_back(Ok(bytes::Bytes::copy_from_slice(&c.data[pos..pos + n])));
                pos += n;
            }
            Ev::Fail => {
                frames.push_back(Err(()));
                failed = true;
                break;
            }
        }
    }
    if !failed && pos < c.data.len() {
        frames.push_back(Ok(bytes::Bytes::copy_from_slice(&c.data[pos..])));
        pos = c.data.len();
    }
    let delivered = pos;
    let resp: reqwest::Response = http::Response::new(reqwest::Body::wrap(ScriptBody { frames })).into();
    let ev = Cell::new(0xcbf29ce484222325u64);
    let nev = Cell::new(0u64);
    let mut cblen: usize = 0;
    let mut cbcalls: u64 = 0;
    let mut cbok = true;
    let data = &c.data;
    let res = RT.with(|rt| {
        rt.block_on(SymbolFile::parse_async(resp, |b: &[u8]| {
            cbcalls += 1;
            mix(&ev, 2);
            mix(&ev, b.len() as u64);
            nev.set(nev.get() + 1);
            if cblen + b.len() > data.len() || &data[cblen..cblen + b.len()] != b {
                cbok = false;
            }
            cblen += b.len();
        }))
    });
    let whole = SymbolFile::from_bytes(&c.data);
    let eq = match (&res, &whole) {
        (Ok(a), Ok(b)) => a == b,
        (Err(_), Err(_)) => true,
        _ => false,
    };
    let aw = if failed { class(&SymbolFile::from_bytes(&c.data[..delivered])) } else { class(&whole) };
    let t = match &res {
        Ok(s) => render_table(s),
        Err(_) => "-".to_string(),
    };
    (
        format!("A={};acb={},{};aev={},{};AT={}", class_async(&res), cblen, cbcalls, ev.get(), nev.get(), t),
        format!(
            "acbok={};aeq={};ad={};aerr={};aw={}",
            if cbok { 1 } else { 0 },
            if eq { 1 } else { 0 },
            delivered,
            if failed { 1 } else { 0 },
            aw
        ),
    )
}

fn run(line: &str) -> String {
    // the first two sections are symcase's; the optional third one is the stream script
    let mut parts = line.splitn(3, '|');
    let a = parts.next().unwrap_or("");
    let b = parts.next().unwrap_or("");
    let script = parts.next();
    let c = symcase::parse_case(&format!("{}|{}", a, b));
    let (m, o) = symcase::run_parts(&c);
    let evs: Vec<Ev> = match script {
        Some(s) => parse_script(s),
        None => symcase::async_chunks(c.data.len(), &c.sched).into_iter().map(Ev::Data).collect(),
    };
    let (am, ao) = run_stream(&c, &evs);
    format!("{};{};;{};{}", m, am, o, ao)
}

fn main() {
    vharness::for_each_case(run);
}
