//! C10 correspondence harness: SymbolFile::parse over a chunking reader with a recording
//! callback, plus the whole-slice parse of the same bytes (see ../symcase.rs for the protocol).
#[path = "../symcase.rs"]
mod symcase;

fn main() {
    vharness::for_each_case(symcase::run_with_async);
}
