//! C10 correspondence harness: SymbolFile::parse over a chunking reader with a recording
//! callback, plus the whole-slice parse of the same bytes (see ../symcase.rs for the protocol),
//! plus SymbolFile::parse_async over a scripted HTTP body.
//!
//! Case line:  <segment>* | <schedule token>* [ | <stream token>* ]
//!   stream token  <n> | <n>*<k>   the body yields a data frame of n bytes (k times); n = 0 is an EMPTY frame
//!                 E               the body yields an error here (response.chunk() fails); nothing after it is delivered
//!   After the script the rest of the input (if any) comes as one frame, then the body ends.  Sizes are clipped to what is left.
//!   Without the third section the frames are the schedule's sizes (at least 1 byte each), as in rounds 1-4.
//! Async answer (model part):  A=<OK|E<code>:<line>|E8:0 = the error of the body>;acb=<callback bytes>,<calls>;aev=<hash of callback lengths>,<n>;AT=<table>
//! A segment `tF<k>` (a label for symcase) makes the case also run SymbolFile::parse over a reader whose k-th read() call
//! (k = 0: the first; calls into an empty slice count) returns Err(io::Error):
//!   model part  F=<OK|E<code>:<line>|E8:0 = LoadError>;fcb=<callback bytes>,<calls>;fnr=<read() calls that returned>;FT=<table>
//!   oracle part fcbok=<callback bytes are a prefix of the input>;ffail=<1 if the failing call was issued>;feq=<table == whole-slice table, or both errors>
//! oracle part: acbok=<callback bytes are a prefix of the input>;aeq=<async table == whole-slice table of the WHOLE input, or both errors>
//!              ;ad=<bytes the body delivered>;aerr=<1 if the body failed>;aw=<whole-slice parse of the delivered bytes>
#[path = "../symcase.rs"]
mod symcase;

use breakpad_symbols::{SymbolError, SymbolFile};
use std::cell::Cell;
use std::collections::VecDeque;
use symcase::{class, mix, render_table, Case};

#[derive(Clone, Copy)]
enum Ev {
    Data(usize),
    Fail,
}

struct ScriptBody {
    frames: VecDeque<Result<bytes::Bytes, ()>>,
}

impl http_body::Body for ScriptBody {
    type Data = bytes::Bytes;
    type Error = std::io::Error;
    fn poll_frame(
        mut self: std::pin::Pin<&mut Self>,
        _cx: &mut std::task::Context<'_>,
    ) -> std::task::Poll<Option<Result<http_body::Frame<bytes::Bytes>, Self::Error>>> {
        std::task::Poll::Ready(self.frames.pop_front().map(|f| match f {
            Ok(b) => Ok(http_body::Frame::data(b)),
            Err(()) => Err(std::io::Error::new(std::io::ErrorKind::ConnectionReset, "scripted body error")),
        }))
    }
}

thread_local! {
    static RT: tokio::runtime::Runtime =
        tokio::runtime::Builder::new_current_thread().enable_all().build().expect("runtime");
}

fn parse_script(s: &str) -> Vec<Ev> {
    let mut out = Vec::new();
    for t in s.split_ascii_whitespace() {
        if t == "E" {
            out.push(Ev::Fail);
            continue;
        }
        let (n, k) = match t.split_once('*') {
            Some((a, b)) => (a.parse::<usize>().expect("n"), b.parse::<usize>().expect("k")),
            None => (t.parse::<usize>().expect("n"), 1),
        };
        for _ in 0..k {
            out.push(Ev::Data(n));
        }
    }
    out
}

fn class_async(r: &Result<SymbolFile, SymbolError>) -> String {
    match r {
        Err(SymbolError::LoadError(_)) => "E8:0".to_string(),
        _ => class(r),
    }
}

fn run_stream(c: &Case, script: &[Ev]) -> (String, String) {
    let mut frames = VecDeque::new();
    let mut pos = 0usize;
    let mut failed = false;
    for ev in script {
        match *ev {
            Ev::Data(n) => {
                let n = n.min(c.data.len() - pos);
                frames.push_back(Ok(bytes::Bytes::copy_from_slice(&c.data[pos..pos + n])));
                pos += n;
            }
            Ev::Fail => {
                frames.push_back(Err(()));
                failed = true;
                break;
            }
        }
    }
    if !failed && pos < c.data.len() {
        frames.push_back(Ok(bytes::Bytes::copy_from_slice(&c.data[pos..])));
        pos = c.data.len();
    }
    let delivered = pos;
    let resp: reqwest::Response = http::Response::new(reqwest::Body::wrap(ScriptBody { frames })).into();
    let ev = Cell::new(0xcbf29ce484222325u64);
    let nev = Cell::new(0u64);
    let mut cblen: usize = 0;
    let mut cbcalls: u64 = 0;
    let mut cbok = true;
    let data = &c.data;
    let res = RT.with(|rt| {
        rt.block_on(SymbolFile::parse_async(resp, |b: &[u8]| {
            cbcalls += 1;
            mix(&ev, 2);
            mix(&ev, b.len() as u64);
            nev.set(nev.get() + 1);
            if cblen + b.len() > data.len() || &data[cblen..cblen + b.len()] != b {
                cbok = false;
            }
            cblen += b.len();
        }))
    });
    let whole = SymbolFile::from_bytes(&c.data);
    let eq = match (&res, &whole) {
        (Ok(a), Ok(b)) => a == b,
        (Err(_), Err(_)) => true,
        _ => false,
    };
    let aw = if failed { class(&SymbolFile::from_bytes(&c.data[..delivered])) } else { class(&whole) };
    let t = match &res {
        Ok(s) => render_table(s),
        Err(_) => "-".to_string(),
    };
    (
        format!("A={};acb={},{};aev={},{};AT={}", class_async(&res), cblen, cbcalls, ev.get(), nev.get(), t),
        format!(
            "acbok={};aeq={};ad={};aerr={};aw={}",
            if cbok { 1 } else { 0 },
            if eq { 1 } else { 0 },
            delivered,
            if failed { 1 } else { 0 },
            aw
        ),
    )
}

/// the reader of symcase::ChunkReader (same schedule semantics) whose `fail_at`-th call fails
struct FailReader<'a> {
    data: &'a [u8],
    pos: usize,
    sched: &'a [usize],
    si: usize,
    calls: u64,
    fail_at: u64,
    failed: bool,
}

impl<'a> std::io::Read for FailReader<'a> {
    fn read(&mut self, out: &mut [u8]) -> std::io::Result<usize> {
        if self.calls == self.fail_at {
            self.failed = true;
            return Err(std::io::Error::new(std::io::ErrorKind::ConnectionReset, "scripted read error"));
        }
        self.calls += 1;
        let remaining = self.data.len() - self.pos;
        if out.is_empty() || remaining == 0 {
            return Ok(0);
        }
        let chunk = if self.si < self.sched.len() {
            let c = self.sched[self.si];
            self.si += 1;
            c.max(1)
        } else {
            usize::MAX
        };
        let n = chunk.min(out.len()).min(remaining);
        out[..n].copy_from_slice(&self.data[self.pos..self.pos + n]);
        self.pos += n;
        Ok(n)
    }
}

fn run_rfail(c: &Case, k: u64) -> (String, String) {
    let mut rd = FailReader { data: &c.data, pos: 0, sched: &c.sched, si: 0, calls: 0, fail_at: k, failed: false };
    let mut cblen: usize = 0;
    let mut cbcalls: u64 = 0;
    let mut cbok = true;
    let data = &c.data;
    let res = SymbolFile::parse(&mut rd, |b: &[u8]| {
        cbcalls += 1;
        if cblen + b.len() > data.len() || &data[cblen..cblen + b.len()] != b {
            cbok = false;
        }
        cblen += b.len();
    });
    let whole = SymbolFile::from_bytes(&c.data);
    let eq = match (&res, &whole) {
        (Ok(a), Ok(b)) => a == b,
        (Err(_), Err(_)) => true,
        _ => false,
    };
    let t = match &res {
        Ok(s) => render_table(s),
        Err(_) => "-".to_string(),
    };
    (
        format!(";F={};fcb={},{};fnr={};FT={}", class_async(&res), cblen, cbcalls, rd.calls, t),
        format!(
            ";fcbok={};ffail={};feq={}",
            if cbok { 1 } else { 0 },
            if rd.failed { 1 } else { 0 },
            if eq { 1 } else { 0 }
        ),
    )
}

fn fail_tag(section: &str) -> Option<u64> {
    section
        .split_ascii_whitespace()
        .find_map(|t| t.strip_prefix("tF").and_then(|d| d.parse::<u64>().ok()))
}

fn run(line: &str) -> String {
    // the first two sections are symcase's; the optional third one is the stream script
    let mut parts = line.splitn(3, '|');
    let a = parts.next().unwrap_or("");
    let b = parts.next().unwrap_or("");
    let script = parts.next();
    let c = symcase::parse_case(&format!("{}|{}", a, b));
    let (m, o) = symcase::run_parts(&c);
    let evs: Vec<Ev> = match script {
        Some(s) => parse_script(s),
        None => symcase::async_chunks(c.data.len(), &c.sched).into_iter().map(Ev::Data).collect(),
    };
    let (am, ao) = run_stream(&c, &evs);
    let (fm, fo) = match fail_tag(a) {
        Some(k) => run_rfail(&c, k),
        None => (String::new(), String::new()),
    };
    format!("{};{}{};;{};{}{}", m, am, fm, o, ao, fo)
}

fn main() {
    vharness::for_each_case(run);
}
