//! C05 / C04 correspondence harness: drives the real `minidump_unwind::walk_stack`.
//! Case line (all numbers decimal; see ocaml/c05/main.ml for the same description):
//!   arch os ip sp fp lr ngp gp_1..gp_ngp valid base hexbytes nmods (mbase msize sym)*nmods
//! Answer: frames joined by '|', each  instr,resume,sp,fp,lr,trust,valid,gp+gp..,module[,function with --functions]
use minidump::format::*;
use minidump::system_info::{Cpu, Os};
use minidump::*;
use minidump_unwind::*;
use std::collections::{HashMap, HashSet};
use std::future::Future;
use std::pin::pin;
use std::task::{Context, Poll};
use vharness::*;

fn block_on<F: Future>(f: F) -> F::Output {
    let waker = futures_util::task::noop_waker();
    let mut cx = Context::from_waker(&waker);
    let mut f = pin!(f);
    let mut spins = 0u64;
    loop {
        if let Poll::Ready(v) = f.as_mut().poll(&mut cx) {
            return v;
        }
        spins += 1;
        if spins > 1_000_000 {
            panic!("future never became ready");
        }
    }
}

fn leak(s: &str) -> &'static str {
    Box::leak(s.to_string().into_boxed_str())
}

struct Regs {
    ip: u64,
    sp: u64,
    fp: u64,
    lr: u64,
    gp: Vec<u64>,
}

/// (ip, sp, canonical fp, canonical lr) names of an architecture
fn special(arch: u64) -> (&'static str, &'static str, &'static str, Option<&'static str>) {
    match arch {
        0 => ("eip", "esp", "ebp", None),
        1 => ("rip", "rsp", "rbp", None),
        2 => ("pc", "sp", "fp", Some("lr")),
        3 | 6 => ("pc", "sp", "fp", Some("lr")),
        _ => ("pc", "sp", "fp", Some("ra")),
    }
}

/// the registers of CpuContext::REGISTERS other than ip/sp/fp/lr, in REGISTERS order
fn gp_names<C: CpuContext>(arch: u64) -> Vec<&'static str> {
    let (ip, sp, fp, lr) = special(arch);
    C::REGISTERS
        .iter()
        .copied()
        .filter(|n| *n != ip && *n != sp && *n != fp && Some(*n) != lr)
        .collect()
}

fn fill<C: CpuContext>(c: &mut C, arch: u64, r: &Regs)
where
    C::Register: TryFrom<u64>,
{
    let (ip, sp, fp, lr) = special(arch);
    let conv = |v: u64| -> C::Register {
        // 32-bit contexts: the case line is generated within range; truncate like `as u32`
        C::Register::try_from(v).or_else(|_| C::Register::try_from(v & 0xFFFF_FFFF)).ok().expect("register value")
    };
    c.set_register(ip, conv(r.ip));
    c.set_register(sp, conv(r.sp));
    c.set_register(fp, conv(r.fp));
    if let Some(lr) = lr {
        c.set_register(lr, conv(r.lr));
    }
    for (i, n) in gp_names::<C>(arch).iter().enumerate() {
        c.set_register(n, conv(r.gp.get(i).copied().unwrap_or(0)));
    }
}

fn build_ctx(arch: u64, r: &Regs) -> MinidumpRawContext {
    match arch {
        0 => {
            let mut c = CONTEXT_X86::default();
            fill(&mut c, arch, r);
            MinidumpRawContext::X86(c)
        }
        1 => {
            let mut c = CONTEXT_AMD64::default();
            fill(&mut c, arch, r);
            MinidumpRawContext::Amd64(c)
        }
        2 => {
            let mut c = CONTEXT_ARM::default();
            fill(&mut c, arch, r);
            MinidumpRawContext::Arm(c)
        }
        3 => {
            let mut c = CONTEXT_ARM64::default();
            fill(&mut c, arch, r);
            MinidumpRawContext::Arm64(c)
        }
        6 => {
            let mut c = CONTEXT_ARM64_OLD::default();
            fill(&mut c, arch, r);
            MinidumpRawContext::OldArm64(c)
        }
        4 | 5 => {
            let mut c = CONTEXT_MIPS::default();
            c.context_flags = if arch == 5 {
                ContextFlagsCpu::CONTEXT_MIPS64.bits()
            } else {
                ContextFlagsCpu::CONTEXT_MIPS.bits()
            };
            fill(&mut c, arch, r);
            MinidumpRawContext::Mips(c)
        }
        _ => panic!("bad arch"),
    }
}

fn read_one<C: CpuContext>(c: &C, arch: u64, ngp: usize) -> (u64, u64, Vec<u64>)
where
    u64: TryFrom<C::Register>,
{
    let (_, _, fp, lr) = special(arch);
    let get = |n: &str| -> u64 { u64::try_from(c.get_register_always(n)).ok().expect("u64") };
    let mut gp: Vec<u64> = gp_names::<C>(arch).iter().map(|n| get(n)).collect();
    gp.resize(ngp.max(gp.len()), 0);
    gp.truncate(ngp);
    (get(fp), lr.map(|l| get(l)).unwrap_or(0), gp)
}

/// (fp, lr, gp...) of a frame's raw context, in the order of the case line
fn read_ctx(raw: &MinidumpRawContext, arch: u64, ngp: usize) -> (u64, u64, Vec<u64>) {
    match raw {
        MinidumpRawContext::X86(c) => read_one(c, arch, ngp),
        MinidumpRawContext::Amd64(c) => read_one(c, arch, ngp),
        MinidumpRawContext::Arm(c) => read_one(c, arch, ngp),
        MinidumpRawContext::Arm64(c) => read_one(c, arch, ngp),
        MinidumpRawContext::OldArm64(c) => read_one(c, arch, ngp),
        MinidumpRawContext::Mips(c) => read_one(c, arch, ngp),
        _ => panic!("unexpected context"),
    }
}

fn run(line: &str) -> String {
    let mut t = Toks::new(line);
    let arch = t.u64();
    let os = t.u64();
    let ip = t.u64();
    let sp = t.u64();
    let fp = t.u64();
    let lr = t.u64();
    let ngp = t.usize();
    let gp: Vec<u64> = (0..ngp).map(|_| t.u64()).collect();
    let valid_s = t.str();
    let base = t.u64();
    let bytes = unhex(t.str());
    let nm = t.usize();
    let mut mods = vec![];
    let mut symbols: HashMap<String, String> = HashMap::new();
    let cpu_name = match arch {
        0 => "x86",
        1 => "x86_64",
        2 => "arm",
        3 | 6 => "arm64",
        _ => "mips",
    };
    for i in 0..nm {
        let mb = t.u64();
        let ms = t.u64();
        let sy = t.str();
        let name = format!("m{}", i);
        mods.push(MinidumpModule::new(mb, ms as u32, &name));
        if sy.starts_with("T|") {
            // T|line|line|...  (~ = space): the symbol file after its MODULE line
            let mut text = format!("MODULE Linux {} 000000000000000000000000000000000 {}\n", cpu_name, name);
            for l in sy[2..].split('|') {
                text.push_str(&l.replace('~', " "));
                text.push('\n');
            }
            symbols.insert(name, text);
        } else if sy.starts_with("Y|") {
            // Y|func_lo|func_size|cfi_lo|cfi_size|init rules (~ = space)|addr=delta rules|...
            let f: Vec<&str> = sy.split('|').collect();
            assert!(f.len() >= 6, "bad sym");
            let n = |k: usize| -> u64 { f[k].parse().expect("num") };
            let mut text = format!("MODULE Linux {} 000000000000000000000000000000000 {}\n", cpu_name, name);
            if n(2) > 0 {
                text.push_str(&format!("FUNC {:x} {:x} 0 f\n", n(1), n(2)));
            }
            text.push_str(&format!("STACK CFI INIT {:x} {:x} {}\n", n(3), n(4), f[5].replace('~', " ")));
            for d in &f[6..] {
                let (a, r) = d.split_once('=').expect("delta");
                let a: u64 = a.parse().expect("delta addr");
                text.push_str(&format!("STACK CFI {:x} {}\n", a, r.replace('~', " ")));
            }
            symbols.insert(name, text);
        } else if sy != "-" {
            let f: Vec<&str> = sy.split(':').collect();
            assert!(f.len() == 9 && f[0] == "S", "bad sym");
            // numbers in a rule must be i64 literals: values above i64::MAX are written as
            // their two's complement (the evaluator works modulo 2^64)
            let n = |k: usize| -> i128 {
                let v: i128 = f[k].parse().expect("num");
                if v > i64::MAX as i128 {
                    v - (1i128 << 64)
                } else {
                    v
                }
            };
            let (spn, fpn) = match arch {
                0 => ("$esp", "$ebp"),
                1 => ("$rsp", "$rbp"),
                2 => ("sp", "r11"),
                3 | 6 => ("sp", "x29"),
                _ => ("sp", "fp"),
            };
            let mut text = format!("MODULE Linux {} 000000000000000000000000000000000 {}\n", cpu_name, name);
            if n(2) > 0 {
                text.push_str(&format!("FUNC {:x} {:x} 0 f\n", n(1), n(2)));
            }
            let ra = if n(6) == 0 { format!(".cfa {} - ^", n(7)) } else { format!("{}", n(7)) };
            let fprule = if f[8] == "-" { String::new() } else { format!(" {}: .cfa {} - ^", fpn, n(8)) };
            text.push_str(&format!(
                "STACK CFI INIT {:x} {:x} .cfa: {} {} + .ra: {}{}\n",
                n(3),
                n(4),
                spn,
                n(5),
                ra,
                fprule
            ));
            symbols.insert(name, text);
        }
    }
    let regs = Regs { ip, sp, fp, lr, gp };
    let raw = build_ctx(arch, &regs);
    let valid = if valid_s == "*" {
        MinidumpContextValidity::All
    } else if valid_s == "-" {
        MinidumpContextValidity::Some(HashSet::new())
    } else {
        MinidumpContextValidity::Some(valid_s.split(',').map(leak).collect())
    };
    let context = MinidumpContext { raw, valid };
    let modules = MinidumpModuleList::from_modules(mods);
    let system_info = SystemInfo {
        os: match os {
            1 => Os::Windows,
            2 => Os::Ios,
            _ => Os::Linux,
        },
        os_version: None,
        os_build: None,
        cpu: match arch {
            0 => Cpu::X86,
            1 => Cpu::X86_64,
            2 => Cpu::Arm,
            3 | 6 => Cpu::Arm64,
            4 => Cpu::Mips,
            _ => Cpu::Mips64,
        },
        cpu_info: None,
        cpu_microcode_version: None,
        cpu_count: 1,
    };
    let stack_memory = MinidumpMemory {
        desc: Default::default(),
        base_address: base,
        size: bytes.len() as u64,
        bytes: &bytes,
        endian: scroll::LE,
    };
    let symbolizer = Symbolizer::new(string_symbol_supplier(symbols));
    let mut stack = CallStack::with_context(context);
    block_on(walk_stack(
        0,
        (),
        &mut stack,
        Some(UnifiedMemory::Memory(&stack_memory)),
        &modules,
        &system_info,
        &symbolizer,
    ));
    let mut out = vec![];
    for f in &stack.frames {
        let (ffp, flr, fgp) = read_ctx(&f.context.raw, arch, ngp);
        let valid = match &f.context.valid {
            MinidumpContextValidity::All => "*".to_string(),
            MinidumpContextValidity::Some(s) => {
                let mut v: Vec<&str> = s.iter().copied().collect();
                v.sort();
                if v.is_empty() {
                    "-".to_string()
                } else {
                    v.join("+")
                }
            }
        };
        let module = match &f.module {
            Some(m) => {
                use minidump::Module;
                m.code_file().trim_start_matches('m').to_string()
            }
            None => "-".to_string(),
        };
        let gps = if fgp.is_empty() {
            "-".to_string()
        } else {
            fgp.iter().map(|x| x.to_string()).collect::<Vec<_>>().join("+")
        };
        let mut one = format!(
            "{},{},{},{},{},{},{},{},{}",
            f.instruction,
            f.resume_address,
            f.context.get_stack_pointer(),
            ffp,
            flr,
            f.trust.as_str(),
            valid,
            gps,
            module
        );
        if observe_functions() {
            // 10th field (only with --functions): what fill_symbol left in the frame: `<function_base>:<function_name>`,
            // `?:<name>` / `<base>:?` when only one of the two is set, `-` when neither is
            let clean = |n: &str| -> String {
                n.chars().map(|c| if c == ',' || c == '|' || c == ':' || c.is_whitespace() { '_' } else { c }).collect()
            };
            let func = match (&f.function_base, &f.function_name) {
                (None, None) => "-".to_string(),
                (b, n) => format!(
                    "{}:{}",
                    b.map(|x| x.to_string()).unwrap_or_else(|| "?".to_string()),
                    n.as_ref().map(|x| clean(x)).unwrap_or_else(|| "?".to_string())
                ),
            };
            one.push(',');
            one.push_str(&func);
        }
        out.push(one);
    }
    out.join("|")
}

/// `c05 --functions`: also report each frame's function (C05's own runs; C04 shares this binary without the flag)
fn observe_functions() -> bool {
    use std::sync::OnceLock;
    static F: OnceLock<bool> = OnceLock::new();
    *F.get_or_init(|| std::env::args().any(|a| a == "--functions"))
}

fn main() {
    for_each_case(run);
}
