//! C05 / C04 correspondence harness: drives the real `minidump_unwind::walk_stack`.
//! Case line (all numbers decimal; see ocaml/c05/main.ml for the same description):
//!   arch os ip sp fp lr ngp gp_1..gp_ngp valid base hexbytes nmods (mbase msize sym)*nmods
//! Answer: frames joined by '|', each  instr,resume,sp,fp,lr,trust,valid,gp+gp..,module
use minidump::format::*;
use minidump::system_info::{Cpu, Os};
use minidump::*;
use minidump_unwind::*;
use std::collections::{HashMap, HashSet};
use std::future::Future;
use std::pin::pin;
use std::task::{Context, Poll};
use vharness::*;

fn block_on<F: Future>(f: F) -> F::Output {
    let waker = futures_util::task::noop_waker();
    let mut cx = Context::from_waker(&waker);
    let mut f = pin!(f);
    let mut spins = 0u64;
    loop {
        if let Poll::Ready(v) = f.as_mut().poll(&mut cx) {
            return v;
        }
        spins += 1;
        if spins > 1_000_000 {
            panic!("future never became ready");
        }
    }
}

fn leak(s: &str) -> &'static str {
    Box::leak(s.to_string().into_boxed_str())
}

const MIPS_GP: [usize; 9] = [16, 17, 18, 19, 20, 21, 22, 23, 28];

struct Regs {
    ip: u64,
    sp: u64,
    fp: u64,
    lr: u64,
    gp: Vec<u64>,
}

fn build_ctx(arch: u64, r: &Regs) -> MinidumpRawContext {
    let g = |i: usize| r.gp.get(i).copied().unwrap_or(0);
    match arch {
        0 => MinidumpRawContext::X86(CONTEXT_X86 {
            eip: r.ip as u32,
            esp: r.sp as u32,
            ebp: r.fp as u32,
            ebx: g(0) as u32,
            edi: g(1) as u32,
            esi: g(2) as u32,
            ..Default::default()
        }),
        1 => MinidumpRawContext::Amd64(CONTEXT_AMD64 {
            rip: r.ip,
            rsp: r.sp,
            rbp: r.fp,
            rbx: g(0),
            r12: g(1),
            r13: g(2),
            r14: g(3),
            r15: g(4),
            ..Default::default()
        }),
        2 => {
            let mut c = CONTEXT_ARM::default();
            c.iregs[15] = r.ip as u32;
            c.iregs[13] = r.sp as u32;
            c.iregs[11] = r.fp as u32;
            c.iregs[14] = r.lr as u32;
            for i in 0..7 {
                c.iregs[4 + i] = g(i) as u32;
            }
            MinidumpRawContext::Arm(c)
        }
        3 => {
            let mut c = CONTEXT_ARM64::default();
            c.pc = r.ip;
            c.sp = r.sp;
            c.iregs[29] = r.fp;
            c.iregs[30] = r.lr;
            for i in 0..10 {
                c.iregs[19 + i] = g(i);
            }
            MinidumpRawContext::Arm64(c)
        }
        6 => {
            let mut c = CONTEXT_ARM64_OLD::default();
            c.pc = r.ip;
            c.sp = r.sp;
            c.iregs[29] = r.fp;
            c.iregs[30] = r.lr;
            for i in 0..10 {
                c.iregs[19 + i] = g(i);
            }
            MinidumpRawContext::OldArm64(c)
        }
        4 | 5 => {
            let mut c = CONTEXT_MIPS::default();
            c.context_flags = if arch == 5 {
                ContextFlagsCpu::CONTEXT_MIPS64.bits()
            } else {
                ContextFlagsCpu::CONTEXT_MIPS.bits()
            };
            c.epc = r.ip;
            c.iregs[29] = r.sp;
            c.iregs[30] = r.fp;
            c.iregs[31] = r.lr;
            for (i, &slot) in MIPS_GP.iter().enumerate() {
                c.iregs[slot] = g(i);
            }
            MinidumpRawContext::Mips(c)
        }
        _ => panic!("bad arch"),
    }
}

/// (fp, lr, gp...) of a frame's raw context, in the order of the case line
fn read_ctx(raw: &MinidumpRawContext, ngp: usize) -> (u64, u64, Vec<u64>) {
    let (fp, lr, gp): (u64, u64, Vec<u64>) = match raw {
        MinidumpRawContext::X86(c) => (c.ebp as u64, 0, vec![c.ebx as u64, c.edi as u64, c.esi as u64]),
        MinidumpRawContext::Amd64(c) => (c.rbp, 0, vec![c.rbx, c.r12, c.r13, c.r14, c.r15]),
        MinidumpRawContext::Arm(c) => (
            c.iregs[11] as u64,
            c.iregs[14] as u64,
            (0..7).map(|i| c.iregs[4 + i] as u64).collect(),
        ),
        MinidumpRawContext::Arm64(c) => (c.iregs[29], c.iregs[30], (0..10).map(|i| c.iregs[19 + i]).collect()),
        MinidumpRawContext::OldArm64(c) => (c.iregs[29], c.iregs[30], (0..10).map(|i| c.iregs[19 + i]).collect()),
        MinidumpRawContext::Mips(c) => (c.iregs[30], c.iregs[31], MIPS_GP.iter().map(|&s| c.iregs[s]).collect()),
        _ => panic!("unexpected context"),
    };
    let mut gp = gp;
    gp.resize(ngp.max(gp.len()), 0);
    gp.truncate(ngp);
    (fp, lr, gp)
}

fn run(line: &str) -> String {
    let mut t = Toks::new(line);
    let arch = t.u64();
    let os = t.u64();
    let ip = t.u64();
    let sp = t.u64();
    let fp = t.u64();
    let lr = t.u64();
    let ngp = t.usize();
    let gp: Vec<u64> = (0..ngp).map(|_| t.u64()).collect();
    let valid_s = t.str();
    let base = t.u64();
    let bytes = unhex(t.str());
    let nm = t.usize();
    let mut mods = vec![];
    let mut symbols: HashMap<String, String> = HashMap::new();
    let cpu_name = match arch {
        0 => "x86",
        1 => "x86_64",
        2 => "arm",
        3 | 6 => "arm64",
        _ => "mips",
    };
    for i in 0..nm {
        let mb = t.u64();
        let ms = t.u64();
        let sy = t.str();
        let name = format!("m{}", i);
        mods.push(MinidumpModule::new(mb, ms as u32, &name));
        if sy != "-" {
            let f: Vec<&str> = sy.split(':').collect();
            assert!(f.len() == 9 && f[0] == "S", "bad sym");
            // numbers in a rule must be i64 literals: values above i64::MAX are written as
            // their two's complement (the evaluator works modulo 2^64)
            let n = |k: usize| -> i128 {
                let v: i128 = f[k].parse().expect("num");
                if v > i64::MAX as i128 {
                    v - (1i128 << 64)
                } else {
                    v
                }
            };
            let (spn, fpn) = match arch {
                0 => ("$esp", "$ebp"),
                1 => ("$rsp", "$rbp"),
                2 => ("sp", "r11"),
                3 | 6 => ("sp", "x29"),
                _ => ("sp", "fp"),
            };
            let mut text = format!("MODULE Linux {} 000000000000000000000000000000000 {}\n", cpu_name, name);
            if n(2) > 0 {
                text.push_str(&format!("FUNC {:x} {:x} 0 f\n", n(1), n(2)));
            }
            let ra = if n(6) == 0 { format!(".cfa {} - ^", n(7)) } else { format!("{}", n(7)) };
            let fprule = if f[8] == "-" { String::new() } else { format!(" {}: .cfa {} - ^", fpn, n(8)) };
            text.push_str(&format!(
                "STACK CFI INIT {:x} {:x} .cfa: {} {} + .ra: {}{}\n",
                n(3),
                n(4),
                spn,
                n(5),
                ra,
                fprule
            ));
            symbols.insert(name, text);
        }
    }
    let regs = Regs { ip, sp, fp, lr, gp };
    let raw = build_ctx(arch, &regs);
    let valid = if valid_s == "*" {
        MinidumpContextValidity::All
    } else if valid_s == "-" {
        MinidumpContextValidity::Some(HashSet::new())
    } else {
        MinidumpContextValidity::Some(valid_s.split(',').map(leak).collect())
    };
    let context = MinidumpContext { raw, valid };
    let modules = MinidumpModuleList::from_modules(mods);
    let system_info = SystemInfo {
        os: match os {
            1 => Os::Windows,
            2 => Os::Ios,
            _ => Os::Linux,
        },
        os_version: None,
        os_build: None,
        cpu: match arch {
            0 => Cpu::X86,
            1 => Cpu::X86_64,
            2 => Cpu::Arm,
            3 | 6 => Cpu::Arm64,
            4 => Cpu::Mips,
            _ => Cpu::Mips64,
        },
        cpu_info: None,
        cpu_microcode_version: None,
        cpu_count: 1,
    };
    let stack_memory = MinidumpMemory {
        desc: Default::default(),
        base_address: base,
        size: bytes.len() as u64,
        bytes: &bytes,
        endian: scroll::LE,
    };
    let symbolizer = Symbolizer::new(string_symbol_supplier(symbols));
    let mut stack = CallStack::with_context(context);
    block_on(walk_stack(
        0,
        (),
        &mut stack,
        Some(UnifiedMemory::Memory(&stack_memory)),
        &modules,
        &system_info,
        &symbolizer,
    ));
    let mut out = vec![];
    for f in &stack.frames {
        let (ffp, flr, fgp) = read_ctx(&f.context.raw, ngp);
        let valid = match &f.context.valid {
            MinidumpContextValidity::All => "*".to_string(),
            MinidumpContextValidity::Some(s) => {
                let mut v: Vec<&str> = s.iter().copied().collect();
                v.sort();
                if v.is_empty() {
                    "-".to_string()
                } else {
                    v.join("+")
                }
            }
        };
        let module = match &f.module {
            Some(m) => {
                use minidump::Module;
                m.code_file().trim_start_matches('m').to_string()
            }
            None => "-".to_string(),
        };
        let gps = if fgp.is_empty() {
            "-".to_string()
        } else {
            fgp.iter().map(|x| x.to_string()).collect::<Vec<_>>().join("+")
        };
        out.push(format!(
            "{},{},{},{},{},{},{},{},{}",
            f.instruction,
            f.resume_address,
            f.context.get_stack_pointer(),
            ffp,
            flr,
            f.trust.as_str(),
            valid,
            gps,
            module
        ));
    }
    out.join("|")
}

fn main() {
    for_each_case(run);
}
